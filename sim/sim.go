package sim

import (
	"context"
	"crypto/sha256"
	"encoding/hex"
	"fmt"
	"runtime"
	"sort"
	"strings"
	"sync"
	"testing/synctest"
	"time"
)

// Violation is one oracle failure. Rule is a stable identifier of the oracle
// clause; shrinking keeps a candidate only if the same (Prop, Rule) reproduces.
type Violation struct {
	Prop string `json:"prop"`
	Rule string `json:"rule"`
	Msg  string `json:"msg"`
}

// Parked is a goroutine of the system under test (or a harness client)
// blocked inside a simulator-owned seam, waiting for the scheduler.
type Parked struct {
	ID   string // stable id: kind:label#n (n = per-label sequence number)
	Kind string
	Ctx  context.Context
	Data any
	ch   chan any
	// for kind "lock": the unlock generation observed at the failed try
	lockGen uint64
	seq     uint64
}

// Cancelled reports whether the parked call's context is done. Observing that
// is a schedule choice like any other (see DESIGN §2.1).
func (p *Parked) Cancelled() bool { return p.Ctx != nil && p.Ctx.Err() != nil }

type cancelOutcome struct{ err error }

// Sim is the per-run simulator state. It lives inside one synctest bubble.
type Sim struct {
	Prop  string
	Tape  *Tape
	Start time.Time

	mu        sync.Mutex
	parked    map[string]*Parked
	labelSeq  map[string]int
	seq       uint64
	unlockGen uint64

	trace    []string
	keepText bool
	hash     [32]byte
	nEvents  int

	Steps    int
	MaxSteps int

	Stats  map[string]int // faults fired and probes reached
	states map[[32]byte]struct{}

	violations []Violation
	knownHits  []Violation

	// lock instrumentation. LockSched: the scenario schedules lock hand-over
	// itself through LockActions (stores); otherwise Quiesce does it.
	LockSched  bool
	YieldSites map[string]bool // sites at which a goroutine yields before trying
	YieldAll   int             // if >0: yield at every site with probability 1/YieldAll (drawn)
	LockSites  map[string]int  // contention observed per site

	simGoid    string
	Summary    map[string]any // scenario summary (config), for evidence samples
	NonTrivial bool
	simEnd     time.Duration
}

func New(prop string, tape *Tape, keepText bool) *Sim {
	return &Sim{
		Prop:       prop,
		Tape:       tape,
		Start:      time.Now(),
		parked:     map[string]*Parked{},
		labelSeq:   map[string]int{},
		Stats:      map[string]int{},
		states:     map[[32]byte]struct{}{},
		keepText:   keepText,
		MaxSteps:   2000,
		YieldSites: map[string]bool{},
		LockSites:  map[string]int{},
		Summary:    map[string]any{},
		simGoid:    goid(),
	}
}

// ---- choices ----

func (s *Sim) Draw(label string, n int) int { return s.Tape.Draw(label, n) }

// Range draws an integer in [lo,hi].
func (s *Sim) Range(label string, lo, hi int) int {
	if hi <= lo {
		return lo
	}
	return lo + s.Draw(label, hi-lo+1)
}

// Chance is true with probability num/den. Value 0 of the draw is "false"
// (the benign outcome), so a zeroed tape injects nothing.
func (s *Sim) Chance(label string, num, den int) bool {
	if num <= 0 {
		return false
	}
	return s.Draw(label, den) >= den-num
}

// ---- trace ----

// Tracef records an observable event. The trace hash covers every event and
// is the determinism witness. Never call it with addresses, UUIDs or anything
// else that is not a function of the tape.
func (s *Sim) Tracef(format string, a ...any) {
	line := fmt.Sprintf(format, a...)
	s.mu.Lock()
	h := sha256.New()
	h.Write(s.hash[:])
	h.Write([]byte(line))
	copy(s.hash[:], h.Sum(nil))
	s.nEvents++
	if s.keepText {
		s.trace = append(s.trace, fmt.Sprintf("%6d t=%-10v %s", s.Steps, s.Now(), line))
	}
	s.mu.Unlock()
}

func (s *Sim) TraceHash() string   { return hex.EncodeToString(s.hash[:8]) }
func (s *Sim) TraceText() []string { return s.trace }
func (s *Sim) NumEvents() int      { return s.nEvents }

// State records an abstract state hash for the "distinct states reached" measure.
func (s *Sim) State(format string, a ...any) {
	h := sha256.Sum256([]byte(fmt.Sprintf(format, a...)))
	s.mu.Lock()
	s.states[h] = struct{}{}
	s.mu.Unlock()
}

func (s *Sim) StateHashes() []string {
	out := make([]string, 0, len(s.states))
	for h := range s.states {
		out = append(out, hex.EncodeToString(h[:6]))
	}
	sort.Strings(out)
	return out
}

func (s *Sim) Count(name string) { s.mu.Lock(); s.Stats[name]++; s.mu.Unlock() }
func (s *Sim) CountN(name string, n int) {
	s.mu.Lock()
	s.Stats[name] += n
	s.mu.Unlock()
}

// Now is the virtual time elapsed since the run started.
func (s *Sim) Now() time.Duration { return time.Since(s.Start) }

// ---- violations ----

// KnownRule identifies a recorded genuine finding (known_findings.json):
// violations of Rule whose message contains Match do not fail the run; they
// are collected separately so that exploration continues past them.
type KnownRule struct {
	Rule  string
	Match string
}

// KnownRules is set by the worker from the committed known-findings file.
var KnownRules []KnownRule

func (s *Sim) Violate(rule, format string, a ...any) {
	msg := fmt.Sprintf(format, a...)
	for _, k := range KnownRules {
		if k.Rule == rule && (k.Match == "" || strings.Contains(msg, k.Match)) {
			s.mu.Lock()
			s.knownHits = append(s.knownHits, Violation{Prop: s.Prop, Rule: rule, Msg: msg})
			s.mu.Unlock()
			s.Tracef("KNOWN-FINDING %s: %s", rule, msg)
			return
		}
	}
	s.mu.Lock()
	s.violations = append(s.violations, Violation{Prop: s.Prop, Rule: rule, Msg: msg})
	s.mu.Unlock()
	s.Tracef("VIOLATION %s: %s", rule, msg)
}

func (s *Sim) Failed() bool {
	s.mu.Lock()
	defer s.mu.Unlock()
	return len(s.violations) > 0
}

func (s *Sim) KnownHits() []Violation {
	s.mu.Lock()
	defer s.mu.Unlock()
	return append([]Violation(nil), s.knownHits...)
}

func (s *Sim) Violations() []Violation {
	s.mu.Lock()
	defer s.mu.Unlock()
	return append([]Violation(nil), s.violations...)
}

// ---- context tags ----

type tagKey struct{}

// WithTag attaches a stable tag (e.g. the id of the client operation) to a
// context. Seams append it to their park labels, so that two calls that reach
// the same seam with the same arguments in the same step (whose arrival order
// is the Go scheduler's) still get distinguishable, replayable ids.
func WithTag(ctx context.Context, tag string) context.Context {
	return context.WithValue(ctx, tagKey{}, tag)
}

// TagOf returns "@tag" or "".
func TagOf(ctx context.Context) string {
	if ctx == nil {
		return ""
	}
	if t, ok := ctx.Value(tagKey{}).(string); ok {
		return "@" + t
	}
	return ""
}

// ---- parking ----

// Park blocks the calling goroutine until the scheduler releases it. It
// returns the outcome chosen by the scheduler, or a non-nil error when the
// scheduler let the call observe that its context is done.
func (s *Sim) Park(kind, label string, ctx context.Context, data any) (any, error) {
	p := s.register(kind, label, ctx, data)
	out := <-p.ch
	if c, ok := out.(cancelOutcome); ok {
		return nil, c.err
	}
	return out, nil
}

func (s *Sim) register(kind, label string, ctx context.Context, data any) *Parked {
	return s.registerGen(kind, label, ctx, data, 0)
}

func (s *Sim) registerGen(kind, label string, ctx context.Context, data any, gen uint64) *Parked {
	s.mu.Lock()
	n := s.labelSeq[kind+":"+label]
	s.labelSeq[kind+":"+label] = n + 1
	s.seq++
	p := &Parked{
		ID:   fmt.Sprintf("%s:%s#%d", kind, label, n),
		Kind: kind, Ctx: ctx, Data: data,
		ch:      make(chan any, 1),
		lockGen: gen,
		seq:     s.seq,
	}
	s.parked[p.ID] = p
	s.mu.Unlock()
	return p
}

// Parked returns the currently parked calls in canonical (stable id) order.
// Only meaningful at a quiescent point.
func (s *Sim) Parked() []*Parked {
	s.mu.Lock()
	out := make([]*Parked, 0, len(s.parked))
	for _, p := range s.parked {
		out = append(out, p)
	}
	s.mu.Unlock()
	sort.Slice(out, func(i, j int) bool { return out[i].ID < out[j].ID })
	return out
}

func (s *Sim) ParkedKind(kind string) []*Parked {
	var out []*Parked
	for _, p := range s.Parked() {
		if p.Kind == kind {
			out = append(out, p)
		}
	}
	return out
}

// Release lets one parked call continue with the given outcome.
func (s *Sim) Release(p *Parked, outcome any) {
	s.mu.Lock()
	if _, ok := s.parked[p.ID]; !ok {
		s.mu.Unlock()
		panic("sim: release of a call that is not parked: " + p.ID)
	}
	delete(s.parked, p.ID)
	s.mu.Unlock()
	p.ch <- outcome
}

// ReleaseCancelled lets a parked call observe that its context is done.
func (s *Sim) ReleaseCancelled(p *Parked) {
	s.Count("cancel_observed")
	s.Release(p, cancelOutcome{p.Ctx.Err()})
}

// ---- stepping ----

// Action is one enabled event at a quiescent point.
type Action struct {
	ID string
	Do func()
}

// Quiesce waits until every other goroutine in the bubble is durably blocked.
//
// Unless the scenario schedules lock hand-over itself (LockSched), goroutines
// that parked on a contended instrumented lock are let through here as soon as
// some unlock happened, one at a time in id order and without consuming a
// decision: the lock then behaves like a plain mutex that cannot wedge the
// bubble.
func (s *Sim) Quiesce() {
	for {
		synctest.Wait()
		if s.LockSched {
			return
		}
		s.mu.Lock()
		gen := s.unlockGen
		s.mu.Unlock()
		var pick *Parked
		for _, p := range s.Parked() {
			if (p.Kind == "lock" && p.lockGen != gen) || p.Kind == "yield" {
				pick = p
				break
			}
		}
		if pick == nil {
			return
		}
		s.Release(pick, nil)
	}
}

// Step accounts for one scheduler step; false once the step budget is used up
// or a violation has been recorded.
func (s *Sim) Step() bool {
	if s.Failed() {
		return false
	}
	s.Steps++
	return s.Steps <= s.MaxSteps
}

// Choose sorts the enabled actions by id, lets the tape pick one and runs it,
// then waits for quiescence. Returns false when there is nothing to choose.
func (s *Sim) Choose(label string, acts []Action) bool {
	if len(acts) == 0 {
		return false
	}
	sort.SliceStable(acts, func(i, j int) bool { return acts[i].ID < acts[j].ID })
	i := s.Draw(label, len(acts))
	s.Tracef("step %s", acts[i].ID)
	acts[i].Do()
	s.Quiesce()
	return true
}

// Sleep advances virtual time by d (timers of the system under test fire in
// timestamp order meanwhile) and waits for quiescence.
func (s *Sim) Sleep(d time.Duration) {
	if d > 0 {
		time.Sleep(d)
	}
	s.Quiesce()
}

// LockActions returns the actions for parked lock/yield calls: a yield is
// always enabled, a blocked lock only after some unlock happened since its
// last failed try. Scenarios that enable lock instrumentation append these.
func (s *Sim) LockActions() []Action {
	var acts []Action
	s.mu.Lock()
	gen := s.unlockGen
	s.mu.Unlock()
	for _, p := range s.Parked() {
		p := p
		switch p.Kind {
		case "yield":
			acts = append(acts, Action{p.ID, func() { s.Release(p, nil) }})
		case "lock":
			if p.lockGen != gen {
				acts = append(acts, Action{p.ID, func() { s.Release(p, nil) }})
			}
		}
	}
	return acts
}

// CancelActions returns "observe cancellation" actions for every parked call
// (of the given kinds; all kinds if none given) whose context is done.
func (s *Sim) CancelActions(kinds ...string) []Action {
	var acts []Action
	for _, p := range s.Parked() {
		p := p
		if !p.Cancelled() {
			continue
		}
		if len(kinds) > 0 {
			ok := false
			for _, k := range kinds {
				ok = ok || k == p.Kind
			}
			if !ok {
				continue
			}
		}
		acts = append(acts, Action{"cancel>" + p.ID, func() { s.ReleaseCancelled(p) }})
	}
	return acts
}

// ---- lock hooks (installed into the instrumented repository code) ----

// goid returns the current goroutine's id (parsed from its stack header; only
// used on the slow path before a goroutine parks on a lock).
func goid() string {
	var buf [64]byte
	n := runtime.Stack(buf[:], false)
	f := strings.Fields(string(buf[:n]))
	if len(f) >= 2 {
		return f[1]
	}
	return ""
}

// HookLock is installed as verifhook.LockHook.
func (s *Sim) HookLock(site string, try func() bool) {
	if s.shouldYield(site) && goid() != s.simGoid {
		s.Count("lock_yield")
		p := s.register("yield", site, nil, nil)
		<-p.ch
	}
	for {
		s.mu.Lock()
		gen := s.unlockGen
		s.mu.Unlock()
		if try() {
			return
		}
		if goid() == s.simGoid {
			panic("sim: the simulator goroutine called repository code that needs lock " + site + ", which is held by a parked goroutine; call such APIs from a client goroutine")
		}
		s.mu.Lock()
		s.LockSites[site]++
		s.mu.Unlock()
		if s.LockSched {
			s.Count("lock_contended")
		}
		p := s.registerGen("lock", site, nil, nil, gen)
		<-p.ch
	}
}

// HookUnlock is installed as verifhook.UnlockHook; called after the unlock.
func (s *Sim) HookUnlock() {
	s.mu.Lock()
	s.unlockGen++
	s.mu.Unlock()
}

func (s *Sim) shouldYield(site string) bool {
	if !s.LockSched {
		return false
	}
	s.mu.Lock()
	y := s.YieldSites[site] || s.YieldSites["*"]
	s.mu.Unlock()
	return y
}

// ---- goroutine census ----

// BubbleGoroutines returns the stacks of all goroutines of the current bubble
// except the caller, split into harness-owned (created by a function whose
// name starts with one of the harness prefixes) and others.
func BubbleGoroutines(harnessPrefixes ...string) (sut []string, harness []string) {
	buf := make([]byte, 1<<20)
	for {
		n := runtime.Stack(buf, true)
		if n < len(buf) {
			buf = buf[:n]
			break
		}
		buf = make([]byte, 2*len(buf))
	}
	gs := strings.Split(string(buf), "\n\n")
	for i, g := range gs {
		if i == 0 { // the caller
			continue
		}
		hdr, _, _ := strings.Cut(g, "\n")
		if !strings.Contains(hdr, "synctest bubble") {
			continue
		}
		isH := false
		idx := strings.LastIndex(g, "created by ")
		creator := ""
		if idx >= 0 {
			creator = g[idx+len("created by "):]
		}
		for _, pre := range harnessPrefixes {
			if strings.HasPrefix(creator, pre) {
				isH = true
			}
		}
		if isH {
			harness = append(harness, g)
		} else {
			sut = append(sut, g)
		}
	}
	return
}

// CreatorOf extracts the "created by" function of a goroutine stack.
func CreatorOf(stack string) string {
	idx := strings.LastIndex(stack, "created by ")
	if idx < 0 {
		return "?"
	}
	c := stack[idx+len("created by "):]
	if sp := strings.IndexAny(c, " \n"); sp >= 0 {
		c = c[:sp]
	}
	return c
}
