package sim

import (
	"fmt"
	"os"
)

// Decision is one recorded choice: label, number of alternatives, chosen value.
type Decision struct {
	L string `json:"l"`
	N int    `json:"n"`
	V int    `json:"v"`
}

// Tape is the only source of choices in a run. In search mode it draws from a
// splitmix64 stream seeded from the run seed; in replay mode it feeds back a
// recorded value list (values past the end are 0, the benign choice; values
// out of range are reduced modulo n so that shrunk lists stay valid).
type Tape struct {
	state  uint64
	replay []int
	isRep  bool
	pos    int
	Rec    []Decision
	// live, when non-nil, receives every decision unbuffered, so that a
	// process killed by an SUT-goroutine panic still leaves the list behind.
	live *os.File
}

func NewTape(seed uint64) *Tape { return &Tape{state: seed ^ 0x9e3779b97f4a7c15} }

func NewReplayTape(vals []int) *Tape { return &Tape{replay: vals, isRep: true} }

func (t *Tape) SetLive(f *os.File) { t.live = f }

func (t *Tape) next() uint64 {
	t.state += 0x9e3779b97f4a7c15
	z := t.state
	z = (z ^ (z >> 30)) * 0xbf58476d1ce4e5b9
	z = (z ^ (z >> 27)) * 0x94d049bb133111eb
	return z ^ (z >> 31)
}

// Draw returns a value in [0,n). n<=1 returns 0 without consuming anything.
func (t *Tape) Draw(label string, n int) int {
	if n <= 1 {
		return 0
	}
	var v int
	if t.isRep {
		if t.pos < len(t.replay) {
			v = t.replay[t.pos]
			if v < 0 {
				v = -v
			}
			v %= n
		}
	} else {
		v = int(t.next() % uint64(n))
	}
	t.pos++
	t.Rec = append(t.Rec, Decision{label, n, v})
	if t.live != nil {
		fmt.Fprintf(t.live, "%d\n", v)
	}
	return v
}

// Values returns the recorded value list (the replayable schedule).
func (t *Tape) Values() []int {
	out := make([]int, len(t.Rec))
	for i, d := range t.Rec {
		out[i] = d.V
	}
	return out
}

// Mix derives a per-run seed from the batch seed and the run index.
func Mix(seed uint64, run uint64) uint64 {
	z := seed*0x9e3779b97f4a7c15 + run*0xbf58476d1ce4e5b9 + 0x632be59bd9b4e019
	z = (z ^ (z >> 30)) * 0xbf58476d1ce4e5b9
	z = (z ^ (z >> 27)) * 0x94d049bb133111eb
	return z ^ (z >> 31)
}
