package sim

import (
	"time"

	"verif/shrink"
)

// Shrink minimises a decision list; see package shrink.
func Shrink(dec []int, test func([]int) bool, maxTests int, budget time.Duration) ([]int, int) {
	return shrink.Shrink(dec, test, maxTests, budget)
}
