// Package sim is the deterministic simulation core.
package sim
