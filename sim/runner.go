package sim

import (
	"fmt"
	"runtime/debug"
	"sort"
	"testing"
	"testing/synctest"
	"time"
)

// Scenario is one simulated workload + oracle for a property. A property may
// register several scenarios (variants); the worker rotates over them.
type Scenario struct {
	Prop string
	Name string
	// Weight: relative share of runs (default 1).
	Weight int
	Run    func(s *Sim)
	// Components that ran real repository code / were simulator stubs.
	Real []string
	Stub []string
	// Faults lists the fault kinds this scenario can inject (Stats keys).
	Faults []string
	// Racy marks a scenario that deliberately generates states in which the
	// code under test itself resolves a choice at random (a select with several
	// ready cases, an unsynchronised flag). Its oracle must hold whichever way
	// those choices go. Its runs are excluded from the determinism comparison,
	// and a violation it finds may replay only intermittently (the driver says
	// so in the replay file).
	Racy bool
}

var registry = map[string][]*Scenario{}

// OnRunStart / OnRunEnd are set by the scenario package to install and remove
// the lock hooks of the instrumented repository build.
var OnRunStart, OnRunEnd func(s *Sim)

func Register(sc *Scenario) {
	if sc.Weight <= 0 {
		sc.Weight = 1
	}
	registry[sc.Prop] = append(registry[sc.Prop], sc)
}

func Scenarios(prop string) []*Scenario { return registry[prop] }

func Props() []string {
	var out []string
	for p := range registry {
		out = append(out, p)
	}
	sort.Strings(out)
	return out
}

func Find(prop, name string) *Scenario {
	for _, sc := range registry[prop] {
		if sc.Name == name {
			return sc
		}
	}
	return nil
}

// PickScenario chooses the variant for a run index, by weight, round robin.
func PickScenario(prop string, run uint64) *Scenario {
	scs := registry[prop]
	if len(scs) == 0 {
		return nil
	}
	total := 0
	for _, sc := range scs {
		total += sc.Weight
	}
	k := int(run % uint64(total))
	for _, sc := range scs {
		if k < sc.Weight {
			return sc
		}
		k -= sc.Weight
	}
	return scs[0]
}

// RunResult is what one simulated run produced.
type RunResult struct {
	Prop       string         `json:"prop"`
	Scenario   string         `json:"scenario"`
	Seed       uint64         `json:"seed"`
	Run        uint64         `json:"run"`
	Violations []Violation    `json:"violations,omitempty"`
	KnownHits  []Violation    `json:"known_hits,omitempty"`
	Harness    string         `json:"harness_error,omitempty"`
	Decisions  []int          `json:"decisions,omitempty"`
	NDecisions int            `json:"n_decisions"`
	DecHash    string         `json:"dec_hash"`
	TraceHash  string         `json:"trace_hash"`
	Events     int            `json:"events"`
	Steps      int            `json:"steps"`
	SimTimeS   float64        `json:"sim_time_s"`
	Stats      map[string]int `json:"stats,omitempty"`
	States     []string       `json:"states,omitempty"`
	NonTrivial bool           `json:"nontrivial"`
	Summary    map[string]any `json:"summary,omitempty"`
	Trace      []string       `json:"trace,omitempty"`
	WallMs     float64        `json:"wall_ms"`
}

// RunOne executes one scenario run inside a fresh synctest bubble.
func RunOne(t *testing.T, sc *Scenario, tape *Tape, keepText bool) (res RunResult) {
	res.Prop, res.Scenario = sc.Prop, sc.Name
	wall := time.Now()
	var s *Sim
	func() {
		defer func() {
			if r := recover(); r != nil {
				// end-of-bubble deadlock: goroutines left behind. Scenarios are
				// expected to have reported that as a violation themselves.
				// (A run that recorded a known finding of the "never returns" kind
				// leaves that goroutine behind as well: same treatment.)
				if s == nil || (!s.Failed() && len(s.KnownHits()) == 0) {
					res.Harness = fmt.Sprintf("bubble did not exit cleanly and no violation was recorded: %v", r)
				}
			}
		}()
		synctest.Test(t, func(t *testing.T) {
			s = New(sc.Prop, tape, keepText)
			if OnRunStart != nil {
				OnRunStart(s)
			}
			defer func() {
				if OnRunEnd != nil {
					OnRunEnd(s)
				}
			}()
			defer func() {
				if r := recover(); r != nil {
					res.Harness = fmt.Sprintf("panic on the simulator goroutine: %v\n%s", r, debug.Stack())
				}
			}()
			sc.Run(s)
		})
	}()
	res.WallMs = float64(time.Since(wall).Microseconds()) / 1000
	if s == nil {
		if res.Harness == "" {
			res.Harness = "scenario did not start"
		}
		return
	}
	res.Violations = s.Violations()
	res.KnownHits = s.KnownHits()
	res.NDecisions = len(tape.Rec)
	res.Decisions = tape.Values()
	res.DecHash = hashInts(res.Decisions)
	res.TraceHash = s.TraceHash()
	res.Events = s.NumEvents()
	res.Steps = s.Steps
	res.SimTimeS = s.simEnd.Seconds()
	res.Stats = s.Stats
	res.States = s.StateHashes()
	res.NonTrivial = s.NonTrivial
	res.Summary = s.Summary
	if keepText {
		res.Trace = s.TraceText()
	}
	return
}

// Finish must be called by the scenario at its very end (inside the bubble) to
// capture the virtual time covered.
func (s *Sim) Finish() { s.simEnd = s.Now() }

func hashInts(v []int) string {
	h := uint64(1469598103934665603)
	for _, x := range v {
		h ^= uint64(x) + 0x9e37
		h *= 1099511628211
	}
	return fmt.Sprintf("%016x", h)
}
