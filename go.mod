module verif

go 1.25.7

require (
	github.com/anishathalye/porcupine v1.3.0
	github.com/hashicorp/golang-lru v1.0.2
	github.com/ipfs/go-cid v0.6.2
	github.com/ipfs/go-datastore v0.9.2
	github.com/ipfs/go-libdht v0.5.0
	github.com/libp2p/go-libp2p v0.49.0
	github.com/libp2p/go-libp2p-kad-dht v0.40.0
	github.com/libp2p/go-libp2p-kbucket v0.9.0
	github.com/libp2p/go-libp2p-record v0.3.1
	github.com/libp2p/go-msgio v0.3.0
	github.com/multiformats/go-base32 v0.1.0
	github.com/multiformats/go-multiaddr v0.16.1
	github.com/multiformats/go-multihash v0.2.3
	github.com/multiformats/go-multistream v0.6.1
	go.opentelemetry.io/otel v1.44.0
	go.opentelemetry.io/otel/trace v1.44.0
	google.golang.org/protobuf v1.36.11
)

require (
	github.com/Jorropo/jsync v1.0.1 // indirect
	github.com/beorn7/perks v1.0.1 // indirect
	github.com/cespare/xxhash/v2 v2.3.0 // indirect
	github.com/decred/dcrd/dcrec/secp256k1/v4 v4.4.1 // indirect
	github.com/filecoin-project/go-clock v0.1.0 // indirect
	github.com/gammazero/deque v1.2.1 // indirect
	github.com/go-logr/logr v1.4.3 // indirect
	github.com/go-logr/stdr v1.2.2 // indirect
	github.com/google/gopacket v1.1.19 // indirect
	github.com/google/uuid v1.6.0 // indirect
	github.com/guillaumemichel/reservedpool v0.3.0 // indirect
	github.com/hashicorp/golang-lru/v2 v2.0.7 // indirect
	github.com/ipfs/boxo v0.41.0 // indirect
	github.com/ipfs/go-dsqueue v0.2.0 // indirect
	github.com/ipfs/go-log/v2 v2.9.2 // indirect
	github.com/ipld/go-ipld-prime v0.24.0 // indirect
	github.com/klauspost/cpuid/v2 v2.4.0 // indirect
	github.com/libp2p/go-buffer-pool v0.1.0 // indirect
	github.com/libp2p/go-cidranger v1.1.0 // indirect
	github.com/libp2p/go-flow-metrics v0.3.0 // indirect
	github.com/libp2p/go-libp2p-asn-util v0.4.1 // indirect
	github.com/libp2p/go-libp2p-routing-helpers v0.7.5 // indirect
	github.com/libp2p/go-libp2p-xor v0.1.0 // indirect
	github.com/libp2p/go-netroute v0.4.0 // indirect
	github.com/mattn/go-isatty v0.0.22 // indirect
	github.com/minio/sha256-simd v1.0.1 // indirect
	github.com/mr-tron/base58 v1.3.0 // indirect
	github.com/multiformats/go-base36 v0.2.0 // indirect
	github.com/multiformats/go-multiaddr-dns v0.6.0 // indirect
	github.com/multiformats/go-multiaddr-fmt v0.1.0 // indirect
	github.com/multiformats/go-multibase v0.3.0 // indirect
	github.com/multiformats/go-multicodec v0.10.0 // indirect
	github.com/multiformats/go-varint v0.1.0 // indirect
	github.com/munnerz/goautoneg v0.0.0-20191010083416-a7dc8b61c822 // indirect
	github.com/polydawn/refmt v0.90.0 // indirect
	github.com/prometheus/client_golang v1.24.1 // indirect
	github.com/prometheus/client_model v0.6.2 // indirect
	github.com/prometheus/common v0.70.1 // indirect
	github.com/prometheus/procfs v0.21.1 // indirect
	github.com/spaolacci/murmur3 v1.1.0 // indirect
	github.com/whyrusleeping/go-keyspace v0.0.0-20160322163242-5b898ac5add1 // indirect
	go.opentelemetry.io/auto/sdk v1.2.1 // indirect
	go.opentelemetry.io/otel/metric v1.44.0 // indirect
	go.uber.org/multierr v1.11.0 // indirect
	go.uber.org/zap v1.28.0 // indirect
	golang.org/x/crypto v0.54.0 // indirect
	golang.org/x/exp v0.0.0-20260718201538-764159d718ef // indirect
	golang.org/x/sync v0.22.0 // indirect
	golang.org/x/sys v0.47.0 // indirect
	gonum.org/v1/gonum v0.17.0 // indirect
	lukechampine.com/blake3 v1.4.1 // indirect
)

replace github.com/libp2p/go-libp2p-kad-dht => /repo
