package shrink

import "time"

// Shrink minimises a decision list while test keeps returning true (the same
// violation class reproduces). Value 0 is the benign choice and values past
// the end of the list read as 0, so the search (1) truncates the tail,
// (2) zeroes chunks ddmin-style, (3) deletes chunks (shifts the schedule),
// (4) lowers single values. It stops at a fixpoint, after maxTests calls or
// when the wall-clock budget is used up.
func Shrink(dec []int, test func([]int) bool, maxTests int, budget time.Duration) (best []int, tests int) {
	start := time.Now()
	best = append([]int(nil), dec...)
	try := func(c []int) bool {
		if tests >= maxTests || time.Since(start) > budget {
			return false
		}
		tests++
		return test(c)
	}
	trim := func(c []int) []int {
		for len(c) > 0 && c[len(c)-1] == 0 {
			c = c[:len(c)-1]
		}
		return c
	}
	best = trim(best)
	for round := 0; round < 6; round++ {
		before := len(best)
		sumBefore := 0
		for _, v := range best {
			sumBefore += v
		}
		// 1. truncate the tail: binary search for the shortest failing prefix
		lo, hi := 0, len(best)
		for lo < hi {
			mid := (lo + hi) / 2
			if try(best[:mid]) {
				hi = mid
			} else {
				lo = mid + 1
			}
		}
		if hi < len(best) && try(best[:hi]) {
			best = trim(append([]int(nil), best[:hi]...))
		}
		// 2. zero out chunks
		for size := len(best) / 2; size >= 1; size /= 2 {
			for i := 0; i+size <= len(best); i += size {
				allZero := true
				for _, v := range best[i : i+size] {
					allZero = allZero && v == 0
				}
				if allZero {
					continue
				}
				c := append([]int(nil), best...)
				for j := i; j < i+size; j++ {
					c[j] = 0
				}
				if try(c) {
					best = c
				}
			}
		}
		best = trim(best)
		// 3. delete chunks
		for size := len(best) / 2; size >= 1; size /= 2 {
			for i := 0; i+size <= len(best); {
				c := append(append([]int(nil), best[:i]...), best[i+size:]...)
				if try(c) {
					best = c
				} else {
					i += size
				}
			}
		}
		best = trim(best)
		// 4. lower single values: binary search for the smallest value that
		// still fails (exact when failing is monotone in the value)
		for i := range best {
			if best[i] == 0 {
				continue
			}
			lo, hi := 0, best[i]
			for lo < hi {
				mid := (lo + hi) / 2
				c := append([]int(nil), best...)
				c[i] = mid
				if try(c) {
					hi = mid
					best = c
				} else {
					lo = mid + 1
				}
			}
		}
		best = trim(best)
		sumAfter := 0
		for _, v := range best {
			sumAfter += v
		}
		if len(best) == before && sumAfter == sumBefore {
			break
		}
		if tests >= maxTests || time.Since(start) > budget {
			break
		}
	}
	return best, tests
}
