package shrink

import (
	"testing"
	"time"
)

func TestShrinkFindsMinimalFailingList(t *testing.T) {
	// fails iff some element >= 5 is followed (anywhere later) by a 3
	test := func(d []int) bool {
		seen := false
		for _, v := range d {
			if v >= 5 {
				seen = true
			} else if v == 3 && seen {
				return true
			}
		}
		return false
	}
	in := []int{1, 2, 9, 0, 4, 7, 1, 3, 2, 2, 8, 3, 0, 0, 1}
	if !test(in) {
		t.Fatal("bad input")
	}
	best, n := Shrink(in, test, 5000, 10*time.Second)
	if !test(best) {
		t.Fatalf("shrunk list does not fail: %v", best)
	}
	if len(best) != 2 || best[0] != 5 || best[1] != 3 {
		t.Fatalf("expected [5 3], got %v after %d tests", best, n)
	}
}

func TestShrinkNeverLosesFailure(t *testing.T) {
	test := func(d []int) bool { return len(d) >= 3 && d[2] == 7 }
	best, _ := Shrink([]int{4, 4, 7, 4, 4}, test, 1000, time.Second)
	if !test(best) {
		t.Fatalf("lost the failure: %v", best)
	}
	if len(best) != 3 || best[0] != 0 || best[1] != 0 {
		t.Fatalf("expected [0 0 7], got %v", best)
	}
}
