//go:build all || c16

package scen

// C16 - addresses that change WHILE the crawl reports a peer.
//
// The host's peerstore is not the crawl's private property: identify pushes,
// address expiry and other subsystems rewrite a peer's entry at any moment. The
// quantifier of C16 ("for every crawled peer set and address assignment ...
// every interleaving") therefore includes the schedule in which a peer's entry
// is replaced between two reads that the accelerated client makes while the
// crawl reports that peer - e.g. the peer re-announces itself behind a DNS name
// only (AutoTLS, hosted nodes), or its addresses lapse. Whatever the client
// read first and second, afterwards
//
//   - the table (Stat) either lists the peer or does not (whether a peer
//     without a public IP address is kept is the repository's table filter, not
//     C16): for such a peer, and only for it, the crawled-peer set is what
//     Stat() says ("GetClosestPeers vs. brute force over Stat()");
//   - the crawl found the peer EITHER at the old OR at the new addresses. Every
//     clause of the GetClosestPeers oracle (c16JudgeGCP: gcp-*, ip-group-limit,
//     gcp-nearest) must hold under at least one of these assignments
//     (c16JudgeGCPAny tries every combination for the - at most two - peers
//     concerned). The new addresses carry no IP, so the peer is then in NO IP
//     group: it cannot make any group "hold more crawled peers than that
//     limit", and "equals exactly the K nearest crawled peers" still has to
//     list it when it is one of them. No rule id is new.
//
// The generator does not know where, or how often, the client reads a peer's
// entry: the replacement is applied after the k-th read (Addrs / PeerInfo) of
// that peer's entry made while the stub crawler reports it, k drawn from 0..3
// (0: before the report; a k larger than the number of reads never fires and
// the run is an ordinary one). Everything happens on the reporting goroutine,
// so the schedule is deterministic.
//
// Class of regressions this exposes: code that takes what a later read returns
// for what an earlier read (the table filter) has vetted - a table peer whose
// recorded addresses have no IP, or are empty, is dropped from results, limited
// as if it were in some catch-all group, or crashes the group computation.

import (
	"fmt"
	"sort"
	"sync"

	"github.com/libp2p/go-libp2p/core/peer"
	"github.com/libp2p/go-libp2p/core/peerstore"
	ma "github.com/multiformats/go-multiaddr"

	"verif/simhost"
	"verif/simnet"
)

// c16AddrChange replaces the peerstore entry of P by New after the
// AfterReads-th read of that entry made while the change is armed.
type c16AddrChange struct {
	P          peer.ID
	AfterReads int
	New        []ma.Multiaddr // no address carries an IP; empty: the addresses lapsed

	reads int
	fired bool
}

// c16Host is the simulated host with a peerstore that can apply a scripted
// address change between two reads (see the file comment).
type c16Host struct {
	*simhost.Host
	PS *c16Peerstore
}

func newC16Host(h *simhost.Host) *c16Host {
	return &c16Host{Host: h, PS: &c16Peerstore{Peerstore: h.Peerstore()}}
}

func (h *c16Host) Peerstore() peerstore.Peerstore { return h.PS }

type c16Peerstore struct {
	peerstore.Peerstore

	mu  sync.Mutex
	arm *c16AddrChange
}

func (ps *c16Peerstore) apply(ch *c16AddrChange) {
	ch.fired = true
	ps.Peerstore.ClearAddrs(ch.P)
	if len(ch.New) > 0 {
		ps.Peerstore.AddAddrs(ch.P, ch.New, peerstore.PermanentAddrTTL)
	}
}

// Arm makes ch pending (AfterReads == 0: applies it at once).
func (ps *c16Peerstore) Arm(ch *c16AddrChange) {
	ps.mu.Lock()
	defer ps.mu.Unlock()
	ps.arm = ch
	if ch.AfterReads <= 0 {
		ps.apply(ch)
		ps.arm = nil
	}
}

// Disarm drops a pending change that has not been applied.
func (ps *c16Peerstore) Disarm() {
	ps.mu.Lock()
	ps.arm = nil
	ps.mu.Unlock()
}

func (ps *c16Peerstore) Fired(ch *c16AddrChange) bool {
	ps.mu.Lock()
	defer ps.mu.Unlock()
	return ch.fired
}

// afterRead runs after a read of p's entry has produced its result.
func (ps *c16Peerstore) afterRead(p peer.ID) {
	ps.mu.Lock()
	defer ps.mu.Unlock()
	ch := ps.arm
	if ch == nil || ch.P != p {
		return
	}
	ch.reads++
	if ch.reads >= ch.AfterReads {
		ps.apply(ch)
		ps.arm = nil
	}
}

func (ps *c16Peerstore) Addrs(p peer.ID) []ma.Multiaddr {
	out := ps.Peerstore.Addrs(p)
	ps.afterRead(p)
	return out
}

func (ps *c16Peerstore) PeerInfo(p peer.ID) peer.AddrInfo {
	out := ps.Peerstore.PeerInfo(p)
	ps.afterRead(p)
	return out
}

// c16DrawChanges picks up to max of the peers the next crawl reports and
// scripts a change for each: after 0..3 reads the peer is known by one or two
// DNS names only, or (one in three) by no address at all.
func c16DrawChanges(rng *subRng, found []*simnet.Peer, max int) map[peer.ID]*c16AddrChange {
	out := map[peer.ID]*c16AddrChange{}
	for k := 0; k < max && len(found) > 0; k++ {
		i := rng.Intn(len(found))
		p := found[i]
		if out[p.ID] != nil {
			continue
		}
		ch := &c16AddrChange{P: p.ID, AfterReads: rng.Intn(4)}
		if rng.Intn(3) != 0 {
			for j, n := 0, 1+rng.Intn(2); j < n; j++ {
				ch.New = append(ch.New, c16DNSAddr(rng, 900+i, j))
			}
		}
		out[p.ID] = ch
	}
	return out
}

// c16JudgeGCPAny is c16JudgeGCP for a crawl during which the peerstore entry of
// some found peers was replaced while they were being reported (c.Alt): the
// result must satisfy every clause under at least one assignment that gives
// each of these peers either its old or its new addresses.
func c16JudgeGCPAny(u *simnet.Universe, res []peer.ID, key simnet.Kad, K, L int, c *c16Crawl) (rule, msg string) {
	if len(c.Alt) == 0 {
		return c16JudgeGCP(u, res, key, K, L, c)
	}
	var ids []peer.ID
	for id := range c.Alt {
		ids = append(ids, id)
	}
	sort.Slice(ids, func(i, j int) bool { return u.Name(ids[i]) < u.Name(ids[j]) })
	for mask := 0; mask < 1<<len(ids); mask++ {
		cc := &c16Crawl{Idx: c.Idx, Peers: c.Peers, Addrs: map[peer.ID][]ma.Multiaddr{}}
		for _, p := range c.Peers {
			cc.Addrs[p.ID] = c.addrsOf(p)
		}
		for i, id := range ids {
			if mask&(1<<i) != 0 {
				cc.Addrs[id] = c.Alt[id]
			}
		}
		rule, msg = c16JudgeGCP(u, res, key, K, L, cc)
		if rule == "" {
			return "", ""
		}
	}
	// the last assignment tried gives every such peer its new addresses
	return rule, fmt.Sprintf("%s [the peerstore entry of {%s} was replaced by addresses without an IP (or by none) while crawl %d reported them; the result satisfies the clauses neither with their old nor with their new addresses - shown: all new]", msg, sortedNames(u, ids), c.Idx)
}
