//go:build all || c17

package scen

// C17, scenario "buffered": the buffered wrapper applies queued start / stop /
// provide-once operations with the same final effect as applying them one by
// one.
//
// SUT: real buffered.SweepingProvider (real go-dsqueue on simds) in front of
// the real provider.SweepingProvider of the "sweep" scenario (same seams, no
// faults, every call answered at the instant it is made). Between the two sits
// a gate: a pass-through internal.Provider whose methods park in the
// scheduler (kind "bufop") before delegating. While the wrapper's worker is
// parked there, further client calls only enqueue; when it is released, its
// next GetN picks up everything queued meanwhile. The scheduler thereby
// chooses the batch boundaries. (Not explored: a StopProviding racing the
// provideLoop goroutine started by the call just before it - the Go scheduler
// decides that race, see the comment at the gate.)
//
// Oracle (plain set semantics; reference = the operations applied one by one
// in submission order):
//   buffered-keystore    final keystore content == reference set
//   buffered-advertised  every key whose last operation sequence ends with an
//                        accepting operation (StartProviding of a key not in
//                        the set, StartProviding(force), ProvideOnce) that is
//                        not followed by a StopProviding of that key has been
//                        advertised at least once when everything has drained
//   buffered-phantom     no key is advertised that no accepting operation named
// A key whose last accepting operation IS followed by a stop may or may not be
// advertised in either semantics (StopProviding removes queued provides), so
// nothing is demanded for it.
//
// Scenario "buffered-restart" (same body, one more tape-chosen step): after a
// drawn number of operations has been submitted the wrapper is closed - with
// whatever the schedule left in its queue, typically a backlog accepted while
// the worker was held at the gate - and a NEW wrapper is created on the same
// datastore and queue name in front of a restarted provider (same datastore,
// resume). The remaining operations, often none, are submitted to the new
// wrapper. Clauses: "work still queued at Close is resumed after a restart" and
// "the buffered wrapper applies queued start/stop operations with the same
// final effect as applying them one by one": the same three rules are judged
// at the end, i.e. the operations that were accepted before the shutdown have
// been applied within the drain time (first-advertisement bound, 10 min of
// virtual time, plus the time the schedule took) after the restart, whether
// or not anything new is submitted.
// The calls of the batch the worker was executing when Close was called (the
// call held at the gate and the calls the worker makes after it, all logged by
// the gate) reach a provider that is already shutting down: Close closes the
// queue and the provider before it waits for the worker. Those operations
// were accepted, are no longer in the queue and take no effect. That is the
// separate rule
//   buffered-close-drops-batch   (same two clauses; genuine finding, see the
//                                 report / known_findings.json)
// and, so that it does not mask anything else, the three rules above judge a
// key named by one of those calls only as far as operations submitted after
// the restart determine its state.
//   buffered-restart-reorder     label of buffered-keystore / -advertised
//                                 violations (same clauses; genuine finding in
//                                 the queue the wrapper is built on): every key
//                                 that differs had an operation submitted after
//                                 the restart stored in front of an older,
//                                 persisted operation on it - c17BufScan

import (
	"context"
	"encoding/base64"
	"fmt"
	"sort"
	"strings"
	"time"

	dsapi "github.com/ipfs/go-datastore"
	"github.com/ipfs/go-datastore/namespace"
	mh "github.com/multiformats/go-multihash"

	"github.com/libp2p/go-libp2p-kad-dht/provider"
	"github.com/libp2p/go-libp2p-kad-dht/provider/buffered"

	"verif/sim"
)

func init() {
	sim.Register(&sim.Scenario{Prop: "C17", Name: "buffered-restart", Weight: 1, Run: func(s *sim.Sim) { runC17BufferedX(s, true) },
		Real:   []string{"provider/buffered.SweepingProvider (worker, getOperations coalescing, Close, start-up on a used datastore)", "go-dsqueue (on simds; persisted at Close, read back by the next instance)", "provider.SweepingProvider + keystore (as in scenario sweep; restarted on the same datastore)"},
		Stub:   []string{"gate between wrapper and provider (pass-through, parks in the scheduler: batch boundaries are schedule choices)", "router / message sender / datastore as in scenario sweep"},
		Faults: []string{"time_advance", "restart", "probe_buf_batch_multi_op", "probe_buf_queue_on_datastore", "probe_buf_restart_backlog", "probe_buf_restart_backlog_no_new_op", "probe_buf_restart_worker_held", "probe_buf_backlog_applied"},
	})
	sim.Register(&sim.Scenario{Prop: "C17", Name: "buffered", Weight: 1, Run: runC17Buffered,
		Real:   []string{"provider/buffered.SweepingProvider (worker, getOperations coalescing)", "go-dsqueue (on simds)", "provider.SweepingProvider + keystore (as in scenario sweep)"},
		Stub:   []string{"gate between wrapper and provider (pass-through, parks in the scheduler: batch boundaries are schedule choices)", "router / message sender / datastore as in scenario sweep"},
		Faults: []string{"time_advance", "probe_buf_batch_multi_op", "probe_buf_start_stop_same_batch", "probe_buf_stop_start_same_batch", "probe_buf_stop_once_same_batch", "probe_buf_queue_on_datastore", "probe_buf_full_batch"},
	})
}

// c17Gate is the internal.Provider handed to the wrapper.
type c17Gate struct {
	h     *c17H
	inner *provider.SweepingProvider
	every bool // park before every call (else only before the first call of a batch)
	seq   int
	rank  int // rank of the previous call within the wrapper's fixed execution order
	// what the wrapper executed, batch by batch (worker goroutine only)
	batches [][]string
	// closing is set by the simulator before it closes the wrapper (the worker is
	// idle or held at the gate then); lost collects the keys of the calls the
	// worker makes from then on
	closing bool
	lost    []mh.Multihash
}

func (g *c17Gate) gate(kind string, rank int, keys []mh.Multihash) {
	newBatch := rank <= g.rank || g.seq == 0
	g.rank = rank
	var names []string
	for _, k := range keys {
		if ck := g.h.byMh[string(k)]; ck != nil {
			names = append(names, ck.name)
		}
	}
	sort.Strings(names)
	entry := kind + ":" + strings.Join(names, ",")
	if newBatch {
		g.batches = append(g.batches, nil)
	}
	g.batches[len(g.batches)-1] = append(g.batches[len(g.batches)-1], entry)
	if g.every || newBatch {
		g.h.s.Park("bufop", fmt.Sprintf("%s:%03d", kind, g.seq), nil, nil)
	}
	if g.closing {
		g.lost = append(g.lost, keys...)
	}
	g.seq++
}

func (g *c17Gate) StartProviding(force bool, keys ...mh.Multihash) error {
	if force {
		g.gate("force", 0, keys)
	} else {
		g.gate("start", 1, keys)
	}
	return g.inner.StartProviding(force, keys...)
}

func (g *c17Gate) ProvideOnce(keys ...mh.Multihash) error {
	g.gate("once", 2, keys)
	return g.inner.ProvideOnce(keys...)
}

func (g *c17Gate) StopProviding(keys ...mh.Multihash) error {
	g.gate("stop", 3, keys)
	return g.inner.StopProviding(keys...)
}

func (g *c17Gate) Clear() int             { return g.inner.Clear() }
func (g *c17Gate) RefreshSchedule() error { return g.inner.RefreshSchedule() }

// Close parks like every other call: what the worker's last call started in
// the provider (its provide loop) runs as far as it can before the provider is
// closed, instead of racing its Close.
func (g *c17Gate) Close() error {
	g.h.s.Park("bufop", fmt.Sprintf("close:%03d", g.seq), nil, nil)
	return g.inner.Close()
}

type c17BufOp struct {
	kind  string // start force once stop
	keys  []*c17Key
	done  bool
	batch int
}

func runC17Buffered(s *sim.Sim) { runC17BufferedX(s, false) }

// runC17BufferedX is the body of the scenarios buffered (withRestart false: no
// draw is added, recorded schedules keep their meaning) and buffered-restart.
func runC17BufferedX(s *sim.Sim, withRestart bool) {
	c17InitPools()
	c := genC17Cfg(s, false)
	// small instances: the property is about coalescing, not about scale
	if c.nPeers > 8 {
		c.nPeers = 8
	}
	c.nKeys = s.Range("buf-keys", 1, 6)
	c.skipBoot = false
	// Worker pools: ample, or exactly one worker with single-key operations.
	// Whether a queued key is still queued when a StopProviding reaches the
	// provider depends on how many regions were dequeued before; with k free
	// workers and more than k queued regions of equal size the provider picks
	// at random (map order in SortPrefixesBySize). One worker and one key per
	// operation keeps the provide queue strictly FIFO.
	maxPerOp := 3
	if !c.ample {
		c.maxW, c.dedP, c.dedB = 1, 0, 0
		maxPerOp = 1
	}
	s.MaxSteps = 150
	batchSize := s.Range("buf-batch-size", 1, 8)
	idleWrite := []time.Duration{time.Minute, 0, time.Second}[s.Draw("buf-idle-write", 3)]
	// The gate parks before EVERY call into the provider. Letting the worker run
	// several calls back to back would race it against the provideLoop goroutine
	// the previous call has just started (whether a StopProviding that follows
	// a ProvideOnce finds the key still queued is then decided by the Go
	// scheduler); with a park in between, the provider's goroutines have run as
	// far as they can before the next call, which is reproducible.
	every := true
	nOps := s.Range("buf-ops", 1, 14)
	// the wrapper is closed and re-created once restartAfter operations have been
	// submitted; half of the time that is after the last one (nothing new arrives
	// after the restart)
	restartAfter := -1
	if withRestart {
		restartAfter = nOps
		if s.Chance("buf-restart-mid", 1, 2) {
			restartAfter = s.Range("buf-restart-after", 1, nOps)
		}
	}
	cfgLine := fmt.Sprintf("%s | buffered: batchSize=%d idleWrite=%v gateEvery=%v ops=%d", c.String(), batchSize, idleWrite, every, nOps)
	if withRestart {
		cfgLine += fmt.Sprintf(" restartAfter=%d", restartAfter)
	}
	s.Summary["cfg"] = cfgLine
	s.Tracef("cfg %s", s.Summary["cfg"])

	h, restore := newC17H(s, c)
	defer restore()
	h.newProvider()
	if h.stop {
		s.Finish()
		return
	}
	h.lastSut = -1
	h.settle() // the node is online before anything is handed to the wrapper
	if h.sut.Load() != c17Online {
		s.Violate("buffered-setup", "the inner provider did not come online")
		s.Finish()
		return
	}

	var gate *c17Gate
	var gates []*c17Gate
	var bp *buffered.SweepingProvider
	newWrapper := func() bool {
		g := &c17Gate{h: h, inner: h.prov, every: every}
		var nb *buffered.SweepingProvider
		op := h.ops.Go(s, "buffered.New", func() (any, error) {
			nb = buffered.New(g, namespace.Wrap(h.ds, dsapi.NewKey("/buf")), buffered.WithBatchSize(batchSize), buffered.WithIdleWriteTime(idleWrite))
			return nil, nil
		})
		s.Quiesce()
		if !op.Done || nb == nil {
			s.Violate("buffered-setup", "buffered.New did not return")
			return false
		}
		gate, bp = g, nb
		gates = append(gates, g)
		return true
	}
	if !newWrapper() {
		s.Finish()
		return
	}

	// generated operation sequence and its reference outcome
	ops := make([]*c17BufOp, nOps)
	ref := map[int]bool{}      // reference keystore (key idx)
	must := map[int]bool{}     // must have been advertised at the end
	accepted := map[int]bool{} // named by an accepting operation at least once
	for i := range ops {
		o := &c17BufOp{keys: h.pickKeysMax("buf", maxPerOp)}
		switch s.Draw("buf-kind", 6) {
		case 0, 1:
			o.kind = "start"
		case 2:
			o.kind = "force"
		case 3:
			o.kind = "once"
		default:
			o.kind = "stop"
		}
		ops[i] = o
		for _, k := range o.keys {
			switch o.kind {
			case "start":
				if !ref[k.idx] {
					must[k.idx], accepted[k.idx] = true, true
				}
				ref[k.idx] = true
			case "force":
				must[k.idx], accepted[k.idx] = true, true
				ref[k.idx] = true
			case "once":
				must[k.idx], accepted[k.idx] = true, true
			case "stop":
				delete(ref, k.idx)
				delete(must, k.idx) // may or may not still go out
			}
		}
	}

	next := 0
	submit := func() {
		o := ops[next]
		next++
		s.Tracef("step op %s %s", o.kind, keyNames(o.keys))
		ok := h.api("buffered."+o.kind, func() error {
			switch o.kind {
			case "start":
				return bp.StartProviding(false, keyMhs(o.keys)...)
			case "force":
				return bp.StartProviding(true, keyMhs(o.keys)...)
			case "once":
				return bp.ProvideOnce(keyMhs(o.keys)...)
			default:
				return bp.StopProviding(keyMhs(o.keys)...)
			}
		})
		o.done = ok
	}
	// (buffered-restart) queue entries found on the datastore at the restart,
	// and the keys for which an entry written after the restart is stored in
	// front of one of them - see c17BufScan
	var oldEntries map[string]bool
	var scan *c17BufScan
	reordered := map[int]bool{}
	release := func() bool {
		if scan != nil {
			scan.run(h, reordered)
		}
		ps := s.ParkedKind("bufop")
		if len(ps) == 0 {
			return false
		}
		s.Tracef("step release %s", ps[0].ID)
		s.Release(ps[0], nil)
		s.Quiesce()
		if c17Debug {
			var ids []string
			for _, p := range s.Parked() {
				ids = append(ids, p.ID)
			}
			s.Tracef("  parked after release: %s | executed so far %s", strings.Join(ids, " "), c17Batches(gates))
		}
		return true
	}

	// restart: close the wrapper (it closes the provider behind the gate) with
	// whatever is queued, restart the provider on the same datastore and put a
	// new wrapper with the same queue name in front of it.
	restarted := false
	uncertain := map[int]bool{}     // keys named by the calls of the batch in execution at Close
	uncertainMust := map[int]bool{} // ... that the full reference wants advertised
	var inflightLost []string
	backlogAtRestart := 0
	restart := func(workerHeld bool) bool {
		s.Tracef("step restart submitted=%d worker-held=%v", next, workerHeld)
		s.Count("restart")
		if workerHeld {
			s.Count("probe_buf_restart_worker_held")
		} else {
			s.Count("probe_buf_restart_idle")
		}
		gate.closing = true
		ks, old := h.ks, bp
		if !h.closeWith(func() error {
			err := old.Close() // closes the inner provider through the gate
			if ks != nil {
				_ = ks.Close()
			}
			return err
		}) {
			return false
		}
		h.observe()
		for _, m := range gate.lost {
			if k := h.byMh[string(m)]; k != nil {
				uncertain[k.idx] = true
			}
		}
		// what Close left of the wrapper's queue on the datastore
		oldEntries = map[string]bool{}
		for k := range h.ds.Snapshot() {
			if strings.HasPrefix(k, "/buf/dsq-") {
				backlogAtRestart++
				oldEntries[k] = true
			}
		}
		scan = &c17BufScan{old: oldEntries, fresh: map[string]bool{}, logIdx: h.ds.LogLen()}
		if backlogAtRestart > 0 {
			s.Count("probe_buf_restart_backlog")
			if next >= len(ops) {
				s.Count("probe_buf_restart_backlog_no_new_op")
			}
		}
		var un []string
		for _, k := range h.keys {
			if uncertain[k.idx] {
				un = append(un, k.name)
			}
		}
		s.Tracef("  closed: %d queue entries on the datastore, batch in execution named {%s}", backlogAtRestart, strings.Join(un, ","))
		// bookkeeping of the sweep oracle, as in its restart step: rounds cut short
		// by Close are not judged; nothing is in flight now
		for _, k := range h.keys {
			k.all, k.ok, k.spanning = nil, nil, false
			k.pendingFirst, k.resumePending, k.owed = false, false, false
			k.catchDue, k.promptDue = -1, -1
			k.validBefore = false
		}
		h.cleanSince, h.cleanCut, h.winSendOnly = -1, false, false
		h.dirty, h.held = true, false
		h.chain++
		h.newProvider()
		if h.stop {
			return false
		}
		h.settle()
		if h.sut.Load() != c17Online {
			s.Violate("buffered-setup", "the restarted inner provider did not come online")
			return false
		}
		if !newWrapper() {
			return false
		}
		return true
	}

	h.emitStep()
	for s.Step() {
		h.emitStep()
		if s.Failed() || h.stop {
			break
		}
		parked := len(s.ParkedKind("bufop")) > 0
		if scan != nil {
			scan.run(h, reordered)
		}
		if withRestart && !restarted && next >= restartAfter {
			restarted = true
			if !restart(parked) {
				break
			}
			continue
		}
		if next >= len(ops) {
			break
		}
		// value 0: submit the next operation (operations pile up behind a parked worker)
		switch s.Draw("buf-step", 8) {
		case 0, 1, 2, 3:
			submit()
		case 4, 5:
			if parked {
				release()
			} else {
				submit()
			}
		case 6:
			s.Tracef("step net")
			h.settle()
		default:
			d := []time.Duration{time.Second, time.Minute, 11 * time.Minute}[s.Draw("buf-dt", 3)] + c17Jitter
			s.Tracef("step advance %v", d)
			s.Count("time_advance")
			// does the queue spill to the datastore while the worker is held?
			h.advance(d)
			for k := range h.ds.Snapshot() {
				if strings.HasPrefix(k, "/buf/dsq-") {
					s.Count("probe_buf_queue_on_datastore")
					break
				}
			}
		}
	}

	// drain: release the worker until it is idle, answer the network, give the
	// provider's retry tick a chance
	if !s.Failed() && !h.stop {
		s.Tracef("drain")
		for i := 0; i < 400; i++ {
			if !release() {
				s.Sleep(time.Second) // an idle dsqueue flushes after its idle-write time at the latest
				h.settle()
				if len(s.ParkedKind("bufop")) == 0 {
					break
				}
			}
		}
		h.advance(c17FirstBound + time.Minute)
		for release() {
			h.settle()
		}
		h.settle()
		h.emitStep()
	}

	if !s.Failed() && !h.stop && next >= len(ops) && (restarted || !withRestart) {
		// what the wrapper executed
		total, nBatches := 0, 0
		for _, g := range gates {
			for _, b := range g.batches {
				nBatches++
				total += len(b)
				if len(b) > 1 {
					s.Count("probe_buf_batch_multi_op")
				}
			}
		}
		c17BufferedProbes(s, ops, batchSize, gates)
		if restarted && backlogAtRestart > 0 && restartAfter >= len(ops) && len(gate.batches) > 0 {
			// nothing was submitted after the restart and the new worker made calls
			s.Count("probe_buf_backlog_applied")
		}
		// Keys named by the batch that was in execution at Close: their state is
		// judged only as far as the operations submitted after the restart
		// determine it (see the header).
		detKept := map[int]bool{} // keystore membership determined after the restart
		if len(uncertain) > 0 {
			mustU := map[int]bool{}
			for _, o := range ops[restartAfter:] {
				for _, k := range o.keys {
					if !uncertain[k.idx] {
						continue
					}
					switch o.kind {
					case "start":
						detKept[k.idx] = true // (advertised or not depends on what the keystore held)
					case "force":
						detKept[k.idx], mustU[k.idx] = true, true
					case "once":
						mustU[k.idx] = true
					case "stop":
						detKept[k.idx] = false
						delete(mustU, k.idx)
					}
				}
			}
			for i := range uncertain {
				if must[i] && !mustU[i] {
					delete(must, i)
					uncertainMust[i] = true
				}
			}
		}

		// final keystore content (public Keystore API, client goroutine)
		var got []mh.Multihash
		ks := h.ks
		kop := h.ops.Go(s, "keystore.Get", func() (any, error) {
			var err error
			got, err = ks.Get(context.Background(), "")
			return nil, err
		})
		s.Quiesce()
		if !kop.Done || kop.Err != nil {
			s.Violate("buffered-keystore", "could not read the keystore: done=%v err=%v", kop.Done, kop.Err)
		} else {
			have := map[int]bool{}
			for _, m := range got {
				if k := h.byMh[string(m)]; k != nil {
					have[k.idx] = true
				} else {
					s.Violate("buffered-keystore", "keystore holds a key nobody provided")
				}
			}
			var want, is []string
			onlyReordered := true
			for _, k := range h.keys {
				if _, det := detKept[k.idx]; uncertain[k.idx] && !det {
					if ref[k.idx] != have[k.idx] {
						inflightLost = append(inflightLost, k.name)
					}
					continue
				}
				// (only the keys that are judged here decide the label: a key of the
				// batch in execution at Close that differs as well is the other open
				// finding, reported on its own below, and says nothing about why a
				// judged key differs)
				if ref[k.idx] != have[k.idx] && !reordered[k.idx] {
					onlyReordered = false
				}
				if ref[k.idx] {
					want = append(want, k.name)
				}
				if have[k.idx] {
					is = append(is, k.name)
				}
			}
			if strings.Join(want, ",") != strings.Join(is, ",") && onlyReordered {
				// label of the open finding buffered-restart-reorder (see c17BufScan)
				h.violatePending("buffered-restart-reorder", "final keystore content {%s}; applying the %d operations one by one gives {%s}; for every key that differs, an operation submitted AFTER the restart was stored in the queue's datastore in front of an older operation on the same key that the previous run had persisted at Close (the new queue instance numbers its entries from zero again), and was executed before it (wrapper executed %s)", strings.Join(is, ","), len(ops), strings.Join(want, ","), c17Batches(gates))
			} else if strings.Join(want, ",") != strings.Join(is, ",") {
				s.Violate("buffered-keystore", "final keystore content {%s}; applying the %d operations one by one gives {%s} (wrapper executed %s)", strings.Join(is, ","), len(ops), strings.Join(want, ","), c17Batches(gates))
			}
			s.Tracef("final keystore {%s}", strings.Join(is, ","))
		}
		// advertised at least once: one delivered ADD_PROVIDER
		adv := map[int]bool{}
		for _, r := range h.snd.Snapshot() {
			if r.Done && r.Err == nil && !r.Cancelled {
				if k := h.byMh[string(r.Req.GetKey())]; k != nil {
					adv[k.idx] = true
				}
			}
		}
		var advMust []string
		for _, k := range h.keys {
			if uncertainMust[k.idx] && !adv[k.idx] && !strings.Contains(","+strings.Join(inflightLost, ",")+",", ","+k.name+",") {
				inflightLost = append(inflightLost, k.name)
			}
			if must[k.idx] && !adv[k.idx] && reordered[k.idx] {
				h.violatePending("buffered-restart-reorder", "%s was never advertised although its last accepting operation is not followed by a stop; an operation on it submitted AFTER the restart was stored in the queue's datastore in front of an older operation on it that the previous run had persisted at Close, and was executed before it (operations: %s; wrapper executed %s)", k.name, c17OpList(ops), c17Batches(gates))
			} else if must[k.idx] && !adv[k.idx] {
				s.Violate("buffered-advertised", "%s was never advertised although its last accepting operation is not followed by a stop (operations: %s; wrapper executed %s)", k.name, c17OpList(ops), c17Batches(gates))
			}
			if adv[k.idx] && !accepted[k.idx] {
				s.Violate("buffered-phantom", "%s was advertised although no StartProviding/ProvideOnce named it", k.name)
			}
			if must[k.idx] && adv[k.idx] {
				advMust = append(advMust, k.name)
			}
		}
		s.Tracef("final advertised(must) {%s}", strings.Join(advMust, ","))
		if len(inflightLost) > 0 {
			// rule buffered-close-drops-batch: operations of the batch that was in
			// execution when Close was called did not take effect
			s.Count("probe_buf_inflight_batch_lost")
			{
				h.violatePending("buffered-close-drops-batch", "operations on {%s} were accepted before Close, taken out of the queue by the worker and handed to a provider that was already shutting down: they took no effect and are not in the queue of the next run (operations: %s; wrapper executed %s)", strings.Join(inflightLost, ","), c17OpList(ops), c17Batches(gates))
			}
		}
		s.State("bufops=%d batches=%d kept=%d restart=%v backlog=%d", len(ops), nBatches, len(ref), restarted, backlogAtRestart)
		s.NonTrivial = nBatches > 0 && total > nBatches
		if withRestart {
			s.NonTrivial = backlogAtRestart > 0
		}
	}
	if s.Steps > s.MaxSteps {
		s.Count("step_budget_exhausted")
	}

	ks := h.ks
	h.closeWith(func() error {
		err := bp.Close() // closes the inner provider through the gate
		if ks != nil {
			_ = ks.Close()
		}
		return err
	})
	closeAndCensus(s, func() {}) // goroutine census
	s.Finish()
}

// c17BufferedProbes counts which coalescing situations a run reached, from
// the submitted sequence and the batch boundaries the wrapper actually used.
func c17BufferedProbes(s *sim.Sim, ops []*c17BufOp, batchSize int, gs []*c17Gate) {
	var batches [][]string
	for _, g := range gs {
		batches = append(batches, g.batches...)
	}
	for _, b := range batches {
		n := 0
		kinds := map[string]map[string]bool{}
		for _, e := range b {
			kind, names, _ := strings.Cut(e, ":")
			if kinds[kind] == nil {
				kinds[kind] = map[string]bool{}
			}
			for _, nm := range strings.Split(names, ",") {
				if nm != "" {
					kinds[kind][nm] = true
					n++
				}
			}
		}
		if n >= batchSize {
			s.Count("probe_buf_full_batch")
		}
		for nm := range kinds["stop"] {
			if kinds["start"][nm] || kinds["force"][nm] {
				s.Count("probe_buf_start_stop_same_batch")
			}
			if kinds["once"][nm] {
				s.Count("probe_buf_stop_once_same_batch")
			}
		}
	}
	// a stop followed by a start of the same key inside one executed batch is
	// invisible in the batch log (the wrapper drops the stop): detect it from
	// the submitted sequence when both fell into a window of batchSize items
	for i, o := range ops {
		if o.kind != "stop" {
			continue
		}
		for j := i + 1; j < len(ops) && j <= i+batchSize; j++ {
			if ops[j].kind == "start" || ops[j].kind == "force" {
				for _, a := range o.keys {
					for _, b := range ops[j].keys {
						if a == b {
							s.Count("probe_buf_stop_start_same_batch")
						}
					}
				}
			}
		}
	}
}

func c17OpList(ops []*c17BufOp) string {
	var out []string
	for _, o := range ops {
		out = append(out, o.kind+"("+keyNames(o.keys)+")")
	}
	return strings.Join(out, " ")
}

func c17Batches(gs []*c17Gate) string {
	var out []string
	for i, g := range gs {
		if i > 0 {
			out = append(out, "| restart |")
		}
		for _, b := range g.batches {
			out = append(out, "["+strings.Join(b, " ")+"]")
		}
	}
	return strings.Join(out, " ")
}

// pickKeysMax picks a window of at most maxN keys.
func (h *c17H) pickKeysMax(label string, maxN int) []*c17Key {
	s := h.s
	n := s.Range(label+"-n", 1, min(maxN, len(h.keys)))
	off := s.Draw(label+"-off", len(h.keys))
	var out []*c17Key
	for i := 0; i < n; i++ {
		out = append(out, h.keys[(off+i)%len(h.keys)])
	}
	return out
}

// c17BufScan follows the wrapper's queue on the datastore after the restart
// (label of the open finding buffered-restart-reorder; decides nothing). The
// queue is read back in datastore key order. old holds the entries the
// previous run persisted at Close that are still stored; fresh the stored
// entries written after the restart. When a fresh entry sorts in front of an
// old one and both carry an operation on the same key, the key is marked: the
// newer operation will be executed before the older one.
//
// Both sets are maintained from the datastore's operation log, not from the
// entry names alone: the new queue instance numbers its entries from zero
// again, so an entry written after the restart can carry the very name (same
// number, same operation, same key) of an entry of the previous run that has
// been read and deleted meanwhile. Told apart by name only, such an entry
// passed for an old one and the reordering it witnesses went unlabelled
// (replay C17-1-64433: the start of k1374 submitted after the restart was
// stored as entry 2, the name of an already consumed old entry, in front of
// the persisted stop of k1374 stored as entry 5).
type c17BufScan struct {
	old, fresh map[string]bool
	logIdx     int
}

func (sc *c17BufScan) run(h *c17H, out map[int]bool) {
	log := h.ds.Log()
	for ; sc.logIdx < len(log); sc.logIdx++ {
		r := log[sc.logIdx]
		if r.Err != nil || !strings.HasPrefix(r.Key, "/buf/dsq-") {
			continue
		}
		switch r.Op {
		case "put":
			sc.fresh[r.Key] = true // (an old entry of the same name, if still stored, is overwritten: both)
		case "delete":
			delete(sc.old, r.Key)
			delete(sc.fresh, r.Key)
		}
	}
	keyOf := func(entry string) *c17Key {
		item, err := base64.RawURLEncoding.DecodeString(entry[strings.LastIndexByte(entry, '/')+1:])
		if err != nil || len(item) < 2 {
			return nil
		}
		return h.byMh[string(item[1:])]
	}
	for n := range sc.fresh {
		for o := range sc.old {
			if n < o {
				if kn := keyOf(n); kn != nil && kn == keyOf(o) && !out[kn.idx] {
					out[kn.idx] = true
					h.s.Count("probe_buf_restart_reorder")
				}
			}
		}
	}
}
