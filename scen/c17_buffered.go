//go:build all || c17

package scen

// C17, scenario "buffered": the buffered wrapper applies queued start / stop /
// provide-once operations with the same final effect as applying them one by
// one.
//
// SUT: real buffered.SweepingProvider (real go-dsqueue on simds) in front of
// the real provider.SweepingProvider of the "sweep" scenario (same seams, no
// faults, every call answered at the instant it is made). Between the two sits
// a gate: a pass-through internal.Provider whose methods park in the
// scheduler (kind "bufop") before delegating. While the wrapper's worker is
// parked there, further client calls only enqueue; when it is released, its
// next GetN picks up everything queued meanwhile. The scheduler thereby
// chooses the batch boundaries. (Not explored: a StopProviding racing the
// provideLoop goroutine started by the call just before it - the Go scheduler
// decides that race, see the comment at the gate.)
//
// Oracle (plain set semantics; reference = the operations applied one by one
// in submission order):
//   buffered-keystore    final keystore content == reference set
//   buffered-advertised  every key whose last operation sequence ends with an
//                        accepting operation (StartProviding of a key not in
//                        the set, StartProviding(force), ProvideOnce) that is
//                        not followed by a StopProviding of that key has been
//                        advertised at least once when everything has drained
//   buffered-phantom     no key is advertised that no accepting operation named
// A key whose last accepting operation IS followed by a stop may or may not be
// advertised in either semantics (StopProviding removes queued provides), so
// nothing is demanded for it.

import (
	"context"
	"fmt"
	"sort"
	"strings"
	"time"

	dsapi "github.com/ipfs/go-datastore"
	"github.com/ipfs/go-datastore/namespace"
	mh "github.com/multiformats/go-multihash"

	"github.com/libp2p/go-libp2p-kad-dht/provider"
	"github.com/libp2p/go-libp2p-kad-dht/provider/buffered"

	"verif/sim"
)

func init() {
	sim.Register(&sim.Scenario{Prop: "C17", Name: "buffered", Weight: 1, Run: runC17Buffered,
		Real:   []string{"provider/buffered.SweepingProvider (worker, getOperations coalescing)", "go-dsqueue (on simds)", "provider.SweepingProvider + keystore (as in scenario sweep)"},
		Stub:   []string{"gate between wrapper and provider (pass-through, parks in the scheduler: batch boundaries are schedule choices)", "router / message sender / datastore as in scenario sweep"},
		Faults: []string{"time_advance", "probe_buf_batch_multi_op", "probe_buf_start_stop_same_batch", "probe_buf_stop_start_same_batch", "probe_buf_stop_once_same_batch", "probe_buf_queue_on_datastore", "probe_buf_full_batch"},
	})
}

// c17Gate is the internal.Provider handed to the wrapper.
type c17Gate struct {
	h     *c17H
	inner *provider.SweepingProvider
	every bool // park before every call (else only before the first call of a batch)
	seq   int
	rank  int // rank of the previous call within the wrapper's fixed execution order
	// what the wrapper executed, batch by batch (worker goroutine only)
	batches [][]string
}

func (g *c17Gate) gate(kind string, rank int, keys []mh.Multihash) {
	newBatch := rank <= g.rank || g.seq == 0
	g.rank = rank
	var names []string
	for _, k := range keys {
		if ck := g.h.byMh[string(k)]; ck != nil {
			names = append(names, ck.name)
		}
	}
	sort.Strings(names)
	entry := kind + ":" + strings.Join(names, ",")
	if newBatch {
		g.batches = append(g.batches, nil)
	}
	g.batches[len(g.batches)-1] = append(g.batches[len(g.batches)-1], entry)
	if g.every || newBatch {
		g.h.s.Park("bufop", fmt.Sprintf("%s:%03d", kind, g.seq), nil, nil)
	}
	g.seq++
}

func (g *c17Gate) StartProviding(force bool, keys ...mh.Multihash) error {
	if force {
		g.gate("force", 0, keys)
	} else {
		g.gate("start", 1, keys)
	}
	return g.inner.StartProviding(force, keys...)
}

func (g *c17Gate) ProvideOnce(keys ...mh.Multihash) error {
	g.gate("once", 2, keys)
	return g.inner.ProvideOnce(keys...)
}

func (g *c17Gate) StopProviding(keys ...mh.Multihash) error {
	g.gate("stop", 3, keys)
	return g.inner.StopProviding(keys...)
}

func (g *c17Gate) Clear() int             { return g.inner.Clear() }
func (g *c17Gate) RefreshSchedule() error { return g.inner.RefreshSchedule() }
func (g *c17Gate) Close() error           { return g.inner.Close() }

type c17BufOp struct {
	kind  string // start force once stop
	keys  []*c17Key
	done  bool
	batch int
}

func runC17Buffered(s *sim.Sim) {
	c17InitPools()
	c := genC17Cfg(s, false)
	// small instances: the property is about coalescing, not about scale
	if c.nPeers > 8 {
		c.nPeers = 8
	}
	c.nKeys = s.Range("buf-keys", 1, 6)
	c.skipBoot = false
	// Worker pools: ample, or exactly one worker with single-key operations.
	// Whether a queued key is still queued when a StopProviding reaches the
	// provider depends on how many regions were dequeued before; with k free
	// workers and more than k queued regions of equal size the provider picks
	// at random (map order in SortPrefixesBySize). One worker and one key per
	// operation keeps the provide queue strictly FIFO.
	maxPerOp := 3
	if !c.ample {
		c.maxW, c.dedP, c.dedB = 1, 0, 0
		maxPerOp = 1
	}
	s.MaxSteps = 150
	batchSize := s.Range("buf-batch-size", 1, 8)
	idleWrite := []time.Duration{time.Minute, 0, time.Second}[s.Draw("buf-idle-write", 3)]
	// The gate parks before EVERY call into the provider. Letting the worker run
	// several calls back to back would race it against the provideLoop goroutine
	// the previous call has just started (whether a StopProviding that follows
	// a ProvideOnce finds the key still queued is then decided by the Go
	// scheduler); with a park in between, the provider's goroutines have run as
	// far as they can before the next call, which is reproducible.
	every := true
	nOps := s.Range("buf-ops", 1, 14)
	s.Summary["cfg"] = fmt.Sprintf("%s | buffered: batchSize=%d idleWrite=%v gateEvery=%v ops=%d", c.String(), batchSize, idleWrite, every, nOps)
	s.Tracef("cfg %s", s.Summary["cfg"])

	h, restore := newC17H(s, c)
	defer restore()
	h.newProvider()
	if h.stop {
		s.Finish()
		return
	}
	h.lastSut = -1
	h.settle() // the node is online before anything is handed to the wrapper
	if h.sut.Load() != c17Online {
		s.Violate("buffered-setup", "the inner provider did not come online")
		s.Finish()
		return
	}

	gate := &c17Gate{h: h, inner: h.prov, every: every}
	var bp *buffered.SweepingProvider
	op := h.ops.Go(s, "buffered.New", func() (any, error) {
		bp = buffered.New(gate, namespace.Wrap(h.ds, dsapi.NewKey("/buf")), buffered.WithBatchSize(batchSize), buffered.WithIdleWriteTime(idleWrite))
		return nil, nil
	})
	s.Quiesce()
	if !op.Done || bp == nil {
		s.Violate("buffered-setup", "buffered.New did not return")
		s.Finish()
		return
	}

	// generated operation sequence and its reference outcome
	ops := make([]*c17BufOp, nOps)
	ref := map[int]bool{}      // reference keystore (key idx)
	must := map[int]bool{}     // must have been advertised at the end
	accepted := map[int]bool{} // named by an accepting operation at least once
	for i := range ops {
		o := &c17BufOp{keys: h.pickKeysMax("buf", maxPerOp)}
		switch s.Draw("buf-kind", 6) {
		case 0, 1:
			o.kind = "start"
		case 2:
			o.kind = "force"
		case 3:
			o.kind = "once"
		default:
			o.kind = "stop"
		}
		ops[i] = o
		for _, k := range o.keys {
			switch o.kind {
			case "start":
				if !ref[k.idx] {
					must[k.idx], accepted[k.idx] = true, true
				}
				ref[k.idx] = true
			case "force":
				must[k.idx], accepted[k.idx] = true, true
				ref[k.idx] = true
			case "once":
				must[k.idx], accepted[k.idx] = true, true
			case "stop":
				delete(ref, k.idx)
				delete(must, k.idx) // may or may not still go out
			}
		}
	}

	next := 0
	submit := func() {
		o := ops[next]
		next++
		s.Tracef("step op %s %s", o.kind, keyNames(o.keys))
		ok := h.api("buffered."+o.kind, func() error {
			switch o.kind {
			case "start":
				return bp.StartProviding(false, keyMhs(o.keys)...)
			case "force":
				return bp.StartProviding(true, keyMhs(o.keys)...)
			case "once":
				return bp.ProvideOnce(keyMhs(o.keys)...)
			default:
				return bp.StopProviding(keyMhs(o.keys)...)
			}
		})
		o.done = ok
	}
	release := func() bool {
		ps := s.ParkedKind("bufop")
		if len(ps) == 0 {
			return false
		}
		s.Tracef("step release %s", ps[0].ID)
		s.Release(ps[0], nil)
		s.Quiesce()
		if c17Debug {
			var ids []string
			for _, p := range s.Parked() {
				ids = append(ids, p.ID)
			}
			s.Tracef("  parked after release: %s | executed so far %s", strings.Join(ids, " "), c17Batches(gate))
		}
		return true
	}

	h.emitStep()
	for s.Step() {
		h.emitStep()
		if s.Failed() || h.stop {
			break
		}
		parked := len(s.ParkedKind("bufop")) > 0
		if next >= len(ops) {
			break
		}
		// value 0: submit the next operation (operations pile up behind a parked worker)
		switch s.Draw("buf-step", 8) {
		case 0, 1, 2, 3:
			submit()
		case 4, 5:
			if parked {
				release()
			} else {
				submit()
			}
		case 6:
			s.Tracef("step net")
			h.settle()
		default:
			d := []time.Duration{time.Second, time.Minute, 11 * time.Minute}[s.Draw("buf-dt", 3)] + c17Jitter
			s.Tracef("step advance %v", d)
			s.Count("time_advance")
			// does the queue spill to the datastore while the worker is held?
			h.advance(d)
			for k := range h.ds.Snapshot() {
				if strings.HasPrefix(k, "/buf/dsq-") {
					s.Count("probe_buf_queue_on_datastore")
					break
				}
			}
		}
	}

	// drain: release the worker until it is idle, answer the network, give the
	// provider's retry tick a chance
	if !s.Failed() && !h.stop {
		s.Tracef("drain")
		for i := 0; i < 400; i++ {
			if !release() {
				s.Sleep(time.Second) // an idle dsqueue flushes after its idle-write time at the latest
				h.settle()
				if len(s.ParkedKind("bufop")) == 0 {
					break
				}
			}
		}
		h.advance(c17FirstBound + time.Minute)
		for release() {
			h.settle()
		}
		h.settle()
		h.emitStep()
	}

	if !s.Failed() && !h.stop && next >= len(ops) {
		// what the wrapper executed
		total := 0
		for _, b := range gate.batches {
			total += len(b)
			if len(b) > 1 {
				s.Count("probe_buf_batch_multi_op")
			}
		}
		c17BufferedProbes(s, ops, batchSize, gate)

		// final keystore content (public Keystore API, client goroutine)
		var got []mh.Multihash
		ks := h.ks
		kop := h.ops.Go(s, "keystore.Get", func() (any, error) {
			var err error
			got, err = ks.Get(context.Background(), "")
			return nil, err
		})
		s.Quiesce()
		if !kop.Done || kop.Err != nil {
			s.Violate("buffered-keystore", "could not read the keystore: done=%v err=%v", kop.Done, kop.Err)
		} else {
			have := map[int]bool{}
			for _, m := range got {
				if k := h.byMh[string(m)]; k != nil {
					have[k.idx] = true
				} else {
					s.Violate("buffered-keystore", "keystore holds a key nobody provided")
				}
			}
			var want, is []string
			for _, k := range h.keys {
				if ref[k.idx] {
					want = append(want, k.name)
				}
				if have[k.idx] {
					is = append(is, k.name)
				}
			}
			if strings.Join(want, ",") != strings.Join(is, ",") {
				s.Violate("buffered-keystore", "final keystore content {%s}; applying the %d operations one by one gives {%s} (wrapper executed %s)", strings.Join(is, ","), len(ops), strings.Join(want, ","), c17Batches(gate))
			}
			s.Tracef("final keystore {%s}", strings.Join(is, ","))
		}
		// advertised at least once: one delivered ADD_PROVIDER
		adv := map[int]bool{}
		for _, r := range h.snd.Snapshot() {
			if r.Done && r.Err == nil && !r.Cancelled {
				if k := h.byMh[string(r.Req.GetKey())]; k != nil {
					adv[k.idx] = true
				}
			}
		}
		var advMust []string
		for _, k := range h.keys {
			if must[k.idx] && !adv[k.idx] {
				s.Violate("buffered-advertised", "%s was never advertised although its last accepting operation is not followed by a stop (operations: %s; wrapper executed %s)", k.name, c17OpList(ops), c17Batches(gate))
			}
			if adv[k.idx] && !accepted[k.idx] {
				s.Violate("buffered-phantom", "%s was advertised although no StartProviding/ProvideOnce named it", k.name)
			}
			if must[k.idx] && adv[k.idx] {
				advMust = append(advMust, k.name)
			}
		}
		s.Tracef("final advertised(must) {%s}", strings.Join(advMust, ","))
		s.State("bufops=%d batches=%d kept=%d", len(ops), len(gate.batches), len(ref))
		s.NonTrivial = len(gate.batches) > 0 && total > len(gate.batches)
	}
	if s.Steps > s.MaxSteps {
		s.Count("step_budget_exhausted")
	}

	ks := h.ks
	h.closeWith(func() error {
		err := bp.Close() // closes the inner provider through the gate
		if ks != nil {
			_ = ks.Close()
		}
		return err
	})
	closeAndCensus(s, func() {}) // goroutine census
	s.Finish()
}

// c17BufferedProbes counts which coalescing situations a run reached, from
// the submitted sequence and the batch boundaries the wrapper actually used.
func c17BufferedProbes(s *sim.Sim, ops []*c17BufOp, batchSize int, g *c17Gate) {
	for _, b := range g.batches {
		n := 0
		kinds := map[string]map[string]bool{}
		for _, e := range b {
			kind, names, _ := strings.Cut(e, ":")
			if kinds[kind] == nil {
				kinds[kind] = map[string]bool{}
			}
			for _, nm := range strings.Split(names, ",") {
				if nm != "" {
					kinds[kind][nm] = true
					n++
				}
			}
		}
		if n >= batchSize {
			s.Count("probe_buf_full_batch")
		}
		for nm := range kinds["stop"] {
			if kinds["start"][nm] || kinds["force"][nm] {
				s.Count("probe_buf_start_stop_same_batch")
			}
			if kinds["once"][nm] {
				s.Count("probe_buf_stop_once_same_batch")
			}
		}
	}
	// a stop followed by a start of the same key inside one executed batch is
	// invisible in the batch log (the wrapper drops the stop): detect it from
	// the submitted sequence when both fell into a window of batchSize items
	for i, o := range ops {
		if o.kind != "stop" {
			continue
		}
		for j := i + 1; j < len(ops) && j <= i+batchSize; j++ {
			if ops[j].kind == "start" || ops[j].kind == "force" {
				for _, a := range o.keys {
					for _, b := range ops[j].keys {
						if a == b {
							s.Count("probe_buf_stop_start_same_batch")
						}
					}
				}
			}
		}
	}
}

func c17OpList(ops []*c17BufOp) string {
	var out []string
	for _, o := range ops {
		out = append(out, o.kind+"("+keyNames(o.keys)+")")
	}
	return strings.Join(out, " ")
}

func c17Batches(g *c17Gate) string {
	var out []string
	for _, b := range g.batches {
		out = append(out, "["+strings.Join(b, " ")+"]")
	}
	return strings.Join(out, " ")
}

// pickKeysMax picks a window of at most maxN keys.
func (h *c17H) pickKeysMax(label string, maxN int) []*c17Key {
	s := h.s
	n := s.Range(label+"-n", 1, min(maxN, len(h.keys)))
	off := s.Draw(label+"-off", len(h.keys))
	var out []*c17Key
	for i := 0; i < n; i++ {
		out = append(out, h.keys[(off+i)%len(h.keys)])
	}
	return out
}
