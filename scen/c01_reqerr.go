//go:build all || c01

package scen

import (
	"context"
	"fmt"
	"io"

	"github.com/libp2p/go-libp2p/core/network"
	"github.com/libp2p/go-libp2p/core/peer"
	"github.com/libp2p/go-libp2p/core/protocol"
	"github.com/multiformats/go-multistream"

	"verif/sim"
)

// The SHAPE of a request failure as a drawn input.
//
// The property says "none of them had failed a dial or request when the
// lookup's search phase ended" and "the published update events agree with
// what remote peers were actually asked and what they actually answered". It
// makes no distinction between the ways a request can fail: a peer whose
// request failed did not answer, whatever the error value says about how far
// the attempt got. A real message sender reports many different errors (the
// stream was reset, the remote hung up, the remote's host refused the
// protocol at negotiation, a deadline expired, the connection went away under
// the request); the lookup sees them only as the error of its request. So the
// error a failing request is released with is drawn from a palette of such
// shapes (value 0 = the plain harness error); no oracle rule looks at the
// shape: every existing clause (event-queried-unanswered,
// event-missing-unreachable, result-failed-on-wire, result) applies to every
// failed request alike. Class of regressions exposed: any special-casing of
// particular request errors in the lookup's failure path.
var c01ReqErrShapes = []struct {
	name string
	mk   func() error
}{
	{"plain", func() error { return errReqFailed }},
	{"deadline", func() error { return context.DeadlineExceeded }},
	{"eof", func() error { return io.EOF }},
	{"reset", func() error { return network.ErrReset }},
	{"noconn", func() error { return network.ErrNoConn }},
	{"notsupported", func() error {
		return multistream.ErrNotSupported[protocol.ID]{Protos: []protocol.ID{"/sim/kad/1.0.0"}}
	}},
	{"notsupported_wrapped", func() error {
		return fmt.Errorf("failed to open stream: %w", multistream.ErrNotSupported[protocol.ID]{Protos: []protocol.ID{"/sim/kad/1.0.0"}})
	}},
	{"remote_canceled", func() error { return fmt.Errorf("request aborted by the sender: %w", context.Canceled) }},
}

// c01ReqErrFaults: the counters of the palette (for the Faults lists).
func c01ReqErrFaults() []string {
	var out []string
	for _, sh := range c01ReqErrShapes {
		out = append(out, "fault_reqerr_"+sh.name)
	}
	return out
}

// c01ReqErr is a lookupCfg.ReqErr hook: one draw per failing request.
func c01ReqErr(s *sim.Sim) func(peer.ID) error {
	return func(peer.ID) error {
		sh := c01ReqErrShapes[s.Draw("req-err", len(c01ReqErrShapes))]
		s.Count("fault_reqerr_" + sh.name)
		return sh.mk()
	}
}
