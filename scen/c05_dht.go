//go:build all || c05

package scen

import (
	"bytes"
	"context"
	"errors"
	"fmt"
	"slices"
	"strings"
	"time"

	dht "github.com/libp2p/go-libp2p-kad-dht"
	pb "github.com/libp2p/go-libp2p-kad-dht/pb"
	record "github.com/libp2p/go-libp2p-record"
	recpb "github.com/libp2p/go-libp2p-record/pb"
	"github.com/libp2p/go-libp2p/core/event"
	"github.com/libp2p/go-libp2p/core/host"
	"github.com/libp2p/go-libp2p/core/network"
	"github.com/libp2p/go-libp2p/core/peer"
	"github.com/libp2p/go-libp2p/core/protocol"
	"github.com/libp2p/go-libp2p/core/routing"
	"google.golang.org/protobuf/proto"

	"verif/sim"
	"verif/simds"
	"verif/simhost"
	"verif/simnet"
)

// C05 scenario around a whole node (rules and clauses: see the header of
// c05.go; the oracle is shared). Remote PUT_VALUE records carry a drawn
// sender-supplied time_received field and, among the invalid flavours, values
// that are valid under another key of the same run; reads are additionally
// judged on the harness clock (served-expired-by-receipt,
// unreadable-before-age-out): a remote writer controls every byte of its
// record, the node's clock alone decides when "the configured maximum age" is
// reached. The validator here does not depend on the clock (time-dependent
// verdicts are generated in the value-store scenario only; on a node C04 owns
// them).
//
// The node's MODE is a drawn input: the property speaks of "a node" and of
// "local puts", not of a server. A run draws server mode, client mode, or auto
// mode (the node starts as a client and follows drawn local-reachability events
// emitted on the event bus; up to three per run). Remote PUT_VALUE / GET_VALUE
// requests exist only while the node has its stream handler registered (the
// harness looks at the host's handler table, as a remote peer's protocol
// negotiation would); in a client-mode run the drawn remote operations become
// local ones. Local PutValue / GetValue are judged by the same rules in every
// mode.
//
// Rules that look at the datastore itself instead of at the node's own reads
// (c05Oracle.storedThroughout; a node that skips the read, or the store, on
// some path is not excused by having looked at nothing):
//
//	local-put-not-refused      "a local PutValue is refused when a better value is already stored":
//	                           the key held, from before the PutValue began until it returned, valid
//	                           records ranked better than the put one, none of them max-age old when
//	                           it returned (harness clock), no delete in between - the call must fail.
//	unreadable-before-age-out  "an acknowledged put is immediately readable until it ages out": the key
//	                           held such records throughout a local GetValue / a remote GET_VALUE
//	                           (from the delivery of the request to the response) - the read must
//	                           return a record. Every stored record was put there by an acknowledged
//	                           or in-flight put of the run (stored-invalid, ack-without-write).
func init() {
	sim.Register(&sim.Scenario{Prop: "C05", Name: "dht-node", Weight: 3, Run: runC05Node,
		Real: []string{"IpfsDHT in server mode: handleNewStream/handleNewMessage, handlePutValue, handleGetValue, PutValue, GetValue/SearchValue local read path, records.ValueStore incl. background sweep", "msgio framing"},
		Stub: []string{"host + inbound streams (simhost.Fabric, scripted remote writers/readers)", "outbound RPCs (level-A sender, one honest scripted peer)", "datastore (simds: every operation parks)", "validator (harness rank validator)", "lock hand-over (scheduler-owned)"},
		Faults: []string{"lock_contended", "time_advance", "probe_remote_put_ack", "probe_remote_put_refused", "probe_local_put_refused", "probe_msgkey_mismatch_rejected", "probe_remote_get_served", "probe_remote_get_expired", "probe_local_get", "probe_gc_delete", "probe_age_boundary_crossed",
			"probe_put_sender_stamp_acked", "probe_put_other_key_value", "probe_receipt_fresh_read", "probe_receipt_stale_read",
			"probe_mode_client", "probe_mode_auto", "fault_reachability_change", "probe_auto_became_server", "probe_auto_back_to_client", "probe_client_mode_put_ack", "probe_client_mode_put_refused", "probe_client_mode_get",
			"probe_better_stored_throughout_put", "probe_stored_throughout_local_get", "probe_stored_throughout_remote_get"},
	})
}

type c05nOp struct {
	n      int
	kind   string // rput rget lput lget
	remote int
	key    string
	rank   int
	flavor string // valid invalid miskeyed-value msgkey-mismatch other-key-value
	other  string // other-key-value: the key the value belongs to
	stamp  int    // rput: sender-supplied time_received (c05Stamp kind, 0 = none)
	tag    string

	started   bool
	startStep int  // local: step at which the call began
	noHandler bool // local: the node had no stream handler registered (client mode) when the call began
	sentStep  int  // remote: step at which the request bytes were completely delivered to the node
	done      bool
	doneStep  int
	doneAt    time.Duration // harness clock when the operation finished
	err       error
	lval      []byte      // lget result
	resp      *pb.Message // remote: response (nil + reset => refused)
	reset     bool
	startedAt time.Duration
}

type c05Remote struct {
	p        *simnet.Peer
	a, b     *simhost.Stream // a = scripted remote end, b = node's end (handler)
	parser   frameParser
	cur      *c05nOp
	sentFull bool
}

func runC05Node(s *sim.Sim) {
	s.MaxSteps = 1200
	s.LockSched = true
	maxAge := []time.Duration{10 * time.Minute, time.Hour}[s.Draw("max-age", 2)]
	gcEvery := []time.Duration{time.Minute, 7 * time.Minute}[s.Draw("gc-interval", 2)]
	nRemotes := s.Range("remotes", 1, 3)
	nOps := s.Range("ops", 2, 24)
	keys := []string{"/v/a1", "/v/b1", "/v/c2"}[:s.Range("keys", 1, 3)]
	modeName := []string{"server", "server", "client", "auto"}[s.Draw("mode", 4)]
	modeOpt := map[string]dht.ModeOpt{"server": dht.ModeServer, "client": dht.ModeClient, "auto": dht.ModeAuto}[modeName]
	reachLeft := 0
	if modeName == "auto" {
		reachLeft = s.Range("reach-events", 1, 3)
	}

	u := simnet.NewUniverse(uint64(s.Draw("universe", 1<<16)), nRemotes+1)
	lookupPeer := u.Peers[nRemotes]
	h := simhost.New(s, u.Self.ID, u.Self.Addrs, u.Name)
	fab := simhost.NewFabric(s)
	d := simds.New(s, "ds")
	d.ParkOp = func(op, key string) bool { return true }
	rv := rankValidator{}
	or := &c05Oracle{s: s, val: rv, maxAge: maxAge, owned: func(k string) bool { return strings.HasPrefix(k, "/v/") }}
	d.OnApply = or.onApply
	d.Poke("/other/thing", []byte("foreign"))

	var snd *simnet.Sender
	node, err := dht.New(h,
		dht.ProtocolPrefix("/sim"), dht.Mode(modeOpt), dht.BucketSize(4), dht.Concurrency(2), dht.Resiliency(1),
		dht.DisableAutoRefresh(), dht.Datastore(d), dht.Validator(record.NamespacedValidator{"v": rv}),
		dht.MaxRecordAge(maxAge), dht.ValueGCInterval(gcEvery),
		dht.WithCustomMessageSender(func(_ host.Host, _ []protocol.ID) pb.MessageSenderWithDisconnect {
			snd = &simnet.Sender{S: s, U: u}
			return snd
		}))
	if err != nil {
		panic(err)
	}
	_ = snd
	// construction touches the provider datastore; let it through
	settle := func() {
		for i := 0; i < 50; i++ {
			s.Quiesce()
			ps := s.ParkedKind("ds")
			if len(ps) == 0 {
				return
			}
			s.Release(ps[0], nil)
		}
	}
	settle()
	h.Peerstore().AddAddrs(lookupPeer.ID, lookupPeer.Addrs, time.Hour*100)
	var seedOps opSet
	seedOps.Go(s, "seed", func() (any, error) {
		_, err := node.RoutingTable().TryAddPeer(lookupPeer.ID, true, false)
		return nil, err
	})
	settle()
	const kadProto = protocol.ID("/sim/kad/1.0.0")
	emReach, err := h.RealBus().Emitter(new(event.EvtLocalReachabilityChanged))
	if err != nil {
		panic(err)
	}
	defer emReach.Close()
	switch modeName {
	case "client":
		s.Count("probe_mode_client")
	case "auto":
		s.Count("probe_mode_auto")
	}
	// serving: a remote peer can open a DHT stream to the node right now
	serving := func() bool { return h.Handler(kadProto) != nil }

	s.Summary["cfg"] = fmt.Sprintf("maxAge=%v gc=%v remotes=%d ops=%d keys=%d mode=%s reach=%d", maxAge, gcEvery, nRemotes, nOps, len(keys), modeName, reachLeft)

	remotes := make([]*c05Remote, nRemotes)
	for i := range remotes {
		remotes[i] = &c05Remote{p: u.Peers[i]}
	}
	ops := make([]*c05nOp, nOps)
	for i := range ops {
		o := &c05nOp{n: i, key: keys[s.Draw("key", len(keys))], tag: fmt.Sprintf("o%03d", i), remote: s.Draw("remote", nRemotes)}
		switch s.Draw("kind", 8) {
		case 0, 1:
			o.kind = "rget"
		case 2:
			o.kind = "lget"
		case 3, 4:
			o.kind = "lput"
		default:
			o.kind = "rput"
		}
		if modeName == "client" {
			// nobody can send this node a request: the writers and readers are local
			o.kind = map[string]string{"rget": "lget", "lget": "lget", "rput": "lput", "lput": "lput"}[o.kind]
		}
		if o.kind == "rput" || o.kind == "lput" {
			o.rank = s.Draw("rank", 6)
			switch s.Draw("flavor", 8) {
			case 0:
				o.flavor = "invalid"
			case 1:
				o.flavor = "miskeyed-value"
			case 2:
				o.flavor = "msgkey-mismatch"
				if o.kind == "lput" {
					o.flavor = "valid"
				}
			case 3:
				// a value that is valid, but under another key of this run
				o.flavor = "valid"
				if len(keys) > 1 {
					o.flavor = "other-key-value"
					o.other = keys[(slices.Index(keys, o.key)+1+s.Draw("other-key", len(keys)-1))%len(keys)]
				}
			default:
				o.flavor = "valid"
			}
			if o.kind == "rput" {
				o.stamp = s.Draw("stamp", c05StampKinds)
			}
		}
		ops[i] = o
	}
	value := func(o *c05nOp) []byte {
		switch o.flavor {
		case "invalid":
			return []byte("not a rank value")
		case "miskeyed-value":
			return rankValue(o.rank, time.Time{}, o.key+"x")
		case "other-key-value":
			return rankValue(o.rank, time.Time{}, o.other)
		}
		return rankValue(o.rank, time.Time{}, o.key)
	}
	// receipt windows (harness clock): a tagged write belongs to the local put
	// with that tag; an untagged one to a remote PUT_VALUE in flight with the
	// same key and value (the earliest, if several)
	or.recvLo = func(r *simds.Rec) (time.Duration, bool) {
		rec := new(recpb.Record)
		if proto.Unmarshal(r.Val, rec) != nil {
			return 0, false
		}
		lo, found := time.Duration(0), false
		for _, o := range ops {
			if !o.started || o.done || string(rec.GetKey()) != o.key || !bytes.Equal(rec.GetValue(), value(o)) {
				continue
			}
			if (o.kind == "lput" && r.Tag == "@"+o.tag) || (o.kind == "rput" && r.Tag == "") {
				if !found || o.startedAt < lo {
					lo, found = o.startedAt, true
				}
			}
		}
		return lo, found
	}

	// local operations run on client goroutines
	var clients opSet
	for _, o := range ops {
		o := o
		if o.kind != "lput" && o.kind != "lget" {
			continue
		}
		clients.Go(s, o.tag, func() (any, error) {
			s.Park("client", o.tag, nil, o)
			ctx := sim.WithTag(context.Background(), o.tag)
			o.started, o.startedAt, o.startStep, o.noHandler = true, s.Now(), s.Steps, !serving()
			if o.kind == "lput" {
				o.err = node.PutValue(ctx, o.key, value(o))
			} else {
				o.lval, o.err = node.GetValue(ctx, o.key, dht.Quorum(1))
			}
			o.done, o.doneStep, o.doneAt = true, s.Steps, s.Now()
			return nil, nil
		})
	}
	s.Quiesce()

	dsKeyOf := func(key string) string {
		for k := range d.Snapshot() {
			if dk, ok := decodeDsKey(k); ok && dk == key {
				return k
			}
		}
		return ""
	}
	_ = dsKeyOf

	// getsBetween: datastore reads of the record key in a step window
	getsBetween := func(key string, from, to int) []*simds.Rec {
		var out []*simds.Rec
		for _, r := range d.Log() {
			if r.Op != "get" || r.Step < from || r.Step > to {
				continue
			}
			if dk, ok := decodeDsKey(r.Key); ok && dk == key {
				out = append(out, r)
			}
		}
		return out
	}
	// classify the content a read saw: "fresh" (valid, age < max), "stale" (age > max), "none", "boundary"
	classify := func(r *simds.Rec) (string, *recpb.Record) {
		if !r.Found {
			return "none", nil
		}
		rec, _, ok := or.parseStored(r.Key, r.Val)
		if !ok {
			return "none", nil
		}
		t, err := time.Parse(time.RFC3339Nano, rec.GetTimeReceived())
		if err != nil {
			return "none", nil
		}
		age := s.Start.Add(r.At).Sub(t)
		switch {
		case age > maxAge:
			return "stale", rec
		case age < maxAge:
			return "fresh", rec
		}
		return "boundary", rec
	}

	checked := map[int]bool{}
	judge := func() {
		for _, o := range ops {
			if !o.done || checked[o.n] {
				continue
			}
			checked[o.n] = true
			switch o.kind {
			case "rput":
				acked := o.resp != nil
				if o.flavor == "other-key-value" {
					s.Count("probe_put_other_key_value")
				}
				if acked && o.stamp != 0 {
					s.Count("probe_put_sender_stamp_acked")
				}
				if acked {
					s.Count("probe_remote_put_ack")
					if o.flavor != "valid" {
						s.Violate("accepted-invalid", "remote PUT_VALUE with a %s record for %s was acknowledged", o.flavor, o.key)
					}
					// its own write: a successful datastore put of exactly this value in the window
					wrote := false
					for _, r := range d.Log() {
						if r.Op == "put" && r.Err == nil && r.Step >= o.sentStep && r.Step <= o.doneStep {
							if rec, _, ok := or.parseStored(r.Key, r.Val); ok && string(rec.GetKey()) == o.key && bytes.Equal(rec.GetValue(), value(o)) {
								wrote = true
							}
						}
					}
					if !wrote {
						s.Violate("ack-without-write", "PUT_VALUE %s rank %d acknowledged but no datastore write of it happened", o.key, o.rank)
					}
					if o.resp.GetRecord() == nil || !bytes.Equal(o.resp.GetRecord().GetValue(), value(o)) {
						s.Violate("ack-wrong-echo", "PUT_VALUE %s acknowledged with a different record", o.key)
					}
				} else {
					if o.flavor == "msgkey-mismatch" {
						s.Count("probe_msgkey_mismatch_rejected")
					} else if o.flavor == "valid" {
						s.Count("probe_remote_put_refused")
					}
				}
			case "rget":
				if o.resp == nil {
					continue // reset: allowed by C05 (C09 judges well-formedness)
				}
				gets := getsBetween(o.key, o.sentStep, o.doneStep)
				rec := o.resp.GetRecord()
				_, heldThroughout := or.storedThroughout(o.key, o.sentStep, o.doneStep, o.doneAt, "")
				if heldThroughout {
					s.Count("probe_stored_throughout_remote_get")
				}
				if rec != nil {
					s.Count("probe_remote_get_served")
					if string(rec.GetKey()) != o.key {
						s.Violate("served-miskeyed", "GET_VALUE %s answered with a record for key %q", o.key, rec.GetKey())
					}
					ok := false
					same, sameStale := 0, 0 // reads that saw the served record / ... and it was past the max age on the harness clock
					for _, g := range gets {
						cl, stored := classify(g)
						if (cl == "fresh" || cl == "boundary") && proto.Equal(stored, rec) {
							ok = true
						}
						if stored, _, sok := or.parseStored(g.Key, g.Val); g.Found && sok && proto.Equal(stored, rec) {
							same++
							if or.byReceipt(g) == "stale" {
								sameStale++
							}
						}
					}
					if same > 0 && same == sameStale {
						s.Count("probe_receipt_stale_read")
						s.Violate("served-expired-by-receipt", "GET_VALUE %s served a record that the node had received more than the max age %v before every datastore read that saw it (harness clock); its stored time_received is %q", o.key, maxAge, rec.GetTimeReceived())
					}
					if !ok {
						s.Violate("served-not-stored", "GET_VALUE %s served a record that was not the stored, valid, unexpired content at any of its datastore reads", o.key)
					}
				} else {
					// the datastore itself: the key held valid, un-aged records from
					// before the request reached the node until the response left it
					if heldThroughout {
						s.Violate("unreadable-before-age-out", "GET_VALUE %s served nothing although the datastore held, from before the request was delivered until the response, valid records for the key that the node had received less than the max age %v before (harness clock); the handler read the key %d times", o.key, maxAge, len(gets))
					}
					// harness clock: every read of the key in the window saw a valid
					// record the node had received less than the max age before
					allFresh := len(gets) > 0
					for _, g := range gets {
						switch or.byReceipt(g) {
						case "fresh":
						case "stale":
							s.Count("probe_receipt_stale_read")
							allFresh = false
						default:
							allFresh = false
						}
					}
					if allFresh {
						s.Violate("unreadable-before-age-out", "GET_VALUE %s served nothing although every datastore read of the key saw a valid record the node had received less than the max age %v before (harness clock)", o.key, maxAge)
					}
					// nothing served: some read in the window must have seen nothing servable
					ok := len(gets) == 0
					for _, g := range gets {
						cl, _ := classify(g)
						if cl == "none" || cl == "stale" || cl == "boundary" {
							ok = true
						}
						if cl == "stale" {
							s.Count("probe_remote_get_expired")
						}
					}
					if !ok {
						s.Violate("get-missing", "GET_VALUE %s served nothing although every datastore read of the key saw a valid unexpired record", o.key)
					}
				}
			case "lput":
				var mine []*simds.Rec
				for _, r := range d.Log() {
					if r.Tag == "@"+o.tag {
						mine = append(mine, r)
					}
				}
				wrote := false
				betterSeen := false
				for _, r := range mine {
					if r.Op == "put" && r.Err == nil {
						wrote = true
					}
					if r.Op == "get" {
						if cl, rec := classify(r); cl == "fresh" {
							if rk, _, _, err := parseRankValue(rec.GetValue()); err == nil && rk > o.rank {
								betterSeen = true
							}
						}
					}
				}
				if o.err == nil && !wrote {
					s.Violate("ack-without-write", "local PutValue %s rank %d returned nil but wrote nothing", o.key, o.rank)
				}
				if o.err == nil && o.flavor != "valid" {
					s.Violate("accepted-invalid", "local PutValue of a %s value for %s was accepted", o.flavor, o.key)
				}
				if betterSeen {
					s.Count("probe_local_put_refused")
					if o.err == nil {
						s.Violate("local-put-not-refused", "local PutValue %s rank %d succeeded although a better unexpired value was stored when it looked", o.key, o.rank)
					}
				}
				// the same, judged on the datastore itself (whether or not the call looked)
				if o.flavor == "valid" {
					if worst, ok := or.storedThroughout(o.key, o.startStep, o.doneStep, o.doneAt, "@"+o.tag); ok && worst > o.rank {
						s.Count("probe_better_stored_throughout_put")
						if o.noHandler {
							s.Count("probe_client_mode_put_refused")
						}
						if o.err == nil {
							s.Violate("local-put-not-refused", "local PutValue %s rank %d returned nil although the datastore held, from before the call until its return, valid records of rank >= %d for the key, none of them max-age (%v) old (harness clock); the call read the key %d times (node serving=%v when it began)", o.key, o.rank, worst, maxAge, len(getsTagged(mine)), !o.noHandler)
						}
					}
				}
				if o.err == nil && o.noHandler {
					s.Count("probe_client_mode_put_ack")
				}
			case "lget":
				s.Count("probe_local_get")
				if o.noHandler {
					s.Count("probe_client_mode_get")
				}
				// the datastore itself: valid, un-aged records under the key from before
				// the call until its return
				if _, ok := or.storedThroughout(o.key, o.startStep, o.doneStep, o.doneAt, "@"+o.tag); ok {
					s.Count("probe_stored_throughout_local_get")
					if errors.Is(o.err, routing.ErrNotFound) || (o.err == nil && o.lval == nil) {
						s.Violate("unreadable-before-age-out", "local GetValue %s found nothing although the datastore held, from before the call until its return, valid records for the key that the node had received less than the max age %v before (harness clock) (node serving=%v when it began)", o.key, maxAge, !o.noHandler)
					}
				}
				var first *simds.Rec
				for _, r := range d.Log() {
					if r.Tag == "@"+o.tag && r.Op == "get" {
						first = r
						break
					}
				}
				if first == nil {
					continue
				}
				switch or.byReceipt(first) {
				case "fresh":
					s.Count("probe_receipt_fresh_read")
					if errors.Is(o.err, routing.ErrNotFound) {
						s.Violate("unreadable-before-age-out", "local GetValue %s found nothing although the node had received the stored record less than the max age %v before the read (harness clock)", o.key, maxAge)
					}
				case "stale":
					s.Count("probe_receipt_stale_read")
					if o.err == nil && o.lval != nil {
						s.Violate("served-expired-by-receipt", "local GetValue %s returned a value the node had received more than the max age %v before the read (harness clock)", o.key, maxAge)
					}
				}
				cl, rec := classify(first)
				switch cl {
				case "stale", "none":
					if o.err == nil && o.lval != nil {
						s.Violate("served-expired", "local GetValue %s returned a value although the stored record was absent, invalid or older than the maximum age", o.key)
					}
				case "fresh":
					if o.err == nil && !bytes.Equal(o.lval, rec.GetValue()) {
						s.Violate("get-wrong", "local GetValue %s returned a value different from the stored one", o.key)
					}
					if errors.Is(o.err, routing.ErrNotFound) {
						s.Violate("get-missing", "local GetValue %s found nothing although a valid unexpired record was stored when it read", o.key)
					}
				}
			}
		}
	}

	pump := func() {
		for _, r := range remotes {
			if r.a == nil {
				continue
			}
			data, _, reset := r.a.TakeDelivered()
			for _, f := range r.parser.Feed(data) {
				m, err := decodeMsg(f)
				if err != nil {
					s.Violate("wire-garbage", "node wrote an undecodable frame")
					continue
				}
				if r.cur != nil && !r.cur.done {
					r.cur.resp, r.cur.done, r.cur.doneStep, r.cur.doneAt = m, true, s.Steps, s.Now()
					r.cur = nil
				}
			}
			if reset || r.a.IsReset() {
				if r.cur != nil && !r.cur.done {
					r.cur.reset, r.cur.done, r.cur.doneStep, r.cur.doneAt = true, true, s.Steps, s.Now()
					r.cur = nil
				}
				r.a, r.b = nil, nil
				r.parser = frameParser{}
			}
			if r.cur != nil && !r.sentFull {
				if n, _ := r.b.Pending(); n == 0 {
					r.sentFull = true
					r.cur.sentStep = s.Steps
				}
			}
		}
	}

	allDone := func() bool {
		for _, o := range ops {
			if !o.done {
				if (o.kind == "rput" || o.kind == "rget") && !o.started && !serving() && reachLeft == 0 {
					continue // the node is a client for good: nobody can send it this request
				}
				return false
			}
		}
		return true
	}

	sawBoundary := false
	idle := 0
	for s.Step() {
		pump()
		judge()
		if s.Failed() || allDone() {
			break
		}
		var acts []sim.Action
		for _, p := range s.Parked() {
			p := p
			switch p.Kind {
			case "client":
				acts = append(acts, sim.Action{ID: p.ID, Do: func() { s.Release(p, nil) }})
			case "ds":
				acts = append(acts, sim.Action{ID: p.ID, Do: func() { s.Release(p, nil) }})
			case "dial":
				acts = append(acts, sim.Action{ID: p.ID, Do: func() { s.Release(p, nil) }})
			case "rpc":
				r := p.Data.(*simnet.RPC)
				acts = append(acts, sim.Action{ID: p.ID, Do: func() {
					if p.Cancelled() {
						s.ReleaseCancelled(p)
						return
					}
					resp := &pb.Message{Type: r.Req.GetType(), Key: r.Req.GetKey()}
					if r.Req.GetType() == pb.Message_PUT_VALUE {
						resp.Record = r.Req.GetRecord()
					}
					s.Release(p, simnet.Reply{Msg: resp})
				}})
			}
		}
		acts = append(acts, s.LockActions()...)
		// auto mode: the host learns about its reachability
		if reachLeft > 0 {
			acts = append(acts, sim.Action{ID: "reach", Do: func() {
				reachLeft--
				to := []network.Reachability{network.ReachabilityPublic, network.ReachabilityPrivate, network.ReachabilityUnknown}[s.Draw("reach-to", 3)]
				was := serving()
				s.Count("fault_reachability_change")
				if err := emReach.Emit(event.EvtLocalReachabilityChanged{Reachability: to}); err != nil {
					panic(err)
				}
				s.Quiesce()
				now := serving()
				s.Tracef("reachability %v serving=%v", to, now)
				if !was && now {
					s.Count("probe_auto_became_server")
				}
				if was && !now {
					s.Count("probe_auto_back_to_client")
				}
			}})
		}
		// remote requests: one outstanding per remote, only while the node serves
		for i, r := range remotes {
			i, r := i, r
			if r.cur != nil || !serving() {
				continue
			}
			for _, o := range ops {
				o := o
				if (o.kind == "rput" || o.kind == "rget") && o.remote == i && !o.started {
					acts = append(acts, sim.Action{ID: fmt.Sprintf("send:r%d:%s", i, o.tag), Do: func() {
						if r.a == nil {
							conn := h.Net().SetConnected(r.p.ID, true)
							r.a, r.b = fab.NewPair("in:"+r.p.Name, kadProto, r.p.ID, u.Self.ID, nil, conn)
							r.a.Scripted = true
							go h.Handler(kadProto)(r.b)
						}
						o.started, o.startedAt = true, s.Now()
						r.cur, r.sentFull = o, false
						var m *pb.Message
						if o.kind == "rget" {
							m = pb.NewMessage(pb.Message_GET_VALUE, []byte(o.key), 0)
						} else {
							m = pb.NewMessage(pb.Message_PUT_VALUE, []byte(o.key), 0)
							m.Record = &recpb.Record{Key: []byte(o.key), Value: value(o), TimeReceived: c05Stamp(o.stamp, maxAge)}
							if o.flavor == "msgkey-mismatch" {
								m.Key = []byte(o.key + "y")
							}
						}
						_, _ = r.a.Write(encodeFrame(m))
					}})
					break // requests of one remote go out in order
				}
			}
		}
		for _, st := range fab.Streams() {
			st := st
			if n, eof := st.Pending(); n > 0 || eof {
				acts = append(acts, sim.Action{ID: "deliver:" + st.Name(), Do: func() { st.Deliver(0) }})
			}
		}
		if len(acts) == 0 || s.Chance("advance", 1, 12) {
			menu := []time.Duration{time.Second, time.Minute, 7 * time.Minute, 10*time.Minute - time.Second, 10*time.Minute + time.Second, time.Hour + time.Second}
			dt := menu[s.Draw("dt", len(menu))]
			if dt >= 50*time.Second {
				// the server resets streams idle for a minute; a remote with a request
				// in flight would lose it — only jump when no remote exchange is open
				busy := false
				for _, r := range remotes {
					busy = busy || r.cur != nil
				}
				if busy {
					dt = time.Second
				}
			}
			s.Count("time_advance")
			if dt >= maxAge && !sawBoundary {
				sawBoundary = true
				s.Count("probe_age_boundary_crossed")
			}
			s.Sleep(dt)
			if len(acts) == 0 {
				idle++
				if idle > 30 {
					break
				}
			}
			continue
		}
		idle = 0
		s.Choose("next", acts)
	}
	pump()
	judge()
	if !s.Failed() && !allDone() && s.Steps <= s.MaxSteps {
		var stuck []string
		for _, o := range ops {
			if o.started && !o.done {
				stuck = append(stuck, o.tag+":"+o.kind)
			}
		}
		if len(stuck) > 0 {
			s.Violate("node-wedged", "operations %v did not finish although nothing is parked", stuck)
		}
	}
	if s.Steps > s.MaxSteps {
		s.Count("step_budget_exhausted")
	}
	nAck := 0
	for _, o := range ops {
		if o.done && ((o.kind == "rput" && o.resp != nil) || (o.kind == "lput" && o.err == nil)) {
			nAck++
		}
	}
	s.Tracef("done acked=%d log=%d", nAck, d.LogLen())
	s.State("acked=%d keys=%d", nAck, len(keys))
	s.NonTrivial = nAck >= 1 && (s.Stats["lock_contended"] > 0 || s.Stats["probe_gc_delete"] > 0 || s.Stats["probe_remote_put_refused"]+s.Stats["probe_local_put_refused"] > 0)

	d.ParkOp = nil
	s.LockSched = false
	for _, r := range remotes {
		if r.a != nil {
			r.a.SimReset()
		}
	}
	closeAndCensus(s, func() {
		_ = node.Close()
		_ = h.Close()
	})
	s.Finish()
}

var _ = peer.ID("")

func getsTagged(rs []*simds.Rec) []*simds.Rec {
	var out []*simds.Rec
	for _, r := range rs {
		if r.Op == "get" {
			out = append(out, r)
		}
	}
	return out
}
