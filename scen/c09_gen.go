//go:build all || c09

package scen

// Request generation for C09. This is input SAMPLING: message types (known and
// unknown enum values) x key classes x records x peer lists x wire-level
// damage. Every choice is a tape draw; value 0 is always the plainest choice
// (an honest FIND_NODE), so that shrinking removes oddities.

import (
	"encoding/binary"
	"fmt"
	"math"
	"strings"
	"sync"
	"time"

	pb "github.com/libp2p/go-libp2p-kad-dht/pb"
	recpb "github.com/libp2p/go-libp2p-record/pb"
	"github.com/libp2p/go-libp2p/core/network"
	"github.com/libp2p/go-libp2p/core/peer"
	ma "github.com/multiformats/go-multiaddr"
	"google.golang.org/protobuf/proto"

	"verif/simnet"
)

// c09Rng is a splitmix64 stream; always seeded from tape draws.
type c09Rng uint64

func (r *c09Rng) next() uint64 {
	*r += 0x9e3779b97f4a7c15
	z := uint64(*r)
	z = (z ^ (z >> 30)) * 0xbf58476d1ce4e5b9
	z = (z ^ (z >> 27)) * 0x94d049bb133111eb
	return z ^ (z >> 31)
}

func c09Bytes(seed uint64, n int) []byte {
	r := c09Rng(seed)
	out := make([]byte, n)
	for i := range out {
		out[i] = byte(r.next())
	}
	return out
}

// c09Key returns n deterministic bytes that start with tag.
func c09Key(tag string, n int) []byte {
	out := make([]byte, n)
	for i := range out {
		if i < len(tag) {
			out[i] = tag[i]
		} else {
			out[i] = byte('a' + i%23)
		}
	}
	return out
}

// c09Shuffle returns a stateless (hence goroutine-safe and call-order
// independent) permutation function for the provider manager.
func c09Shuffle(seed uint64) func(n int, swap func(i, j int)) {
	return func(n int, swap func(i, j int)) {
		r := c09Rng(seed ^ uint64(n)*0x9e3779b97f4a7c15)
		for i := n - 1; i > 0; i-- {
			swap(i, int(r.next()%uint64(i+1)))
		}
	}
}

var (
	c09FatOnce sync.Once
	c09Fat     []ma.Multiaddr
)

// c09FatAddrs returns n distinct multiaddrs of identical serialized length
// (~250 bytes each): 40 of them are ~10 KiB, above the 8 KiB record bound and
// below the peerstore's per-peer cap of 64 unconnected addresses. They are
// plain immutable data, built once per process.
func c09FatAddrs(n int) []ma.Multiaddr {
	c09FatOnce.Do(func() {
		for i := 0; i < 128; i++ {
			name := fmt.Sprintf("h%03d.", i) + strings.Repeat("x", 235)
			c09Fat = append(c09Fat, ma.StringCast("/dns4/"+name+"/tcp/4001"))
		}
	})
	return append([]ma.Multiaddr(nil), c09Fat[:n]...)
}

// c09FilterPass is the harness-chosen address policy of the node under test:
// IPv4 loopback addresses are dropped.
func c09FilterPass(a ma.Multiaddr) bool {
	b := a.Bytes()
	return !(len(b) >= 2 && b[0] == 0x04 && b[1] == 127)
}

func c09Filter(addrs []ma.Multiaddr) []ma.Multiaddr {
	out := make([]ma.Multiaddr, 0, len(addrs))
	for _, a := range addrs {
		if c09FilterPass(a) {
			out = append(out, a)
		}
	}
	return out
}

func c09AddrBytes(addrs []ma.Multiaddr) [][]byte {
	out := make([][]byte, len(addrs))
	for i, a := range addrs {
		out[i] = a.Bytes()
	}
	return out
}

// ownAddrs: what a sender says about itself (its known address plus one that
// the node has never seen).
func (w *c09World) ownAddrs(p *simnet.Peer) []ma.Multiaddr {
	return append(append([]ma.Multiaddr{}, p.Addrs...), ma.StringCast(fmt.Sprintf("/ip4/9.9.%d.1/tcp/4001", (p.Idx+1)%250)))
}

func c09Loopback(i int) ma.Multiaddr {
	return ma.StringCast(fmt.Sprintf("/ip4/127.0.0.%d/tcp/4001", 1+i%200))
}

// otherID draws a peer id that is not the sender's.
func (w *c09World) otherID(st *c09Stream) peer.ID {
	s := w.s
	var pool []peer.ID
	pool = append(pool, w.foreign...)
	for _, p := range w.extras {
		pool = append(pool, p.ID)
	}
	pool = append(pool, w.u.Self.ID)
	pool = append(pool, w.rt...)
	for i := 0; i < len(pool); i++ {
		id := pool[s.Draw("other-id", len(pool))]
		if id != st.sender.ID {
			return id
		}
	}
	return w.foreign[0]
}

// genKey draws the key of a structured message.
func (w *c09World) genKey(st *c09Stream) []byte {
	s := w.s
	switch s.Draw("key-class", 4) {
	case 0: // a peer id
		return w.genPeerKey(st)
	case 1: // provider keys (prefilled ones first)
		pool := append(append([][]byte{}, w.provKeys...), c09Key("prov-81", 81), c09Key("prov-new", 32))
		return pool[s.Draw("key-prov", len(pool))]
	case 2:
		return w.valKeys[s.Draw("key-val", len(w.valKeys))]
	default:
		n := []int{32, 0, 1, 80, 81, 4096}[s.Draw("key-len", 6)]
		return c09Key("len", n)
	}
}

func (w *c09World) genRecord(key []byte) *recpb.Record {
	s := w.s
	switch s.Draw("record", 6) {
	case 0:
		return nil
	case 1, 2:
		return &recpb.Record{Key: key, Value: rankValue(s.Draw("rank", 4), time.Time{}, string(key))}
	case 3:
		other := append(append([]byte{}, key...), 'x')
		return &recpb.Record{Key: other, Value: rankValue(1, time.Time{}, string(other))}
	case 4:
		return &recpb.Record{Key: key, Value: []byte("not a rank value")}
	default:
		return &recpb.Record{Key: key, Value: rankValue(s.Draw("rank", 4), time.Time{}, string(key)), TimeReceived: "yesterday"}
	}
}

// genPeers draws a closer/provider peer list.
func (w *c09World) genPeers(st *c09Stream, label string) []*pb.Message_Peer {
	s := w.s
	own := []byte(st.sender.ID)
	rec := func(id []byte, addrs [][]byte) *pb.Message_Peer {
		p := &pb.Message_Peer{Id: id, Addrs: addrs}
		switch s.Draw("conn-type", 8) {
		case 6:
			p.Connection = pb.Message_ConnectionType(-1)
		case 7:
			p.Connection = pb.Message_ConnectionType(77)
		}
		return p
	}
	bad := [][]byte{{0xff, 0xff, 0x01}, {}, {0x04, 0x01}}
	switch k := s.Draw(label, 14); k {
	case 11, 12, 13: // the ID field (or one address) as an arbitrary byte string (c09_ids.go)
		return w.genOddPeers(st, k-11, rec)
	case 0:
		return nil
	case 1:
		return []*pb.Message_Peer{rec(own, c09AddrBytes(w.ownAddrs(st.sender)))}
	case 2:
		return []*pb.Message_Peer{rec(own, c09AddrBytes(append([]ma.Multiaddr{c09Loopback(st.sender.Idx)}, w.ownAddrs(st.sender)...)))}
	case 3:
		return []*pb.Message_Peer{rec([]byte(w.otherID(st)), c09AddrBytes([]ma.Multiaddr{ma.StringCast("/ip4/7.7.7.7/tcp/4001")}))}
	case 4:
		return []*pb.Message_Peer{rec(own, c09AddrBytes(c09FatAddrs(100)))}
	case 5:
		return []*pb.Message_Peer{rec(own, bad)}
	case 6:
		return []*pb.Message_Peer{rec(own, nil)}
	case 7:
		return []*pb.Message_Peer{
			rec([]byte(w.otherID(st)), c09AddrBytes([]ma.Multiaddr{ma.StringCast("/ip4/7.7.7.8/tcp/4001")})),
			rec(own, append(append([][]byte{}, bad...), c09AddrBytes(w.ownAddrs(st.sender))...)),
			rec(own, nil),
		}
	case 8:
		return []*pb.Message_Peer{rec(nil, c09AddrBytes(w.ownAddrs(st.sender)))}
	case 9:
		return []*pb.Message_Peer{rec(own, c09AddrBytes([]ma.Multiaddr{c09Loopback(st.sender.Idx), c09Loopback(st.sender.Idx + 1)}))}
	default:
		return []*pb.Message_Peer{rec([]byte(w.otherID(st)), c09AddrBytes(c09FatAddrs(100)))}
	}
}

// every known type twice (PING once), then unknown enum values
var c09Types = []pb.Message_MessageType{
	pb.Message_FIND_NODE, pb.Message_GET_PROVIDERS, pb.Message_GET_VALUE, pb.Message_PING, pb.Message_PUT_VALUE, pb.Message_ADD_PROVIDER,
	pb.Message_FIND_NODE, pb.Message_GET_PROVIDERS, pb.Message_GET_VALUE, pb.Message_PUT_VALUE, pb.Message_ADD_PROVIDER, pb.Message_ADD_PROVIDER,
	6, -1, 100, math.MaxInt32,
}

func (w *c09World) genMessage(st *c09Stream) *pb.Message {
	s := w.s
	if num, den := w.bigKeyOdds(); den > 0 && s.Chance("big-key", num, den) {
		// a key that fills the request up to about the transport limit (c09_bigkey.go)
		return w.genBigKeyMessage(st, false)
	}
	m := &pb.Message{Type: c09Types[s.Draw("type", len(c09Types))]}
	if w.variant == c09HugeK {
		m.Type = []pb.Message_MessageType{pb.Message_FIND_NODE, pb.Message_GET_PROVIDERS, pb.Message_GET_VALUE}[s.Draw("huge-type", 3)]
	}
	if (w.variant == c09Bulk || w.variant == c09Fill) && s.Chance("bulk-get-providers", 1, 2) {
		m.Type, m.Key = pb.Message_GET_PROVIDERS, w.bigKey
		return m
	}
	if w.variant == c09Bulk && s.Chance("max-size-frame", 1, 5) {
		// a PING whose body is exactly the transport limit (or one byte more):
		want := network.MessageSizeMax + s.Draw("one-too-many", 2)
		mm := &pb.Message{Type: pb.Message_PING, Key: c09Key("max", want-16)}
		mm.Key = c09Key("max", len(mm.Key)+want-proto.Size(mm))
		return mm
	}
	m.Key = w.genKey(st)
	if w.variant == c09HugeK && m.Type == pb.Message_FIND_NODE && !s.Chance("huge-any-key", 1, 4) {
		// FIND_NODE is a question about a peer: most of the time ask for one,
		// of every class the node can know (c09_targets.go)
		m.Key = w.genPeerKey(st)
	}
	if (m.Type == pb.Message_PUT_VALUE || m.Type == pb.Message_GET_VALUE) && !s.Chance("value-key-any", 1, 3) {
		m.Key = w.valKeys[s.Draw("key-val", len(w.valKeys))]
	}
	m.ClusterLevelRaw = []int32{0, 1, -5, math.MaxInt32}[s.Draw("cluster", 4)]
	if m.Type == pb.Message_PUT_VALUE || m.Type == pb.Message_GET_VALUE || s.Chance("stray-record", 1, 4) {
		m.Record = w.genRecord(m.Key)
	}
	if s.Chance("closer-list", 1, 3) {
		m.CloserPeers = w.genPeers(st, "closer-kind")
	}
	if m.Type == pb.Message_ADD_PROVIDER {
		if s.Chance("ap-key-any", 1, 3) {
			// keep the generated key
		} else {
			pool := append(append([][]byte{}, w.provKeys...), c09Key("prov-new", 32), c09Key("prov-81", 81))
			m.Key = pool[s.Draw("ap-key", len(pool))]
		}
		m.ProviderPeers = w.genPeers(st, "provider-kind-ap")
		if len(m.ProviderPeers) == 0 && !s.Chance("ap-empty", 1, 4) {
			m.ProviderPeers = []*pb.Message_Peer{{Id: []byte(st.sender.ID), Addrs: c09AddrBytes(w.ownAddrs(st.sender))}}
		}
	} else if s.Chance("provider-list", 1, 3) {
		m.ProviderPeers = w.genPeers(st, "provider-kind")
	}
	return m
}

// genHonest draws a request a well-behaved peer would send.
func (w *c09World) genHonest(st *c09Stream) *pb.Message {
	s := w.s
	switch s.Draw("honest-type", 5) {
	case 0:
		// an honest peer may ask for anybody: somebody unknown, a table member,
		// a known non-member, the node, itself
		key := []byte(w.foreign[0])
		switch s.Draw("honest-target", 4) {
		case 1:
			if len(w.rt) > 0 {
				key = []byte(w.rt[s.Draw("key-rt", len(w.rt))])
			}
		case 2:
			key = []byte(w.extras[s.Draw("key-extra", len(w.extras))].ID)
		case 3:
			key = []byte([]peer.ID{st.sender.ID, w.u.Self.ID, w.prober.ID}[s.Draw("honest-target-special", 3)])
		}
		return pb.NewMessage(pb.Message_FIND_NODE, key, 0)
	case 1:
		return pb.NewMessage(pb.Message_GET_PROVIDERS, w.provKeys[s.Draw("key-prov", len(w.provKeys))], 0)
	case 2:
		return pb.NewMessage(pb.Message_PING, nil, 0)
	case 3:
		return pb.NewMessage(pb.Message_GET_VALUE, w.valKeys[s.Draw("key-val", len(w.valKeys))], 0)
	default:
		m := pb.NewMessage(pb.Message_ADD_PROVIDER, w.provKeys[s.Draw("key-prov", len(w.provKeys))], 0)
		m.ProviderPeers = []*pb.Message_Peer{{Id: []byte(st.sender.ID), Addrs: c09AddrBytes(w.ownAddrs(st.sender))}}
		return m
	}
}

func (w *c09World) finalProbeMessages() []*pb.Message {
	target := []byte(w.foreign[0])
	if len(w.rt) > 0 {
		target = []byte(w.rt[0])
	}
	out := []*pb.Message{
		pb.NewMessage(pb.Message_FIND_NODE, target, 0),
		pb.NewMessage(pb.Message_GET_PROVIDERS, w.provKeys[0], 0),
		pb.NewMessage(pb.Message_PING, nil, 0),
		pb.NewMessage(pb.Message_GET_VALUE, w.valKeys[0], 0),
	}
	if w.bigKey != nil {
		out = append(out, pb.NewMessage(pb.Message_GET_PROVIDERS, w.bigKey, 0))
	}
	if w.variant == c09HugeK {
		out = append(out, w.targetClassProbes()...)
	}
	return out
}

func c09Describe(m *pb.Message) string {
	rec := "-"
	if m.Record != nil {
		rec = fmt.Sprintf("%d/%d", len(m.Record.Key), len(m.Record.Value))
	}
	return fmt.Sprintf("msg type=%d klen=%d rec=%s cp=%d pp=%d idmax=%d", int32(m.Type), len(m.Key), rec, len(m.CloserPeers), len(m.ProviderPeers), c09LongestID(m))
}

func c09Marshal(m *pb.Message) []byte {
	body, err := proto.Marshal(m)
	if err != nil {
		panic(err)
	}
	return body
}

// genItem draws the next thing a remote writes on a stream: the bytes, a
// description for the trace, and what it does afterwards (1 = half-close).
func (w *c09World) genItem(st *c09Stream) (data []byte, desc string, after int) {
	s := w.s
	if st.honest || st.late || (w.variant == c09Modes && !s.Chance("modes-dirty", 1, 4)) {
		m := w.genHonest(st)
		return appendFrame(nil, c09Marshal(m)), "honest " + c09Describe(m), 0
	}
	kind := s.Draw("item-kind", 20)
	if w.heavy() && kind >= 13 && kind != 19 {
		kind = 0
	}
	switch {
	default: // structured message, correctly framed
		m := w.genMessage(st)
		if kind == 19 {
			after = 1
		}
		return appendFrame(nil, c09Marshal(m)), c09Describe(m), after
	case kind == 13: // a valid message damaged at wire level
		s.Count("fault_mangled_message")
		body := c09Marshal(w.genMessage(st))
		if len(body) == 0 {
			body = []byte{0x08, 0x04}
		}
		pos := (len(body) - 1) * s.Draw("mangle-pos", 8) / 7
		switch s.Draw("mangle", 3) {
		case 0:
			body = body[:pos]
			desc = "mangled:truncated"
		case 1:
			body = append([]byte{}, body...)
			body[pos] ^= byte(1 + s.Draw("mangle-bit", 255))
			desc = "mangled:flipped"
		default:
			body = append(append([]byte{}, body...), c09Bytes(uint64(s.Draw("junk-seed", 1<<16)), 1+s.Draw("junk-len", 9))...)
			desc = "mangled:trailing-junk"
		}
		return appendFrame(nil, body), desc, 0
	case kind == 14: // random bytes behind a correct length prefix
		s.Count("fault_garbage_frame")
		n := []int{0, 1, 7, 40, 300}[s.Draw("garbage-len", 5)]
		return appendFrame(nil, c09Bytes(uint64(s.Draw("garbage-seed", 1<<16)), n)), fmt.Sprintf("garbage-frame len=%d", n), 0
	case kind == 15: // random bytes, no framing at all
		s.Count("fault_raw_garbage")
		n := 1 + s.Draw("raw-len", 64)
		return c09Bytes(uint64(s.Draw("raw-seed", 1<<16)), n), fmt.Sprintf("raw-garbage len=%d", n), s.Draw("raw-then-close", 2)
	case kind == 16: // a length prefix that never ends
		s.Count("fault_truncated_varint")
		if s.Chance("varint-overflow", 1, 2) {
			return []byte{0xff, 0xff, 0xff, 0xff, 0xff, 0xff, 0xff, 0xff, 0xff, 0xff, 0xff, 0x01}, "varint-overflow", 0
		}
		return []byte{0x80, 0x80}, "varint-truncated", s.Draw("varint-then-close", 2)
	case kind == 17: // a length prefix above the transport limit
		s.Count("fault_oversize_prefix")
		l := []uint64{uint64(network.MessageSizeMax) + 1, 1 << 40, math.MaxInt64, math.MaxUint64}[s.Draw("oversize", 4)]
		var buf [binary.MaxVarintLen64]byte
		n := binary.PutUvarint(buf[:], l)
		out := append([]byte{}, buf[:n]...)
		if s.Chance("oversize-with-body", 1, 2) {
			out = append(out, c09Marshal(w.genMessage(st))...)
		}
		return out, fmt.Sprintf("oversize-prefix %d", l), 0
	case kind == 18: // a frame that announces more bytes than are sent
		s.Count("fault_short_body")
		body := c09Marshal(w.genMessage(st))
		var buf [binary.MaxVarintLen64]byte
		n := binary.PutUvarint(buf[:], uint64(len(body)+1+s.Draw("short-by", 40)))
		return append(append([]byte{}, buf[:n]...), body...), "short-body", s.Draw("short-then-close", 2)
	}
}
