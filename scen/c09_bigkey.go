//go:build all || c09

package scen

// C09, requests and stored records at the size extreme: keys that fill a
// request up to the transport read limit, and value records as large as a
// PUT_VALUE request can carry. Scenario "server-big-key" generates them
// densely; the ordinary scenarios (server, mode-switch) draw them as a rare
// class of the request generator (c09_gen.go, genMessage).
//
// Clauses: "For every request a peer can send - malformed, OVERSIZED or
// adversarial included - a server-mode node either returns a well-formed
// response or resets that stream; it never panics or stops serving other
// peers", quantified "for every ... structurally valid message of every type
// with arbitrary field contents ... against any routing-table/peerstore/
// provider-store content". No new oracle rule: a panic in a handler goroutine
// kills the worker process (driver-level rule `crash`, DESIGN §2.6), a handler
// that spins or wedges ends as request-unanswered / stopped-serving / wedge,
// and everything read back is judged by the existing rules (response-type,
// closer-*, peer-record-size, response-too-large for FIND_NODE and
// GET_PROVIDERS, echo-peer-records, answered-garbage for a request of one byte
// more than the limit, the ap-* store audit for ADD_PROVIDER under such a key).
// What was missing is the part of the input space in which a response has
// little, no or less than no room left under the transport limit before the
// node adds anything of its own:
//
//   * the generator's longest key was 4 KiB (one PING of exactly the limit in
//     server-bulk aside). A peer can send whatever the reader accepts: here the
//     key pads the request of any known type to the transport limit minus 0..11
//     bytes (the scale on which a response's own header fields - type, cluster
//     level - can differ from the request's, in either direction), minus
//     16 bytes .. 100 KiB (room for less than one, one, a few peer records),
//     to one byte MORE than the limit (must not be answered), or to 64 KiB ..
//     2 MiB. GET_VALUE is drawn most often: its response is the one that has a
//     part sized by the requester (the key comes back), a part sized by the
//     store (the record) and a part sized by the routing table (closer peers).
//     In server-big-key every run ends with one such request, filled to the
//     last bytes, from a requester of the run on a fresh stream, followed by
//     the honest final probe of another peer;
//   * the largest record a node can hold is one that arrived in a PUT_VALUE
//     request of (nearly) the limit. Such a record is put over the wire - by
//     the streams of the run or, in server-big-key, by the value prefill, after
//     which the honest streams and the final probe of runC09 ask for it - and
//     served back with the key in front of it and the node's receive stamp
//     inside it: the response is larger than the request that stored the
//     record was, before any closer peer is listed.
//
// The class of regressions this exposes: any size arithmetic on a response
// (cutting closer peers, budgeting provider records, bounding records) that
// assumes the part it controls is what makes a response large - indexing past
// the end of a list, a loop that never ends, a negative budget - and anything
// in the key's path (hashing, datastore keys, store look-ups) that breaks on
// megabytes; the reader's limit off by one.
//
// Not demanded: that a GET_VALUE response stays within the transport limit
// (the property bounds FIND_NODE and GET_PROVIDERS responses only). When the
// echoed key and the record alone exceed it the unchanged node sends a
// response above the limit without closer peers; that state is counted
// (probe_big_response_over_limit; probe_big_key_alone_over_limit when the key
// alone does it) and judged like any other response.
//
// Nothing here depends on how the node sizes its responses: the transport
// limit is named by the property (network.MessageSizeMax is libp2p's constant,
// not the repository's), all sizes are relative to it and drawn.

import (
	"math"
	"sync"
	"time"

	pb "github.com/libp2p/go-libp2p-kad-dht/pb"
	recpb "github.com/libp2p/go-libp2p-record/pb"
	"github.com/libp2p/go-libp2p/core/network"
	"google.golang.org/protobuf/proto"

	"verif/sim"
)

var c09BigKeyProbes = []string{
	"fault_big_key_request", "fault_big_value_prefill",
	"probe_big_key_answered", "probe_big_key_refused", "probe_big_key_closer_cut",
	"probe_big_value_stored", "probe_big_value_served", "probe_big_response_over_limit", "probe_big_key_alone_over_limit",
	"probe_oversize_reset",
}

func init() {
	real := []string{"IpfsDHT.handleNewStream / handleNewMessage (msgio framing, read limit, idle time-out, mode check)", "all RPC handlers (handlers.go)", "closestPeersToQuery + kbucket routing table", "pb peer-record conversion and bounding", "records.ProviderManager", "records.ValueStore", "pstoremem peerstore"}
	stub := []string{"host.Host / network.Conn (simhost)", "streams (simhost.Fabric byte pipes, scheduler-owned delivery)", "remote peers (scripted, generated requests with keys up to the transport limit)", "datastore (simds, not parked)", "validator (harness rank validator)"}
	sim.Register(&sim.Scenario{Prop: "C09", Name: "server-big-key", Weight: 2, Run: func(s *sim.Sim) { runC09(s, c09BigKey) },
		Real: real, Stub: stub, Faults: c09BigKeyProbes})
}

// c09BigKeyMin: from this key length on a request counts as "big" in the
// reach probes (evidence only).
const c09BigKeyMin = 64 << 10

var (
	c09BigOnce sync.Once
	c09BigPad  []byte
)

// c09BigBytes returns n deterministic bytes that start with "/v/" (a value
// namespace) and contain no further '/'. The result aliases one immutable
// process-wide buffer: two keys of the same length are the same key.
func c09BigBytes(n int) []byte {
	c09BigOnce.Do(func() {
		c09BigPad = make([]byte, network.MessageSizeMax+4096)
		copy(c09BigPad, "/v/")
		for i := 3; i < len(c09BigPad); i++ {
			c09BigPad[i] = byte('a' + i%23)
		}
	})
	if n < 1 {
		n = 1
	}
	if n > len(c09BigPad) {
		n = len(c09BigPad)
	}
	return c09BigPad[:n:n]
}

// c09PadKey sets m.Key so that the serialized message has size bytes.
func c09PadKey(m *pb.Message, size int) {
	m.Key = nil
	n := size - proto.Size(m) - 5
	for i := 0; i < 4; i++ {
		m.Key = c09BigBytes(n)
		d := size - proto.Size(m)
		if d == 0 {
			return
		}
		n += d
	}
}

// c09BigPut returns a PUT_VALUE request of size bytes whose record is valid
// for the harness validator: the key, the record's key and the rank value
// (which embeds the key) are three copies of one key. Sizes the three copies
// cannot reach are made up by a sender-side receive stamp (a field a receiver
// has to ignore).
func c09BigPut(size, rank int, cluster int32) *pb.Message {
	mk := func(k, stamp int) *pb.Message {
		key := c09BigBytes(k)
		m := &pb.Message{Type: pb.Message_PUT_VALUE, Key: key, ClusterLevelRaw: cluster}
		m.Record = &recpb.Record{Key: key, Value: rankValue(rank, time.Time{}, string(key))}
		if stamp > 0 {
			m.Record.TimeReceived = string(c09BigBytes(3 + stamp)[3:])
		}
		return m
	}
	k := (size - 40) / 3
	var m *pb.Message
	for i := 0; i < 4; i++ {
		m = mk(k, 0)
		d := size - proto.Size(m)
		if d >= 0 && d < 3 {
			break
		}
		if d < 0 {
			k -= (2 - d) / 3
		} else {
			k += d / 3
		}
	}
	rem := size - proto.Size(m)
	if rem <= 0 || rem >= 3 {
		return m
	}
	// a stamp field takes at least three bytes (tag, length, one byte): one key
	// byte less frees three more
	if m2 := mk(k-1, rem+1); proto.Size(m2) == size {
		return m2
	}
	return m
}

// bigKeyOdds: which share of the structured messages are big-key requests
// (den 0: none). The heavy variants keep to their own corner of the space.
func (w *c09World) bigKeyOdds() (num, den int) {
	switch {
	case w.variant == c09BigKey:
		return 2, 3
	case w.heavy():
		return 0, 0
	}
	return 1, 256
}

// what is asked with a big key
var c09BigTypes = []pb.Message_MessageType{
	pb.Message_GET_VALUE, pb.Message_FIND_NODE, pb.Message_GET_PROVIDERS, pb.Message_GET_VALUE,
	pb.Message_PUT_VALUE, pb.Message_PING, pb.Message_ADD_PROVIDER, pb.Message_GET_VALUE,
}

// drawBigRoom draws how many bytes a big request leaves under the transport
// limit, on the scale of header fields (0..11), denser towards the limit.
func (w *c09World) drawBigRoom() int {
	return []int{0, 1, 2, 3, 4, 6, 8, 11}[w.s.Draw("big-room", 8)]
}

// genBigKeyMessage draws a request with a big key; tight: always one that
// fills the request to the last bytes under the limit.
func (w *c09World) genBigKeyMessage(st *c09Stream, tight bool) *pb.Message {
	s := w.s
	s.Count("fault_big_key_request")
	typ := c09BigTypes[s.Draw("big-type", len(c09BigTypes))]
	// The cluster level is a field a requester may leave out (every second draw:
	// whoever wants the longest key spends no byte on anything else) and a
	// responder sets on its own.
	cluster := []int32{0, 1, 0, -5, 0, math.MaxInt32}[s.Draw("big-cluster", 6)]
	size := network.MessageSizeMax
	class := 0
	if !tight {
		class = s.Draw("big-size", 8)
	}
	switch class {
	case 0, 1, 2, 3: // to the last bytes
		size -= w.drawBigRoom()
	case 4: // room for less than one, one, a few peer records
		size -= []int{16, 64, 300, 1000, 4000, 8 << 10, 20 << 10, 100 << 10}[s.Draw("big-room-records", 8)]
	case 5: // one byte more than a reader has to accept
		size++
	default:
		size = []int{64 << 10, 256 << 10, 1 << 20, 2 << 20}[s.Draw("big-mid", 4)]
	}
	m := &pb.Message{Type: typ, ClusterLevelRaw: cluster}
	switch typ {
	case pb.Message_GET_VALUE:
		if w.bigPut != nil && s.Chance("big-get-stored", 1, 2) {
			// the big value a PUT_VALUE of this run carried (stored or not)
			m.Key = w.bigPut
			return m
		}
	case pb.Message_PUT_VALUE:
		if !s.Chance("big-put-no-record", 1, 4) {
			m = c09BigPut(size, s.Draw("rank", 4), cluster)
			w.bigPut = m.Key
			return m
		}
	case pb.Message_ADD_PROVIDER:
		m.ProviderPeers = []*pb.Message_Peer{{Id: []byte(st.sender.ID), Addrs: c09AddrBytes(w.ownAddrs(st.sender))}}
	}
	c09PadKey(m, size)
	return m
}

// setupBigKey (server-big-key): about every other run the first value key of
// the run is as long as a valid PUT_VALUE for it can be, give or take a few
// bytes; the value prefill stores it over the wire, honest streams and the
// final probe ask for it.
func (w *c09World) setupBigKey() {
	s := w.s
	if !s.Chance("big-prefill", 1, 2) {
		return
	}
	s.Count("fault_big_value_prefill")
	// cluster level as pb.NewMessage sets it for an honest request
	w.bigPrefill = c09BigPut(network.MessageSizeMax-w.drawBigRoom(), 1+s.Draw("rank", 3), 1)
	w.bigPut = w.bigPrefill.Key
	w.valKeys[0] = w.bigPrefill.Key
	s.Tracef("big value key len=%d request=%d", len(w.bigPut), proto.Size(w.bigPrefill))
}

// closingBigRequest (server-big-key): when the traffic of the run is over, one
// of its requesters opens a fresh stream and sends one request of the largest
// size, so that every run judges at least one; the honest final probe from
// another peer follows ("never ... stops serving other peers").
func (w *c09World) closingBigRequest() {
	s := w.s
	hd := w.h.Handler(w.proto)
	if hd == nil || !w.serverMode || s.Failed() || s.Steps > s.MaxSteps {
		return
	}
	st := w.open(w.senders[0], hd, false)
	st.final = true
	st.nItems, st.sentN = 1, 1
	m := w.genBigKeyMessage(st, true)
	s.Tracef("closing big request %s %s", st.name(), c09Describe(m))
	st.write(appendFrame(nil, c09Marshal(m)))
	w.settle()
	w.observe()
}
