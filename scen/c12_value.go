//go:build all || c12

package scen

// C12, generator extensions shared by the three scenarios of c12.go (no new
// rule ids: what is generated here is judged by member-unproven,
// lookup-fail-not-evicted and cancel-evicted as they stand).
//
// 1. Lookup kinds. "A lookup query" / "an uncancelled lookup" in the property
// is any lookup the node runs, so the kind of a client lookup is a drawn
// choice: closest peers, GetValue, SearchValue (the latter with an eager
// consumer). Value lookups bring a class of replies the closest-peers lookup
// does not have: replies whose *content* is not an answer to the request. The
// one generated here is a GET_VALUE reply that carries a record filed under
// another key (well-formed, valid under that other key). By the property it is
// a failed request ("correctly answered a DHT request"): it proves nothing, and
// a member that gives it to a search-phase request of a live lookup has to
// leave. The simulator decides this from what it scripted; it does not look at
// the error the node makes of it.
//
// Also generated: GET_VALUE replies with closer peers only, and with a valid
// record under the requested key at one of two ranks (so that the search ends
// with peers holding an older or no record and sends them corrective
// PUT_VALUE requests on the node's own context; those are answered correctly
// — echo — or fail, and touch nobody's membership: a correct echo counts as a
// correctly answered request, a failed one is not "during a lookup").
//
// Left out, and why:
//   - Quorum > 0: when a quorum is reached the value goroutine closes the stop
//     channel while the lookup loop polls it unsynchronised (HARNESS pitfall 3);
//     whether one more round of requests is sent is the Go scheduler's choice,
//     and in this scenario the node lives on after the lookup. Admission and
//     eviction do not depend on the quorum.
//   - a record-carrying reply to a call whose context is already cancelled: the
//     hand-over of the value is a select between the value channel and the
//     cancelled context (pitfall 3), and the request counts as answered or as
//     failed accordingly.
//   - records that are filed under the right key but fail validation, or have
//     no value: the property does not say whether that is a correct answer.
//
// 2. Configured bootstrap peers (rt-bootstrap only; see the header of c12.go).
// One peer per run: the node shuffles a longer list with the global math/rand
// source, which the tape does not control, and would dial in an order the
// trace cannot reproduce. The dial the node makes is released like every other
// dial (success / drawn failure shape); identification of the new connection
// is, as for every connection, an environment event of its own.

import (
	"context"
	"time"

	dht "github.com/libp2p/go-libp2p-kad-dht"
	pb "github.com/libp2p/go-libp2p-kad-dht/pb"
	record "github.com/libp2p/go-libp2p-record"
	"github.com/libp2p/go-libp2p/core/peer"

	"verif/sim"
	"verif/simnet"
)

const (
	c12Closest = iota
	c12GetValue
	c12SearchValue
)

var c12KindName = []string{"GetClosestPeers", "GetValue", "SearchValue"}

// valueAndBootstrapOpts: the validator of the value namespace and, by a drawn
// choice, the bootstrap-peers function.
func (w *c12World) valueAndBootstrapOpts() []dht.Option {
	s := w.s
	opts := []dht.Option{dht.NamespacedValidator("r", rankValidator{})}
	if w.cfg.Boot {
		w.boot = w.peers[s.Draw("bootstrap-peer", len(w.peers))]
		s.Count("probe_bootstrap_configured")
		if w.connected(w.boot.p.ID) {
			s.Count("probe_bootstrap_peer_already_connected")
		}
		list := []peer.AddrInfo{{ID: w.boot.p.ID, Addrs: w.boot.p.Addrs}}
		opts = append(opts, dht.BootstrapPeersFunc(func() []peer.AddrInfo { return list }))
	}
	return opts
}

// runLookup runs on the client goroutine of the lookup.
func (w *c12World) runLookup(ctx context.Context, lk *c12Lookup) (any, error) {
	switch lk.kind {
	case c12GetValue:
		return w.d.GetValue(ctx, lk.key, dht.Quorum(0))
	case c12SearchValue:
		ch, err := w.d.SearchValue(ctx, lk.key, dht.Quorum(0))
		if err != nil {
			return nil, err
		}
		n := 0
		for range ch {
			n++
		}
		return n, nil
	}
	return w.d.GetClosestPeers(ctx, lk.key)
}

// maybeAddRecord: by a drawn choice a correct GET_VALUE reply carries a valid
// record under the requested key.
func (w *c12World) maybeAddRecord(reply *pb.Message, req *pb.Message) {
	rank := w.s.Draw("value-record", 3) // 0: closer peers only
	if rank == 0 {
		return
	}
	key := string(req.GetKey())
	reply.Record = record.MakePutRecord(key, rankValue(rank, time.Time{}, key))
	w.s.Count("probe_value_record_reply")
}

// wrongKeyReply: closer peers as usual, plus a record that is valid under the
// key it names — which is not the requested one.
func (w *c12World) wrongKeyReply(to peer.ID, req *pb.Message) *pb.Message {
	reply := w.replyFor(to, req)
	other := string(req.GetKey()) + "-other"
	reply.Record = record.MakePutRecord(other, rankValue(1, time.Time{}, other))
	return reply
}

func (w *c12World) keptOut(p peer.ID, probe string) {
	if w.closing {
		return
	}
	w.obl = append(w.obl, c12Obl{peer: p, keptOut: true, probe: probe})
}

// c12CorrectivePut: a PUT_VALUE request the node sends on its own context after
// a value lookup ended.
func c12CorrectivePut(p *sim.Parked) bool {
	r, ok := p.Data.(*simnet.RPC)
	return ok && r.Req.GetType() == pb.Message_PUT_VALUE
}
