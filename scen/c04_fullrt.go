//go:build all || c04

package scen

// C04 on the accelerated client (fullrt.FullRT). The crawler is a harness stub
// that reports a fixed peer set (the public crawler.Crawler interface), so the
// client's "routing table" is exactly the set of scripted responders chosen as
// starting points; everything else (GetValue/SearchValue/getValues/
// processValues/execOnMany, the local value store) is the repository's code.
// Since wave 6 the reported set may be empty (a crawl that found nobody) and
// the first crawl may still be running when the search is made (c04Cfg.NoPeers),
// and in a share of the runs the validator is a scheduler-owned seam
// (c04Cfg.SlowVal); see c04_wave6.go.

import (
	"context"
	"time"

	dht "github.com/libp2p/go-libp2p-kad-dht"
	"github.com/libp2p/go-libp2p-kad-dht/crawler"
	"github.com/libp2p/go-libp2p-kad-dht/fullrt"
	pb "github.com/libp2p/go-libp2p-kad-dht/pb"
	recpb "github.com/libp2p/go-libp2p-record/pb"
	"github.com/libp2p/go-libp2p/core/host"
	"github.com/libp2p/go-libp2p/core/peer"
	"github.com/libp2p/go-libp2p/core/peerstore"
	"github.com/libp2p/go-libp2p/core/protocol"

	"verif/sim"
	"verif/simds"
	"verif/simhost"
	"verif/simnet"
)

func init() {
	sim.Register(&sim.Scenario{Prop: "C04", Name: "value-fullrt", Weight: 3, Run: func(s *sim.Sim) { c04RunValue(s, "fullrt", false) },
		Real: []string{"fullrt.FullRT.GetValue/SearchValue/searchValueQuorum/getValues/processValues/execOnMany (fullrt/dht.go)", "fullrt.FullRT.GetClosestPeers over the crawled table", "ProtocolMessenger.GetValue (record key check)", "records.ValueStore (local record)"},
		Stub: []string{"host.Host/network (simhost)", "pb.MessageSender (level A, simnet.Sender)", "crawler.Crawler (harness stub reporting a fixed peer set, possibly empty, or still crawling)", "remote peers (scripted responders)", "record validator (harness rank validator, time-aware; in a share of the runs a scheduler-owned seam: Validate parks)"},
		Faults: []string{"fault_rec_invalid", "fault_rec_miskeyed", "fault_rec_empty", "fault_rpc_error", "fault_cancel", "time_advance",
			"probe_found", "probe_notfound", "probe_stream_multi", "probe_search_ended_early", "probe_local_valid", "probe_local_expired", "probe_local_expired_midsearch", "probe_peer_serves_local_bytes_valid", "probe_peer_serves_local_bytes_expired_at_start", "probe_peer_serves_local_bytes_expired_midsearch", "probe_bestknown_checked",
			"probe_opt_offline", "probe_opt_expired", "probe_opt_offline_local_not_valid", "probe_local_never_valid", "probe_local_outlived_max_age", "probe_stamp_valid_value_held_past_requesters_max_age", "probe_stamp_valid_value_from_the_future", "probe_stamp_valid_value_unparsable",
			"probe_key_outside_namespaces", "probe_key_outside_record_acceptable_to_unregistered_validator", "probe_key_outside_local_record",
			"probe_no_starting_points", "probe_no_starting_points_local_valid", "probe_fullrt_crawl_found_nobody", "probe_fullrt_first_crawl_still_running",
			"probe_ns_configured_in_place_of_shipped_pk", "probe_ns_configured_in_place_of_shipped_ipns", "probe_ns_configured_in_place_of_shipped_local_record", "probe_ns_record_acceptable_to_shipped_validator_only", "probe_ns_local_record_acceptable_to_shipped_validator_only",
			"probe_slowval_validation_completed", "probe_slowval_completed_while_another_in_progress", "probe_slowval_completed_out_of_delivery_order", "probe_slowval_reply_delivered_during_validation", "probe_slowval_reply_held_back", "probe_slowval_time_passed_during_validation"},
	})
}

// c04Crawler is the crawler stub: every crawl parks (kind "crawl") until the
// scenario releases it with the peer set to report.
type c04Crawler struct {
	s *sim.Sim
	h *simhost.Host
}

var _ crawler.Crawler = (*c04Crawler)(nil)

func (c *c04Crawler) Run(ctx context.Context, _ []*peer.AddrInfo, ok crawler.HandleQueryResult, _ crawler.HandleQueryFail) {
	out, cerr := c.s.Park("crawl", "run", ctx, nil)
	if cerr != nil {
		return
	}
	peers, _ := out.([]*simnet.Peer)
	for _, p := range peers {
		// what a successful crawl leaves behind: addresses in the peerstore and
		// an open connection over a public address
		c.h.Peerstore().AddAddrs(p.ID, p.Addrs, peerstore.PermanentAddrTTL)
		c.h.Net().SetConnected(p.ID, true)
		c.h.Net().SetRemoteAddr(p.ID, p.Addrs[0])
		ok(p.ID, nil)
	}
}

func c04BuildFullRT(w *c04World) error {
	s := w.s
	w.host = simhost.New(s, w.u.Self.ID, w.u.Self.Addrs, w.u.Name)
	d := simds.New(s, "ds")
	cr := &c04Crawler{s: s, h: w.host}
	waitFrac := []float64{0.3, 0.6, 1.0}[s.Draw("wait-frac", 3)]
	perOp := []time.Duration{5 * time.Second, 1500 * time.Millisecond, 40 * time.Second}[s.Draw("per-op", 3)]
	dopts := append(c04Opts(w.clientValidator(), w.cfg),
		dht.BucketSize(w.cfg.K),
		dht.Datastore(d),
		dht.BootstrapPeers(), // NewFullRT calls the bootstrap-peers function unconditionally
		dht.WithCustomMessageSender(func(_ host.Host, _ []protocol.ID) pb.MessageSenderWithDisconnect {
			return &simnet.Sender{S: s, U: w.u}
		}),
	)
	frt, err := fullrt.NewFullRT(w.host, "/sim",
		fullrt.WithCrawler(cr),
		fullrt.WithCrawlInterval(1000000*time.Hour),
		fullrt.WithSuccessWaitFraction(waitFrac),
		fullrt.WithTimeoutPerOperation(perOp),
		fullrt.DHTOption(dopts...),
	)
	if err != nil {
		_ = w.host.Close()
		return err
	}
	s.Quiesce() // the initial crawl is now parked
	w.sut = &c04Sut{
		client: frt,
		seed: func(peers []*simnet.Peer) {
			for _, p := range s.ParkedKind("crawl") {
				s.Release(p, peers)
			}
			s.Quiesce()
		},
		stored: func(val []byte) bool { return c04StoredIn(d, val) },
		plant:  func(key string, old []byte, m func(*recpb.Record)) bool { return c04PlantIn(d, key, old, m) },
		dss:    c04DSS(d),
		close: func() {
			_ = frt.Close()
			_ = w.host.Close()
		},
	}
	return nil
}
