//go:build all || c04

package scen

// C04, public keys: GetPublicKey(p) on the standard and the dual client under
// the real record.PublicKeyValidator ("/pk"). The requested peer has an RSA
// identity (Ed25519 IDs inline the key and never reach the network); it and
// the other responders serve the right key, another peer's (perfectly valid)
// key, garbage, a record filed under another key, nothing, or an error.
// Oracle: a returned key always hashes to the requested peer ID.

import (
	"context"
	"encoding/base64"
	"errors"
	"fmt"
	"sync"
	"time"

	record "github.com/libp2p/go-libp2p-record"
	ci "github.com/libp2p/go-libp2p/core/crypto"
	"github.com/libp2p/go-libp2p/core/peer"
	"github.com/libp2p/go-libp2p/core/routing"
	ma "github.com/multiformats/go-multiaddr"

	"verif/sim"
	"verif/simnet"
)

func init() {
	for _, v := range []string{"standard", "dual"} {
		v := v
		sim.Register(&sim.Scenario{Prop: "C04", Name: "pubkey-" + v, Weight: 1, Run: func(s *sim.Sim) { c04RunPK(s, v) },
			Real: []string{"IpfsDHT.GetPublicKey/getPublicKeyFromNode/getPublicKeyFromDHT (records.go)", "record.PublicKeyValidator under /pk (go-libp2p-record)", "dual.DHT.GetPublicKey (routing-helpers Parallel.get)"},
			Stub: []string{"host.Host/network (simhost)", "pb.MessageSender (level A)", "remote peers (scripted; pre-generated RSA public keys as fixtures)"},
			Faults: []string{"fault_rec_invalid", "fault_rec_miskeyed", "fault_rec_empty", "fault_rpc_error", "fault_dial_fail", "fault_cancel",
				"probe_pk_found", "probe_pk_failed", "probe_pk_wrong_key_served_by_target", "probe_pk_wrong_key_served_by_other"},
		})
	}
}

// Pre-generated 2048-bit RSA public keys (libp2p protobuf encoding, base64).
// Only the public halves are needed: the scenario never signs anything.
// Generated once outside the harness; decoded once per process.
var c04PKFixtures = []string{
	// QmSf5WUgV5BFtYgkHaLrQzENTkKr1YoAVANA8WTBsWLJFV
	"CAASpgIwggEiMA0GCSqGSIb3DQEBAQUAA4IBDwAwggEKAoIBAQC5gIWpl0swtY7T9SArjYfIO3KwkRQ8llbbnzI3nWikJ440iCOOAcsi11lUYFnud93tDjtsAzFmI85hfW/b+uqBn9vWxF+3/nSp2A8QTkto9V6tU0ayCw5qHhlWeXo2XLc7hpDvf7I5dOCaAIcgowVWOFvoTd3VuOU6FjZy/7y04FyBnRJLl8q2UdiPttfS8BOGMVtiUGUXL/BVqFtyf41HETABVMEoPW2/Z+V8//ZQqX8OEsaQQbSpIVMKzyMbsYfQvjqtDBlXFcW/26mst27bvZNBFU717k8eFcGADOqLq52Td+DDG2tIZiQgqZ59Sk31EYmZPXNOkMDbHbKWL/rnAgMBAAE=",
	// QmasRXi3n9pKbtiaVTZGRWnR8gU17Mks2dzsTpxQP3F3An
	"CAASpgIwggEiMA0GCSqGSIb3DQEBAQUAA4IBDwAwggEKAoIBAQDRMa2aSmgOaCoDcpEUeqbd3t1FB7lZ6MDCNxOYlduD4s7N2o6+aoGQ22RGM0U9AZQGy4w80fku5Zzuk0WaPo8Ob5gVvJuyEoQuGfFaiUC4sCCcSk5oEThFJDp9ihJNr0ufChbUweAmjcT4lkY0xkWPZ1ruRk4yW+rtIvX+/hxX7zrasK6aKpajVHaWLtrXHdpAmYyUIc1l4nSrrEudBELmgKJxeEKbq94Gsdmqh5iVxwIGj3MYcN4A/dNkEGNd/QKsnReSiqwY4q1EylP9Zrs2+MEBnAa0IUCoeBhSZQwBM3A7/1HuF55uDN/W2fKVbHlmciybGAEFGEX63DaFYVGZAgMBAAE=",
	// QmUSNrT2FcSzr19TaxRAjxJqPhxgdccSba13gAEjDi2rCs
	"CAASpgIwggEiMA0GCSqGSIb3DQEBAQUAA4IBDwAwggEKAoIBAQC/IlJcZ0zpGswPlnXzckssxBSBvzzZS9vUgrgbialg0Lc/cnXSk3XJnX1+XpFA4Ru5R1rn1iGyr7ePSaAqpVW5OKFh5pw2Ujdxnmok8hC6h2ReDMkF/f7nt37OVFDLmR1caV5qje0mYlCrEj9oNG31/+ct5/QuwdZsWW0lQ/RmAJlmar66HsAcLdI6yX4mSZJ/xPfQKz8Yrw0d4pxK5I0CgY8aHIsqoVg83H+RsGuMiai3BAk86b+Eu7KSIJ1pkyE/NrN81HKBErPufVGBnTEQB+9VqKSkidSHolCJr9ZHCMV07rfkxT/PEbRCeAqiX+clhPigTysaCzpBsHMmlVHRAgMBAAE=",
}

type c04PK struct {
	Raw []byte
	Key ci.PubKey
	ID  peer.ID
}

var (
	c04PKOnce sync.Once
	c04PKs    []c04PK
)

func c04Keys() []c04PK {
	c04PKOnce.Do(func() {
		for _, b64 := range c04PKFixtures {
			raw, err := base64.StdEncoding.DecodeString(b64)
			if err != nil {
				panic(err)
			}
			k, err := ci.UnmarshalPublicKey(raw)
			if err != nil {
				panic(err)
			}
			id, err := peer.IDFromPublicKey(k)
			if err != nil {
				panic(err)
			}
			c04PKs = append(c04PKs, c04PK{Raw: raw, Key: k, ID: id})
		}
	})
	return c04PKs
}

// c04PKScript scripts one responder of the public-key scenario.
func c04PKScript(rng *subRng, i int, target, other c04PK, weights []int) *c04Resp {
	pkKey, otherKey := routing.KeyForPublicKey(target.ID), routing.KeyForPublicKey(other.ID)
	r := &c04Resp{RecKey: pkKey}
	total := 0
	for _, x := range weights {
		total += x
	}
	x := rng.Intn(total)
	for k, wt := range weights {
		if x < wt {
			r.Kind = c04Kind(k)
			break
		}
		x -= wt
	}
	switch r.Kind {
	case c04Valid:
		r.Val = target.Raw
	case c04Invalid:
		r.Sub = rng.Intn(3)
		switch r.Sub {
		case 0: // another peer's perfectly valid key, filed under the requested key
			r.Val = other.Raw
		case 1:
			r.Val = []byte(fmt.Sprintf("not-a-key-%d", i))
		default: // the right key, damaged
			r.Val = append([]byte{}, target.Raw[:len(target.Raw)-1-rng.Intn(8)]...)
		}
	case c04MisKeyed:
		r.Sub = rng.Intn(2)
		if r.Sub == 0 { // a consistent record for the other peer
			r.RecKey, r.Val = otherKey, other.Raw
		} else { // the other peer's key in a record without a key
			r.RecKey, r.Val = "", other.Raw
		}
	case c04Empty:
		r.NilVal = rng.Intn(2) == 0
	}
	return r
}

func c04RunPK(s *sim.Sim, variant string) {
	s.MaxSteps = 500
	keys := c04Keys()
	target, other := keys[0], keys[1]
	if s.Chance("swap-identities", 1, 2) {
		target, other = keys[2], keys[0]
	}
	c := c04Cfg{Variant: variant, Key: routing.KeyForPublicKey(target.ID)}
	switch s.Draw("size-class", 3) {
	case 0:
		c.N = s.Range("n", 1, 4)
	case 1:
		c.N = s.Range("n", 3, 10)
	default:
		c.N = s.Range("n", 8, 20)
	}
	c.K = s.Range("k", 1, 8)
	c.Alpha = s.Range("alpha", 1, 5)
	c.Beta = s.Range("beta", 1, c.K+1)
	c.Profile = s.Draw("profile", 3)
	if s.Chance("cancel", 1, 10) {
		c.CancelAt = s.Range("cancel-at", 1, 30)
	}
	pkv := record.PublicKeyValidator{}
	w := &c04World{s: s, cfg: c, val: rankValidator{TimeAware: true}, validate: pkv.Validate, resp: map[peer.ID]*c04Resp{}, side: map[peer.ID]string{}}
	w.u = simnet.NewUniverse(uint64(s.Draw("universe", 1<<16)), c.N)
	var err error
	if variant == "dual" {
		err = c04BuildDual(w)
	} else {
		err = c04BuildStandard(w)
	}
	if err != nil {
		panic(err)
	}

	// the requested peer: public address (standard, dual-WAN) or private (dual-LAN)
	tSide := "wan"
	tAddr := "/ip4/8.250.250.1/tcp/4001"
	if variant == "dual" && s.Chance("target-lan", 1, 2) {
		tSide, tAddr = "lan", "/ip4/192.168.250.250/tcp/4001"
	}
	real := w.u.Peers[:c.N]
	t := w.u.Add("t", target.ID, []ma.Multiaddr{ma.StringCast(tAddr)})
	w.side[t.ID] = tSide

	rng := newSubRng(s, "responders")
	// weights: right-key invalid miskeyed empty norecord error
	weights := [][]int{{0, 4, 2, 1, 4, 2}, {1, 4, 2, 1, 5, 2}, {5, 3, 2, 1, 3, 1}}[c.Profile]
	tWeights := []int{3, 4, 2, 1, 2, 2}
	w.resp[t.ID] = c04PKScript(rng, 99, target, other, tWeights)
	w.resp[t.ID].DialFail = rng.Intn(5) == 0

	groups := [][]*simnet.Peer{real}
	if variant == "dual" {
		nw := s.Range("wan-n", 0, len(real))
		groups = [][]*simnet.Peer{real[:nw], real[nw:]}
		for i, p := range real[nw:] {
			p.Addrs = []ma.Multiaddr{ma.StringCast(fmt.Sprintf("/ip4/192.168.%d.%d/tcp/4001", i/200, 1+i%200))}
			w.side[p.ID] = "lan"
		}
		for _, p := range real[:nw] {
			w.side[p.ID] = "wan"
		}
	}
	density := []int{2, 4, 8}[s.Draw("density", 3)]
	tKnown := 1 + s.Draw("target-known", 4) // each responder of the target's side knows it with p = tKnown/4
	frac := 1 + s.Draw("seed-frac", 4)
	for gi, grp := range groups {
		if len(grp) == 0 {
			continue
		}
		gSide := "wan"
		if gi == 1 {
			gSide = "lan"
		}
		var seeds []*simnet.Peer
		for i, p := range grp {
			r := c04PKScript(rng, i, target, other, weights)
			for _, q := range grp {
				if q != p && rng.Intn(8) < density {
					r.Knows = append(r.Knows, q)
				}
			}
			if gSide == tSide && rng.Intn(4) < tKnown {
				r.Knows = append(r.Knows, t)
			}
			r.DialFail = rng.Intn(10) == 0
			w.resp[p.ID] = r
			if rng.Intn(4) < frac {
				seeds = append(seeds, p)
			}
		}
		if len(seeds) == 0 {
			seeds = []*simnet.Peer{grp[rng.Intn(len(grp))]}
		}
		// The requested peer itself may be a starting point of the standard
		// client's lookup (it is not connected, so the lookup dials it first and
		// its request is distinguishable from the direct one). For the dual
		// client it is only ever learned from replies: seeding the WAN table
		// needs an open connection, and then the direct request and the lookup's
		// request to it would be indistinguishable twins (HARNESS pitfall 2).
		if variant == "standard" && s.Chance("target-seeded", 1, 3) {
			seeds = append(seeds, t)
		}
		w.sut.seed(seeds)
	}
	s.Summary["cfg"] = fmt.Sprintf("pubkey-%s N=%d K=%d alpha=%d beta=%d profile=%d target=%s/%d cancelAt=%d", variant, c.N, c.K, c.Alpha, c.Beta, c.Profile, w.resp[t.ID].Kind, w.resp[t.ID].Sub, c.CancelAt)

	ctx, cancel := context.WithCancel(context.Background())
	defer cancel()
	w.op = w.ops.Go(s, "GetPublicKey", func() (any, error) {
		k, err := w.sut.pk.GetPublicKey(ctx, target.ID)
		if k == nil { // keep a typed nil out of the interface
			return nil, err
		}
		return k, err
	})
	s.Quiesce()
	idle := 0
	for {
		if !s.Step() || w.op.Done {
			break
		}
		if c.CancelAt > 0 && s.Steps >= c.CancelAt && w.cancelStep == 0 {
			w.cancelStep = s.Steps
			s.Tracef("cancel")
			s.Count("fault_cancel")
			cancel()
			s.Quiesce()
			continue
		}
		acts := w.actions()
		if len(acts) == 0 {
			idle++
			if idle > 60 {
				break
			}
			s.Sleep(997 * time.Millisecond)
			continue
		}
		idle = 0
		s.Choose("next", acts)
	}

	switch {
	case s.Failed():
	case !w.op.Done && s.Steps > s.MaxSteps:
		s.Count("step_budget_exhausted")
	case !w.op.Done:
		s.Violate("no-return", "GetPublicKey did not return although nothing is parked and %d s of virtual time passed", idle)
	case w.op.Panic != "":
		s.Violate("panic", "GetPublicKey panicked: %s", firstLine(w.op.Panic))
	default:
		served := map[string]bool{}
		for _, sp := range w.supplies {
			if sp.Kind == c04Invalid && string(sp.Val) == string(other.Raw) {
				if sp.Peer == t.ID {
					served["t"] = true
				} else {
					served["o"] = true
				}
			}
		}
		if served["t"] {
			s.Count("probe_pk_wrong_key_served_by_target")
		}
		if served["o"] {
			s.Count("probe_pk_wrong_key_served_by_other")
		}
		got, _ := w.op.Result.(ci.PubKey)
		switch {
		case w.op.Err == nil && got == nil:
			s.Violate("pk-nil", "GetPublicKey returned neither a key nor an error")
		case got != nil:
			id, ierr := peer.IDFromPublicKey(got)
			if ierr != nil || id != target.ID {
				who := "an unknown peer"
				if id == other.ID {
					who = "another peer whose (valid) key a responder served"
				}
				s.Violate("pk-mismatch", "GetPublicKey(%s) returned a key that hashes to %s (%s), err=%v", target.ID, id, who, w.op.Err)
			}
			s.Count("probe_pk_found")
		default:
			s.Count("probe_pk_failed")
		}
		s.NonTrivial = len(w.supplies) > 0
		s.State("pk %s found=%v t=%v o=%v", variant, got != nil, served["t"], served["o"])
		s.Tracef("result found=%v failed=%v notfound=%v", got != nil, w.op.Err != nil, errors.Is(w.op.Err, routing.ErrNotFound))
	}
	cancel()
	s.Quiesce()
	closeAndCensus(s, w.sut.close)
	s.Finish()
}
