//go:build all || c15

package scen

// C15, two further scenarios over the world of c15.go: state the node carries
// from one operation into the next.
//
// The other C15 scenarios judge every operation against a node that is fresh
// for that operation's key (one new key per operation), whose inner DHTs have
// never completed a lookup before the judged call, and whose tables only
// change by what the operation itself does. The property, however, quantifies
// over "every combination of WAN/LAN routing-table emptiness, per-DHT results
// and errors" and over configurations: a per-DHT result also depends on what
// that inner DHT holds itself, and the path a write takes inside an inner DHT
// depends on that DHT's configuration and on what it has learned so far.
//
// Common generator extension ("churn"). Before each operation the harness may
// let all peers of one side leave (they disconnect and are removed from that
// side's routing table - what the node's own eviction does when peers stop
// answering, done by the harness so that it does not depend on a failure
// script) or let the peers that left come back. "The WAN table at the call" is
// read after that, at the quiescent point right before the call, as in c15.go.
// So a table is empty / non-empty independently of what the node stored or
// learned while it was non-empty / empty.
//
// ---------------------------------------------------------------------------
// dual-getvalue-local: PutValue and GetValue over a pool of one or two keys.
//
// A key written earlier is read later, with the tables possibly in another
// state than at the write: the record sits in the own store of the inner DHT
// the write was routed to (each inner DHT has its own datastore, as in the
// default configuration), and only there. Responders hold records for the
// same keys as in c15.go (WAN and LAN value sets disjoint; the values the node
// writes differ from both and from each other: every write of a run carries
// its own rank, increasing from write to write).
//
// Oracle: the GetValue rules of c15.go with one more source of a per-DHT
// result. "GetValue returns the WAN result when the WAN lookup succeeds and
// otherwise the LAN result": the WAN lookup is the WAN DHT's GetValue, and a
// DHT's GetValue succeeds when it obtains a valid record for the key - from a
// responder or from its own store, where its own earlier PutValue left it (a
// node reads its own writes; the record is valid under the one validator both
// sides use and virtual time stays far below the configured maximum record
// age). What an inner DHT's own store holds is read from the harness' own
// seam: the last write that datastore applied whose record carries the key
// (the record is decoded; the datastore key encoding is not mirrored), as of
// the quiescent point right before the call.
//
//   getvalue-wan   a valid record was delivered to the WAN lookup OR the WAN
//                  DHT's own store holds one => nil error and one of those
//                  values (whatever the WAN table looks like: also when it is
//                  empty at the call, the state in which the writes go to the
//                  LAN).
//   getvalue-lan   neither on the WAN side, and a valid record was delivered
//                  to the LAN lookup or the LAN DHT's own store holds one =>
//                  nil error and one of the LAN side's values.
//   getvalue-none  neither side has one => an error.
//   write-side, write-store, write-no-traffic as in c15.go for the PutValues
//                  (write-store (b) stays sound with reused keys because a
//                  later write always outranks the stored one).
//
// Determinism. With an empty WAN table and a record in the WAN store the WAN
// lookup returns without ever reaching a network seam, and dual.GetValue then
// cancels the LAN lookup, which was started an instant before on its own
// goroutine: how far the LAN lookup got by then would be the Go scheduler's
// choice. The WAN instance's datastore therefore parks its reads while a
// GetValue runs (simds.ParkOp): the WAN lookup's look into its own store is a
// scheduler step like any request, everything is quiescent when it is
// answered, and the cancellation finds the LAN lookup durably parked at its
// own seams (the situation c15.go already handles). The read is answered
// without fault.
//
// ---------------------------------------------------------------------------
// dual-optprovide: Provide on inner DHTs created with EnableOptimisticProvide.
//
// Configuration is part of the quantifier; dual.DHTOption / WanDHTOption /
// LanDHTOption hand any IpfsDHT option to the inner DHTs. With optimistic
// provide enabled, a Provide takes another path through the inner DHT once
// that DHT has completed enough lookups to estimate the network size - so the
// first provides of a node and later ones are different code, and the other
// C15 scenarios only ever run the first kind. Here both sides are healthy
// networks of more than K reachable peers; before the judged operations the
// harness runs closest-peers lookups through the public API of the inner DHTs
// (honest answers, no decisions) until IpfsDHT.NetworkSize() reports an
// estimate or 16 lookups are done. No implementation constant is mirrored:
// whether a Provide then takes the optimistic path, with whom it stores and
// when it returns is the node's business. Churn may empty the WAN table before
// a Provide (the write then belongs to the LAN DHT, whose estimator is primed
// as well).
//
// Oracle: the write rules and the address rules of c15.go, unchanged, over
// every request of either path - in particular
//   wan-advertise  "the WAN DHT ... never ... advertises own addresses that are
//                  not public": no WAN ADD_PROVIDER payload carries an address
//                  labelled non-public,
//   lan-advertise  "the LAN DHT never advertises loopback addresses",
//   write-side / write-store / write-no-traffic for the routing of the Provide
//                  (requests an optimistic Provide leaves behind when it
//                  returns are answered before the next operation starts and
//                  are covered by the address rules). write-no-traffic is not
//                  judged for a node that announces no address it may advertise
//                  on the routed side (WAN: none labelled public; LAN: only
//                  loopback): it has nothing to send, and an optimistic Provide
//                  whose lookup is over before its first request then produces
//                  no traffic at all (the classic one still looks up first).
// The host announces a drawn mix of public, private, loopback, link-local and
// relay addresses (c15.go).

import (
	"context"
	"fmt"
	"time"

	dht "github.com/libp2p/go-libp2p-kad-dht"
	pb "github.com/libp2p/go-libp2p-kad-dht/pb"
	recpb "github.com/libp2p/go-libp2p-record/pb"
	"github.com/libp2p/go-libp2p/core/peer"
	"google.golang.org/protobuf/proto"

	"verif/sim"
	"verif/simnet"
)

func init() {
	sim.Register(&sim.Scenario{Prop: "C15", Name: "dual-getvalue-local", Weight: 2, Run: func(s *sim.Sim) { c15Run(s, true, "local") },
		Real: []string{"dual.New option layering", "dual.DHT.PutValue/GetValue/WANActive (routing of writes, choice between the two inner results, LAN cancellation)",
			"two IpfsDHT instances with separate record stores (PutValue local store, GetValue from the own store and from the network)"},
		Stub: []string{"host.Host/network (simhost, one host shared by WAN and LAN)", "two pb.MessageSenders (level A, simnet.Sender)", "remote peers (scripted responders: referrals, records, failures)",
			"record validator (harness rank validator)", "per-side datastores (simds; reads of the WAN one are scheduler steps during GetValue)", "peers leaving / returning between operations (harness removes them from / re-adds them to a routing table)"},
		Faults: []string{"fault_dial_fail", "fault_rpc_error", "time_advance", "cancel_observed",
			"fault_churn_wan_left", "fault_churn_lan_left", "fault_churn_returned",
			"probe_getvalue_own_wan_record_table_empty", "probe_getvalue_own_wan_record_table_empty_lan_has_other", "probe_getvalue_own_wan_record_table_nonempty",
			"probe_getvalue_own_lan_record_fallback", "probe_getvalue_own_lan_record_wan_wins", "probe_getvalue_own_records_both_sides",
			"probe_getvalue_wan_wins", "probe_getvalue_lan_fallback", "probe_getvalue_none",
			"probe_store_putvalue_checked", "probe_wan_active_wan_used", "probe_wan_empty_lan_used", "probe_putvalue_key_rewritten"},
	})
	sim.Register(&sim.Scenario{Prop: "C15", Name: "dual-optprovide", Weight: 2, Run: func(s *sim.Sim) { c15Run(s, false, "optprov") },
		Real: []string{"dual.New option layering (DHTOption/WanDHTOption/LanDHTOption(EnableOptimisticProvide), address filters)", "dual.DHT.Provide/WANActive",
			"two IpfsDHT instances: classic and optimistic provide (lookup with early stores, background ADD_PROVIDER requests), netsize estimator fed by real warm-up lookups, FilteredAddrs"},
		Stub: []string{"host.Host/network (simhost, one host shared by WAN and LAN)", "two pb.MessageSenders (level A, simnet.Sender)", "remote peers (honest scripted responders)",
			"per-side datastores (simds)", "peers leaving / returning between operations (harness removes them from / re-adds them to a routing table)"},
		Faults: []string{"time_advance", "fault_churn_wan_left", "fault_churn_lan_left", "fault_churn_returned",
			"probe_optprov_estimator_ready_wan", "probe_optprov_estimator_ready_lan",
			"probe_optprov_provide_wan_estimator_ready", "probe_optprov_provide_lan_estimator_ready", "probe_optprov_provide_estimator_not_ready",
			"probe_optprov_returned_with_requests_open", "probe_optprov_nothing_to_advertise",
			"probe_wan_advertise_filtered", "probe_lan_advertise_filtered", "probe_wan_advertise_nothing_public",
			"probe_store_provide_checked", "probe_wan_active_wan_used", "probe_wan_empty_lan_used"},
	})
}

// ---------------------------------------------------------------------------
// churn

func (w *c15World) innerOf(side string) *dht.IpfsDHT {
	if side == c15L {
		return w.d.LAN
	}
	return w.d.WAN
}

// churn: before an operation all peers of one side may leave, or the ones that
// left may return (tape value 0: nothing happens).
func (w *c15World) churn(o *c15Op) {
	if w.focus != "local" && w.focus != "optprov" {
		return
	}
	s := w.s
	if w.left == nil {
		w.left = map[string][]peer.ID{}
	}
	leave := func(side string) {
		rt := w.innerOf(side).RoutingTable()
		ids := rt.ListPeers()
		sortIDsByName(w.u, ids)
		for _, p := range ids {
			w.host.Net().SetConnected(p, false)
		}
		s.Quiesce()
		for _, p := range ids {
			rt.RemovePeer(p)
		}
		w.left[side] = append(w.left[side], ids...)
		s.Tracef("churn before %s: %d %s peers leave", o.tag, len(ids), side)
		if len(ids) > 0 {
			s.Count("fault_churn_" + side + "_left")
		}
	}
	switch s.Draw("churn", 6) {
	case 1, 4:
		leave(c15W)
	case 2:
		leave(c15L)
	case 3:
		n := 0
		for _, side := range []string{c15W, c15L} {
			rt := w.innerOf(side).RoutingTable()
			for _, p := range w.left[side] {
				cp := w.peers[p]
				if cp == nil {
					continue
				}
				// as at seeding: the WAN table's diversity filter reads the remote
				// address of a live connection
				w.host.Peerstore().AddAddrs(p, cp.p.Addrs, time.Hour)
				for _, a := range cp.p.Addrs {
					w.psStart[p][string(a.Bytes())] = true // put there by the harness (exempt from wan-store)
				}
				w.host.Net().SetConnected(p, true)
				w.host.Net().SetRemoteAddr(p, cp.connAddr)
				if ok, _ := rt.TryAddPeer(p, true, false); ok {
					n++
				}
			}
			w.left[side] = nil
		}
		s.Tracef("churn before %s: %d peers return", o.tag, n)
		if n > 0 {
			s.Count("fault_churn_returned")
		}
	}
	s.Quiesce()
}

func sortIDsByName(u *simnet.Universe, ids []peer.ID) {
	for i := 1; i < len(ids); i++ {
		for j := i; j > 0 && u.Name(ids[j]) < u.Name(ids[j-1]); j-- {
			ids[j], ids[j-1] = ids[j-1], ids[j]
		}
	}
}

// ---------------------------------------------------------------------------
// dual-getvalue-local

// ownRecord: the value of the record the given side's own datastore held for
// the operation's key at the call ("" if none): the last write applied to it
// before the call whose record carries that key.
func (w *c15World) ownRecord(side string, o *c15Op) string {
	if w.focus != "local" {
		return ""
	}
	last := ""
	log := w.ds[side].Log()
	for i := 0; i < len(log) && i < o.dsFrom[side]; i++ {
		r := log[i]
		if r.Op != "put" || r.Err != nil {
			continue
		}
		var rec recpb.Record
		if err := proto.Unmarshal(r.Val, &rec); err != nil || string(rec.GetKey()) != o.strKey {
			continue
		}
		if _, _, k, err := parseRankValue(rec.GetValue()); err != nil || k != o.strKey {
			continue // (not generated: every value the node writes is valid for its key)
		}
		last = string(rec.GetValue())
	}
	return last
}

func (w *c15World) ownRecordProbes(o *c15Op, wOwn, lOwn string, wanOK bool) {
	if w.focus != "local" {
		return
	}
	s := w.s
	switch {
	case wOwn != "" && len(o.wanRT) == 0:
		s.Count("probe_getvalue_own_wan_record_table_empty")
		if lOwn != "" || len(o.lanRT) > 0 {
			s.Count("probe_getvalue_own_wan_record_table_empty_lan_has_other")
		}
	case wOwn != "":
		s.Count("probe_getvalue_own_wan_record_table_nonempty")
	}
	switch {
	case lOwn != "" && !wanOK:
		s.Count("probe_getvalue_own_lan_record_fallback")
	case lOwn != "":
		s.Count("probe_getvalue_own_lan_record_wan_wins")
	}
	if wOwn != "" && lOwn != "" {
		s.Count("probe_getvalue_own_records_both_sides")
	}
}

// ---------------------------------------------------------------------------
// dual-optprovide

// drainBenign answers every parked call by its script, in canonical order,
// without decisions, until done() holds.
func (w *c15World) drainBenign(done func() bool) bool {
	s := w.s
	for n := 0; n < 2000; n++ {
		s.Quiesce()
		if done() {
			return true
		}
		acts := w.actions(nil)
		if len(acts) == 0 {
			s.Sleep(time.Second)
			continue
		}
		acts[0].Do()
	}
	return false
}

// warmUp: closest-peers lookups through the public API of each inner DHT until
// it reports a network-size estimate.
func (w *c15World) warmUp() {
	s := w.s
	w.estReady = map[string]bool{}
	for _, side := range []string{c15W, c15L} {
		d := w.innerOf(side)
		ready := false
		n := 0
		for ; n < 16 && !ready; n++ {
			key := fmt.Sprintf("/v/c15-warm-%s-%d", side, n)
			ctx := sim.WithTag(context.Background(), fmt.Sprintf("u%s%d", side[:1], n))
			op := w.cl.Go(s, "warm-up", func() (any, error) { return d.GetClosestPeers(ctx, key) })
			if !w.drainBenign(func() bool { return op.Done }) {
				panic("c15 optprovide: a warm-up lookup did not return")
			}
			w.observe()
			if s.Failed() {
				return
			}
			_, err := d.NetworkSize()
			ready = err == nil
		}
		w.estReady[side] = ready
		s.Tracef("warm-up %s: %d lookups, estimate=%v table=%d", side, n, ready, d.RoutingTable().Size())
		if ready {
			s.Count("probe_optprov_estimator_ready_" + side)
		}
	}
	s.Summary["cfg"] = fmt.Sprintf("%v optprovide=%s estimate=%v/%v", s.Summary["cfg"], w.optSides, w.estReady[c15W], w.estReady[c15L])
}

// advertisable: the host announces an address the given side may advertise
// (WAN: one labelled public; LAN: one that is not loopback).
func (w *c15World) advertisable(side string) bool {
	for _, a := range w.selfAddrs {
		l, _ := w.pal.label(a)
		if (side == c15W && l.pub) || (side == c15L && !l.loop) {
			return true
		}
	}
	return false
}

// optProvProbes: called when a Provide of dual-optprovide is judged.
func (w *c15World) optProvProbes(o *c15Op, want string, onWant []*simnet.RPC) {
	if w.focus != "optprov" || !o.announce {
		return
	}
	s := w.s
	enabled := w.optSides == c15B || w.optSides == want
	switch {
	case enabled && w.estReady[want]:
		s.Count("probe_optprov_provide_" + want + "_estimator_ready")
	default:
		s.Count("probe_optprov_provide_estimator_not_ready")
	}
	for _, r := range onWant {
		if r.Req.GetType() == pb.Message_ADD_PROVIDER && !r.Done {
			s.Count("probe_optprov_returned_with_requests_open")
			break
		}
	}
}
