//go:build all || c02

package scen

import (
	"fmt"
	"sort"

	"github.com/libp2p/go-libp2p/core/peer"

	"verif/sim"
	"verif/simnet"
)

func init() {
	common := func(sc *sim.Scenario) *sim.Scenario {
		sc.Real = []string{"IpfsDHT.GetClosestPeers", "query.go state machine incl. follow-up phase", "qpeerset", "lookup events", "kbucket routing table (refresh stamps)", "ProtocolMessenger"}
		sc.Stub = []string{"host.Host/network (simhost)", "pb.MessageSender (level A)", "remote peers (scripted: full knowledge / k-bucket complete / random with faults)"}
		sc.Faults = append([]string{"fault_dial_fail", "fault_rpc_error", "fault_cancel", "time_advance", "probe_term_completed", "probe_term_starvation", "probe_followup_ran", "probe_stamp_checked"}, c02BareFaults...)
		sc.Faults = append(append(sc.Faults, c02WideFaults...), c02StaleFaults...)
		return sc
	}
	mk := func(name, universe string, weight int) {
		sim.Register(common(&sim.Scenario{Prop: "C02", Name: name, Weight: weight, Run: func(s *sim.Sim) {
			c := genLookupCfg(s, universe)
			// wide configurations (c02_wide.go): K beyond the small range
			drawWideK(s, &c)
			if universe == "random" {
				c.FaultLevel = s.Draw("fault-level", 3)
				if s.Chance("cancel", 1, 6) {
					c.CancelAt = s.Range("cancel-at", 1, 40)
				}
			}
			// patchy address knowledge (c02_bare.go): peers named without
			// addresses, seeds without a stored address
			bare := drawBareWorld(s)
			bare.install(&c)
			// the order of the records in a reply (c02_wide.go)
			order := drawReplyOrder(s)
			c.Arrange = order.arrange
			// leftovers of earlier encounters in the peerstore (c02_stale.go)
			stale := drawStaleWorld(s)
			stale.install(&c)
			s.MaxSteps = 800
			if c.K > c02SmallK {
				s.MaxSteps = 1600
			}
			o := runLookup(s, c)
			if o != nil {
				s.Summary["cfg"] = fmt.Sprintf("%v bare=%s order=%s stale=%s", s.Summary["cfg"], bare, order, stale)
			}
			if o != nil && !s.Failed() {
				checkC02(s, o, &c02Extras{stale: stale})
			}
			if o != nil {
				o.h.closeAndCensus()
			}
			s.Finish()
		}}))
	}
	mk("converge-full-knowledge", "full", 2)
	mk("converge-kbucket-complete", "kbucket", 3)
	mk("terminate-and-contact", "random", 3)
}

// c02Extras: generator state the probes of checkC02 need.
type c02Extras struct {
	stale *staleWorld
}

func checkC02(s *sim.Sim, o *lookupObs, x *c02Extras) {
	u, K := o.h.U, o.cfg.K
	res, _ := o.op.Result.([]peer.ID)
	v, bad := o.view()
	if bad != "" {
		s.Violate("events-wellformed", "%s", bad)
		return
	}
	cancelled := o.cancelStep != 0 || o.op.Err != nil
	real := u.Peers[:o.cfg.N]

	// (a)/(b): convergence in the idealised universes
	if !cancelled && (o.cfg.Universe == "full" || o.cfg.Universe == "kbucket") {
		switch o.cfg.Universe {
		case "full":
			global := simnet.IDs(simnet.Nearest(real, o.keyKad, K))
			same := len(global) == len(res)
			for i := 0; same && i < len(res); i++ {
				same = res[i] == global[i]
			}
			if !same {
				s.Violate("converge-full", "every peer knows the whole network, yet lookup returned [%s] instead of the K globally nearest [%s]", names(u, res), names(u, global))
			}
		case "kbucket":
			// only the nearest is needed: linear scan (the deep-path universes are big)
			g0 := real[0]
			for _, p := range real[1:] {
				if p.Kad.Xor(o.keyKad).Less(g0.Kad.Xor(o.keyKad)) {
					g0 = p
				}
			}
			if len(res) == 0 || res[0] != g0.ID {
				s.Violate("converge-nearest", "k-bucket-complete network, yet the first returned peer is %s, globally nearest is %s (result [%s])", firstName(u, res), g0.Name, names(u, res))
			}
		}
		s.NonTrivial = len(v.queried) >= 2
	}

	// (c) termination: beta nearest non-failed learned peers answered, or nothing left to ask.
	// "Failed" is a fact of the environment (c02_bare.go): the lookup calls the
	// peer unreachable AND the simulator delivered a failed dial, a failed
	// request or a cancellation for it no later than that report.
	envFailed := map[peer.ID]int{}
	for _, d := range o.deliveries {
		if d.Kind == "dial-fail" || d.Kind == "rpc-err" || d.Kind == "cancel" {
			if _, ok := envFailed[d.Peer]; !ok {
				envFailed[d.Peer] = d.Step
			}
		}
	}
	failed := func(p peer.ID) bool {
		st, f := v.unreach[p]
		if !f {
			return false
		}
		fs, ok := envFailed[p]
		return ok && fs <= st
	}
	if !cancelled && v.termIdx >= 0 && v.reason != "cancelled" && v.reason != "stopped" {
		// "Learned" is a fact of the exchange (c02_stale.go): besides what the
		// lookup's events call heard, every peer named in the delivered reply of
		// a responder the lookup reports as queried, unless the configured query
		// filter rejects it.
		learned := map[peer.ID]bool{}
		for p := range v.learned {
			learned[p] = true
		}
		var unreported []peer.ID
		for _, d := range o.deliveries {
			if d.Kind != "reply" || d.RPC == nil || string(d.RPC.Req.GetKey()) != o.cfg.Key {
				continue
			}
			if qs, q := v.queried[d.Peer]; !q || qs < d.Step {
				continue
			}
			for _, p := range d.Peers {
				if p == u.Self.ID || o.cfg.Deny[p] || learned[p] {
					continue
				}
				learned[p] = true
				unreported = append(unreported, p)
			}
		}
		var alive, writtenOff []peer.ID
		left := 0
		for p := range learned {
			if p == u.Self.ID || failed(p) {
				continue
			}
			if _, f := v.unreach[p]; f {
				writtenOff = append(writtenOff, p)
			}
			alive = append(alive, p)
			if _, q := v.queried[p]; !q {
				left++
			}
		}
		sort.Slice(alive, func(i, j int) bool { return u.Name(alive[i]) < u.Name(alive[j]) })
		simnet.SortByDistance(alive, o.keyKad)
		top := alive
		if len(top) > o.cfg.Beta {
			top = top[:o.cfg.Beta]
		}
		allQ := true
		for _, p := range top {
			if _, q := v.queried[p]; !q {
				allQ = false
			}
		}
		if !allQ && left > 0 {
			extra := ""
			if len(writtenOff) > 0 {
				extra = fmt.Sprintf("; the lookup wrote off {%s} as unreachable although no dial and no request to them failed", sortedNames(u, writtenOff))
			}
			if len(unreported) > 0 {
				extra += fmt.Sprintf("; replies it received named {%s}, which it never reported as heard", sortedNames(u, unreported))
			}
			s.Violate("terminate-early", "lookup ended (%s) although one of the beta=%d nearest non-failed learned peers [%s] has not answered and %d learned peers were still to be asked%s", v.reason, o.cfg.Beta, names(u, top), left, extra)
		}
		s.Count("probe_term_" + v.reason)
		if o.cfg.Universe == "random" {
			s.NonTrivial = len(v.queried) >= 1 && (len(v.unreach) > 0 || len(v.queried) >= 3)
		}
	}

	// (d) every returned peer has been sent the request at least once
	if o.op.Err == nil && o.cancelStep == 0 {
		asked := map[peer.ID]bool{}
		follow := 0
		for _, r := range o.h.Snd.Snapshot() {
			if string(r.Req.GetKey()) == o.cfg.Key {
				asked[r.To] = true
				if v.termIdx >= 0 && r.SentStep >= v.termStep {
					follow++
				}
			}
		}
		for _, p := range res {
			if !asked[p] {
				s.Violate("returned-unasked", "lookup returned %s without ever sending it the request (result [%s])", u.Name(p), names(u, res))
			}
		}
		if follow > 0 {
			s.Count("probe_followup_ran")
		}
	}

	bareProbes(s, o, res)
	wideProbes(s, o, res)
	if x != nil {
		x.stale.probes(s, o, res)
	}

	// (e) the refresh stamp of the key's bucket moves iff the lookup completed
	cpl := u.Self.Kad.CPL(o.keyKad)
	if cpl < len(o.stampsPre) && cpl < len(o.stampsPost) {
		s.Count("probe_stamp_checked")
		moved := !o.stampsPost[cpl].Equal(o.stampsPre[cpl])
		completed := o.op.Err == nil && o.cancelStep == 0
		if completed && !(moved && o.stampsPost[cpl].Equal(o.returnedAt)) {
			s.Violate("stamp-missing", "completed lookup did not stamp bucket %d as refreshed at its completion time", cpl)
		}
		if !completed && moved {
			s.Violate("stamp-on-incomplete", "cancelled lookup stamped bucket %d as refreshed", cpl)
		}
	}
	s.State("u=%s reason=%s q=%d u=%d res=%d", o.cfg.Universe, v.reason, len(v.queried), len(v.unreach), len(res))
}

func firstName(u *simnet.Universe, ids []peer.ID) string {
	if len(ids) == 0 {
		return "(none)"
	}
	return u.Name(ids[0])
}
