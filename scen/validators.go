package scen

import (
	"errors"
	"fmt"
	"strconv"
	"strings"
	"time"

	record "github.com/libp2p/go-libp2p-record"
)

// rankValidator is the harness-defined record.Validator used by the value
// scenarios. A value has the form "<rank>|<expiry-unix-nano or 0>|<key>".
// Validate accepts it iff it parses, the embedded key equals the record key
// and (when an expiry is present and the validator is time-aware) the virtual
// clock is before the expiry. Select prefers the higher rank (first wins ties).
type rankValidator struct {
	// TimeAware: honour the expiry field (C04); otherwise it is ignored (C05).
	TimeAware bool
}

var _ record.Validator = rankValidator{}

func rankValue(rank int, expiry time.Time, key string) []byte {
	var e int64
	if !expiry.IsZero() {
		e = expiry.UnixNano()
	}
	return []byte(fmt.Sprintf("%d|%d|%s", rank, e, key))
}

func parseRankValue(v []byte) (rank int, expiry time.Time, key string, err error) {
	parts := strings.SplitN(string(v), "|", 3)
	if len(parts) != 3 {
		return 0, time.Time{}, "", errors.New("rank value: malformed")
	}
	rank, err = strconv.Atoi(parts[0])
	if err != nil || rank < 0 {
		return 0, time.Time{}, "", errors.New("rank value: bad rank")
	}
	e, err := strconv.ParseInt(parts[1], 10, 64)
	if err != nil {
		return 0, time.Time{}, "", errors.New("rank value: bad expiry")
	}
	if e != 0 {
		expiry = time.Unix(0, e)
	}
	return rank, expiry, parts[2], nil
}

func (rv rankValidator) Validate(key string, value []byte) error {
	_, expiry, k, err := parseRankValue(value)
	if err != nil {
		return err
	}
	// namespaced validators receive the full key
	if k != key {
		return fmt.Errorf("rank value: embedded key %q does not match %q", k, key)
	}
	if rv.TimeAware && !expiry.IsZero() && !time.Now().Before(expiry) {
		return errors.New("rank value: expired")
	}
	return nil
}

func (rv rankValidator) Select(key string, values [][]byte) (int, error) {
	best, bestRank := -1, -1
	for i, v := range values {
		r, _, _, err := parseRankValue(v)
		if err != nil {
			continue
		}
		if r > bestRank {
			best, bestRank = i, r
		}
	}
	if best < 0 {
		return 0, errors.New("rank value: no valid value to select")
	}
	return best, nil
}
