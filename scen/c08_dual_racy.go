//go:build all || c08

package scen

// C08, dual client, racy variant (sim.Scenario.Racy, HARNESS "Racy
// scenarios"): the consumer is always lazy (takes an item only when the
// scheduler lets it) and BOTH networks name providers (and may both hold local
// records), which find-providers-dual excludes for determinism: while the
// merging goroutine is blocked handing a provider to the caller, both
// sub-searches come to sit blocked on their own channels, and the merging
// goroutine's next select has two ready item cases - the Go runtime's choice,
// visible in the order of the yields. That coin is inside the code under test;
// every rule of the C08 oracle holds whichever way it falls, because none of
// them refers to the order in which two ready sources are served:
//   - not-closed         "the result channel is always closed, after completion
//                         or cancellation"
//   - repeat-merged      "the dual ... clients merge their sources ... without
//                         repeating a peer" (here with the same peer waiting on
//                         both sub-channels at once)
//   - count-exceeded, asked-after-count, yield-unreported, missing-provider
//                        as in c08.go (stamps are scheduler steps; a yield is
//                        stamped when the consumer received it, which is never
//                        earlier than the delivery of the reply that named it).
// Runs of this scenario are excluded from the determinism comparison; a
// violation found here may replay only intermittently (the driver says so).
// The caller's context is not subscribed to query events (see c08_dual.go).
// Class of regressions exposed: merge bookkeeping (found-set, countdown, close,
// cancellation) that is only right when at most one source has something ready
// or when the hand-over to the caller never blocks.

import "verif/sim"

func init() {
	sim.Register(&sim.Scenario{Prop: "C08", Name: "find-providers-dual-racy", Weight: 2, Racy: true, Run: func(s *sim.Sim) {
		s.MaxSteps = 800
		w := c08BuildDual(s, true)
		c08RunAndCheck(w)
		if w.twoSidedYields() {
			s.Count("probe_dual_lazy_yields_from_both_sides")
		}
		s.Finish()
	},
		Real:   []string{"dual.DHT.FindProvidersAsync (merge select with several ready sources, found-set, countdown, hand-over to a caller that is not reading, cancellation)", "two IpfsDHT provider searches"},
		Stub:   []string{"host.Host/network (simhost, one host shared by WAN and LAN)", "two pb.MessageSender (level A)", "remote peers (scripted)", "provider datastores (simds)"},
		Faults: append(append(append([]string{}, c08Faults...), c08LazyFaults...), "probe_dual_lazy_yields_from_both_sides"),
	})
}
