//go:build all || c03

package scen

// C03 with callers whose lookup-event subscriber falls behind.
//
// Scenario lagging-subscriber: the world, the operations, the peer model, the
// scheduler loop, the drain and every oracle rule are those of c03.go (standard
// client, any mix of the eight routing operations, faulty peers, cancellation
// at a drawn step / in the store phase / by a deadline). What is new is the
// caller's side of the public lookup-event API (RegisterForLookupEvents):
//
//   - every operation has a subscription of its own, registered on a context
//     that OUTLIVES the operation's context (the operation runs under a child of
//     the registration context; the registration is only cancelled at teardown -
//     the way the API is documented: "the passed context MUST be canceled when
//     the caller is no longer interested in query events");
//   - the capacity of the subscription's buffer is an input (the public knob
//     LookupEventBufferSize: 1, 2, 3, 5, 8 or whatever the library's default is);
//   - the subscriber is a drawn kind of laggard: a slow reader, which takes a
//     drawn number of events (1..3) only when the scheduler picks its "evread"
//     action, or a stalling reader, which keeps up until it has taken a drawn
//     number of events (0..40) and then does not read any more. A subscriber
//     never reads once the operation's context has ended (it stays behind for
//     good: a monitoring component that hangs); it catches up and keeps up in
//     the drain phase, and only for operations whose context is live, because
//     liveness is demanded only after faults stop - a lookup that publishes
//     into a full buffer waits for its subscriber by design (back-pressure), so
//     no rule is applied to an operation that waits for a reader while its
//     context is live.
//
// Rule (no new id; the clause is the one cancel-not-prompt encodes already):
//
//	cancel-not-prompt  "returns promptly after its context is cancelled": the
//	                  clause is unconditional - it names no party whose
//	                  cooperation the return may wait for. The subscriber is
//	                  part of the caller's environment just as the peers are;
//	                  once the operation's context has ended and every parked
//	                  call of the operation has observed that, the operation
//	                  has c03PromptSlop to return, however many events its
//	                  subscriber has left unread and whether or not it will
//	                  ever read again. (Class of regressions exposed: any step
//	                  of an operation that waits for a party outside the
//	                  system under a context that the caller's cancellation
//	                  does not reach - here: handing an event to a subscriber.)
//
// Probes: probe_lag_buffer_full (a quiescent point with the buffer full and the
// context live), probe_lag_reply_withheld, probe_lag_ctx_done_buffer_full /
// _has_room (state of the buffer when the context ended),
// probe_lag_prompt_judged_buffer_full (such an operation was judged by the
// prompt-return rule through to its return), probe_lag_reader_stalled,
// probe_lag_slow_read, probe_lag_drain_caught_up.
//
// Kept out of the schedule space (coins of the Go runtime inside the system,
// HARNESS.md pitfall 3):
//   - while the buffer of a live operation is full, replies and failures of the
//     peers its lookup asks are withheld (to the system they are peers that have
//     not answered yet). The lookup loop may be blocked handing over an event
//     then; an answer arriving meanwhile would sit in the loop's update channel,
//     and a cancellation landing in that state lets the loop enter a select with
//     two ready cases (next update / context done). With the answers withheld
//     the update channel is empty whenever the loop is blocked on the
//     subscriber, and a blocked hand-over is left through the done context as
//     the only ready case. Store requests are not withheld (no events are
//     published in the store phase);
//   - nothing is read off the event buffer of an operation whose context has
//     ended, and the length of that buffer is not looked at any more: whether
//     the Terminate event of a cancelled lookup is enqueued when there is room
//     is a coin (the events themselves are never traced);
//   - Provide under a deadline: the classic provide runs its lookup under an
//     inner, earlier deadline; when that one fires the lookup's Terminate event
//     is such a coin while the caller's context is still live, and the buffer
//     length would steer later decisions. Provide is cancelled explicitly here;
//   - value searches (GetValue / SearchValue) under a deadline, and cancelled
//     while their lookup has no request outstanding although a value was found:
//     the lookup, possibly waiting for its subscriber, would end in the instant
//     of the cancellation and race the value collector's closing select
//     (lagCancelSafe). Their cancellations wait for an instant at which a
//     look-up request is parked;
//   - result-channel consumers that are not reading (lazy consumers): a worker
//     blocked handing over a value reacts to the cancellation by itself and
//     races the lookup loop on its way out of a blocked event hand-over;
//   - routing.RegisterForQueryEvents with a full buffer: its publisher holds an
//     un-instrumented sync.Mutex of go-libp2p across the blocking hand-over and
//     query events are published by several goroutines of one lookup, so a
//     second publisher would block where synctest cannot see it (pitfall 9);
//   - one subscription shared by concurrent operations (the publishers would
//     queue on the subscription's mutex in Go-scheduler order).

import (
	"fmt"
	"strings"
	"time"

	dht "github.com/libp2p/go-libp2p-kad-dht"

	"verif/sim"
	"verif/simnet"
)

const (
	c03LagSlow  = 1 + iota // reads evBurst events whenever the scheduler picks "evread"
	c03LagStall            // keeps up until stallAfter events were taken, then stops reading
)

// the library's default buffer size, read before any run touches the knob
var c03LibEvBuf = dht.LookupEventBufferSize

func init() {
	sim.Register(&sim.Scenario{Prop: "C03", Name: "lagging-subscriber", Weight: 3,
		Real: []string{"IpfsDHT.GetClosestPeers/FindPeer/GetValue/SearchValue/FindProviders/FindProvidersAsync/PutValue/Provide (classic)", "query.go state machine incl. follow-up phase", "lookup events: RegisterForLookupEvents / PublishLookupEvent with a bounded buffer (events.go)", "qpeerset", "kbucket routing table", "records.ValueStore / ProviderManager on the default in-memory datastore", "ProtocolMessenger"},
		Stub: []string{"host.Host/network (simhost)", "pb.MessageSender (level A, simnet.Sender)", "remote peers (scripted value/provider/closer-peer model: honest, dial-fail, request-fail, silent, slow)", "validator (harness rank validator)", "the callers' lookup-event subscribers (slow or stalling readers on a registration context that outlives the operation's)"},
		Faults: []string{
			"fault_dial_fail", "fault_dial_timeout", "fault_rpc_error", "fault_silent_timeout", "fault_slow_reply", "fault_cancel", "fault_deadline", "fault_store_phase_only", "time_advance", "cancel_observed",
			"fault_subscriber_slow", "fault_subscriber_stalls",
			"probe_lag_buffer_full", "probe_lag_reply_withheld", "probe_lag_ctx_done_buffer_full", "probe_lag_ctx_done_buffer_has_room", "probe_lag_prompt_judged_buffer_full",
			"probe_lag_reader_stalled", "probe_lag_slow_read", "probe_lag_drain_caught_up", "probe_lag_default_buffer",
			"probe_cancel_mid_search", "probe_cancel_during_put_phase", "probe_deadline_mid_search", "probe_deadline_expired_in_flight",
			"probe_returned_after_cancel", "probe_chan_closed_after_cancel", "probe_prompt_checked", "probe_prompt_judged_mid_search", "probe_prompt_judged_during_put_phase",
			"probe_cancel_between_lookup_and_followup", "probe_std_ctx_done_in_store_phase", "probe_ctx_done_in_store_phase_PutValue", "probe_ctx_done_in_store_phase_Provide",
			"probe_followup_ran", "probe_term_completed", "probe_term_starvation", "probe_term_stopped", "probe_local_value", "probe_local_providers", "probe_background_ended_by_itself",
			"probe_late_reply_after_cancel", "probe_all_peers_failing", "probe_returned_all_failing", "probe_drain_finished_op", "probe_background_left_for_close",
			"probe_op_GetClosestPeers", "probe_op_FindPeer", "probe_op_GetValue", "probe_op_SearchValue", "probe_op_FindProviders", "probe_op_FindProvidersAsync", "probe_op_PutValue", "probe_op_Provide",
		},
		Run: func(s *sim.Sim) { runC03(s, c03cfg{Faulty: true, Lag: true}) }})
}

// genLag draws the subscriber of op and takes the operation out of the states
// listed in the header.
func (w *c03world) genLag(op *c03op) {
	s := w.s
	op.lag = []int{c03LagStall, c03LagSlow}[s.Draw("lag-kind", 2)]
	op.evBuf = []int{c03LibEvBuf, 1, 2, 3, 5, 8}[s.Draw("ev-buf", 6)]
	op.evBurst = 1 + s.Draw("ev-burst", 3)
	op.stallAfter = s.Draw("stall-after", 41)
	op.lazy = false
	if op.cancelMode == 2 {
		// the phases of the lookup cannot be told from events that are read late:
		// cancel at a drawn step instead
		op.cancelMode, op.cancelAfter = 1, 1+3*op.cancelAfter
	}
	if op.cancelMode == 3 && (op.kind == c03Provide || op.kind == c03GetValue || op.kind == c03SearchValue) {
		// inner deadline of the classic provide; a deadline cannot wait for a safe
		// instant of a value search (lagCancelSafe): see the header
		op.cancelMode, op.deadline = 0, 0
	}
	if op.cancelMode == 0 && s.Chance("lag-cancel", 1, 2) {
		op.cancelMode, op.cancelAfter = 1, s.Range("cancel-after", 1, 40)
	}
	if op.lag == c03LagSlow {
		s.Count("fault_subscriber_slow")
	} else {
		s.Count("fault_subscriber_stalls")
	}
	if op.evBuf == c03LibEvBuf {
		s.Count("probe_lag_default_buffer")
	}
}

// lagLive: op has a lagging subscriber whose behaviour still matters to the
// schedule - the operation is in flight and its context is live.
func (op *c03op) lagLive() bool {
	return op.lag != 0 && op.started && op.evCh != nil && !op.api.Done && !op.abandoned && op.ctx.Err() == nil
}

// takeEvent takes one event off op's buffer if there is one. Events are never
// traced. timely: the subscriber has kept up so far, the event was published
// since the last quiescent point; the Terminate event of a live lookup without
// a deadline is then used as pump uses it.
func (w *c03world) takeEvent(op *c03op, timely bool) bool {
	select {
	case ev, ok := <-op.evCh:
		if !ok {
			op.evCh = nil
			return false
		}
		if timely && ev != nil && ev.Terminate != nil && op.termStep == 0 && op.deadline == 0 && op.ctx.Err() == nil {
			op.termStep = w.s.Steps
			op.termReason = strings.ToLower(ev.Terminate.Reason.String())
		}
		return true
	default:
		return false
	}
}

// pumpLag is pump for an operation with a lagging subscriber. Called at
// quiescent points only. Whenever events were taken the publisher may have
// been waiting for room: it is let run (Quiesce) before the next look.
func (w *c03world) pumpLag(op *c03op) {
	s := w.s
	if !op.started || op.evCh == nil {
		return
	}
	if op.api.Done || op.abandoned {
		for w.takeEvent(op, false) { // nobody publishes any more
		}
		return
	}
	if op.ctx.Err() != nil {
		// the subscriber stays behind for good; the operation's return must not
		// depend on it (and the buffer's content is a coin from here on)
		return
	}
	switch {
	case op.inDrain:
		// faults have stopped: the subscriber catches up and keeps up
		for {
			n := 0
			for w.takeEvent(op, !op.evBehind) {
				n++
			}
			if n == 0 {
				break
			}
			if op.evBehind {
				s.Count("probe_lag_drain_caught_up")
			}
			s.Quiesce()
		}
		op.evBehind = false
	case op.lag == c03LagStall:
		for op.evTaken < op.stallAfter {
			n := 0
			for op.evTaken < op.stallAfter && w.takeEvent(op, true) {
				n++
				op.evTaken++
			}
			if n == 0 {
				break
			}
			if op.evTaken == op.stallAfter {
				s.Count("probe_lag_reader_stalled")
			}
			s.Quiesce()
		}
		if op.evTaken >= op.stallAfter && op.evCh != nil && len(op.evCh) > 0 {
			op.evBehind = true
		}
	default: // slow reader: reads only when scheduled (lagActions)
		if len(op.evCh) > 0 {
			op.evBehind = true
		}
	}
}

// lagObserve notes, at a quiescent point, which live operations have a full
// event buffer.
func (w *c03world) lagObserve() {
	for _, op := range w.ops {
		if !op.lagLive() {
			continue
		}
		if op.lastFull = len(op.evCh) == cap(op.evCh); op.lastFull {
			w.s.Count("probe_lag_buffer_full")
		}
	}
}

// withheld: p is a dial or a look-up request of a live operation whose event
// buffer is full (see the header: such answers are withheld until the
// subscriber has read or the operation's context has ended).
func (w *c03world) withheld(p *sim.Parked) bool {
	if p.Kind != "dial" && p.Kind != "rpc" {
		return false
	}
	if r, ok := p.Data.(*simnet.RPC); ok && c03IsStore(r.Req.GetType()) {
		return false
	}
	op := w.opOf(p)
	if op == nil || !op.lagLive() || len(op.evCh) < cap(op.evCh) {
		return false
	}
	w.s.Count("probe_lag_reply_withheld")
	return true
}

// lagActions adds the subscribers' reads to the enabled events, and the time
// until the deadline of an operation that waits for its subscriber to the
// wake-up time (nothing else would move such an operation).
func (w *c03world) lagActions(acts []sim.Action, wake time.Duration) ([]sim.Action, time.Duration) {
	for _, op := range w.ops {
		op := op
		if !op.lagLive() {
			continue
		}
		n := len(op.evCh)
		if op.lag == c03LagSlow && n > 0 {
			acts = append(acts, sim.Action{ID: "evread>" + op.tag, Do: func() {
				w.s.Count("probe_lag_slow_read")
				for i := 0; i < op.evBurst && w.takeEvent(op, false); i++ {
					op.evTaken++
				}
			}})
		}
		if n == cap(op.evCh) && op.deadline > 0 {
			if dl, ok := op.ctx.Deadline(); ok {
				// a millisecond past the deadline: not the instant itself
				if d := time.Until(dl) + time.Millisecond; d > 0 && (wake == 0 || d < wake) {
					wake = d
				}
			}
		}
	}
	return acts, wake
}

// lagCancelSafe: a value search runs its lookup on a goroutine of its own and
// collects the values on another; when the search has produced a value, the
// collector ends with a select between the lookup's result and the done
// context. A lookup that waits for its subscriber with no request outstanding
// ends in the very instant of the cancellation, so both cases are ready: a coin
// (corrective stores are sent or not). While a request of the lookup is parked
// the lookup cannot end before the scheduler has let that request observe the
// cancellation, and the done context is the only ready case. A due
// cancellation of a value search is therefore postponed until one of its
// look-up calls is parked, or - SearchValue, whose consumer's count is known -
// applied while no value has been produced yet (the collector then returns
// without that select).
func (w *c03world) lagCancelSafe(op *c03op) bool {
	if op.kind != c03GetValue && op.kind != c03SearchValue {
		return true
	}
	if op.kind == c03SearchValue && op.apiReturned.Load() && op.received.Load() == 0 && !op.localVal {
		return true
	}
	for _, p := range w.parkedOf(op) {
		if p.Kind == "dial" {
			return true
		}
		if r, ok := p.Data.(*simnet.RPC); ok && p.Kind == "rpc" && !c03IsStore(r.Req.GetType()) {
			return true
		}
	}
	return false
}

// stepCancelPending: a cancellation drawn for a later step is still to come.
func (w *c03world) stepCancelPending() bool {
	for _, op := range w.ops {
		if op.started && !op.cancelled && !op.api.Done && !op.abandoned && op.cancelMode == 1 && w.s.Steps < op.startStep+op.cancelAfter {
			return true
		}
	}
	return false
}

// lagAtCtxEnd: the context of op has ended (it was live at the last quiescent
// point, whose view of the buffer lagObserve recorded).
func (w *c03world) lagAtCtxEnd(op *c03op) {
	if op.lag == 0 {
		return
	}
	if op.fullAtEnd = op.lastFull; op.fullAtEnd {
		w.s.Count("probe_lag_ctx_done_buffer_full")
	} else {
		w.s.Count("probe_lag_ctx_done_buffer_has_room")
	}
}

// lagNote: the part of a cancel-not-prompt message that describes the subscriber.
func (w *c03world) lagNote(op *c03op) string {
	kind := "a slow reader"
	if op.lag == c03LagStall {
		kind = fmt.Sprintf("a reader that stopped reading after %d events", op.stallAfter)
	}
	n, c := 0, op.evBuf
	if op.evCh != nil {
		n, c = len(op.evCh), cap(op.evCh)
	}
	return fmt.Sprintf(" - the caller's lookup-event subscriber (RegisterForLookupEvents on a context that outlives the operation's; %s) has %d of %d buffered events unread (buffer full when the context ended: %v): the return after cancellation must not wait for the subscriber", kind, n, c, op.fullAtEnd)
}
