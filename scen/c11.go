//go:build all || c11

// C11 — every RPC reply is matched to its own request (scenario rpc-pairing).
//
// The real internal/net sender (reached through IpfsDHT.MessageSender()) talks
// over scheduler-owned byte pipes to scripted remote peers that answer every
// request with an echo of the WHOLE request (type, key and record), the way a
// real server answers PUT_VALUE, plus closer-peer and provider-peer lists
// whose length and entries depend on the request (c11Echo), the way a real
// server answers FIND_NODE / GET_PROVIDERS. The identity of a request is carried in its
// record value; its key is either unique or drawn from a small pool shared by
// all requests of the run, so concurrent requests to one peer may agree in
// type and key and differ only in their payload.
//
// Oracle rules and the clause of the property each one encodes:
//
//	mismatched-reply        "each response returned by the message sender is the
//	                        remote peer's reply to that very request" / "fails
//	                        instead of consuming a later reply": the reply handed
//	                        to a caller echoes the payload of the caller's own
//	                        request, not that of a sibling (also a sibling with an
//	                        equal type and key).
//	reply-altered           "each response returned by the message sender is the
//	                        remote peer's reply to that very request": the reply,
//	                        whole - type, key, record, closer peers, provider
//	                        peers - and nothing but that reply. The returned
//	                        message is compared field by field with the one
//	                        message the remote wrote in answer to that request;
//	                        anything added (left over from a frame of an earlier,
//	                        failed attempt, or from another exchange), dropped or
//	                        changed is a violation.
//	reply-without-exchange  same clause, the other direction: a request that the
//	                        sender acknowledged with a reply was received by the
//	                        remote peer, and the remote wrote an answer to it.
//	two-streams             "exchanges with one peer are serialized over at most
//	                        one stream": at most one open outbound stream per
//	                        peer at a quiescent point.
//	two-streams-after-disconnect
//	                        the same clause in the one situation covered by the
//	                        open known finding: a disconnect notification has
//	                        arrived and a request that was in flight or queued
//	                        at that moment has not returned yet.
//	stream-survives-disconnect
//	                        the same clause once that excuse has run out: every
//	                        request that was in flight or queued when a disconnect
//	                        notification arrived has returned, the node is
//	                        quiescent, and still two streams to the peer are open
//	                        (a stream that belonged to the dropped per-peer state
//	                        was never reset). To make a surviving stream visible
//	                        the run ends with one fault-free request per peer.
//	pipelined               "serialized": no request is written to a stream
//	                        before the previous exchange on it completed.
//	failed-stream-open      "reset rather than reused after any failed exchange":
//	                        whatever made the exchange fail - a reset, an end of
//	                        stream, a time-out, a cancellation, an expired caller
//	                        deadline, or a reply frame that is well delimited but
//	                        cannot be decoded / announces an absurd length.
//	late-reply-accepted     "a request whose reply did not arrive in time fails
//	                        instead of consuming a later reply", for every
//	                        caller: also one whose own context carries a deadline
//	                        far beyond any read time-out. "In time" is the
//	                        sender's own read time-out, which the harness does
//	                        not mirror; it judges only replies that were
//	                        delivered more than c11InTime (10 minutes, a harness
//	                        choice: generous by more than an order of magnitude
//	                        for one exchange with one peer) after the request was
//	                        written to that stream. Such a reply must not come
//	                        back as a success.
//	request-wedged          liveness after the faults stopped ("a request whose
//	                        reply did not arrive in time fails": it does not wait
//	                        for ever either, whatever deadline its caller has).
//
// Disconnect notifications come in two shapes: with the peer's streams reset
// (the connection died) and "stale" (the connection was re-established before
// the node processed the notification, so its streams are alive).
//
// Abandoned notifications (wave 12). The property quantifies over "concurrent
// SendRequest/SendMessage/OnDisconnect calls" and "any mix of ... context
// cancellations and disconnect notifications", and OnDisconnect takes a
// context of its own. Besides the notifications that travel over the event
// bus (whose context is the node's and lives as long as the run) the scenario
// therefore calls OnDisconnect directly, the way a user of the exported
// MessageSenderWithDisconnect does, with a context the scenario owns, and
// ends that context at a drawn later moment - at once, or some steps later,
// while the notification may still be waiting behind the exchange in flight
// and the callers queued after it. No new rule: a notification whose caller
// gave up must not disturb the exchanges it was waiting behind, so `pipelined`
// ("serialized"), the pairing rules and `failed-stream-open` keep judging
// those exchanges unchanged. Only the stream count ("at most one stream") of
// a peer goes to a rule id of its own, two-streams-after-abandoned-disconnect
// (open known finding), once a notification for it was abandoned while a
// request it found running had not returned: the per-peer state it dropped is
// then never invalidated and keeps its stream next to the new one
// (probe_streams_after_abandoned_notification; in the DHT itself the context
// is the node's and ends only at shutdown). Everything else about that peer
// keeps going to the ordinary rules.
//
// Remote misbehaviour (fault levels 1 and 2), always in reaction to a request
// the remote received: instead of (or before) its honest reply it writes a
// junk frame - well delimited but not a DHT message (invalid wire data, a
// field that runs past the end of the frame, a string field that is not
// UTF-8), a "damaged reply" (a frame that starts like a genuine reply -
// type, key, record, closer peers, provider peers all decodable - and then
// breaks off: a field that runs past the end of the frame, or the honest reply
// cut short by a few bytes) or a length prefix no message can have - or it
// silently forgets the request. Junk may be followed by the honest reply on the same stream; a
// sender that kept the stream after the failed exchange would hand that reply
// to the next request.
//
// Callers: a request has no deadline, or (drawn per request) a deadline of
// 90 s, 20 min or 6 h of virtual time from the moment it is issued; time steps
// go up to 45 min, so remotes stall for seconds, minutes or most of an hour
// before they answer.
//
// Excluded from the generated space: frames the remote sends unprompted (a
// well-formed unprompted message is indistinguishable from a reply, no sender
// could pair it; unprompted junk is the same situation as junk that arrives
// early), a junk frame of length zero (it IS a valid, empty DHT message), and
// virtual time crossing the deadline of a request that is parked opening a
// stream (determinism, same reason as for cancellations, see below).
package scen

import (
	"context"
	"encoding/binary"
	"errors"
	"fmt"
	"sort"
	"strings"
	"time"

	dht "github.com/libp2p/go-libp2p-kad-dht"
	pb "github.com/libp2p/go-libp2p-kad-dht/pb"
	recpb "github.com/libp2p/go-libp2p-record/pb"
	"github.com/libp2p/go-libp2p/core/event"
	"github.com/libp2p/go-libp2p/core/network"
	"github.com/libp2p/go-libp2p/core/peer"
	"google.golang.org/protobuf/proto"

	"verif/sim"
	"verif/simhost"
	"verif/simnet"
)

func init() {
	sim.Register(&sim.Scenario{Prop: "C11", Name: "rpc-pairing", Run: runC11,
		Real: []string{"internal/net messageSenderImpl + peerMessageSender (reached through IpfsDHT.MessageSender())", "internal.CtxMutex", "subscriber_notifee disconnect path (real event bus)", "msgio framing"},
		Stub: []string{"host.Host / NewStream (simhost)", "streams (simhost.Fabric byte pipes, scheduler-owned delivery)", "remote peers (scripted: echo the whole request - type, key, record)"},
		Faults: []string{"fault_reply_late", "fault_stream_reset", "fault_cancel", "fault_open_fail", "fault_disconnect", "fault_remote_eof", "fault_split_chunk", "fault_write_error", "time_advance", "probe_timeout_hit", "probe_stream_reused", "probe_retry_stream", "probe_late_reply_after_timeout",
			"fault_disconnect_stale", "probe_disconnect_inflight", "probe_disconnect_queued", "probe_same_key_concurrent", "probe_epilogue_after_disconnect",
			"fault_junk_frame", "fault_request_forgotten", "fault_long_stall", "probe_junk_then_reply", "probe_junk_made_sender_reset", "probe_decode_error_returned",
			"probe_deadline_request", "probe_stall_under_far_deadline", "probe_deadline_expired",
			"fault_damaged_reply", "probe_success_after_damaged_reply", "probe_reply_peers_compared",
			"fault_notification_direct", "fault_notification_abandoned", "probe_abandoned_with_queued_caller", "probe_streams_after_abandoned_notification"},
	})
}

type c11Req struct {
	id        int
	client    int
	peer      *simnet.Peer
	isMsg     bool
	typ       pb.Message_MessageType
	key       []byte
	epilogue  bool // the fault-free closing request to a peer
	ctx       context.Context
	cancel    context.CancelFunc
	started   bool
	done      bool
	err       error
	resp      *pb.Message
	cancelled bool
	startAt   time.Duration
	doneAt    time.Duration
	// deadline: 0, or how far after the start of the request the deadline of
	// the caller's context lies
	deadline time.Duration
}

// c11InTime: a reply delivered later than this after its request was written
// is late by any standard (harness choice, see the header comment).
const c11InTime = 10 * time.Minute

type c11Pair struct {
	a, b     *simhost.Stream
	atRemote frameParser   // what the remote has received
	fed      int           // bytes of b.Delivered already fed
	pending  []*pb.Message // requests received by the remote, not yet answered
	received map[int]bool  // ids of the requests the remote received
	answered map[int]bool  // ids of the requests the remote received and wrote an answer to

	// what the remote wrote, frame by frame: the offset at which the frame ends
	// in the remote's output, and whether the frame completes an exchange (an
	// honest reply or a junk frame in the place of one; not the honest reply
	// that follows a junk frame for the same request)
	frameEnd      []int
	frameComplete []bool
	wroteTotal    int
	junked        map[int]bool          // requests the remote answered with junk
	damaged       map[int]bool          // ... with a damaged reply (a decodable prefix, then garbage)
	junkEnd       int                   // end offset of the first junk frame (0: none)
	junkSeen      bool                  // probe bookkeeping
	replyEnd      map[int]int           // end offset of the honest reply to request id
	wroteAt       map[int]time.Duration // when request id was first seen written on this stream (observed at a quiescent point: never before the write)
	deliveredAt   map[int]time.Duration // when the honest reply to request id was delivered in full to the sender
}

// remoteWrite writes one frame (or junk) on the remote's end of the stream.
func (p *c11Pair) remoteWrite(data []byte, completes bool) bool {
	if _, err := p.b.Write(data); err != nil {
		return false
	}
	p.wroteTotal += len(data)
	p.frameEnd = append(p.frameEnd, p.wroteTotal)
	p.frameComplete = append(p.frameComplete, completes)
	return true
}

// c11Junk returns what the remote writes instead of a reply to req: kinds 0-2
// are well-delimited frames whose body is not a DHT message, kind 3 is a
// length prefix no message can have (1 GiB) followed by a few bytes, kinds 4
// and 5 are damaged replies: well-delimited frames that begin like a genuine
// reply with peer lists and then break off.
func c11Junk(kind int, req *pb.Message) []byte {
	var body []byte
	switch kind {
	case 4: // a reply with peer lists of its own, then a key field that announces 127 bytes and ends
		m := c11Msg(req.GetType(), req.GetKey(), c11ID(req))
		for j := 0; j < 2; j++ {
			m.CloserPeers = append(m.CloserPeers, &pb.Message_Peer{Id: []byte(fmt.Sprintf("damaged-frame-closer-%d", j))})
			m.ProviderPeers = append(m.ProviderPeers, &pb.Message_Peer{Id: []byte(fmt.Sprintf("damaged-frame-provider-%d", j))})
		}
		b, err := proto.Marshal(m)
		if err != nil {
			panic(err)
		}
		body = append(b, 0x12, 0x7f)
	case 5: // the honest reply, cut short by three bytes
		b, err := proto.Marshal(c11Echo(req.GetType(), req.GetKey(), c11ID(req)))
		if err != nil {
			panic(err)
		}
		body = b[:len(b)-3]
	case 0: // invalid wire data
		body = []byte{0xff, 0xff, 0xff}
	case 1: // field 2 (key) announces 127 bytes, the frame ends after 2
		body = []byte{0x08, 0x00, 0x12, 0x7f, 'a', 'b'}
	case 2: // record (field 3) whose timeReceived (field 5, a string) is not UTF-8
		body = []byte{0x1a, 0x04, 0x2a, 0x02, 0xff, 0xfe}
	default:
		return append(binary.AppendUvarint(nil, 1<<30), 'j', 'u', 'n', 'k')
	}
	if _, err := decodeMsg(body); err == nil {
		panic("c11: junk body decodes as a DHT message")
	}
	return appendFrame(nil, body)
}

// c11Payload is the record value that identifies request id; the key of a
// request says nothing about its identity.
func c11Payload(id int) []byte { return []byte(fmt.Sprintf("req-%04d", id)) }

// c11ID extracts the request id from the payload of a request or of a reply.
func c11ID(m *pb.Message) int {
	var id int
	if m == nil || m.GetRecord() == nil {
		return -1
	}
	if _, err := fmt.Sscanf(string(m.GetRecord().GetValue()), "req-%d", &id); err != nil {
		return -1
	}
	return id
}

// c11Echo is the remote's honest reply to request id: an echo of the whole
// request plus closer-peer and provider-peer lists that depend on the request
// (0-2 entries each, the entries named after the request).
func c11Echo(typ pb.Message_MessageType, key []byte, id int) *pb.Message {
	m := c11Msg(typ, key, id)
	if id < 0 {
		return m
	}
	for j := 0; j < id%3; j++ {
		m.CloserPeers = append(m.CloserPeers, &pb.Message_Peer{Id: []byte(fmt.Sprintf("closer-%d-of-r%04d", j, id)), Connection: pb.Message_CONNECTED})
	}
	for j := 0; j < (id/3)%3; j++ {
		m.ProviderPeers = append(m.ProviderPeers, &pb.Message_Peer{Id: []byte(fmt.Sprintf("provider-%d-of-r%04d", j, id)), Addrs: [][]byte{{4, 10, 0, byte(id), byte(j), 6, 0x0f, 0xa1}}})
	}
	return m
}

// c11Show renders a message for a violation text (not with the protobuf text
// format: its whitespace is deliberately unstable).
func c11Show(m *pb.Message) string {
	var b strings.Builder
	fmt.Fprintf(&b, "%v key=%q", m.GetType(), m.GetKey())
	if r := m.GetRecord(); r != nil {
		fmt.Fprintf(&b, " record=%q/%q", r.GetKey(), r.GetValue())
	}
	for _, l := range []struct {
		name  string
		peers []*pb.Message_Peer
	}{{"closer", m.GetCloserPeers()}, {"providers", m.GetProviderPeers()}} {
		fmt.Fprintf(&b, " %s=[", l.name)
		for i, p := range l.peers {
			if i > 0 {
				b.WriteString(" ")
			}
			fmt.Fprintf(&b, "%q", p.GetId())
		}
		b.WriteString("]")
	}
	if n := len(m.ProtoReflect().GetUnknown()); n > 0 {
		fmt.Fprintf(&b, " +%d unknown bytes", n)
	}
	return b.String()
}

// c11Msg builds the wire message of a request.
func c11Msg(typ pb.Message_MessageType, key []byte, id int) *pb.Message {
	m := pb.NewMessage(typ, key, 0)
	m.Record = &recpb.Record{Key: key, Value: c11Payload(id)}
	return m
}

func runC11(s *sim.Sim) {
	s.MaxSteps = 900
	nPeers := s.Range("peers", 1, 3)
	nClients := s.Range("clients", 2, 6)
	nReqs := s.Range("requests", 2, 24)
	faultLevel := s.Draw("fault-level", 3)
	u := simnet.NewUniverse(uint64(s.Draw("universe", 1<<16)), nPeers)
	h := simhost.New(s, u.Self.ID, u.Self.Addrs, u.Name)
	fab := simhost.NewFabric(s)
	fab.ParkWrites = s.Chance("park-writes", 1, 3)
	// 0: every request has a key of its own; n>0: keys come from a pool of n
	// keys, so requests agree in their key (and often in peer and type too)
	keyPool := s.Draw("key-pool", 4)
	// callers with a deadline of their own (drawn per request) in two runs of three
	deadlines := s.Chance("deadlines", 2, 3)
	var pairs []*c11Pair
	fab.OnOpen = func(a, b *simhost.Stream) {
		pairs = append(pairs, &c11Pair{a: a, b: b, received: map[int]bool{}, answered: map[int]bool{}, junked: map[int]bool{}, damaged: map[int]bool{},
			replyEnd: map[int]int{}, wroteAt: map[int]time.Duration{}, deliveredAt: map[int]time.Duration{}})
	}
	h.OpenStream = fab.StreamOpener(func(peer.ID) *simhost.Host { return nil }, nil)

	d, err := dht.New(h, dht.ProtocolPrefix("/sim"), dht.Mode(dht.ModeClient), dht.DisableAutoRefresh())
	if err != nil {
		panic(err)
	}
	snd := d.MessageSender()
	disc, ok := snd.(pb.MessageSenderWithDisconnect)
	if !ok {
		panic("c11: the node's message sender takes no disconnect notifications")
	}
	s.Quiesce()
	emConn, err := h.RealBus().Emitter(new(event.EvtPeerConnectednessChanged))
	if err != nil {
		panic(err)
	}
	defer emConn.Close()

	s.Summary["cfg"] = fmt.Sprintf("peers=%d clients=%d requests=%d faults=%d parkWrites=%v keyPool=%d", nPeers, nClients, nReqs, faultLevel, fab.ParkWrites, keyPool)

	// requests, assigned round-robin to clients
	// plus one closing ("epilogue") request per peer, issued by a client of its
	// own once every other request has returned and the faults have stopped
	reqs := make([]*c11Req, nReqs+nPeers)
	types := []pb.Message_MessageType{pb.Message_GET_VALUE, pb.Message_FIND_NODE, pb.Message_GET_PROVIDERS, pb.Message_PING, pb.Message_PUT_VALUE}
	for i := range reqs {
		r := &c11Req{id: i}
		if i < nReqs {
			r.client, r.peer = i%nClients, u.Peers[s.Draw("to", nPeers)]
			r.isMsg = s.Chance("is-msg", 1, 6)
		} else {
			r.client, r.peer, r.epilogue = nClients, u.Peers[i-nReqs], true
		}
		r.typ = types[s.Draw("type", len(types))]
		if r.isMsg {
			r.typ = pb.Message_ADD_PROVIDER
		}
		if keyPool == 0 {
			r.key = []byte(fmt.Sprintf("key-of-%04d", i))
		} else {
			r.key = []byte(fmt.Sprintf("shared-key-%d", s.Draw("key", keyPool)))
		}
		if deadlines && !r.epilogue {
			// The deadlines lie off the millisecond grid on which every other
			// timer of the run fires, and no two requests share one: a deadline
			// never expires in the same instant as a read time-out or another
			// deadline (HARNESS.md, pitfall 4).
			if dl := []time.Duration{0, 90 * time.Second, 20 * time.Minute, 6 * time.Hour}[s.Draw("deadline", 4)]; dl > 0 {
				r.deadline = dl + time.Duration(i+1)*10*time.Microsecond
			}
		}
		r.ctx, r.cancel = context.WithCancel(sim.WithTag(context.Background(), fmt.Sprintf("r%04d", i)))
		reqs[i] = r
	}
	var ops opSet
	for c := 0; c <= nClients; c++ {
		c := c
		ops.Go(s, fmt.Sprintf("client%d", c), func() (any, error) {
			for _, r := range reqs {
				if r.client != c {
					continue
				}
				s.Park("client", fmt.Sprintf("c%d:r%04d", c, r.id), nil, r)
				r.started, r.startAt = true, s.Now()
				if r.deadline > 0 {
					s.Count("probe_deadline_request")
				}
				m := c11Msg(r.typ, r.key, r.id)
				ctx, release := r.ctx, func() {}
				if r.deadline > 0 {
					ctx, release = context.WithTimeout(r.ctx, r.deadline)
				}
				if r.isMsg {
					r.err = snd.SendMessage(ctx, r.peer.ID, m)
				} else {
					r.resp, r.err = snd.SendRequest(ctx, r.peer.ID, m)
				}
				r.done, r.doneAt = true, s.Now()
				release()
			}
			return nil, nil
		})
	}
	s.Quiesce()

	everTimedOut := map[int]bool{}
	compared := map[int]bool{} // successful requests whose reply was compared (probe bookkeeping)
	sameKeySeen := false
	// excused[p]: the requests to p that were in flight or queued (started, not
	// returned) when a disconnect notification for p arrived
	excused := map[peer.ID]map[int]bool{}
	// notifications delivered by a direct OnDisconnect call under a context of
	// their own; abandoned[p]: such a context ended while a request that was
	// running when the notification arrived had not returned
	type c11Note struct {
		peer    *simnet.Peer
		cancel  context.CancelFunc
		ended   bool
		running []int
	}
	var notes []*c11Note
	abandoned := map[peer.ID]bool{}
	abandonedSeen := map[peer.ID]bool{}
	endNote := func(n *c11Note) {
		n.ended = true
		still := 0
		for _, id := range n.running {
			if !reqs[id].done {
				still++
			}
		}
		if still > 0 {
			abandoned[n.peer.ID] = true
			s.Count("fault_notification_abandoned")
		}
		if still > 1 {
			s.Count("probe_abandoned_with_queued_caller")
		}
		n.cancel()
	}
	feedRemote := func() {
		for _, p := range pairs {
			data, _, _ := p.b.TakeDelivered()
			if len(data) == 0 {
				continue
			}
			for _, f := range p.atRemote.Feed(data) {
				m, err := decodeMsg(f)
				if err != nil {
					s.Violate("wire-garbage", "remote received an undecodable frame on %s", p.a.Name())
					continue
				}
				if m.GetType() != pb.Message_ADD_PROVIDER {
					p.pending = append(p.pending, m)
					p.received[c11ID(m)] = true
				}
			}
		}
	}

	// invariants at a quiescent point
	invariants := func() {
		// (i) at most one open outbound stream per peer
		for _, q := range u.Peers {
			n := 0
			for _, p := range pairs {
				if p.a.Remote == q.ID && p.a.IsOpen() {
					n++
				}
			}
			if n > 1 && abandoned[q.ID] {
				// classified separately (open known finding), see "abandoned
				// notifications" in the header comment
				if !abandonedSeen[q.ID] {
					abandonedSeen[q.ID] = true
					s.Count("probe_streams_after_abandoned_notification")
				}
				s.Violate("two-streams-after-abandoned-disconnect", "abandoned disconnect notification: %d open streams to %s at a quiescent point after the context of a disconnect notification for that peer ended while the notification waited for the per-peer lock and a request it found running had not returned: the per-peer state it dropped was never invalidated and keeps a stream next to the new one", n, q.Name)
				continue
			}
			if n > 1 {
				var waiting []int
				for id := range excused[q.ID] {
					if !reqs[id].done {
						waiting = append(waiting, id)
					}
				}
				sort.Ints(waiting)
				switch {
				case len(waiting) > 0:
					// after a disconnect notification the requests still queued on the
					// old per-peer sender keep using (and re-open) their own stream
					// next to the new sender's stream; classified separately (open
					// known finding) for as long as one of those requests is running
					s.Violate("two-streams-after-disconnect", "%d open streams to one peer at a quiescent point after a disconnect notification arrived while requests were queued on the old per-peer sender", n)
				case excused[q.ID] != nil:
					s.Violate("stream-survives-disconnect", "%d open streams to %s at a quiescent point although every request that was in flight or queued when a disconnect notification for that peer arrived has returned: a stream of the dropped per-peer state was never reset", n, q.Name)
				default:
					s.Violate("two-streams", "%d open streams to %s at a quiescent point", n, q.Name)
				}
			}
		}
		for _, p := range pairs {
			// (ii) a second request is written only after the previous exchange completed
			var wp frameParser
			wp.Feed(p.a.WroteBytes())
			nReq := 0
			var ids []int
			for _, f := range wp.Frames {
				if m, err := decodeMsg(f); err == nil {
					id := c11ID(m)
					ids = append(ids, id)
					if m.GetType() != pb.Message_ADD_PROVIDER {
						nReq++
					}
					if _, seen := p.wroteAt[id]; !seen {
						p.wroteAt[id] = s.Now()
					}
				}
			}
			complete := 0
			for i, end := range p.frameEnd {
				if p.frameComplete[i] && end <= p.a.Delivered {
					complete++
				}
			}
			for id, end := range p.replyEnd {
				if _, seen := p.deliveredAt[id]; !seen && end <= p.a.Delivered {
					// deliveries are scheduler steps and no step both delivers bytes and
					// advances the clock: this is the instant of the delivery
					p.deliveredAt[id] = s.Now()
				}
			}
			if p.junkEnd > 0 && !p.junkSeen && p.junkEnd <= p.a.Delivered && p.a.ResetBy == "local" {
				p.junkSeen = true
				s.Count("probe_junk_made_sender_reset")
			}
			if nReq > complete+1 {
				s.Violate("pipelined", "stream %s carries %d requests but only %d replies were delivered: a request was written before the previous exchange completed", p.a.Name(), nReq, complete)
			}
			if nReq > 1 {
				s.Count("probe_stream_reused")
			}
			// (iii) a stream used by a failed exchange is never left open
			for _, id := range ids {
				if id >= 0 && id < len(reqs) && reqs[id].done && reqs[id].err != nil && !reqs[id].isMsg && p.a.IsOpen() {
					s.Violate("failed-stream-open", "request %d failed (%v) but the stream it used (%s) is still open", id, reqs[id].err, p.a.Name())
				}
			}
		}
		// (iv) pairing
		for _, r := range reqs {
			if r.done && r.err == nil && !r.isMsg {
				if got := c11ID(r.resp); got != r.id {
					s.Violate("mismatched-reply", "request %d (%v %q) to %s returned the reply to request %d", r.id, r.typ, r.key, r.peer.Name, got)
				} else if want := c11Echo(r.typ, r.key, r.id); !proto.Equal(r.resp, want) {
					// (iv-b) ... the whole reply and nothing but the reply
					s.Violate("reply-altered", "request %d (%v %q) to %s returned a message that is not the remote's reply to it: got {%s}, the remote answered {%s}", r.id, r.typ, r.key, r.peer.Name, c11Show(r.resp), c11Show(want))
				}
				if !compared[r.id] {
					compared[r.id] = true
					if len(r.resp.GetCloserPeers())+len(r.resp.GetProviderPeers()) > 0 {
						s.Count("probe_reply_peers_compared")
					}
					for _, p := range pairs {
						if p.a.Remote == r.peer.ID && p.damaged[r.id] {
							s.Count("probe_success_after_damaged_reply")
							break
						}
					}
				}
				// (v) ... and the remote did receive and answer that very request
				received, answered := false, false
				for _, p := range pairs {
					if p.a.Remote == r.peer.ID {
						received = received || p.received[r.id]
						answered = answered || p.answered[r.id]
					}
				}
				if !answered {
					s.Violate("reply-without-exchange", "request %d (%v %q) to %s returned a reply, but the remote peer never answered that request (it reached the remote: %v)", r.id, r.typ, r.key, r.peer.Name, received)
				}
				// (vi) ... and answered it in time: of the remote's replies to this
				// request that had been delivered when the request returned, at least
				// one was delivered within c11InTime of the moment the request was
				// written to that stream. (The write is observed at the first
				// quiescent point after it, so the measured delay is never longer
				// than the real one.)
				inTime, late := false, time.Duration(0)
				for _, p := range pairs {
					if p.a.Remote != r.peer.ID {
						continue
					}
					at, delivered := p.deliveredAt[r.id]
					w, written := p.wroteAt[r.id]
					if !delivered || !written || at > r.doneAt {
						continue
					}
					if at-w > c11InTime {
						late = at - w
					} else {
						inTime = true
					}
				}
				if late > 0 && !inTime {
					s.Violate("late-reply-accepted", "request %d (%v %q, caller deadline %v) to %s returned as a success the reply that was delivered %v after the request had been written: a request whose reply did not arrive in time has to fail", r.id, r.typ, r.key, r.deadline, r.peer.Name, late.Round(time.Second))
				}
			}
			if r.done && !everTimedOut[r.id] {
				switch {
				case errors.Is(r.err, dht.ErrReadTimeout):
					everTimedOut[r.id] = true
					s.Count("probe_timeout_hit")
				case errors.Is(r.err, context.DeadlineExceeded):
					everTimedOut[r.id] = true
					s.Count("probe_deadline_expired")
				case errors.Is(r.err, proto.Error):
					everTimedOut[r.id] = true
					s.Count("probe_decode_error_returned")
				}
			}
		}
		if !sameKeySeen {
			running := map[string]bool{}
			for _, r := range reqs {
				if r.started && !r.done && !r.isMsg {
					k := fmt.Sprintf("%s/%d/%s", r.peer.Name, r.typ, r.key)
					if running[k] {
						sameKeySeen = true
						s.Count("probe_same_key_concurrent")
						break
					}
					running[k] = true
				}
			}
		}
	}

	allDone := func() bool {
		for _, r := range reqs {
			if !r.done {
				return false
			}
		}
		return true
	}
	regularDone := func() bool {
		for _, r := range reqs {
			if !r.epilogue && !r.done {
				return false
			}
		}
		return true
	}

	fp := []int{0, 1, 3}[faultLevel] // fault weight
	draining := false
	idle := 0
	for s.Step() {
		feedRemote()
		invariants()
		if s.Failed() || allDone() {
			break
		}
		if s.Steps > s.MaxSteps*2/3 || regularDone() {
			draining = true // no more faults (also none during the closing requests)
		}
		var acts []sim.Action
		for _, p := range s.Parked() {
			p := p
			switch p.Kind {
			case "client":
				r := p.Data.(*c11Req)
				if r.epilogue && !regularDone() {
					continue
				}
				acts = append(acts, sim.Action{ID: p.ID, Do: func() {
					if r.epilogue && excused[r.peer.ID] != nil {
						s.Count("probe_epilogue_after_disconnect")
					}
					s.Release(p, nil)
				}})
			case "open":
				acts = append(acts, sim.Action{ID: p.ID, Do: func() {
					if p.Cancelled() {
						s.ReleaseCancelled(p)
					} else if !draining && s.Chance("open-fail", fp, 12) {
						s.Count("fault_open_fail")
						s.Release(p, simhost.ErrDialFailed)
					} else {
						s.Release(p, nil)
					}
				}})
			case "swrite":
				acts = append(acts, sim.Action{ID: p.ID, Do: func() {
					if !draining && s.Chance("write-fail", fp, 16) {
						s.Count("fault_write_error")
						s.Release(p, network.ErrReset)
					} else {
						s.Release(p, nil)
					}
				}})
			}
		}
		for _, st := range fab.Streams() {
			st := st
			n, eof := st.Pending()
			if n == 0 && !eof {
				continue
			}
			acts = append(acts, sim.Action{ID: "deliver:" + st.Name(), Do: func() {
				l := st.NextChunkLen()
				if !draining && l > 1 && s.Chance("split", fp, 8) {
					s.Count("fault_split_chunk")
					st.Deliver(1 + s.Draw("split-at", l-1))
				} else {
					st.Deliver(0)
				}
			}})
		}
		for _, p := range pairs {
			p := p
			if len(p.pending) > 0 && !p.b.IsReset() {
				req := p.pending[0]
				id := c11ID(req)
				acts = append(acts, sim.Action{ID: fmt.Sprintf("answer:%s:r%04d", p.b.Name(), id), Do: func() {
					p.pending = p.pending[1:]
					// the remote's reply is an echo of the whole request
					if p.remoteWrite(encodeFrame(c11Echo(req.GetType(), req.GetKey(), id)), !p.junked[id]) {
						p.answered[id] = true
						if _, dup := p.replyEnd[id]; !dup {
							p.replyEnd[id] = p.wroteTotal
						}
						if p.junked[id] {
							s.Count("probe_junk_then_reply")
						}
					}
					if !draining && s.Chance("remote-eof", fp, 10) {
						s.Count("fault_remote_eof")
						_ = p.b.CloseWrite()
					}
				}})
			}
		}
		// A request is never cancelled while it is parked opening a stream, and
		// the clock never crosses its deadline there: from that place it can
		// reach CtxMutex.Lock with a context that is done AND a free lock, a
		// two-way-ready select the Go runtime resolves at random (both outcomes
		// are legal, but the run would not replay).
		opening := map[string]bool{}
		for _, p := range s.ParkedKind("open") {
			if i := strings.LastIndex(p.ID, "@"); i >= 0 {
				opening[strings.SplitN(p.ID[i+1:], "#", 2)[0]] = true
			}
		}
		if !draining && faultLevel > 0 {
			for _, p := range pairs {
				p := p
				if p.a.IsOpen() && !p.b.IsReset() {
					acts = append(acts, sim.Action{ID: "zreset:" + p.a.Name(), Do: func() {
						s.Count("fault_stream_reset")
						p.b.SimReset()
					}})
				}
				if len(p.pending) > 0 && !p.b.IsReset() {
					req := p.pending[0]
					id := c11ID(req)
					// the remote answers the oldest request it has with junk; the
					// request then either stays on its list (the honest reply may
					// still follow, on the same stream) or is forgotten
					if !p.junked[id] {
						acts = append(acts, sim.Action{ID: fmt.Sprintf("zjunk:%s:r%04d", p.b.Name(), id), Do: func() {
							kind := s.Draw("junk-kind", 6)
							if s.Chance("junk-only", 1, 2) {
								p.pending = p.pending[1:]
							}
							if p.remoteWrite(c11Junk(kind, req), true) {
								if kind >= 4 {
									s.Count("fault_damaged_reply")
									p.damaged[id] = true
								}
								s.Count("fault_junk_frame")
								p.junked[id] = true
								if p.junkEnd == 0 {
									p.junkEnd = p.wroteTotal
								}
							}
						}})
					}
					// the remote forgets the request without a word
					acts = append(acts, sim.Action{ID: fmt.Sprintf("zforget:%s:r%04d", p.b.Name(), id), Do: func() {
						s.Count("fault_request_forgotten")
						p.pending = p.pending[1:]
					}})
				}
			}
			for _, r := range reqs {
				r := r
				if r.started && !r.done && !r.cancelled && !opening[fmt.Sprintf("r%04d", r.id)] {
					acts = append(acts, sim.Action{ID: fmt.Sprintf("zcancel:r%04d", r.id), Do: func() {
						s.Count("fault_cancel")
						r.cancelled = true
						r.cancel()
					}})
				}
			}
			for _, q := range u.Peers {
				q := q
				if h.Net().Connectedness(q.ID) == network.Connected {
					notify := func(direct bool) {
						// stale: the notification of a connection loss that is processed
						// only after the connection was re-established - the streams the
						// node has to that peer at this moment are alive and stay so
						stale := s.Chance("stale-notification", 1, 3)
						if stale {
							s.Count("fault_disconnect_stale")
						} else {
							s.Count("fault_disconnect")
						}
						if excused[q.ID] == nil {
							excused[q.ID] = map[int]bool{}
						}
						nRunning := 0
						for _, r := range reqs {
							if r.peer == q && r.started && !r.done {
								excused[q.ID][r.id] = true
								nRunning++
							}
						}
						if nRunning > 0 {
							s.Count("probe_disconnect_inflight")
						}
						if nRunning > 1 {
							s.Count("probe_disconnect_queued")
						}
						if !stale {
							for _, p := range pairs {
								if p.a.Remote == q.ID {
									p.b.SimReset()
								}
							}
							h.Net().SetConnected(q.ID, false)
						}
						if !direct {
							_ = emConn.Emit(event.EvtPeerConnectednessChanged{Peer: q.ID, Connectedness: network.NotConnected})
							return
						}
						// the notification arrives by a direct call, under a context of
						// its own that ends at once (after the node has settled: the
						// notification is waiting for the per-peer state or is through
						// with it) or at a later step
						s.Count("fault_notification_direct")
						ctx, cancel := context.WithCancel(context.Background())
						n := &c11Note{peer: q, cancel: cancel}
						for _, r := range reqs {
							if r.peer == q && r.started && !r.done {
								n.running = append(n.running, r.id)
							}
						}
						notes = append(notes, n)
						disc.OnDisconnect(ctx, q.ID)
						if s.Chance("notification-context-ends-at-once", 1, 2) {
							s.Quiesce()
							endNote(n)
						}
					}
					acts = append(acts, sim.Action{ID: "zdisconnect:" + q.Name, Do: func() { notify(false) }})
					acts = append(acts, sim.Action{ID: "znotify:" + q.Name, Do: func() { notify(true) }})
				}
			}
		}
		if faultLevel > 0 {
			// the context of a directly delivered notification ends
			for k, n := range notes {
				n := n
				if !n.ended {
					acts = append(acts, sim.Action{ID: fmt.Sprintf("znote-end:%d", k), Do: func() { endNote(n) }})
				}
			}
		}
		// time: advance across the read time-out now and then, and sometimes by
		// minutes or most of an hour (a remote that stalls, a caller that waits)
		acts = append(acts, sim.Action{ID: "ztime", Do: func() {
			d := []time.Duration{500 * time.Millisecond, 3 * time.Second, 9999 * time.Millisecond, 10001 * time.Millisecond, 25 * time.Second,
				2 * time.Minute, 11 * time.Minute, 45 * time.Minute}[s.Draw("dt", 8)]
			for _, r := range reqs {
				if r.started && !r.done && r.deadline > 0 && opening[fmt.Sprintf("r%04d", r.id)] {
					if left := r.startAt + r.deadline - s.Now() - time.Millisecond; d > left {
						d = left
					}
				}
			}
			if d <= 0 {
				return
			}
			s.Count("time_advance")
			if d >= time.Minute {
				for _, p := range pairs {
					if (len(p.pending) > 0 || p.a.NextChunkLen() > 0) && !p.a.IsReset() {
						s.Count("fault_long_stall")
						break
					}
				}
			}
			// a request under a deadline that outlasts this step is waiting for a
			// reply the remote has not written yet
			farStall := false
			for _, p := range pairs {
				if p.a.IsReset() {
					continue
				}
				for _, m := range p.pending {
					if id := c11ID(m); id >= 0 && id < len(reqs) && !reqs[id].done && reqs[id].deadline > 0 && reqs[id].startAt+reqs[id].deadline > s.Now()+d && d >= time.Minute {
						farStall = true
					}
				}
			}
			if farStall {
				s.Count("probe_stall_under_far_deadline")
			}
			if d > 9*time.Second {
				for _, p := range pairs {
					if len(p.pending) > 0 {
						s.Count("fault_reply_late")
						break
					}
				}
			}
			var inFlight []*c11Pair
			for _, p := range pairs {
				if n, _ := p.a.Pending(); n > 0 && !p.a.IsReset() {
					inFlight = append(inFlight, p)
				}
			}
			s.Sleep(d)
			for _, p := range inFlight {
				if p.a.IsReset() {
					s.Count("probe_late_reply_after_timeout")
				}
			}
		}})
		// weight: faults ("z...") are chosen less often than progress
		var progress, faults []sim.Action
		for _, a := range acts {
			if len(a.ID) > 0 && a.ID[0] == 'z' {
				faults = append(faults, a)
			} else {
				progress = append(progress, a)
			}
		}
		if len(progress) == 0 {
			idle++
			// nothing left to schedule and still a request has not returned: wait
			// for longer than c11InTime before calling it wedged
			if time.Duration(idle)*5*time.Second > c11InTime+time.Minute {
				break
			}
			s.Sleep(5 * time.Second)
			continue
		}
		idle = 0
		if len(faults) > 0 && !draining && s.Chance("inject", 1+fp, 8) {
			s.Choose("fault", faults)
		} else {
			s.Choose("next", progress)
		}
	}
	feedRemote()
	invariants()
	if !s.Failed() && !allDone() && s.Steps <= s.MaxSteps {
		var stuck []int
		for _, r := range reqs {
			if r.started && !r.done {
				stuck = append(stuck, r.id)
			}
		}
		if len(stuck) > 0 {
			s.Violate("request-wedged", "requests %v never returned although every byte was delivered, every request answered or forgotten by the remote, and more than %v of virtual time passed with nothing left to schedule", stuck, c11InTime)
		}
	}
	if s.Steps > s.MaxSteps {
		s.Count("step_budget_exhausted")
	}
	nOK, nErr := 0, 0
	for _, r := range reqs {
		if r.done && r.err == nil {
			nOK++
		} else if r.done {
			nErr++
		}
	}
	for _, r := range reqs {
		s.Tracef("r%04d started=%v done=%v err=%v", r.id, r.started, r.done, r.err)
	}
	s.Tracef("done ok=%d err=%d streams=%d resets=%d", nOK, nErr, fab.Opened, fab.Resets)
	s.State("ok=%d err=%d streams=%d", nOK, nErr, fab.Opened)
	s.NonTrivial = nOK > 0 && (nErr > 0 || fab.Resets > 0)
	if fab.Opened > nPeers {
		s.Count("probe_retry_stream")
	}
	// release clients that were never started, cancel everything, close
	for _, r := range reqs {
		r.cancel()
	}
	s.Quiesce()
	for _, n := range notes {
		n.cancel()
	}
	for _, p := range s.ParkedKind("client") {
		s.Release(p, nil)
		s.Quiesce()
	}
	closeAndCensus(s, func() {
		_ = d.Close()
		_ = h.Close()
	})
	s.Finish()
}
