//go:build all || c11

package scen

import (
	"context"
	"errors"
	"fmt"
	"strings"
	"time"

	dht "github.com/libp2p/go-libp2p-kad-dht"
	pb "github.com/libp2p/go-libp2p-kad-dht/pb"
	"github.com/libp2p/go-libp2p/core/event"
	"github.com/libp2p/go-libp2p/core/network"
	"github.com/libp2p/go-libp2p/core/peer"

	"verif/sim"
	"verif/simhost"
	"verif/simnet"
)

func init() {
	sim.Register(&sim.Scenario{Prop: "C11", Name: "rpc-pairing", Run: runC11,
		Real:   []string{"internal/net messageSenderImpl + peerMessageSender (reached through IpfsDHT.MessageSender())", "internal.CtxMutex", "subscriber_notifee disconnect path (real event bus)", "msgio framing"},
		Stub:   []string{"host.Host / NewStream (simhost)", "streams (simhost.Fabric byte pipes, scheduler-owned delivery)", "remote peers (scripted: echo the request id)"},
		Faults: []string{"fault_reply_late", "fault_stream_reset", "fault_cancel", "fault_open_fail", "fault_disconnect", "fault_remote_eof", "fault_split_chunk", "fault_write_error", "time_advance", "probe_timeout_hit", "probe_stream_reused", "probe_retry_stream", "probe_late_reply_after_timeout"},
	})
}

type c11Req struct {
	id        int
	client    int
	peer      *simnet.Peer
	isMsg     bool
	typ       pb.Message_MessageType
	ctx       context.Context
	cancel    context.CancelFunc
	started   bool
	done      bool
	err       error
	resp      *pb.Message
	cancelled bool
	startAt   time.Duration
	doneAt    time.Duration
}

type c11Pair struct {
	a, b     *simhost.Stream
	atRemote frameParser // what the remote has received
	fed      int         // bytes of b.Delivered already fed
	pending  []int       // request ids received by the remote, not yet answered
	answered map[int]bool
}

func c11Key(id int) []byte { return []byte(fmt.Sprintf("req-%04d", id)) }

func c11ID(key []byte) int {
	var id int
	if _, err := fmt.Sscanf(string(key), "req-%d", &id); err != nil {
		return -1
	}
	return id
}

func runC11(s *sim.Sim) {
	s.MaxSteps = 900
	nPeers := s.Range("peers", 1, 3)
	nClients := s.Range("clients", 2, 6)
	nReqs := s.Range("requests", 2, 24)
	faultLevel := s.Draw("fault-level", 3)
	u := simnet.NewUniverse(uint64(s.Draw("universe", 1<<16)), nPeers)
	h := simhost.New(s, u.Self.ID, u.Self.Addrs, u.Name)
	fab := simhost.NewFabric(s)
	fab.ParkWrites = s.Chance("park-writes", 1, 3)
	var pairs []*c11Pair
	fab.OnOpen = func(a, b *simhost.Stream) { pairs = append(pairs, &c11Pair{a: a, b: b, answered: map[int]bool{}}) }
	h.OpenStream = fab.StreamOpener(func(peer.ID) *simhost.Host { return nil }, nil)

	d, err := dht.New(h, dht.ProtocolPrefix("/sim"), dht.Mode(dht.ModeClient), dht.DisableAutoRefresh())
	if err != nil {
		panic(err)
	}
	snd := d.MessageSender()
	s.Quiesce()
	emConn, err := h.RealBus().Emitter(new(event.EvtPeerConnectednessChanged))
	if err != nil {
		panic(err)
	}
	defer emConn.Close()

	s.Summary["cfg"] = fmt.Sprintf("peers=%d clients=%d requests=%d faults=%d parkWrites=%v", nPeers, nClients, nReqs, faultLevel, fab.ParkWrites)

	// requests, assigned round-robin to clients
	reqs := make([]*c11Req, nReqs)
	types := []pb.Message_MessageType{pb.Message_GET_VALUE, pb.Message_FIND_NODE, pb.Message_GET_PROVIDERS, pb.Message_PING}
	for i := range reqs {
		r := &c11Req{id: i, client: i % nClients, peer: u.Peers[s.Draw("to", nPeers)]}
		r.isMsg = s.Chance("is-msg", 1, 6)
		r.typ = types[s.Draw("type", len(types))]
		if r.isMsg {
			r.typ = pb.Message_ADD_PROVIDER
		}
		r.ctx, r.cancel = context.WithCancel(sim.WithTag(context.Background(), fmt.Sprintf("r%04d", i)))
		reqs[i] = r
	}
	var ops opSet
	for c := 0; c < nClients; c++ {
		c := c
		ops.Go(s, fmt.Sprintf("client%d", c), func() (any, error) {
			for _, r := range reqs {
				if r.client != c {
					continue
				}
				s.Park("client", fmt.Sprintf("c%d:r%04d", c, r.id), nil, r)
				r.started, r.startAt = true, s.Now()
				m := pb.NewMessage(r.typ, c11Key(r.id), 0)
				if r.isMsg {
					r.err = snd.SendMessage(r.ctx, r.peer.ID, m)
				} else {
					r.resp, r.err = snd.SendRequest(r.ctx, r.peer.ID, m)
				}
				r.done, r.doneAt = true, s.Now()
			}
			return nil, nil
		})
	}
	s.Quiesce()

	everTimedOut := map[int]bool{}
	disconnected := map[peer.ID]bool{}
	feedRemote := func() {
		for _, p := range pairs {
			data, _, _ := p.b.TakeDelivered()
			if len(data) == 0 {
				continue
			}
			for _, f := range p.atRemote.Feed(data) {
				m, err := decodeMsg(f)
				if err != nil {
					s.Violate("wire-garbage", "remote received an undecodable frame on %s", p.a.Name())
					continue
				}
				if m.GetType() != pb.Message_ADD_PROVIDER {
					p.pending = append(p.pending, c11ID(m.GetKey()))
				}
			}
		}
	}

	// invariants at a quiescent point
	invariants := func() {
		// (i) at most one open outbound stream per peer
		for _, q := range u.Peers {
			n := 0
			for _, p := range pairs {
				if p.a.Remote == q.ID && p.a.IsOpen() {
					n++
				}
			}
			if n > 1 {
				if disconnected[q.ID] {
					// after a disconnect notification the requests still queued on the
					// old per-peer sender keep using (and re-open) their own stream
					// next to the new sender's stream; classified separately
					s.Violate("two-streams-after-disconnect", "%d open streams to one peer at a quiescent point after a disconnect notification arrived while requests were queued on the old per-peer sender", n)
				} else {
					s.Violate("two-streams", "%d open streams to %s at a quiescent point", n, q.Name)
				}
			}
		}
		for _, p := range pairs {
			// (ii) a second request is written only after the previous exchange completed
			var wp frameParser
			wp.Feed(p.a.WroteBytes())
			nReq := 0
			var ids []int
			for _, f := range wp.Frames {
				if m, err := decodeMsg(f); err == nil {
					ids = append(ids, c11ID(m.GetKey()))
					if m.GetType() != pb.Message_ADD_PROVIDER {
						nReq++
					}
				}
			}
			var rp frameParser
			rp.Feed(p.b.WroteBytes())
			complete, off := 0, 0
			for _, f := range rp.Frames {
				off += len(appendFrame(nil, f))
				if off <= p.a.Delivered {
					complete++
				}
			}
			if nReq > complete+1 {
				s.Violate("pipelined", "stream %s carries %d requests but only %d replies were delivered: a request was written before the previous exchange completed", p.a.Name(), nReq, complete)
			}
			if nReq > 1 {
				s.Count("probe_stream_reused")
			}
			// (iii) a stream used by a failed exchange is never left open
			for _, id := range ids {
				if id >= 0 && id < len(reqs) && reqs[id].done && reqs[id].err != nil && !reqs[id].isMsg && p.a.IsOpen() {
					s.Violate("failed-stream-open", "request %d failed (%v) but the stream it used (%s) is still open", id, reqs[id].err, p.a.Name())
				}
			}
		}
		// (iv) pairing
		for _, r := range reqs {
			if r.done && r.err == nil && !r.isMsg {
				if r.resp == nil || c11ID(r.resp.GetKey()) != r.id {
					got := -1
					if r.resp != nil {
						got = c11ID(r.resp.GetKey())
					}
					s.Violate("mismatched-reply", "request %d to %s returned the reply to request %d", r.id, r.peer.Name, got)
				}
			}
			if r.done && errors.Is(r.err, dht.ErrReadTimeout) && !everTimedOut[r.id] {
				everTimedOut[r.id] = true
				s.Count("probe_timeout_hit")
			}
		}
	}

	allDone := func() bool {
		for _, r := range reqs {
			if !r.done {
				return false
			}
		}
		return true
	}

	fp := []int{0, 1, 3}[faultLevel] // fault weight
	draining := false
	idle := 0
	for s.Step() {
		feedRemote()
		invariants()
		if s.Failed() || allDone() {
			break
		}
		if s.Steps > s.MaxSteps*2/3 {
			draining = true
		}
		var acts []sim.Action
		for _, p := range s.Parked() {
			p := p
			switch p.Kind {
			case "client":
				acts = append(acts, sim.Action{ID: p.ID, Do: func() { s.Release(p, nil) }})
			case "open":
				acts = append(acts, sim.Action{ID: p.ID, Do: func() {
					if p.Cancelled() {
						s.ReleaseCancelled(p)
					} else if !draining && s.Chance("open-fail", fp, 12) {
						s.Count("fault_open_fail")
						s.Release(p, simhost.ErrDialFailed)
					} else {
						s.Release(p, nil)
					}
				}})
			case "swrite":
				acts = append(acts, sim.Action{ID: p.ID, Do: func() {
					if !draining && s.Chance("write-fail", fp, 16) {
						s.Count("fault_write_error")
						s.Release(p, network.ErrReset)
					} else {
						s.Release(p, nil)
					}
				}})
			}
		}
		for _, st := range fab.Streams() {
			st := st
			n, eof := st.Pending()
			if n == 0 && !eof {
				continue
			}
			acts = append(acts, sim.Action{ID: "deliver:" + st.Name(), Do: func() {
				l := st.NextChunkLen()
				if !draining && l > 1 && s.Chance("split", fp, 8) {
					s.Count("fault_split_chunk")
					st.Deliver(1 + s.Draw("split-at", l-1))
				} else {
					st.Deliver(0)
				}
			}})
		}
		for _, p := range pairs {
			p := p
			if len(p.pending) > 0 && !p.b.IsReset() {
				id := p.pending[0]
				acts = append(acts, sim.Action{ID: fmt.Sprintf("answer:%s:r%04d", p.b.Name(), id), Do: func() {
					p.pending = p.pending[1:]
					typ := pb.Message_GET_VALUE
					if id >= 0 && id < len(reqs) {
						typ = reqs[id].typ
					}
					_, _ = p.b.Write(encodeFrame(pb.NewMessage(typ, c11Key(id), 0)))
					if !draining && s.Chance("remote-eof", fp, 10) {
						s.Count("fault_remote_eof")
						_ = p.b.CloseWrite()
					}
				}})
			}
		}
		if !draining && faultLevel > 0 {
			for _, p := range pairs {
				p := p
				if p.a.IsOpen() && !p.b.IsReset() {
					acts = append(acts, sim.Action{ID: "zreset:" + p.a.Name(), Do: func() {
						s.Count("fault_stream_reset")
						p.b.SimReset()
					}})
				}
			}
			// A request is never cancelled while it is parked opening a stream:
			// from there it can reach CtxMutex.Lock with a cancelled context AND a
			// free lock, a two-way-ready select the Go runtime resolves at random
			// (both outcomes are legal, but the run would not replay).
			opening := map[string]bool{}
			for _, p := range s.ParkedKind("open") {
				if i := strings.LastIndex(p.ID, "@"); i >= 0 {
					opening[strings.SplitN(p.ID[i+1:], "#", 2)[0]] = true
				}
			}
			for _, r := range reqs {
				r := r
				if r.started && !r.done && !r.cancelled && !opening[fmt.Sprintf("r%04d", r.id)] {
					acts = append(acts, sim.Action{ID: fmt.Sprintf("zcancel:r%04d", r.id), Do: func() {
						s.Count("fault_cancel")
						r.cancelled = true
						r.cancel()
					}})
				}
			}
			for _, q := range u.Peers {
				q := q
				if h.Net().Connectedness(q.ID) == network.Connected {
					acts = append(acts, sim.Action{ID: "zdisconnect:" + q.Name, Do: func() {
						s.Count("fault_disconnect")
						disconnected[q.ID] = true
						for _, p := range pairs {
							if p.a.Remote == q.ID {
								p.b.SimReset()
							}
						}
						h.Net().SetConnected(q.ID, false)
						_ = emConn.Emit(event.EvtPeerConnectednessChanged{Peer: q.ID, Connectedness: network.NotConnected})
					}})
				}
			}
		}
		// time: advance across the read time-out now and then
		acts = append(acts, sim.Action{ID: "ztime", Do: func() {
			d := []time.Duration{500 * time.Millisecond, 3 * time.Second, 9999 * time.Millisecond, 10001 * time.Millisecond, 25 * time.Second}[s.Draw("dt", 5)]
			s.Count("time_advance")
			if d > 9*time.Second {
				for _, p := range pairs {
					if len(p.pending) > 0 {
						s.Count("fault_reply_late")
						break
					}
				}
			}
			var inFlight []*c11Pair
			for _, p := range pairs {
				if n, _ := p.a.Pending(); n > 0 && !p.a.IsReset() {
					inFlight = append(inFlight, p)
				}
			}
			s.Sleep(d)
			for _, p := range inFlight {
				if p.a.IsReset() {
					s.Count("probe_late_reply_after_timeout")
				}
			}
		}})
		// weight: faults ("z...") are chosen less often than progress
		var progress, faults []sim.Action
		for _, a := range acts {
			if len(a.ID) > 0 && a.ID[0] == 'z' {
				faults = append(faults, a)
			} else {
				progress = append(progress, a)
			}
		}
		if len(progress) == 0 {
			idle++
			if idle > 40 {
				break
			}
			s.Sleep(5 * time.Second)
			continue
		}
		idle = 0
		if len(faults) > 0 && !draining && s.Chance("inject", 1+fp, 8) {
			s.Choose("fault", faults)
		} else {
			s.Choose("next", progress)
		}
	}
	feedRemote()
	invariants()
	if !s.Failed() && !allDone() && s.Steps <= s.MaxSteps {
		var stuck []int
		for _, r := range reqs {
			if r.started && !r.done {
				stuck = append(stuck, r.id)
			}
		}
		if len(stuck) > 0 {
			s.Violate("request-wedged", "requests %v never returned although every byte was delivered, every request answered and 200 s of virtual time passed", stuck)
		}
	}
	if s.Steps > s.MaxSteps {
		s.Count("step_budget_exhausted")
	}
	nOK, nErr := 0, 0
	for _, r := range reqs {
		if r.done && r.err == nil {
			nOK++
		} else if r.done {
			nErr++
		}
	}
	for _, r := range reqs {
		s.Tracef("r%04d started=%v done=%v err=%v", r.id, r.started, r.done, r.err)
	}
	s.Tracef("done ok=%d err=%d streams=%d resets=%d", nOK, nErr, fab.Opened, fab.Resets)
	s.State("ok=%d err=%d streams=%d", nOK, nErr, fab.Opened)
	s.NonTrivial = nOK > 0 && (nErr > 0 || fab.Resets > 0)
	if fab.Opened > nPeers {
		s.Count("probe_retry_stream")
	}
	// release clients that were never started, cancel everything, close
	for _, r := range reqs {
		r.cancel()
	}
	for _, p := range s.ParkedKind("client") {
		s.Release(p, nil)
		s.Quiesce()
	}
	closeAndCensus(s, func() {
		_ = d.Close()
		_ = h.Close()
	})
	s.Finish()
}
