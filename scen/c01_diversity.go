//go:build all || c01

package scen

import (
	"fmt"

	dht "github.com/libp2p/go-libp2p-kad-dht"
	pb "github.com/libp2p/go-libp2p-kad-dht/pb"
	"github.com/libp2p/go-libp2p/core/host"
	"github.com/libp2p/go-libp2p/core/peer"
	ma "github.com/multiformats/go-multiaddr"

	"verif/sim"
	"verif/simnet"
)

// C01 scenario "lookup-diversity": the node is built with the public
// RoutingTablePeerDiversityFilter(NewRTPeerDiversityFilter(host, perCpl,
// perTable)) option (a configuration the property quantifies over), and the
// address lists peers are named with are a drawn input.
//
// Clause encoded: "no other learned, non-failed, FILTER-PASSING peer is nearer
// to the key than the farthest returned peer" together with "the published
// update events agree with ... what they actually answered". With this option
// the lookup runs one more filter over every response: "if an IP group has
// more than <limit> peers [in the response], all peers with at least one
// address in that IP group are filtered out" (documented at
// filterPeersByIPDiversity / query.maxPeersPerIPGroup). The unit of that rule
// is the PEER: a group is over-represented by the number of distinct peers
// that have an address in it. A peer named in a processed response that
// passes this rule (and the query filter) is learned: it must be in the
// response's Heard list (existing rule event-heard-dropped) and thereby takes
// part in the "exactly the K nearest" rule. In the other direction (existing
// rule event-heard-filtered): a peer of a group that is over-represented
// however one counts must not be listed as heard from that response.
//
// What the oracle does NOT take from the implementation:
//   - which of the two configured limits the per-response step uses: a peer
//     must be heard when every one of its groups holds at most
//     min(perCpl, perTable) distinct peers of the response, and must be dropped
//     only when one of its groups holds more than max(perCpl, perTable);
//   - the order of the cap, the self-skip and the diversity step: "must be
//     heard" counts the peers of a group over the whole response including the
//     local node (the largest count any order can see), "must be dropped"
//     counts over the first 2K records without the local node (the smallest);
//   - the grouping function: the address palette is built so that two
//     addresses are in one group iff their first two octets are equal AND iff
//     their first octet is equal (first octet = 31+group, second octet 7), so
//     /16 and /8 groupings agree; addresses without an IP (dns) are in no
//     group. IPv6 (grouped by an ASN table of a dependency) is not generated.
//   - the peer whose identity is the key is not judged by "must be dropped".
//
// Generator: groups G in 1..6; per (responder, named peer) pair a presentation
// drawn from a sub-generator: the peer's one home address; several addresses
// in its home group (same IP other ports/transports, or other hosts of the
// group; up to more than either limit); several addresses in a foreign group;
// addresses spread over groups; none; dns only / dns + home. Seeds are
// connected (remote address = home address) with p = 7/8 so that the routing
// table's own diversity filter admits them as far as the limits allow (a seed
// that is refused is simply not in the table when the lookup begins; the
// seeds rule works from the table's real content). Everything else (faults,
// lies, deny filter, key kinds, lazy events, cancellation, request-error
// shapes) is as in lookup-faulty.

type c01LateHost struct{ host.Host }

type c01DivRec struct {
	id     peer.ID
	groups []int // group of each address; -1 = not an IP address
}

type c01Div struct {
	s                *sim.Sim
	perCpl, perTable int
	G                int
	seed             uint64
	h                *H1
	late             *c01LateHost
	presented        map[int][]c01DivRec // step of the reply's delivery -> records in wire order
}

func c01Mix(a, b uint64) uint64 {
	z := a*0x9e3779b97f4a7c15 ^ (b + 0x632be59bd9b4e019)
	z = (z ^ (z >> 30)) * 0xbf58476d1ce4e5b9
	z = (z ^ (z >> 27)) * 0x94d049bb133111eb
	return z ^ (z >> 31)
}

func (d *c01Div) lo() int { return min(d.perCpl, d.perTable) }
func (d *c01Div) hi() int { return max(d.perCpl, d.perTable) }

func (d *c01Div) idxOf(id peer.ID) uint64 {
	if p := d.h.U.ByID(id); p != nil {
		return uint64(p.Idx + 2)
	}
	return 0
}

func (d *c01Div) homeGroup(id peer.ID) int { return int(c01Mix(d.seed, d.idxOf(id)) % uint64(d.G)) }

// addr builds address number n of a peer in group g.
func (d *c01Div) addr(g int, id peer.ID, n int) ma.Multiaddr {
	hb := c01Mix(d.seed^0x77, d.idxOf(id))
	a, b := int(hb%250)+1, int((hb>>8)%250)+1
	switch n % 4 {
	case 0:
		return ma.StringCast(fmt.Sprintf("/ip4/%d.7.%d.%d/tcp/%d", 31+g, a, b, 4001+n/4))
	case 1:
		return ma.StringCast(fmt.Sprintf("/ip4/%d.7.%d.%d/udp/%d/quic-v1", 31+g, a, b, 4001+n/4))
	case 2:
		return ma.StringCast(fmt.Sprintf("/ip4/%d.7.%d.%d/tcp/%d", 31+g, a, (b+n)%250+1, 4001))
	default:
		return ma.StringCast(fmt.Sprintf("/ip4/%d.7.%d.%d/tcp/%d/ws", 31+g, (a+n)%250+1, b, 8081))
	}
}

func (d *c01Div) home(id peer.ID) ma.Multiaddr { return d.addr(d.homeGroup(id), id, 0) }

// present is the lookupCfg.Present hook.
func (d *c01Div) present(responder *simnet.Peer, rec *pb.Message_Peer) {
	id := peer.ID(rec.Id)
	r := c01Mix(c01Mix(d.seed^0x1234, uint64(responder.Idx+2)), d.idxOf(id))
	hg := d.homeGroup(id)
	var addrs []ma.Multiaddr
	var groups []int
	add := func(g, n int) {
		addrs = append(addrs, d.addr(g, id, n))
		groups = append(groups, g)
	}
	many := 2 + int((r>>8)%uint64(d.hi()+1)) // 2 .. hi+2
	switch r % 9 {
	case 0, 1, 2:
		add(hg, 0)
	case 3, 4: // several addresses in the home group
		for n := 0; n < many; n++ {
			add(hg, n)
		}
		d.s.Count("fault_multi_addr_presentation")
	case 5: // several addresses in a foreign group
		g := int((r >> 16) % uint64(d.G))
		for n := 0; n < many; n++ {
			add(g, n)
		}
		d.s.Count("fault_multi_addr_presentation")
	case 6: // spread over groups
		for n := 0; n < many; n++ {
			add(int((r>>(16+4*uint(n)))%uint64(d.G)), n)
		}
		d.s.Count("fault_multi_addr_presentation")
	case 7: // none
	default: // dns only / dns + home
		addrs = append(addrs, ma.StringCast("/dns4/node.example.net/tcp/4001"))
		groups = append(groups, -1)
		if (r>>8)&1 == 1 {
			add(hg, 0)
		}
	}
	rec.Addrs = rec.Addrs[:0]
	for _, a := range addrs {
		rec.Addrs = append(rec.Addrs, a.Bytes())
	}
	d.presented[d.s.Steps] = append(d.presented[d.s.Steps], c01DivRec{id: id, groups: groups})
}

// verdicts of the documented per-response diversity rule for the reply
// delivered at step st (see the header for the two counts).
func (d *c01Div) verdicts(st, K int, self peer.ID) (mayDrop, mustDrop map[peer.ID]bool) {
	mayDrop, mustDrop = map[peer.ID]bool{}, map[peer.ID]bool{}
	recs := d.presented[st]
	capped := recs
	if len(capped) > 2*K {
		capped = capped[:2*K]
	}
	cntMax, cntMin := map[int]map[peer.ID]bool{}, map[int]map[peer.ID]bool{}
	put := func(m map[int]map[peer.ID]bool, g int, p peer.ID) {
		if g < 0 {
			return
		}
		if m[g] == nil {
			m[g] = map[peer.ID]bool{}
		}
		m[g][p] = true
	}
	for _, r := range recs {
		for _, g := range r.groups {
			put(cntMax, g, r.id)
		}
	}
	for _, r := range capped {
		if r.id == self {
			continue
		}
		for _, g := range r.groups {
			put(cntMin, g, r.id)
		}
	}
	for _, r := range recs {
		for _, g := range r.groups {
			if g >= 0 && len(cntMax[g]) > d.lo() {
				mayDrop[r.id] = true
			}
		}
	}
	for _, r := range capped {
		for _, g := range r.groups {
			if g >= 0 && len(cntMin[g]) > d.hi() {
				mustDrop[r.id] = true
			}
		}
	}
	return
}

// probes counts the situations the scenario exists for, on a processed reply.
func (d *c01Div) probes(st, K int, self peer.ID, mayDrop, mustDrop map[peer.ID]bool) {
	recs := d.presented[st]
	if len(recs) > 2*K {
		recs = recs[:2*K]
	}
	for _, r := range recs {
		if r.id == self {
			continue
		}
		per := map[int]int{}
		most := 0
		for _, g := range r.groups {
			if g >= 0 {
				per[g]++
				most = max(most, per[g])
			}
		}
		if most > d.hi() && !mayDrop[r.id] {
			d.s.Count("probe_div_many_addrs_one_group_passes")
		}
		if most > 1 && !mayDrop[r.id] {
			d.s.Count("probe_div_multi_addr_peer_passes")
		}
		if mustDrop[r.id] {
			d.s.Count("probe_div_peer_of_crowded_group")
		}
		if mayDrop[r.id] && !mustDrop[r.id] {
			d.s.Count("probe_div_verdict_open")
		}
	}
}

func init() {
	faults := append([]string{"fault_dial_fail", "fault_rpc_error", "fault_lying_reply", "fault_cancel", "time_advance", "cancel_observed",
		"fault_multi_addr_presentation", "probe_div_many_addrs_one_group_passes", "probe_div_multi_addr_peer_passes",
		"probe_div_peer_of_crowded_group", "probe_div_verdict_open", "probe_div_seed_refused_by_table", "probe_div_crowded_peer_never_learned",
		"probe_event_consumed_with_calls_parked"}, c01ReqErrFaults()...)
	sim.Register(&sim.Scenario{Prop: "C01", Name: "lookup-diversity", Weight: 2,
		Real:   []string{"IpfsDHT.GetClosestPeers", "query.go state machine", "per-response IP diversity step", "rtPeerIPGroupFilter + peerdiversity.Filter", "qpeerset", "lookup events", "kbucket routing table", "pstoremem peerstore", "ProtocolMessenger"},
		Stub:   []string{"host.Host/network (simhost)", "pb.MessageSender (level A, simnet.Sender)", "remote peers (scripted)"},
		Faults: faults,
		Run: func(s *sim.Sim) {
			c := genLookupCfg(s, "random")
			c.FaultLevel = s.Draw("fault-level", 3)
			c.Lies = s.Chance("lies", 1, 2)
			drawC01Key(s, &c)
			if s.Chance("no-query-filter", 1, 2) {
				c.Universe = "random-nofilter"
			}
			c.LazyEvents = s.Chance("lazy-events", 1, 4)
			if !c.LazyEvents && s.Chance("cancel", 1, 4) {
				c.CancelAt = s.Range("cancel-at", 1, 40)
			}
			c.ReqErr = c01ReqErr(s)
			d := &c01Div{s: s, late: &c01LateHost{}, presented: map[int][]c01DivRec{}}
			d.perCpl = s.Range("div-per-cpl", 1, 3)
			d.perTable = s.Range("div-per-table", 1, 3)
			d.G = s.Range("div-groups", 1, 6)
			d.seed = uint64(s.Draw("div-seed", 1<<20))
			c.Opts = func() []dht.Option {
				return []dht.Option{dht.RoutingTablePeerDiversityFilter(dht.NewRTPeerDiversityFilter(d.late, d.perCpl, d.perTable))}
			}
			c.Built = func(h *H1) { d.h, d.late.Host = h, h.Host }
			c.Present = d.present
			connected := 0
			c.SeedAddrs = func(p *simnet.Peer) []ma.Multiaddr {
				// (called once per drawn seed right before the table is seeded)
				if c01Mix(d.seed^0x5eed, uint64(p.Idx+2))%8 != 0 {
					d.h.Host.Net().SetConnected(p.ID, true)
					d.h.Host.Net().SetRemoteAddr(p.ID, d.home(p.ID))
					connected++
				}
				return []ma.Multiaddr{d.home(p.ID)}
			}
			s.MaxSteps = 600
			o := runLookup(s, c)
			if o != nil {
				s.Summary["cfg"] = fmt.Sprintf("%v divPerCpl=%d divPerTable=%d groups=%d", s.Summary["cfg"], d.perCpl, d.perTable, d.G)
				if len(o.table) < connected {
					s.Count("probe_div_seed_refused_by_table")
				}
			}
			if o != nil && !s.Failed() {
				checkC01x(s, o, d)
			}
			if o != nil {
				o.h.closeAndCensus()
			}
			s.Finish()
		}})
}
