//go:build all || c20

package scen

import (
	"context"
	"crypto/sha256"
	"errors"
	"fmt"
	"math/bits"
	"sort"
	"strings"
	"time"

	"github.com/anishathalye/porcupine"
	"github.com/ipfs/go-cid"
	mh "github.com/multiformats/go-multihash"

	"github.com/libp2p/go-libp2p-kad-dht/provider/keystore"
)

// ---- key pool -------------------------------------------------------------
//
// 64 multihashes. Their Kademlia identifier is sha256(multihash bytes)
// (keyspace.MhToBit256); the harness derives it and every prefix relation on
// its own, the repository's keyspace helpers are not used.

const c20PoolSize = 64
const c20BitsKept = 40

type c20Key struct {
	mh   mh.Multihash
	cid  cid.Cid
	bits string // first c20BitsKept bits of the identifier, MSB first, as '0'/'1'
}

var (
	c20Pool [c20PoolSize]c20Key
	c20ByMh = map[string]int{}
)

func init() {
	for i := range c20Pool {
		h, err := mh.Sum([]byte(fmt.Sprintf("key-%d", i)), mh.SHA2_256, -1)
		if err != nil {
			panic(err)
		}
		id := sha256.Sum256(h)
		var b strings.Builder
		for j := 0; j < c20BitsKept; j++ {
			if id[j/8]&(0x80>>(j%8)) != 0 {
				b.WriteByte('1')
			} else {
				b.WriteByte('0')
			}
		}
		c20Pool[i] = c20Key{mh: h, cid: cid.NewCidV1(cid.Raw, h), bits: b.String()}
		c20ByMh[string(h)] = i
	}
}

// c20Match is the set of pool keys whose identifier starts with prefix.
func c20Match(prefix string) uint64 {
	var m uint64
	for i := range c20Pool {
		if strings.HasPrefix(c20Pool[i].bits, prefix) {
			m |= 1 << uint(i)
		}
	}
	return m
}

func c20MaskOf(keys []int) uint64 {
	var m uint64
	for _, k := range keys {
		m |= 1 << uint(k)
	}
	return m
}

func c20Fmt(m uint64) string {
	if m == 0 {
		return "{}"
	}
	var parts []string
	for i := 0; i < c20PoolSize; i++ {
		if m&(1<<uint(i)) != 0 {
			parts = append(parts, fmt.Sprint(i))
		}
	}
	return "{" + strings.Join(parts, ",") + "}"
}

// ---- operations -------------------------------------------------------------

type c20Op struct {
	n        int
	epoch    int
	client   int
	kind     string // put get count contains delete empty size reset close overlap (a ResetCids call while a reset runs)
	keys     []int  // put/delete: pool indices in call order (may repeat one)
	mask     uint64 // put/delete: set of keys; reset: the supplied set N
	prefix   string
	limit    int
	tag      string
	call     int64
	ret      int64
	started  bool
	done     bool // set by the operation's goroutine
	seen     bool // the simulator has observed the completion
	crashed  bool // in flight when the process "crashed"; result never judged
	err      error
	outMask  uint64
	outN     int
	outBool  bool
	outBad   string // output that cannot be expressed over the pool (foreign / duplicate entries)
	panicked string
	// reset only: the outcome of a nil return is not certain (cancelled or
	// closed before it returned, or a datastore fault hit one of its operations)
	uncertain bool
	// reset-begin pseudo operation of the linearizability history
	begin bool
	// reset only: the key channel was closed after all keys had been taken
	fedAll bool
	// overlapping ResetCids call, abandoned client operation: cancels its context
	cancel context.CancelFunc
	// client read only: the caller may give up while the worker executes it
	// (abandon: drawn; abandoned: it did)
	abandon, abandoned bool
}

func (o *c20Op) closedErr() bool { return o.err != nil && errors.Is(o.err, keystore.ErrClosed) }

func (o *c20Op) String() string {
	switch o.kind {
	case "put", "delete":
		return fmt.Sprintf("%s %s%v", o.tag, o.kind, o.keys)
	case "get", "contains":
		return fmt.Sprintf("%s %s(%q)", o.tag, o.kind, o.prefix)
	case "count":
		return fmt.Sprintf("%s count(%q,%d)", o.tag, o.prefix, o.limit)
	case "reset":
		return fmt.Sprintf("%s reset%s", o.tag, c20Fmt(o.mask))
	}
	return o.tag + " " + o.kind
}

func (o *c20Op) result() string {
	if o.panicked != "" {
		return "panic"
	}
	if o.kind == "reset" {
		// which error a closed or cancelled reset reports is decided by a
		// select with several ready cases: never printed, never traced
		if o.err != nil {
			return "fail"
		}
		return "ok"
	}
	if o.err != nil {
		if o.closedErr() {
			return "closed"
		}
		return "error"
	}
	if o.outBad != "" {
		return "bad-output"
	}
	switch o.kind {
	case "put", "get":
		return "ok " + c20Fmt(o.outMask)
	case "count", "size":
		return fmt.Sprintf("ok %d", o.outN)
	case "contains":
		return fmt.Sprintf("ok %v", o.outBool)
	}
	return "ok"
}

// ---- sequential specification ---------------------------------------------------
//
// The worker serialises all operations, so the specification is a plain set
// of keys (bit i = pool key i). unk marks keys whose membership is not known
// because an operation that touched them failed part-way (fault variant
// only): "may fail, must not corrupt" - the next successful read fixes them.
// A reset is two instants of one call: begin (from then on acknowledged puts
// are also remembered in pset) and swap (content becomes N plus pset).

type c20State struct {
	set, unk   uint64
	inReset    bool
	pset, punk uint64
}

func c20Step(st c20State, o *c20Op) []c20State {
	one := func(s c20State) []c20State { return []c20State{s} }
	if o.kind == "reset" {
		if o.begin {
			if st.inReset {
				return nil
			}
			st.inReset, st.pset, st.punk = true, 0, 0
			return one(st)
		}
		if !st.inReset {
			return nil
		}
		keep := st
		keep.inReset, keep.pset, keep.punk = false, 0, 0
		swap := keep
		swap.set = o.mask | st.pset
		swap.unk = st.punk &^ swap.set
		switch {
		case o.err != nil:
			return one(keep)
		case o.uncertain:
			return []c20State{swap, keep}
		default:
			return one(swap)
		}
	}
	if o.closedErr() {
		return one(st) // never reached the store
	}
	if o.outBad != "" {
		return nil
	}
	switch o.kind {
	case "put":
		if o.err != nil {
			st.unk |= o.mask
			if st.inReset {
				st.punk |= o.mask
			}
			return one(st)
		}
		if o.outMask&^o.mask != 0 {
			return nil
		}
		certain := o.mask &^ st.unk
		if o.outMask&certain != certain&^st.set {
			return nil
		}
		st.set |= o.mask
		st.unk &^= o.mask
		if st.inReset {
			st.pset |= o.mask
			st.punk &^= o.mask
		}
		return one(st)
	case "delete":
		if o.err != nil {
			st.unk |= o.mask
			return one(st)
		}
		st.set &^= o.mask
		st.unk &^= o.mask
		return one(st)
	case "empty":
		if o.err != nil {
			st.unk |= st.set
			return one(st)
		}
		st.set, st.unk = 0, 0
		return one(st)
	}
	if o.err != nil {
		return one(st) // a failed read says nothing
	}
	switch o.kind {
	case "get":
		m := c20Match(o.prefix)
		if o.outMask&^m != 0 {
			return nil
		}
		certain := m &^ st.unk
		if o.outMask&certain != st.set&certain {
			return nil
		}
		fix := m & st.unk
		st.set = st.set&^fix | o.outMask&fix
		st.unk &^= m
		return one(st)
	case "count", "contains", "size":
		m := ^uint64(0)
		if o.kind != "size" {
			m = c20Match(o.prefix)
		}
		lo := bits.OnesCount64(st.set & m &^ st.unk)
		hi := lo + bits.OnesCount64(m&st.unk)
		switch o.kind {
		case "contains":
			if (o.outBool && hi == 0) || (!o.outBool && lo > 0) {
				return nil
			}
		case "count":
			if o.limit > 0 {
				lo, hi = min(lo, o.limit), min(hi, o.limit)
			}
			fallthrough
		default:
			if o.outN < lo || o.outN > hi {
				return nil
			}
		}
		return one(st)
	}
	return nil
}

// c20Lin runs porcupine on one epoch's history. It returns the verdict and,
// for an illegal history, the first operation (in completion order) whose
// removal makes the rest linearizable (diagnosis only: it names the rule).
func c20Lin(init uint64, hist []*c20Op) (porcupine.CheckResult, *c20Op) {
	steps := 0
	exhausted := false
	nm := porcupine.NondeterministicModel{
		Init: func() []interface{} { return []interface{}{c20State{set: init}} },
		Step: func(state, in, _ interface{}) []interface{} {
			steps++
			if steps > 3_000_000 {
				exhausted = true
				return nil
			}
			next := c20Step(state.(c20State), in.(*c20Op))
			out := make([]interface{}, len(next))
			for i := range next {
				out[i] = next[i]
			}
			return out
		},
	}
	var ops []porcupine.Operation
	for _, o := range hist {
		ops = append(ops, porcupine.Operation{ClientId: o.client, Input: o, Call: o.call, Return: o.ret})
	}
	model := nm.ToModel()
	res := porcupine.CheckOperationsTimeout(model, ops, 10*time.Second)
	if exhausted {
		return porcupine.Unknown, nil
	}
	if res != porcupine.Illegal {
		return res, nil
	}
	// diagnosis: the operation (in completion order) without which the rest of
	// the history is linearizable
	sorted := append([]*c20Op(nil), hist...)
	sort.SliceStable(sorted, func(i, j int) bool { return sorted[i].ret < sorted[j].ret })
	for _, cand := range sorted {
		if cand.begin {
			continue
		}
		var rest []porcupine.Operation
		for _, o := range hist {
			if o == cand || (cand.kind == "reset" && o.kind == "reset") {
				continue
			}
			rest = append(rest, porcupine.Operation{ClientId: o.client, Input: o, Call: o.call, Return: o.ret})
		}
		steps = 0
		if porcupine.CheckOperationsTimeout(model, rest, 10*time.Second) == porcupine.Ok && !exhausted {
			return res, cand
		}
		if exhausted {
			break
		}
	}
	return res, nil
}

// ---- what a reopened keystore may contain ----------------------------------------

const (
	c20MayAbsent  = 1
	c20MayPresent = 2
)

// c20Mut is one mutating operation of the epoch as the reopen oracle sees it.
type c20Mut struct {
	op        *c20Op
	executed  bool // left a trace in the datastore log (the worker got to it)
	pos       int64
	mandatory bool // must be reflected after the reopen
}

// c20World is one candidate for what a restart may find: world 0 is "no reset
// of this epoch took effect", world i "the i-th reset was the last one that
// took effect".
type c20World struct {
	name    string
	ok      bool // this world is possible at all
	allowed [c20PoolSize]uint8
}

type c20Expect struct {
	worlds   []c20World
	hasReset bool
	// markerPutFail / markerSyncFail: the write / the sync of the active-slot
	// marker at the end of a reset of this epoch failed (injected error or
	// cancelled context). Attribution of recorded findings only - see
	// c20H.markerNote.
	markerPutFail, markerSyncFail bool
}

func c20Allowed(a uint8, present bool, mandatory bool) uint8 {
	e := uint8(c20MayAbsent)
	if present {
		e = c20MayPresent
	}
	if mandatory {
		return e
	}
	return a | e
}

// c20ComputeExpect derives, per key, the states a reopened store may show.
//
// Without a reset: the outcome of some prefix of the key's own history that
// contains every mandatory operation (durably acknowledged for a crash,
// acknowledged for a clean restart). Put and delete are absolute per key, so
// that is: the state after the last mandatory operation, or the effect of any
// later operation.
//
// With resets (they run one after the other) there is one more candidate
// world per reset: the supplied set, plus the puts that overlapped that reset
// (mandatory ones certainly, attempted ones possibly), then the operations
// issued after it returned - later resets being without effect in that world.
// A world is possible when its reset got all its keys and did not return an
// error, and no later reset certainly took effect; world 0 when no reset
// certainly took effect. "Certainly": returned nil and nothing made the
// outcome of the nil return doubtful (cancellation, Close, injected fault).
func c20ComputeExpect(base uint64, muts []c20Mut, resets []*c20Op) c20Expect {
	var ex c20Expect
	sort.SliceStable(muts, func(i, j int) bool { return muts[i].pos < muts[j].pos })
	touches := func(m c20Mut, k int) (bool, bool) {
		switch m.op.kind {
		case "put":
			return m.op.mask&(1<<uint(k)) != 0, true
		case "delete":
			return m.op.mask&(1<<uint(k)) != 0, false
		case "empty":
			return true, false
		}
		return false, false
	}
	returned := func(r *c20Op) bool { return r.seen && !r.crashed }
	certain := func(r *c20Op) bool { return returned(r) && r.err == nil && !r.uncertain }
	laterCertain := func(i int) bool {
		for _, r := range resets[i:] {
			if certain(r) {
				return true
			}
		}
		return false
	}
	w0 := c20World{name: "no reset took effect", ok: !laterCertain(0)}
	for k := 0; k < c20PoolSize; k++ {
		a := uint8(c20MayAbsent)
		if base&(1<<uint(k)) != 0 {
			a = c20MayPresent
		}
		for _, m := range muts {
			if !m.executed {
				continue
			}
			if hit, present := touches(m, k); hit {
				a = c20Allowed(a, present, m.mandatory)
			}
		}
		w0.allowed[k] = a
	}
	ex.worlds = append(ex.worlds, w0)
	ex.hasReset = len(resets) > 0
	for i, reset := range resets {
		w := c20World{name: fmt.Sprintf("reset %d (%s) took effect", i+1, c20Fmt(reset.mask))}
		w.ok = reset.fedAll && !(returned(reset) && reset.err != nil) && !laterCertain(i+1)
		for k := 0; k < c20PoolSize; k++ {
			a := uint8(c20MayAbsent)
			if reset.mask&(1<<uint(k)) != 0 {
				a = c20MayPresent
			} else {
				for _, m := range muts {
					if m.op.call < reset.call || (returned(reset) && m.op.call > reset.ret) {
						continue
					}
					if hit, present := touches(m, k); hit && present {
						// overlapped the reset; executed or not, it was attempted
						a = c20Allowed(a, true, m.mandatory)
					}
				}
			}
			if returned(reset) {
				for _, m := range muts {
					if m.op.call < reset.ret || !m.executed {
						continue
					}
					if hit, present := touches(m, k); hit {
						a = c20Allowed(a, present, m.mandatory)
					}
				}
			}
			w.allowed[k] = a
		}
		ex.worlds = append(ex.worlds, w)
	}
	return ex
}

func c20Fits(content uint64, allowed *[c20PoolSize]uint8) (missing, extra uint64) {
	for k := 0; k < c20PoolSize; k++ {
		has := content&(1<<uint(k)) != 0
		if has && allowed[k]&c20MayPresent == 0 {
			extra |= 1 << uint(k)
		}
		if !has && allowed[k]&c20MayAbsent == 0 {
			missing |= 1 << uint(k)
		}
	}
	return
}
