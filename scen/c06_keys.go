//go:build all || c06

package scen

// C06 — the key of a provide is an input.
//
// The property is quantified "for every network, KEY, ...": Provide with
// announce owes the local provider record, the closest-peers lookup and one
// ADD_PROVIDER per returned peer for whatever content identifier the caller
// hands in. A content identifier has a form - the hash function and digest
// length of its multihash, the CID version, the content codec - and none of the
// clauses depends on it. The provide scenarios (classic, optimistic, slow
// lookup, fullrt) therefore draw the form of every key instead of always
// providing a CIDv1/raw/sha2-256 identifier. No new rule is needed: every
// existing clause (ap-no-lookup, ap-recipients-*, ap-key, ap-local-provider,
// the content and in-flight rules and their frt-* counterparts) is judged on
// keys of every drawn form. The class of regressions this exposes: any special
// treatment of a provide that is selected by the shape of the key (short-cuts
// for inlined / identity digests, code that assumes 32-byte digests or one hash
// function, CIDv0 / codec dependent paths, keys mangled on the way into the
// message).
//
// The forms are taken from what the multihash / CID libraries can express, not
// from the code under test. Excluded: digests so long that the multihash exceeds
// what a provider-record key may be on the receiving side (the content strings
// are short, so an identity multihash stays far below any such bound), and
// undefined CIDs (Provide refuses them; the property says nothing about them).

import (
	"crypto/sha256"
	"fmt"

	"github.com/ipfs/go-cid"
	mh "github.com/multiformats/go-multihash"

	"verif/sim"
)

// hash functions of the drawn key space; 0 is the benign choice
var c06KeyHashes = []struct {
	name   string
	code   uint64
	length int
}{
	{"sha2-256", mh.SHA2_256, -1},
	{"identity", mh.IDENTITY, -1},
	{"sha2-512", mh.SHA2_512, -1},
	{"sha1", mh.SHA1, -1},
	{"sha2-256/20", mh.SHA2_256, 20}, // truncated digest
	{"dbl-sha2-256", mh.DBL_SHA2_256, -1},
	{"sha3-256", mh.SHA3_256, -1},
	{"blake2b-256", mh.BLAKE2B_MIN + 31, -1},
	{"identity-short", mh.IDENTITY, -1}, // a three-byte inlined content
}

var c06KeyCidForms = []string{"v1-raw", "v1-dag-pb", "v0", "v1-dag-cbor"}

type c06KeyForm struct {
	hash, cidForm int
}

func c06DrawKeyForm(s *sim.Sim) c06KeyForm {
	f := c06KeyForm{hash: s.Draw("key-hash", len(c06KeyHashes)), cidForm: s.Draw("key-cid", len(c06KeyCidForms))}
	h := c06KeyHashes[f.hash]
	if h.code == mh.IDENTITY {
		s.Count("probe_key_identity_hash")
	}
	if h.code != mh.SHA2_256 {
		s.Count("probe_key_hash_not_sha256")
	}
	if f.hash != 0 && f.cidForm == 2 {
		// CIDv0 exists only for full sha2-256 digests
		f.cidForm = 3
	}
	switch f.cidForm {
	case 2:
		s.Count("probe_key_cid_v0")
	case 1, 3:
		s.Count("probe_key_codec_not_raw")
	}
	return f
}

func (f c06KeyForm) String() string {
	return c06KeyHashes[f.hash].name + "/" + c06KeyCidForms[f.cidForm]
}

// sum returns the multihash of content under the form's hash function.
func (f c06KeyForm) sum(content string) mh.Multihash {
	h := c06KeyHashes[f.hash]
	data := []byte(content)
	if h.name == "identity-short" {
		d := sha256.Sum256(data)
		data = d[:3]
	}
	sum, err := mh.Sum(data, h.code, h.length)
	if err != nil {
		panic(fmt.Sprintf("c06: multihash %s of %q: %v", h.name, content, err))
	}
	return sum
}

// cid wraps the multihash into a content identifier of the form's version and codec.
func (f c06KeyForm) cid(sum mh.Multihash) cid.Cid {
	switch f.cidForm {
	case 1:
		return cid.NewCidV1(cid.DagProtobuf, sum)
	case 2:
		return cid.NewCidV0(sum)
	case 3:
		return cid.NewCidV1(cid.DagCBOR, sum)
	}
	return cid.NewCidV1(cid.Raw, sum)
}
