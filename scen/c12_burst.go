//go:build all || c12

package scen

// C12, scenario rt-event-burst — bursts of "no longer supports the protocol"
// reports, judged at settled points.
//
// Clause encoded: "A member that ... is reported as no longer supporting the
// protocol is removed", under the property's quantifier "for every sequence
// of ... identify/protocol-update ... events over any set of peers". The other
// C12 scenarios deliver one event per scheduled step and let the node settle
// before the next one; a sequence in which several reports arrive back to back
// — what identify produces when a batch of connections is (re)identified — is
// as much a member of the quantified space. This scenario generates exactly
// that: in one step the peerstore entries of a drawn set of peers (members and
// non-members alike) lose the DHT protocol and one event per peer is emitted
// (protocols-updated or identification-completed, a drawn choice), with no
// quiescent point in between.
//
// Oracle (rule proto-removed-not-evicted, same rule id and clause as in
// c12.go): membership is read only at the SETTLED point after the burst
// (s.Quiesce(): every goroutine of the node is durably blocked, so a removal
// the node performs asynchronously has either happened or never will). Every
// peer reported in the burst must be absent then. The trace records the sorted
// membership at the settled point only, never the order in which removals
// landed. Rule self-member is checked as everywhere.
//
// Nothing of the repository enters the rule: the size of a burst is drawn
// independently of the node's configuration (bucket size and concurrency are
// drawn inputs; probe_burst_larger_than_concurrency merely records that bursts
// larger than the drawn concurrency occurred). Class of regressions exposed:
// evictions that are lossy, coalesced or bounded when several are due at once
// (hand-over through a bounded / non-blocking queue, "latest only" slots,
// evictions skipped while another table operation is in progress).
//
// World: auto-refresh off, no bootstrap peers, no peer connected — so the node
// starts no dial and no request on its own, and the scenario has no seam to
// answer: the only activity is the event subscriber and whatever it hands the
// removals to. Members are seeded directly (as in c12.go; the admission clause
// is not this scenario's subject). Between bursts a drawn subset of the evicted
// peers regains the protocol and is seeded again, so that later bursts find
// members too.

import (
	"fmt"
	"sort"
	"strings"
	"time"

	dht "github.com/libp2p/go-libp2p-kad-dht"
	pb "github.com/libp2p/go-libp2p-kad-dht/pb"
	"github.com/libp2p/go-libp2p/core/event"
	"github.com/libp2p/go-libp2p/core/host"
	"github.com/libp2p/go-libp2p/core/peer"
	"github.com/libp2p/go-libp2p/core/protocol"

	"verif/sim"
	"verif/simhost"
	"verif/simnet"
)

func init() {
	sim.Register(&sim.Scenario{Prop: "C12", Name: "rt-event-burst", Weight: 1, Run: runC12Burst,
		Real:   []string{"IpfsDHT (event subscriber, peerStoppedDHT, rtPeerLoop, fixLowPeers, Close)", "subscriber_notifee.go", "kbucket routing table", "pstoremem peerstore", "libp2p eventbus"},
		Stub:   []string{"host.Host/network (simhost)", "pb.MessageSender (simnet.Sender, never reached)", "identify (events emitted by the simulator)"},
		Faults: []string{"fault_proto_removed_burst", "probe_burst_member_evicted", "probe_burst_larger_than_concurrency", "probe_burst_ident_event", "probe_burst_nonmember_reported", "probe_burst_reseeded"},
	})
}

func runC12Burst(s *sim.Sim) {
	n := s.Range("n", 3, 14)
	k := s.Range("k", 2, 8)
	alpha := s.Range("alpha", 1, 3)
	rounds := s.Range("rounds", 1, 4)
	u := simnet.NewUniverse(uint64(s.Draw("universe", 1<<16)), n)
	self := u.Self.ID
	s.MaxSteps = 64

	h := simhost.New(s, self, u.Self.Addrs, u.Name)
	emIdent, err := h.RealBus().Emitter(new(event.EvtPeerIdentificationCompleted))
	if err != nil {
		panic(err)
	}
	emProto, err := h.RealBus().Emitter(new(event.EvtPeerProtocolsUpdated))
	if err != nil {
		panic(err)
	}
	for _, p := range u.Peers {
		h.Peerstore().AddAddrs(p.ID, p.Addrs, time.Hour)
		_ = h.Peerstore().AddProtocols(p.ID, c12Proto)
	}
	d, err := dht.New(h,
		dht.ProtocolPrefix("/sim"),
		dht.Mode(dht.ModeClient),
		dht.BucketSize(k),
		dht.Concurrency(alpha),
		dht.DisableAutoRefresh(),
		dht.WithCustomMessageSender(func(_ host.Host, _ []protocol.ID) pb.MessageSenderWithDisconnect {
			return &simnet.Sender{S: s, U: u}
		}),
	)
	if err != nil {
		h.Close()
		panic(err)
	}
	s.Quiesce()
	s.Summary["cfg"] = fmt.Sprintf("burst N=%d K=%d alpha=%d rounds=%d", n, k, alpha, rounds)

	peers := append([]*simnet.Peer(nil), u.Peers...)
	sort.Slice(peers, func(i, j int) bool { return peers[i].Name < peers[j].Name })

	seed := func(p peer.ID) bool {
		ok, _ := d.RoutingTable().TryAddPeer(p, true, false)
		return ok
	}
	for _, p := range peers {
		if s.Chance("seed", 3, 4) {
			seed(p.ID)
		}
	}
	s.Quiesce()

	settled := func() map[peer.ID]bool {
		s.Quiesce()
		list := d.RoutingTable().ListPeers()
		now := idSet(list)
		if now[self] {
			s.Violate("self-member", "the local node is a member of its own routing table")
		}
		return now
	}
	traceRT := func(now map[peer.ID]bool) {
		var names []string
		for id := range now {
			names = append(names, u.Name(id))
		}
		sort.Strings(names)
		s.Tracef("rt [%s]", strings.Join(names, ","))
		s.State("rt=%d", len(names))
	}

	evicted := 0
	for r := 0; r < rounds && !s.Failed() && s.Step(); r++ {
		before := settled()
		traceRT(before)

		// the burst: a drawn set of peers, members or not
		var burst []*simnet.Peer
		for _, p := range peers {
			if s.Chance("in-burst", 1, 2) {
				burst = append(burst, p)
			}
		}
		if len(burst) == 0 {
			burst = append(burst, peers[s.Draw("burst-one", len(peers))])
		}
		ident := make([]bool, len(burst))
		var names []string
		for i, p := range burst {
			ident[i] = s.Chance("ident-event", 1, 3)
			names = append(names, p.Name)
		}
		s.Tracef("burst %d: [%s] reported without the DHT protocol", r, strings.Join(names, ","))
		s.Count("fault_proto_removed_burst")
		if len(burst) > alpha {
			s.Count("probe_burst_larger_than_concurrency")
		}
		// peerstore first (identify updates it before it emits), then the events,
		// back to back
		for _, p := range burst {
			_ = h.Peerstore().RemoveProtocols(p.ID, c12Proto)
		}
		for i, p := range burst {
			if ident[i] {
				s.Count("probe_burst_ident_event")
				_ = emIdent.Emit(event.EvtPeerIdentificationCompleted{Peer: p.ID})
			} else {
				_ = emProto.Emit(event.EvtPeerProtocolsUpdated{Peer: p.ID, Removed: []protocol.ID{c12Proto}})
			}
			if !before[p.ID] {
				s.Count("probe_burst_nonmember_reported")
			}
		}

		after := settled()
		left := 0
		for _, p := range burst {
			if after[p.ID] {
				left++
			} else if before[p.ID] {
				evicted++
				s.Count("probe_burst_member_evicted")
			}
		}
		if left > 0 {
			// the message does not say which: were the loss decided by the Go
			// scheduler, "at least one" is what every replay shows
			s.Violate("proto-removed-not-evicted", "%d peers were reported without the DHT protocol by back-to-back events (the peerstore agrees); at the settled point after the burst at least one of them is still a routing-table member", len(burst))
			break
		}
		traceRT(after)

		// some of the reported peers regain the protocol and are seeded again
		for _, p := range burst {
			if s.Chance("regain", 2, 3) {
				_ = h.Peerstore().AddProtocols(p.ID, c12Proto)
				if seed(p.ID) {
					s.Count("probe_burst_reseeded")
				}
			}
		}
	}
	s.NonTrivial = evicted > 0

	emIdent.Close()
	emProto.Close()
	closeAndCensus(s, func() { _ = d.Close(); _ = h.Close() })
	s.Finish()
}
