//go:build all || c19

package scen

// C19, third part: the KEYS of the provide queue are multihashes of any form.
//
// The property speaks of "keys" without restricting them: "an enqueued key
// stays exactly once in the queue until it is dequeued, removed or cleared"
// and "persisting the queue and draining it into a fresh one restores the same
// prefixes, order and KEYS". A key is a multihash, i.e. the byte string
// <varint hash function code><varint digest length><digest>; which hash
// function made it and how long its digest is, is the caller's business (the
// provider is handed whatever multihashes the node's content uses: sha2-256,
// but also blake2b-256, sha2-512, blake3, long or short identity hashes, ...).
//
// Generator extension (no new oracle rule: the existing rules are stated in
// terms of key identities and judge every key alike — ds-op-error-without-fault,
// foreign-key, duplicate-key, phantom-key, restart-*, final-restart-differs,
// linearizability with the persist/restart clause): the key pool of a run is
// a drawn choice
//
//   - all keys sha2-256 multihashes (what the scenarios used exclusively
//     before; value 0 of the draw),
//   - a MIXED pool: the form of key i is taken from a table that spans the
//     classes of the multihash format — hash function codes whose varint takes
//     1, 2 or 3 bytes, digest lengths from a few bytes to several hundred
//     (length varint of 1 or 2 bytes, both sides of that boundary), truncated
//     digests — so that one region, one persisted entry and one restored queue
//     hold keys of different byte lengths and header layouts side by side,
//   - a UNIFORM pool of one drawn form other than sha2-256.
//
// The table lists forms of the multihash FORMAT (the input space), not
// anything the queue does with them. Whatever the form, the Kademlia
// identifier of a key (and therefore the prefixes it lies under) is computed
// by the library's own MhToBit256, as for the sha2-256 pool.
//
// Class of regressions this exposes: any dependence of the queue, of its
// persisted encoding or of its restore path on the byte layout of a key
// (fixed key size, fixed header size, a hash function white-list, values cut
// at assumed offsets, size-dependent batching).
//
// Excluded from the generated space: byte strings that are not well-formed
// multihashes (precondition of Enqueue: it takes mh.Multihash values);
// identity multihashes with an empty digest.

import (
	"crypto/sha256"
	"encoding/binary"
	"fmt"
	"strings"
	"sync"

	mh "github.com/multiformats/go-multihash"

	"github.com/libp2p/go-libp2p-kad-dht/provider/verifqueue"

	"verif/sim"
)

// c19KeyForm is one form of multihash.
type c19KeyForm struct {
	name string
	code uint64
	// n: for the identity function the length of the embedded data; for the
	// others the digest length asked of the hash function (-1: its default),
	// and the length of the made-up digest when the function has no
	// implementation registered in go-multihash (the queue never recomputes a
	// digest: it handles the encoded multihash only).
	n     int
	trunc bool // digest shorter than the function's default
}

// c19KeyForms: index 0 is the default form.
var c19KeyForms = []c19KeyForm{
	{name: "sha2-256", code: mh.SHA2_256, n: -1},
	{name: "blake2b-256", code: mh.BLAKE2B_MIN + 31, n: 32}, // 3-byte code
	{name: "sha2-512", code: mh.SHA2_512, n: -1},            // 64-byte digest
	{name: "identity-200", code: mh.IDENTITY, n: 200},       // 2-byte length
	{name: "sha1", code: mh.SHA1, n: -1},                    // 20-byte digest
	{name: "md5", code: mh.MD5, n: 16},                      // 2-byte code
	{name: "blake3", code: mh.BLAKE3, n: 32},
	{name: "identity-6", code: mh.IDENTITY, n: 6},
	{name: "sha2-256-trunc254-padded", code: mh.SHA2_256_TRUNC254_PADDED, n: 32}, // 2-byte code
	{name: "sha3-384", code: mh.SHA3_384, n: -1},                                 // 48-byte digest
	{name: "identity-127", code: mh.IDENTITY, n: 127},                            // longest 1-byte length
	{name: "identity-128", code: mh.IDENTITY, n: 128},                            // shortest 2-byte length
	{name: "blake2s-256", code: mh.BLAKE2S_MAX, n: 32},                           // 3-byte code
	{name: "sha2-256/16", code: mh.SHA2_256, n: 16, trunc: true},                 // truncated digest
	{name: "keccak-256", code: mh.KECCAK_256, n: -1},
	{name: "poseidon-bls12_381-a1-fc1", code: mh.POSEIDON_BLS12_381_A1_FC1, n: 32}, // 3-byte code, no implementation registered
	{name: "blake2b-512", code: mh.BLAKE2B_MAX, n: 64},
	{name: "identity-300", code: mh.IDENTITY, n: 300},
	{name: "murmur3-x64-64", code: mh.MURMUR3X64_64, n: 8}, // 8-byte digest
	{name: "dbl-sha2-256", code: mh.DBL_SHA2_256, n: -1},
}

// c19MixedTable: the form of key i of the mixed pool is
// c19MixedTable[i % len]: the default form stays frequent (keys of the usual
// form next to unusual ones), every other form shows up once per period.
var c19MixedTable = func() []int {
	var t []int
	for f := 1; f < len(c19KeyForms); f++ {
		if f%2 == 1 {
			t = append(t, 0)
		}
		t = append(t, f)
	}
	return t
}()

// c19Stream returns n bytes derived from the name of key i.
func c19Stream(i, n int) []byte {
	out := make([]byte, 0, n+sha256.Size)
	for c := 0; len(out) < n; c++ {
		sum := sha256.Sum256([]byte(fmt.Sprintf("key-%d/%d", i, c)))
		out = append(out, sum[:]...)
	}
	return out[:n]
}

// c19MakeKey builds key i in the given form.
func c19MakeKey(i int, f c19KeyForm) mh.Multihash {
	var h mh.Multihash
	var err error
	if f.code == mh.IDENTITY {
		h, err = mh.Sum(c19Stream(i, f.n), mh.IDENTITY, -1)
	} else {
		h, err = mh.Sum([]byte(fmt.Sprintf("key-%d", i)), f.code, f.n)
		if err != nil {
			// no implementation of this function registered: a made-up digest
			// of the right length
			var enc []byte
			enc, err = mh.Encode(c19Stream(i, f.n), f.code)
			h = mh.Multihash(enc)
		}
	}
	if err != nil {
		panic(fmt.Sprintf("c19 key pool: key %d form %s: %v", i, f.name, err))
	}
	// every pool key is a well-formed multihash
	dec, err := mh.Decode(h)
	if err != nil || dec.Code != f.code || dec.Length != len(dec.Digest) || dec.Length == 0 {
		panic(fmt.Sprintf("c19 key pool: key %d form %s is not a well-formed multihash: %v", i, f.name, err))
	}
	return h
}

// pool variants: 0 all default form, 1 mixed, 1+f uniform form f (f >= 1)
var (
	c19PoolOnces = make([]sync.Once, 1+len(c19KeyForms))
	c19Pools     = make([]*c19Pool, 1+len(c19KeyForms))
)

func c19GetPoolVariant(v int) *c19Pool {
	c19PoolOnces[v].Do(func() {
		p := &c19Pool{idOf: map[string]int{}, variant: "sha2-256"}
		switch {
		case v == 1:
			p.variant = "mixed"
		case v > 1:
			p.variant = "all-" + c19KeyForms[v-1].name
		}
		for i := 0; i < c19PoolSize; i++ {
			f := 0
			switch {
			case v == 1:
				f = c19MixedTable[i%len(c19MixedTable)]
			case v > 1:
				f = v - 1
			}
			h := c19MakeKey(i, c19KeyForms[f])
			if _, dup := p.idOf[string(h)]; dup {
				panic(fmt.Sprintf("c19 key pool %s: key %d repeats an earlier key", p.variant, i))
			}
			k := verifqueue.MhToBit256(h)
			var b strings.Builder
			for j := 0; j < 16; j++ {
				b.WriteByte(byte('0' + k.Bit(j)))
			}
			// header layout (the multihash format uses unsigned LEB128 varints)
			_, nc := binary.Uvarint(h)
			_, nl := binary.Uvarint(h[nc:])
			p.mh = append(p.mh, h)
			p.bits = append(p.bits, b.String())
			p.form = append(p.form, uint8(f))
			p.wideCode = append(p.wideCode, nc > 1)
			p.wideLen = append(p.wideLen, nl > 1)
			p.idOf[string(h)] = i
		}
		c19Pools[v] = p
	})
	return c19Pools[v]
}

// c19DrawPool draws the key pool of a run.
func c19DrawPool(s *sim.Sim) *c19Pool {
	switch s.Draw("key-forms", 4) {
	case 1, 2:
		s.Count("probe_keys_mixed_forms_run")
		return c19GetPoolVariant(1)
	case 3:
		// one form other than the default, with enough digest bytes for
		// c19PoolSize different keys
		var cands []int
		for f := 1; f < len(c19KeyForms); f++ {
			if c19KeyForms[f].n < 0 || c19KeyForms[f].n >= 8 {
				cands = append(cands, f)
			}
		}
		s.Count("probe_keys_uniform_other_form_run")
		return c19GetPoolVariant(1 + cands[s.Draw("key-form", len(cands))])
	}
	return c19GetPoolVariant(0)
}

// keyFormProbes: which forms of keys went through a Persist that returned nil
// (what="persist", the model queue it ran on) or came back from a strictly
// judged clean restart (what="restart_strict", the queue it restored).
func (h *c19H) keyFormProbes(what string, ents []c19Ent) {
	s, p := h.s, h.pool
	wideCode, wideLen, other, sizesDiffer := false, false, false, false
	for _, e := range ents {
		for i, k := range e.K {
			wideCode = wideCode || p.wideCode[k]
			wideLen = wideLen || p.wideLen[k]
			other = other || p.form[k] != 0
			if i > 0 && len(p.mh[k]) != len(p.mh[e.K[0]]) {
				sizesDiffer = true
			}
		}
	}
	if other {
		s.Count("probe_" + what + "_key_other_form")
	}
	if wideCode {
		s.Count("probe_" + what + "_key_code_multibyte")
	}
	if wideLen {
		s.Count("probe_" + what + "_key_length_multibyte")
	}
	if sizesDiffer {
		s.Count("probe_" + what + "_region_key_sizes_differ")
	}
}
