//go:build all || c13

package scen

// C13: the rest of the node's life on the event bus, and a peerstore that can
// fail.
//
// "The mode after ANY sequence of reachability events is determined by the last
// event" is a statement about a node that lives on a real host: between two
// reachability events the same event bus carries the host's other
// notifications — a peer completed identification, a peer's protocol list
// changed, a peer disconnected, the local addresses changed — and the node
// works them off on the same subscription. While doing so it consults the
// host's peerstore, and a peerstore is an I/O component (the datastore-backed
// implementation returns its datastore's errors from every protocol-book
// read). None of this is mentioned in the property, so none of it may change
// what the property promises: after such an event, processed with or without a
// transient peerstore error, the node still follows the next reachability
// event. mode-switch (c13.go) therefore draws these events as further steps,
// each with a drawn peerstore fault (none / the n-th protocol-book read from
// now fails once), and keeps judging the same rules — first of all
// auto-mode-wrong.
//
// The wrappers below only add the fault; every call goes to the simulated
// host's real in-memory peerstore.

import (
	"errors"
	"sync"

	"github.com/libp2p/go-libp2p/core/peer"
	"github.com/libp2p/go-libp2p/core/peerstore"
	"github.com/libp2p/go-libp2p/core/protocol"

	"verif/simhost"
)

var errC13Peerstore = errors.New("peerstore: datastore temporarily unavailable")

// c13Peerstore fails the failAt-th protocol-book read after arm(failAt), once.
type c13Peerstore struct {
	peerstore.Peerstore
	mu     sync.Mutex
	failAt int
	reads  int
	failed int
}

func (ps *c13Peerstore) arm(n int) {
	ps.mu.Lock()
	ps.failAt, ps.reads = n, 0
	ps.mu.Unlock()
}

// disarm switches the fault off and reports (reads seen since arm, errors returned since arm).
func (ps *c13Peerstore) disarm() (reads, failed int) {
	ps.mu.Lock()
	reads, failed = ps.reads, ps.failed
	ps.failAt, ps.reads, ps.failed = 0, 0, 0
	ps.mu.Unlock()
	return
}

func (ps *c13Peerstore) trip() error {
	ps.mu.Lock()
	defer ps.mu.Unlock()
	ps.reads++
	if ps.failAt > 0 && ps.reads == ps.failAt {
		ps.failed++
		return errC13Peerstore
	}
	return nil
}

func (ps *c13Peerstore) GetProtocols(p peer.ID) ([]protocol.ID, error) {
	if err := ps.trip(); err != nil {
		return nil, err
	}
	return ps.Peerstore.GetProtocols(p)
}

func (ps *c13Peerstore) SupportsProtocols(p peer.ID, protos ...protocol.ID) ([]protocol.ID, error) {
	if err := ps.trip(); err != nil {
		return nil, err
	}
	return ps.Peerstore.SupportsProtocols(p, protos...)
}

func (ps *c13Peerstore) FirstSupportedProtocol(p peer.ID, protos ...protocol.ID) (protocol.ID, error) {
	if err := ps.trip(); err != nil {
		return "", err
	}
	return ps.Peerstore.FirstSupportedProtocol(p, protos...)
}

// c13Host is the simulated host with the fallible peerstore in front of its own.
type c13Host struct {
	*simhost.Host
	ps *c13Peerstore
}

func newC13Host(h *simhost.Host) *c13Host {
	return &c13Host{Host: h, ps: &c13Peerstore{Peerstore: h.Peerstore()}}
}

func (h *c13Host) Peerstore() peerstore.Peerstore { return h.ps }
