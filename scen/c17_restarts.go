//go:build all || c17

package scen

// C17, scenario sweep-restarts: the fault-free sweep (c17.go, same world,
// same steps, same oracle) over a longer horizon - up to a little more than
// three reprovide cycles - with restarts drawn four times as often, so that a
// run sees several provider instances, one after the other, on one datastore
// with WithResumeCycle.
//
// What it adds to the generated space: histories with two and more restarts
// at arbitrary offsets of the reprovide cycle. Whatever an instance writes to
// the datastore (cycle anchor, reprovide history, average prefix length,
// provide queue) is read back not by itself but by its successor, and what the
// successor writes is read by the instance after that: a regression in what a
// RESUMED instance persists is invisible with a single restart.
//
// Rule judged across the restarts (c17.go, fixpoint / step restart):
//
//   cadence-restart   "every key kept for reproviding is re-advertised to its
//                     then-nearest peers at least once per reprovide interval
//                     plus the allowed delay until it is stopped, regardless
//                     of ... restart" (quantifier: "restart over several
//                     reprovide cycles"). For a kept key whose last complete
//                     round was made in a clean window (node online, no fault
//                     injected, nothing in flight) and after which nothing
//                     happened to the node but restarts from a clean state:
//                     the next complete round comes no later than
//                     (interval + max delay) * 1.05 after that round, plus the
//                     time during which the node was being restarted (Close
//                     called .. successor online and clean: a node that is
//                     down cannot advertise, "while the node is online").
//                     Not judged: any history with a fault window since the
//                     round (the catch-up rules speak there), restarts from a
//                     state that is not clean, WithSkipBootstrapReprovide (the
//                     option asks the successor not to look at what is due
//                     when it starts; the property is silent about it).
//
// The rule is live in every sweep scenario; this scenario makes the histories
// with several restarts frequent. Interval, max delay and the instants of the
// restarts are drawn; no constant of the implementation is used.

import (
	"time"

	"verif/sim"
)

func init() {
	sim.Register(&sim.Scenario{Prop: "C17", Name: "sweep-restarts", Weight: 2, Run: runC17SweepRestarts,
		Real: []string{"provider.SweepingProvider as in scenario sweep; several instances in a row on one datastore (cycle anchor, reprovide history, average prefix length and provide queue written by one instance and read by the next)"},
		Stub: []string{"router / message sender / datastore / self addresses / crypto/rand as in scenario sweep"},
		Faults: []string{"time_advance", "restart", "swarm_grow", "swarm_shrink", "addr_change",
			"probe_cadence_carried_over_restart", "probe_cadence_carried_over_two_restarts", "probe_round_after_restart", "probe_round_after_two_restarts", "probe_slot_during_restart"}})
}

func runC17SweepRestarts(s *sim.Sim) {
	c17InitPools()
	c := genC17Cfg(s, false)
	c.restartBias = true
	// 1.2 .. 3.2 reprovide cycles of scenario steps (the drain adds one more)
	c.horizon = c.interval * time.Duration(s.Range("horizon-cycles", 12, 32)) / 10
	c.stepLimit = 90
	s.MaxSteps = c.stepLimit
	s.Summary["cfg"] = c.String() + " | restarts: biased"
	s.Tracef("cfg %s restarts=biased", c.String())

	h, restore := newC17H(s, c)
	defer restore()
	h.newProvider()
	c17SweepBody(s, c, h)
}
