//go:build all || c09

package scen

// C09: peer records whose FIELDS are arbitrary byte strings.
//
// The property quantifies over "every structurally valid message of every type
// with arbitrary field contents". The peer records of the other generator
// classes (c09_gen.go) vary the address LIST (none, undecodable, hundreds of
// ordinary addresses) but name a peer by a well-formed peer ID or by nothing.
// Here the `id` field of a record is what protobuf says it is, a byte string
// of any length and content, and one single address may be larger than a whole
// record is allowed to be:
//
//   - lengths 1, one byte short of the sender's ID, twice its length, a
//     byte-granular sweep of +-16 around 8 KiB (the per-record bound the
//     property names: the point where the ID by itself leaves no room for
//     anything else), 64 KiB and 300 KiB (far above the bound, far below the
//     transport limit);
//   - content: the sender's own ID followed by padding (or a prefix of it: a
//     look-alike of the authenticated sender), or random bytes;
//   - with no address, with the sender's addresses, with a list far above 8 KiB;
//   - alone, or in front of an honest record about the sender;
//   - a record about the sender whose FIRST address alone exceeds 8 KiB.
//
// No new oracle rule is needed; the existing ones already say what has to
// happen, each from the property text:
//
//   - "never panics or stops serving other peers": a panic on a handler
//     goroutine ends the worker process (driver-level detection, DESIGN §2.6);
//     `stopped-serving` / `request-unanswered` judge the liveness part;
//   - "either returns a well-formed response or resets that stream":
//     `request-unanswered`, `malformed-response`;
//   - "ADD_PROVIDER stores only records whose provider ID equals the
//     authenticated sender": a look-alike ID is not the sender, so
//     `ap-foreign-provider` / `ap-unacceptable-stored` / `ap-foreign-address`
//     fire if anything is stored under it or credited to the sender because of
//     it (noteRequest compares the whole field with the sender's ID).
//
// Class of regressions this exposes: any size arithmetic, slicing, prefix
// comparison, hashing or logging of a record that assumes the ID field is a
// few dozen bytes long or that at least one address always fits.
//
// Probes: fault_odd_peer_id (any such record written), fault_overlong_peer_id
// (the ID field alone is at least 8 KiB), fault_overlong_single_addr,
// probe_overlong_id_ap_refused (an ADD_PROVIDER with such a record was wholly
// delivered and the node reset the stream with nothing left unanswered),
// probe_overlong_id_request_answered (a request of another type that carries
// such a record in a list the server has no use for was answered).

import (
	"strings"
	"sync"

	pb "github.com/libp2p/go-libp2p-kad-dht/pb"
	ma "github.com/multiformats/go-multiaddr"
)

// genOddID draws the ID field of a peer record from the byte-string space.
func (w *c09World) genOddID(st *c09Stream) []byte {
	s := w.s
	own := []byte(st.sender.ID)
	var n int
	switch s.Draw("odd-id-len", 7) {
	case 0:
		n = 1
	case 1:
		n = len(own) - 1
	case 2:
		n = 2 * len(own)
	case 3, 4:
		n = c09MaxPeerRecord - 16 + s.Draw("odd-id-edge", 33)
	case 5:
		n = 64 << 10
	default:
		n = 300 << 10
	}
	s.Count("fault_odd_peer_id")
	if n >= c09MaxPeerRecord {
		s.Count("fault_overlong_peer_id")
	}
	var out []byte
	if s.Chance("odd-id-random", 1, 2) {
		out = c09Bytes(w.nseed^uint64(n)<<20^uint64(s.Draw("odd-id-seed", 1<<12)), n)
	} else {
		// a look-alike of the authenticated sender
		out = make([]byte, n)
		k := copy(out, own)
		for i := k; i < n; i++ {
			out[i] = byte('A' + i%29)
		}
	}
	return out
}

var (
	c09HugeAddrOnce sync.Once
	c09HugeAddr     ma.Multiaddr
)

// c09OneHugeAddr is one valid multiaddr of about 9 KiB: by itself above the
// per-record bound.
func c09OneHugeAddr() ma.Multiaddr {
	c09HugeAddrOnce.Do(func() {
		c09HugeAddr = ma.StringCast("/dns4/" + strings.Repeat("y", 9000) + "/tcp/4001")
	})
	return c09HugeAddr
}

// genOddPeers draws a peer list of this file's classes (kind 0..2).
func (w *c09World) genOddPeers(st *c09Stream, kind int, rec func(id []byte, addrs [][]byte) *pb.Message_Peer) []*pb.Message_Peer {
	s := w.s
	own := []byte(st.sender.ID)
	oddAddrs := func() [][]byte {
		switch s.Draw("odd-id-addrs", 3) {
		case 0:
			return nil
		case 1:
			return c09AddrBytes(w.ownAddrs(st.sender))
		}
		return c09AddrBytes(c09FatAddrs(40))
	}
	switch kind {
	case 0:
		return []*pb.Message_Peer{rec(w.genOddID(st), oddAddrs())}
	case 1:
		return []*pb.Message_Peer{
			rec(w.genOddID(st), oddAddrs()),
			rec(own, c09AddrBytes(w.ownAddrs(st.sender))),
		}
	default:
		s.Count("fault_overlong_single_addr")
		return []*pb.Message_Peer{rec(own, c09AddrBytes(append([]ma.Multiaddr{c09OneHugeAddr()}, w.ownAddrs(st.sender)...)))}
	}
}

// c09LongestID is the length of the longest peer-record ID field of a message.
func c09LongestID(m *pb.Message) int {
	n := 0
	for _, list := range [][]*pb.Message_Peer{m.GetCloserPeers(), m.GetProviderPeers()} {
		for _, r := range list {
			if l := len(r.GetId()); l > n {
				n = l
			}
		}
	}
	return n
}
