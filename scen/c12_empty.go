//go:build all || c12

package scen

// C12, fourth scenario: refresh requests against an EMPTY routing table.
//
// Clause: "every refresh request receives an answer (result or error), also
// during shutdown". The three scenarios in c12.go keep an always-answering
// "anchor" member in the table whenever refresh requests are allowed (see the
// variants comment there), so a request never meets an empty table — which is
// what a fresh node, or a node whose last member has just been evicted, has.
// A refresh of an empty table has nobody to ask: the answer is an error, but
// it must arrive.
//
// Set-up: one real IpfsDHT (client mode, auto-refresh off) on the simulated
// host; the peer universe exists in the peerstore but nobody is connected, so
// nothing is ever admitted. Optionally a member is put into the table through
// the public RoutingTable() accessor and removed again before the first
// request ("last member evicted"), optionally one member is seeded and left
// there for the first request and removed before the later ones.
//
// Rules (same ids as in c12.go, same clause):
//   refresh-unanswered    a request issued while the node is open has no answer
//                         although nothing is parked, every call the node made
//                         was answered, and ten minutes of virtual time (far
//                         above every time-out configured here) have passed;
//                         or, at the end, although Close has returned
//   refresh-multi-answer  a request received more than one value
//   refresh-not-closed    the channel yielded its value but was never closed
//   empty-refresh-no-error  (sanity of the set-up, not of the property) — not a
//                         rule: counted as a probe only
//
// The bound "ten minutes with nothing parked" is a harness choice; it is sound
// here because with an empty table and no connected peer the node has no
// outstanding call whose completion an answer could legitimately wait for
// (everything the node starts parks at a seam the simulator owns, and the
// simulator answers all of it before judging).

import (
	"fmt"
	"time"

	dht "github.com/libp2p/go-libp2p-kad-dht"
	pb "github.com/libp2p/go-libp2p-kad-dht/pb"
	"github.com/libp2p/go-libp2p/core/host"
	"github.com/libp2p/go-libp2p/core/protocol"

	"verif/sim"
	"verif/simhost"
	"verif/simnet"
)

func init() {
	sim.Register(&sim.Scenario{Prop: "C12", Name: "rt-empty-refresh", Weight: 1, Run: runC12Empty,
		Real:   []string{"IpfsDHT (RefreshRoutingTable, ForceRefresh, Close)", "rtrefresh.RtRefreshManager", "kbucket routing table"},
		Stub:   []string{"host.Host/network (simhost)", "pb.MessageSender (level A, simnet.Sender)", "crypto/rand.Reader (tape-seeded for the run)"},
		Faults: []string{"probe_empty_refresh_request", "probe_empty_refresh_answered_open", "probe_empty_refresh_after_last_member_removed", "probe_empty_refresh_burst", "probe_empty_refresh_pending_at_close", "fault_rpc_error", "fault_dial_fail"},
	})
}

func runC12Empty(s *sim.Sim) {
	s.MaxSteps = 400
	restore := c12InstallRand(uint64(s.Draw("rand-seed", 1<<16)))
	defer restore()

	n := s.Range("n", 1, 4)
	u := simnet.NewUniverse(uint64(s.Draw("universe", 1<<16)), n)
	h := simhost.New(s, u.Self.ID, u.Self.Addrs, u.Name)
	for _, p := range u.Peers {
		h.Peerstore().AddAddrs(p.ID, p.Addrs, time.Hour)
	}
	qto := []time.Duration{10007, 3001, 29989}[s.Draw("query-timeout", 3)] * time.Millisecond
	var snd *simnet.Sender
	d, err := dht.New(h,
		dht.ProtocolPrefix("/sim"),
		dht.Mode(dht.ModeClient),
		dht.BucketSize(s.Range("k", 1, 4)),
		dht.DisableAutoRefresh(),
		dht.RoutingTableRefreshQueryTimeout(qto),
		dht.WithCustomMessageSender(func(_ host.Host, _ []protocol.ID) pb.MessageSenderWithDisconnect {
			snd = &simnet.Sender{S: s, U: u}
			return snd
		}),
	)
	if err != nil {
		panic(err)
	}
	_ = snd
	s.Quiesce()

	w := &c12World{s: s}
	w.d = d

	// answer everything the node started (a member present at the first
	// request gets a liveness probe: it fails, the member leaves)
	drain := func() {
		for i := 0; i < 200; i++ {
			s.Quiesce()
			ps := s.Parked()
			if len(ps) == 0 {
				return
			}
			for _, p := range ps {
				switch {
				case p.Cancelled():
					s.ReleaseCancelled(p)
				case p.Kind == "rpc":
					s.Count("fault_rpc_error")
					releaseBenign(s, p)
				case p.Kind == "dial":
					s.Count("fault_dial_fail")
					releaseBenign(s, p)
				default:
					releaseBenign(s, p)
				}
			}
		}
	}

	// 0: fresh node; 1: a member was added and removed before the first
	// request; 2: a member is present at the first request (its liveness probe
	// fails, or its stamp is fresh and it stays) and is removed before the
	// second one
	mode := s.Draw("mode", 3)
	rt := d.RoutingTable()
	member := u.Peers[0].ID
	if mode != 0 {
		if ok, err := rt.TryAddPeer(member, true, false); !ok || err != nil {
			panic(fmt.Sprintf("c12-empty: cannot seed a member: %v %v", ok, err))
		}
		s.Quiesce()
	}
	if mode == 1 {
		rt.RemovePeer(member)
		s.Quiesce()
	}
	s.Summary["cfg"] = fmt.Sprintf("empty-refresh n=%d mode=%d qtimeout=%v", n, mode, qto)

	judgeOpen := func(rs []*c12Refresh, what string) {
		for _, r := range rs {
			nvals, closed, _ := r.state()
			kind := "RefreshRoutingTable"
			if r.force {
				kind = "ForceRefresh"
			}
			switch {
			case nvals == 0:
				s.Violate("refresh-unanswered", "refresh request #%d (%s, %s) on an open node with an empty routing table never received a result or an error: nothing is parked, every call the node made was answered and ten minutes of virtual time passed", r.id, kind, what)
			case nvals > 1:
				s.Violate("refresh-multi-answer", "refresh request #%d (%s) received %d values", r.id, kind, nvals)
			case !closed:
				s.Violate("refresh-not-closed", "the channel of refresh request #%d (%s) yielded its value but was never closed", r.id, kind)
			default:
				s.Count("probe_empty_refresh_answered_open")
			}
			r.reported = true
		}
	}

	rounds := s.Range("rounds", 1, 3)
	for round := 0; round < rounds && !s.Failed(); round++ {
		if !s.Step() {
			break
		}
		if mode == 2 && round == 1 {
			rt.RemovePeer(member)
			s.Quiesce()
		}
		empty := rt.Size() == 0
		burst := s.Range("burst", 1, 3)
		var rs []*c12Refresh
		for i := 0; i < burst; i++ {
			force := s.Draw("force", 2) == 1
			s.Tracef("refresh request force=%v (table size %d)", force, rt.Size())
			rs = append(rs, w.requestRefresh(force))
			if empty {
				s.Count("probe_empty_refresh_request")
				if mode != 0 {
					s.Count("probe_empty_refresh_after_last_member_removed")
				}
			}
			if s.Draw("settle-between", 2) == 1 {
				drain()
			} else if i > 0 {
				s.Count("probe_empty_refresh_burst")
			}
		}
		if s.Draw("judge-open", 4) != 0 {
			drain()
			s.Sleep(10 * time.Minute)
			drain()
			judgeOpen(rs, fmt.Sprintf("round %d", round))
		} else {
			// left pending: Close has to answer it
			s.Count("probe_empty_refresh_pending_at_close")
			break
		}
	}
	s.NonTrivial = s.Stats["probe_empty_refresh_request"] > 0

	s.Tracef("close")
	closeAndCensus(s, func() {
		_ = d.Close()
		_ = h.Close()
	})
	if s.Failed() {
		s.Finish()
		return
	}
	s.Sleep(2 * time.Minute)
	s.Quiesce()
	for _, r := range w.refreshes {
		if r.reported {
			continue
		}
		nvals, closed, _ := r.state()
		kind := "RefreshRoutingTable"
		if r.force {
			kind = "ForceRefresh"
		}
		switch {
		case nvals == 0:
			s.Violate("refresh-unanswered", "refresh request #%d (%s, issued before Close against an empty routing table) never received a result or an error: Close has returned, nothing is parked and two minutes of virtual time passed (channel closed=%v)", r.id, kind, closed)
		case nvals > 1:
			s.Violate("refresh-multi-answer", "refresh request #%d (%s) received %d values", r.id, kind, nvals)
		case !closed:
			s.Violate("refresh-not-closed", "the channel of refresh request #%d (%s) yielded its value but was never closed", r.id, kind)
		}
	}
	s.Finish()
}
