//go:build all || c10

package scen

// C10, harness H2, scenario "messenger-frame-limit": COMPLETE, WELL-FORMED,
// DECODABLE replies whose size is drawn around the transport message limit.
//
// Same system under test as messenger-bytes (the real internal/net message
// sender under pb.ProtocolMessenger over scheduler-owned byte streams). The
// property is that no remote response can "over-feed a client" (title) - "the
// RPC returns an error or a sanitized result" (statement) - and it lists the
// "read size limit" among its mechanisms. What the other C10 scenarios send above the
// limit is a length prefix followed by a few bytes of junk (item 9 of
// messenger-bytes) - a reader that wrongly accepts such a prefix then waits for
// a body that never comes and the call still ends in an error (the read
// time-out), so nothing observable changes. Whether an over-limit response is
// refused can only be observed when the response is all there: every byte of a
// frame that decodes into a perfectly ordinary reply. That is what the scripted
// remote of this scenario sends.
//
// The limit is the transport message limit of libp2p, network.MessageSizeMax
// (go-libp2p core; the bound every libp2p protocol frames its messages by and
// the one the property's "read size limit" refers to). It is taken from there,
// not from the repository under test.
//
// Generated space, per answer:
//
//	base      the honest reply to the request (3 of 4) or one drawn from the response space of c10.go
//	size      as it is (small) | padded so that the frame BODY is
//	            just below the limit (limit - prefix - 0..63 bytes: prefix + body still fit the limit)
//	            at the limit (limit - 0..3: body fits, prefix + body does not - unconstrained, see below)
//	            just above (limit + 1..64)
//	            above (limit + 1 .. 2 x limit)
//	            far above (2 x limit + 1 .. 2.5 x limit)
//	pad site  where the bytes go: an unknown field of the message (a future protocol revision; legal for
//	          every request type) | the value of a record filed under the requested key | the message key |
//	          the closer-peer list | the provider-peer list (hundreds of ghost peers, each with 2 KiB or 12 KiB
//	          of decodable addresses, topped up by an unknown field to the exact size)
//	pieces    how the remote hands the frame to the network: at once | length prefix, then body |
//	          cut at one drawn position | chunks of 1 MiB
//
// Every request type that has a reply is generated (PUT_VALUE, GET_VALUE,
// FIND_NODE, GET_PROVIDERS, PING; ADD_PROVIDER has none and only shares the
// stream), one or two clients call one or two peers, a stream serves several
// requests, and a refused frame is followed by the sender's retry on a fresh
// stream, which gets a freshly drawn answer.
//
// Oracle rules (rule id -> clause of the property):
//
//	oversize-frame-accepted  "no remote response can ... over-feed a client", "the RPC returns an error or a
//	                         sanitized result", mechanism "read size limit": a call returned WITHOUT error
//	                         although the frame that answered its last request had a body larger than the
//	                         transport message limit. (A sanitised result is one cut to the bounds the property
//	                         names; a reply that is over the limit as a whole has no sanitised form - it is to be
//	                         refused before it is taken in, so the only admissible outcome is the error.)
//	                         Pairing is by construction: in this scenario the remote writes exactly one frame per
//	                         request and nothing else, the sender reads exactly one frame per request and resets
//	                         the stream after any failure, so the frame a returning call consumed is the last
//	                         answer produced for it.
//	caller-panic, wrong-key-record-accepted, peer-record-oversize, peer-record-bad-addr
//	                         as in messenger-bytes, on every call that returned a result (a just-below-limit
//	                         frame full of peer records is the largest input those clauses can legally get)
//	call-wedged              "cannot permanently block": as in messenger-bytes (every frame is complete and every
//	                         piece is delivered, so every call must return)
//
// Soundness restrictions. Bodies of limit-3 .. limit bytes are generated but not
// judged (the body is within the limit, the frame with its length prefix is not:
// the property does not say which of the two the limit is on). Frames within
// the limit are not required to be accepted (the property demands refusal, not
// acceptance); that they are is a reach probe (probe_near_limit_frame_accepted),
// which shows that the generated frames are complete and decodable - without it
// the rule could hold vacuously. PING carries no key, so two Ping calls under
// way to one peer could not be told apart at the remote: all Ping calls of a run
// are made by one client, one after the other (excluded from the generated
// space: concurrent Ping calls to the same peer).
//
// Class of regressions exposed: every change of the response read path that
// moves, widens or loses the size limit - another constructor or default, a
// limit checked after the body was read or on one piece instead of the frame, a
// limit only on some request types or only on the first stream - as long as
// some frame above the transport limit comes out accepted. Frames beyond twice
// the limit are generated as well, but rarely (memory).
//
// Cost. A sized answer moves 4-10 MiB through the harness and the client a few
// times over (some 20 ms); the scenario has weight 1, only every other run sizes
// answers at all, and then every third answer.

import (
	"context"
	"encoding/binary"
	"errors"
	"fmt"
	"strings"
	"time"

	dht "github.com/libp2p/go-libp2p-kad-dht"
	pb "github.com/libp2p/go-libp2p-kad-dht/pb"
	recpb "github.com/libp2p/go-libp2p-record/pb"
	"github.com/libp2p/go-libp2p/core/network"
	"github.com/libp2p/go-libp2p/core/peer"
	mh "github.com/multiformats/go-multihash"
	"google.golang.org/protobuf/encoding/protowire"
	"google.golang.org/protobuf/proto"

	"verif/sim"
	"verif/simhost"
	"verif/simnet"
)

func init() {
	sim.Register(&sim.Scenario{Prop: "C10", Name: "messenger-frame-limit", Weight: 1, Run: runC10Frame,
		Real: []string{"pb.ProtocolMessenger (every method)", "internal/net messageSenderImpl + peerMessageSender: response frame size limit, retry on a fresh stream after a refused frame, stream re-use", "msgio framing (length prefix, body read in pieces), protobuf decoding of multi-MiB replies", "pb.PBPeersToPeerInfos / boundPeerRecordAddrs on replies with hundreds of fat peer records"},
		Stub: []string{"host.Host / NewStream (simhost)", "streams (simhost.Fabric byte pipes, scheduler-owned delivery)", "remote peers (scripted: complete well-formed replies sized around the transport message limit)"},
		Faults: []string{"fault_frame_just_below_limit", "fault_frame_at_limit", "fault_frame_just_above_limit", "fault_frame_above_limit", "fault_frame_far_above_limit",
			"fault_pad_unknown_field", "fault_pad_record_value", "fault_pad_message_key", "fault_pad_closer_peers", "fault_pad_provider_peers",
			"fault_frame_prefix_then_body", "fault_frame_cut_once", "fault_frame_in_chunks", "fault_sized_mutated_base",
			"probe_over_limit_frame_refused", "probe_oversize_frame_rejected", "probe_near_limit_frame_accepted", "probe_at_limit_frame_seen",
			"probe_retry_after_refused_frame", "probe_stream_reused", "probe_sanitised_result", "probe_peer_record_trimmed", "probe_big_result_returned"}})
}

// c10FrameLimit is the transport message limit (see the file comment).
const c10FrameLimit = network.MessageSizeMax

// frame size classes (index 0 is the benign choice)
const (
	c10FrameSmall = iota
	c10FrameBelow
	c10FrameAt
	c10FrameJustAbove
	c10FrameAbove
	c10FrameFarAbove
)

var c10FrameClassNames = []string{"small", "just_below_limit", "at_limit", "just_above_limit", "above_limit", "far_above_limit"}

// pad sites
const (
	c10PadUnknown = iota
	c10PadValue
	c10PadKey
	c10PadCloser
	c10PadProviders
	c10PadSites
)

var c10PadNames = []string{"unknown_field", "record_value", "message_key", "closer_peers", "provider_peers"}

// c10PadField is the number of the unknown field that carries filler.
const c10PadField = 1000

// c10Filler returns n bytes of a repeating marker.
func c10Filler(n int) []byte {
	b := make([]byte, n)
	if n == 0 {
		return b
	}
	k := copy(b, "c10-frame-filler/")
	for k < n {
		k += copy(b[k:], b[:k])
	}
	return b
}

// c10UnknownPad appends to m's unknown fields one bytes field that makes
// proto.Size(m) == target, as far as the encoding allows (the result is
// measured by the caller).
func c10UnknownPad(m *pb.Message, target int, filler []byte) {
	need := target - proto.Size(m)
	tag := protowire.SizeTag(c10PadField)
	n := need - tag - protowire.SizeVarint(uint64(max(need, 0)))
	for i := 0; i < 3 && n >= 0; i++ {
		if d := need - (tag + protowire.SizeVarint(uint64(n)) + n); d != 0 {
			n += d
		}
	}
	if n < 0 {
		return
	}
	n = min(n, len(filler))
	unk := append([]byte(nil), m.ProtoReflect().GetUnknown()...)
	unk = protowire.AppendTag(unk, c10PadField, protowire.BytesType)
	unk = protowire.AppendVarint(unk, uint64(n))
	unk = append(unk, filler[:n]...)
	m.ProtoReflect().SetUnknown(unk)
}

// c10PadTo grows m at the given site until its encoding has target bytes (as
// close as the encoding allows) and returns the size reached.
func c10PadTo(m *pb.Message, req *pb.Message, site, target int, rng *subRng) int {
	filler := c10Filler(target)
	switch site {
	case c10PadValue, c10PadKey:
		set := func(n int) {
			if site == c10PadKey {
				m.Key = filler[:n]
				return
			}
			if m.Record == nil {
				m.Record = &recpb.Record{Key: append([]byte(nil), req.GetKey()...)}
			}
			m.Record.Value = filler[:n]
		}
		set(0)
		n := 0
		for i := 0; i < 4; i++ {
			d := target - proto.Size(m)
			if d == 0 {
				break
			}
			n = min(max(n+d, 0), len(filler))
			set(n)
		}
	case c10PadCloser, c10PadProviders:
		// ghost peers with decodable addresses out of a small pool; 2 KiB (kept
		// whole by the 8 KiB bound) or 12 KiB (to be cut) per record
		pool := make([][]byte, 24)
		for i := range pool {
			pool[i] = c10GoodAddr(rng, i%3 != 0)
		}
		perPeer := []int{2 << 10, 12 << 10}[rng.Intn(2)]
		size := proto.Size(m)
		for {
			p := &pb.Message_Peer{Id: c10FakeID(rng)}
			for got := 0; got < perPeer; {
				a := pool[rng.Intn(len(pool))]
				p.Addrs = append(p.Addrs, a)
				got += len(a)
			}
			ps := proto.Size(p)
			ps += 1 + protowire.SizeVarint(uint64(ps)) // field tag (numbers 8 and 9: one byte) + length
			if size+ps+16 > target {
				break
			}
			size += ps
			if site == c10PadCloser {
				m.CloserPeers = append(m.CloserPeers, p)
			} else {
				m.ProviderPeers = append(m.ProviderPeers, p)
			}
		}
		c10UnknownPad(m, target, filler)
	default:
		c10UnknownPad(m, target, filler)
	}
	return proto.Size(m)
}

// c10EncodeFrame is encodeFrame without the second copy of a multi-MiB body.
func c10EncodeFrame(m *pb.Message) (raw []byte, prefix int) {
	size := proto.Size(m)
	var l [binary.MaxVarintLen64]byte
	prefix = binary.PutUvarint(l[:], uint64(size))
	raw = make([]byte, prefix, prefix+size)
	copy(raw, l[:prefix])
	raw, err := proto.MarshalOptions{}.MarshalAppend(raw, m)
	if err != nil {
		panic(err)
	}
	return raw, prefix
}

func runC10Frame(s *sim.Sim) {
	s.MaxSteps = 500
	nPeers := s.Range("peers", 1, 2)
	nClients := s.Range("clients", 1, 2)
	nCalls := s.Range("calls", 1, 5)
	sizing := s.Chance("sized-frames", 1, 2) // only every other run sizes answers at all (cost)
	u := simnet.NewUniverse(uint64(s.Draw("universe", 1<<16)), nPeers+4)
	remotes := u.Peers[:nPeers]
	others := u.Peers[nPeers:]
	h := simhost.New(s, u.Self.ID, u.Self.Addrs, u.Name)
	fab := simhost.NewFabric(s)
	var pairs []*c10Pair
	fab.OnOpen = func(a, b *simhost.Stream) { pairs = append(pairs, &c10Pair{a: a, b: b, peer: u.ByID(a.Remote)}) }
	h.OpenStream = fab.StreamOpener(func(peer.ID) *simhost.Host { return nil }, nil)

	d, err := dht.New(h, dht.ProtocolPrefix("/sim"), dht.Mode(dht.ModeClient), dht.DisableAutoRefresh())
	if err != nil {
		panic(err)
	}
	pm, err := pb.NewProtocolMessenger(d.MessageSender())
	if err != nil {
		panic(err)
	}
	s.Quiesce()
	w := &c10World{S: s, U: u, Self: u.Self.ID}
	s.Summary["cfg"] = fmt.Sprintf("peers=%d clients=%d calls=%d sized=%v limit=%d", nPeers, nClients, nCalls, sizing, c10FrameLimit)

	// ---- the calls (contexts without deadline)
	calls := make([]*c10Call, nCalls)
	byKey := map[string]*c10Call{}
	for i := range calls {
		c := &c10Call{id: i, client: i % nClients, peer: remotes[s.Draw("to", nPeers)]}
		c.method = []int{c10GetValue, c10FindNode, c10GetProviders, c10PutValue, c10Ping, c10AddProvider}[s.Draw("method", c10Methods)]
		switch c.method {
		case c10PutValue:
			c.key = []byte(fmt.Sprintf("/c10/put-%02d", i))
			c.value = []byte(fmt.Sprintf("value-%02d", i))
		case c10GetValue:
			c.key = []byte(fmt.Sprintf("/c10/get-%02d", i))
		case c10FindNode:
			c.key = []byte(simnet.MakeID(0xc10, i))
		case c10AddProvider, c10GetProviders:
			m, err := mh.Sum([]byte(fmt.Sprintf("c10-content-%02d", i)), mh.SHA2_256, -1)
			if err != nil {
				panic(err)
			}
			c.key = m
		}
		if len(c.key) > 0 {
			byKey[string(c.key)] = c
		} else {
			// a PING request carries nothing that tells two Ping calls apart: all
			// Ping calls are made by client 0, one after the other (see callFor)
			c.client = 0
		}
		c.ctx, c.cancel = context.WithCancel(sim.WithTag(context.Background(), fmt.Sprintf("c%02d", i)))
		calls[i] = c
	}
	stop := false
	selfInfo := peer.AddrInfo{ID: u.Self.ID, Addrs: u.Self.Addrs}
	var ops opSet
	for cl := 0; cl < nClients; cl++ {
		cl := cl
		ops.Go(s, fmt.Sprintf("client%d", cl), func() (any, error) {
			for _, c := range calls {
				if c.client != cl {
					continue
				}
				s.Park("client", fmt.Sprintf("cl%d:c%02d", cl, c.id), nil, c)
				if stop {
					return nil, nil
				}
				c.started, c.startAt = true, s.Now()
				c.run(s, pm, selfInfo)
			}
			return nil, nil
		})
	}
	s.Quiesce()

	// ---- the scripted remote
	feedRemote := func() {
		for _, p := range pairs {
			data, _, _ := p.b.TakeDelivered()
			if len(data) == 0 {
				continue
			}
			for _, f := range p.atRemote.Feed(data) {
				m, err := decodeMsg(f)
				if err != nil {
					s.Violate("wire-garbage", "remote received an undecodable frame on %s", p.a.Name())
					continue
				}
				if m.GetType() != pb.Message_ADD_PROVIDER {
					p.reqs = append(p.reqs, m)
				}
			}
		}
	}
	honestFor := func(req *pb.Message) []*simnet.Peer {
		return simnet.Nearest(others, simnet.KadOfKey(string(req.GetKey())), 3)
	}
	// callFor attributes a request to the call that sent it: by key, and a PING
	// to the one Ping call under way (there is at most one, see above; should
	// there ever be several, none of them is judged by the frame rule).
	unsure := map[*c10Call]bool{}
	callFor := func(p *c10Pair, req *pb.Message) *c10Call {
		if req.GetType() != pb.Message_PING {
			return byKey[string(req.GetKey())]
		}
		var cands []*c10Call
		for _, c := range calls {
			if c.method == c10Ping && c.peer == p.peer && c.started && !c.done {
				cands = append(cands, c)
			}
		}
		if len(cands) == 1 {
			return cands[0]
		}
		for _, c := range cands {
			unsure[c] = true
		}
		return nil
	}
	nSized := 0
	// answer produces the remote's reply to request number p.answered: always
	// one complete, well-formed frame.
	answer := func(p *c10Pair, benign bool) {
		req := p.reqs[p.answered]
		p.answered++
		call := callFor(p, req)
		ans := &c10Answer{}
		if call != nil {
			call.answers = append(call.answers, ans)
			call.received++
		}
		class := c10FrameSmall
		if sizing && !benign && s.Chance("sized", 1, 3) {
			class = []int{c10FrameBelow, c10FrameAt, c10FrameJustAbove, c10FrameAbove, c10FrameAbove, c10FrameFarAbove}[s.Draw("frame-size", 6)]
		}
		mutate := !benign && s.Chance("mutated-base", 1, 4)
		rng := &subRng{x: 1}
		if mutate || class != c10FrameSmall {
			rng = newSubRng(s, "reply-seed")
		}
		m, info := w.genMessage(rng, req, p.peer.ID, honestFor(req), mutate)
		ans.msg, ans.info, ans.kind = m, info, info.Kind()
		for _, t := range info.Tags {
			s.Count(t)
		}
		if class != c10FrameSmall {
			prefix := protowire.SizeVarint(uint64(c10FrameLimit))
			target := 0
			switch class {
			case c10FrameBelow:
				target = c10FrameLimit - prefix - s.Draw("below-by", 64)
			case c10FrameAt:
				target = c10FrameLimit - s.Draw("at-minus", prefix)
			case c10FrameJustAbove:
				target = c10FrameLimit + 1 + s.Draw("over-by", 64)
			case c10FrameAbove:
				target = c10FrameLimit + 1 + s.Draw("over-by-far", c10FrameLimit)
			case c10FrameFarAbove:
				target = 2*c10FrameLimit + 1 + s.Draw("over-by-far", c10FrameLimit/2)
			}
			site := s.Draw("pad-site", c10PadSites)
			c10PadTo(m, req, site, target, rng)
			ans.pad = c10PadNames[site]
			info.NCloser, info.NProvider = len(m.CloserPeers), len(m.ProviderPeers)
			s.Count("fault_pad_" + ans.pad)
			if mutate {
				s.Count("fault_sized_mutated_base")
			}
			nSized++
		}
		raw, prefix := c10EncodeFrame(m)
		ans.body = len(raw) - prefix
		// classify by what is actually on the wire
		switch {
		case ans.body > 2*c10FrameLimit:
			ans.sized, ans.over = c10FrameFarAbove, true
		case ans.body > c10FrameLimit+64:
			ans.sized, ans.over = c10FrameAbove, true
		case ans.body > c10FrameLimit:
			ans.sized, ans.over = c10FrameJustAbove, true
		case ans.body+prefix > c10FrameLimit:
			ans.sized = c10FrameAt
		case class != c10FrameSmall:
			ans.sized = c10FrameBelow
		}
		if ans.sized != c10FrameSmall {
			s.Count("fault_frame_" + c10FrameClassNames[ans.sized])
		}
		// pieces
		var cuts []int
		layout := 0
		if ans.sized != c10FrameSmall {
			layout = s.Draw("pieces", 4)
		}
		switch layout {
		case 1:
			cuts = []int{prefix}
			s.Count("fault_frame_prefix_then_body")
		case 2:
			cuts = []int{1 + s.Draw("cut", len(raw)-1)}
			s.Count("fault_frame_cut_once")
		case 3:
			for at := 1 << 20; at < len(raw); at += 1 << 20 {
				cuts = append(cuts, at)
			}
			s.Count("fault_frame_in_chunks")
		}
		s.Tracef("remote %s answers %s request %d: %s; frame body %d bytes (%s, pad=%s), %d piece(s)", p.peer.Name, req.GetType(), p.answered-1, ans.kind, ans.body, c10FrameClassNames[ans.sized], ans.pad, len(cuts)+1)
		from := 0
		for _, at := range append(cuts, len(raw)) {
			_, _ = p.b.Write(raw[from:at])
			from = at
		}
	}

	allDone := func() bool {
		for _, c := range calls {
			if !c.done {
				return false
			}
		}
		return true
	}
	checked := map[int]bool{}
	nRefused, nAccepted := 0, 0
	checkReturned := func() {
		for _, c := range calls {
			if !c.done || checked[c.id] {
				continue
			}
			checked[c.id] = true
			c10JudgeCall(s, c, false)
			if c.panicMsg != "" || len(c.answers) == 0 || unsure[c] {
				continue
			}
			last := c.answers[len(c.answers)-1]
			if len(c.answers) >= 2 && c.answers[len(c.answers)-2].over {
				s.Count("probe_retry_after_refused_frame")
			}
			switch {
			case last.over && c.err == nil:
				got := fmt.Sprintf("closer=%d provs=%d", len(c.closer), len(c.provs))
				if c.rec != nil {
					got += fmt.Sprintf(" record value of %d bytes", len(c.rec.GetValue()))
				}
				s.Violate("oversize-frame-accepted", "c%02d %s to %s returned without error (%s) although the frame that answered its last request had a body of %d bytes, %d more than the transport message limit of %d (a complete, decodable %s reply padded at %s): a response above the limit has to be refused",
					c.id, c10MethodNames[c.method], c.peer.Name, got, last.body, last.body-c10FrameLimit, c10FrameLimit, last.kind, last.pad)
			case last.over:
				nRefused++
				s.Count("probe_over_limit_frame_refused")
			case last.sized == c10FrameAt:
				s.Count("probe_at_limit_frame_seen") // unconstrained
			case last.sized == c10FrameBelow && c.err == nil:
				nAccepted++
				s.Count("probe_near_limit_frame_accepted")
				if (c.rec != nil && len(c.rec.GetValue()) > c10FrameLimit/2) || len(c.closer)+len(c.provs) > 100 {
					// a multi-MiB reply within the limit reached the caller
					s.Count("probe_big_result_returned")
				}
			}
		}
	}

	// ---- main loop
	const quiet = 10 * time.Minute
	draining := false
	var idleFor time.Duration
	for s.Step() {
		feedRemote()
		checkReturned()
		if s.Failed() || allDone() {
			break
		}
		if s.Steps > s.MaxSteps*2/3 {
			draining = true
		}
		var acts []sim.Action
		for _, p := range s.Parked() {
			p := p
			switch p.Kind {
			case "client", "open":
				acts = append(acts, sim.Action{ID: p.ID, Do: func() { s.Release(p, nil) }})
			}
		}
		for _, st := range fab.Streams() {
			st := st
			n, eof := st.Pending()
			if n == 0 && !eof {
				continue
			}
			acts = append(acts, sim.Action{ID: "deliver:" + st.Name(), Do: func() { st.Deliver(0) }})
		}
		for _, p := range pairs {
			p := p
			if p.answered < len(p.reqs) && !p.b.IsReset() {
				acts = append(acts, sim.Action{ID: fmt.Sprintf("answer:%s:%d", p.b.Name(), p.answered), Do: func() { answer(p, draining) }})
			}
		}
		if len(acts) == 0 {
			// nothing but the client's own timers can make progress
			if idleFor >= quiet {
				break
			}
			s.Sleep(5 * time.Second)
			idleFor += 5 * time.Second
			continue
		}
		idleFor = 0
		s.Choose("next", acts)
	}
	feedRemote()
	checkReturned()

	// ---- bounded completion
	if !s.Failed() && !allDone() {
		if s.Steps > s.MaxSteps {
			s.Count("step_budget_exhausted")
		} else {
			var stuck []string
			for _, c := range calls {
				if c.started && !c.done {
					last := "no answer yet"
					if n := len(c.answers); n > 0 {
						last = fmt.Sprintf("last answer: %s, frame body %d bytes", c.answers[n-1].kind, c.answers[n-1].body)
					}
					stuck = append(stuck, fmt.Sprintf("c%02d %s to %s (started at %v, %s)", c.id, c10MethodNames[c.method], c.peer.Name, c.startAt, last))
				}
			}
			if len(stuck) > 0 {
				s.Violate("call-wedged", "%d call(s) did not return although every reply was complete and delivered and no event has been pending for %v of virtual time: %s", len(stuck), quiet, strings.Join(stuck, "; "))
			}
		}
	}

	// ---- witness, measures
	nOK, nErr := 0, 0
	for _, c := range calls {
		res := "-"
		if c.done {
			switch {
			case c.panicMsg != "":
				res = "panic"
			case c.err == nil:
				res = fmt.Sprintf("ok closer=%d provs=%d rec=%v", len(c.closer), len(c.provs), c.rec != nil)
				nOK++
			case errors.Is(c.err, dht.ErrReadTimeout):
				res = "timeout"
				nErr++
			default:
				res = "error"
				nErr++
			}
		}
		s.Tracef("c%02d %s to %s started=%v done=%v at=%v: %s", c.id, c10MethodNames[c.method], c.peer.Name, c.started, c.done, c.doneAt, res)
	}
	s.Tracef("done ok=%d err=%d streams=%d resets=%d refused=%d near-limit-accepted=%d", nOK, nErr, fab.Opened, fab.Resets, nRefused, nAccepted)
	s.State("ok=%d err=%d streams=%d sized=%d refused=%d accepted=%d", nOK, nErr, fab.Opened, nSized, nRefused, nAccepted)
	s.NonTrivial = nSized > 0 && nOK+nErr > 0
	for _, p := range pairs {
		if len(p.reqs) > 1 {
			s.Count("probe_stream_reused")
		}
	}

	// ---- shut down
	stop = true
	for _, c := range calls {
		c.cancel()
	}
	for _, p := range s.ParkedKind("client") {
		s.Release(p, nil)
		s.Quiesce()
	}
	closeAndCensus(s, func() {
		_ = d.Close()
		_ = h.Close()
	})
	s.Finish()
}
