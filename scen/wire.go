package scen

import (
	"encoding/binary"

	"google.golang.org/protobuf/proto"

	pb "github.com/libp2p/go-libp2p-kad-dht/pb"
)

// frameParser incrementally splits a byte stream into varint-length-delimited
// frames (the DHT wire framing).
type frameParser struct {
	buf    []byte
	Frames [][]byte
	// Bad is set when the length prefix is malformed (parsing stops).
	Bad bool
	// Consumed is the number of bytes that belong to complete frames.
	Consumed int
}

func (p *frameParser) Feed(b []byte) (newFrames [][]byte) {
	p.buf = append(p.buf, b...)
	for !p.Bad {
		l, n := binary.Uvarint(p.buf)
		if n == 0 {
			return
		}
		if n < 0 || l > 64<<20 {
			p.Bad = true
			return
		}
		if uint64(len(p.buf)-n) < l {
			return
		}
		f := append([]byte{}, p.buf[n:n+int(l)]...)
		p.buf = p.buf[n+int(l):]
		p.Consumed += n + int(l)
		p.Frames = append(p.Frames, f)
		newFrames = append(newFrames, f)
	}
	return
}

// Partial reports whether bytes of an incomplete frame are buffered.
func (p *frameParser) Partial() bool { return len(p.buf) > 0 }

func encodeFrame(m *pb.Message) []byte {
	body, err := proto.Marshal(m)
	if err != nil {
		panic(err)
	}
	return appendFrame(nil, body)
}

func appendFrame(dst, body []byte) []byte {
	var l [binary.MaxVarintLen64]byte
	n := binary.PutUvarint(l[:], uint64(len(body)))
	dst = append(dst, l[:n]...)
	return append(dst, body...)
}

func decodeMsg(frame []byte) (*pb.Message, error) {
	m := new(pb.Message)
	if err := proto.Unmarshal(frame, m); err != nil {
		return nil, err
	}
	return m, nil
}
