//go:build all || c15

package scen

// C15 — the dual DHT routes writes by WAN liveness and scopes addresses.
//
// Harness H1 with dual.New on the fake host: two real IpfsDHT instances (WAN,
// LAN) behind dual.DHT, one simulated host shared by both, one simnet.Sender
// per inner DHT (told apart by the protocol list the sender builder is called
// with: the LAN one carries the "/lan" extension). Non-Amino prefix, so K and
// the validator are inputs. The repository's own option layering is under
// test: dual.New installs the public/private query filters, routing-table
// filters, the WAN IP-diversity filter and both address filters.
//
// World. Three disjoint populations of scripted peers:
//   w..  WAN-world responders (only WAN responders know them),
//   l..  LAN-world responders (only LAN responders know them),
//   t, x..  shared peers: the FindPeer target t and provider-only peers x..,
//        reported by both sides with *disjoint* address sets (wanSaid/lanSaid),
//        so that every address found in the peerstore can be attributed.
// Every address comes from a palette whose classes are unambiguous by RFC
// (c15Palette); the oracle classifies an address by the label it was created
// with and never calls the repository's or multiaddr's classification.
//
// Operations run one at a time (Provide, PutValue, GetValue, FindPeer, then
// optionally FindProvidersAsync as the last one), so "the WAN table at the
// call" is the table content at the quiescent point immediately before the
// client goroutine is started. Tables do change between operations (a peer
// that fails is evicted, a peer that answers is admitted), which is how a WAN
// table drains to empty in mid-run.
//
// Oracle rules (rule id -> clause of the property):
//
//   write-side         Provide/PutValue: every RPC carrying the operation's key
//                      (lookup and ADD_PROVIDER/PUT_VALUE) is on the WAN sender
//                      iff the WAN table was non-empty at the call, else on the
//                      LAN sender; none on the other one.
//   write-no-traffic   ... and if the chosen side's table was non-empty, that
//                      side did see a dial or an RPC for the operation (not for
//                      Provide without announce, which is local by contract).
//   write-store        the other observable effect of "the write was sent to
//                      that inner DHT": the LOCAL record. Each inner DHT has its
//                      own datastore (simds, handed in through dual.WanDHTOption /
//                      dual.LanDHTOption(dht.Datastore)), so the two sides'
//                      stores are told apart. After Provide / PutValue returned:
//                      (a) nothing was written to the datastore of the side the
//                      write was NOT routed to, and that side's ProviderStore()
//                      does not list the node as provider of the key;
//                      (b) the routed side holds the local record: its
//                      ProviderStore() lists the node for the key (Provide), its
//                      datastore received an entry containing the record's value
//                      (PutValue). Judged the same way for all four combinations
//                      of table emptiness; with both tables empty it is the ONLY
//                      observable (the lookup fails at once on either side, no
//                      traffic, same error). Soundness of (b): IpfsDHT.PutValue
//                      returns before its local store only for an invalid value,
//                      a datastore error or a better record already stored under
//                      the key - none is generated (valid value, one fresh key
//                      per operation, fault-free datastore, context not
//                      cancelled before the call returns); IpfsDHT.Provide adds
//                      the node to its provider store before anything else (also
//                      without announce). Nothing else writes: client mode (no
//                      inbound handlers), one operation at a time, the stores'
//                      background GC only deletes.
//   getvalue-wan       GetValue: a valid record was delivered to the WAN lookup
//                      => returns nil error and one of the valid values
//                      delivered on the WAN side (which one is C04's business).
//   getvalue-lan       no valid WAN record was delivered (WAN not-found and WAN
//                      error are the same case in dual.GetValue: any WAN error
//                      falls through) and a valid LAN one was => nil error and
//                      one of the valid LAN values.
//   getvalue-none      neither => an error.
//                      WAN and LAN values are disjoint sets; default quorum (the
//                      lookup runs to completion; with a quorum the repository
//                      races close(stopCh) against the stop check, DESIGN §10).
//   findpeer-union     FindPeer(t) returned nil and t was connected throughout
//                      the step in which it returned => the address set equals
//                      the peerstore's set for t at that instant. Both inner
//                      DHTs share the host's peerstore, each inner result is a
//                      snapshot of it, the later successful one is a superset;
//                      "connected throughout the last step" guarantees the last
//                      inner call to return did succeed (see judgeFindPeer).
//   findpeer-invented  every returned address is in the peerstore for t.
//   fp-dup, fp-count   FindProvidersAsync: each ID at most once; at most count.
//   wan-referral       every RPC on the WAN sender and every dial of a
//                      WAN-world peer goes to a peer that was in the WAN table,
//                      or is the key of the lookup (FindPeer target), or for
//                      which a public non-relay address was carried by a WAN
//                      referral delivered so far or held by the peerstore.
//   wan-store          the peerstore never holds a WAN-said address of a peer
//                      that is labelled non-public unless the harness put it
//                      there.
//   wan-advertise      WAN ADD_PROVIDER payloads carry no address labelled
//                      non-public (relay through a public relay is left
//                      unconstrained: the property says "public", and such an
//                      address is public for the transport).
//   lan-advertise      LAN ADD_PROVIDER payloads carry no loopback address.
//   no-return, panic   harness-visible failures of the call itself.
//
// Scenarios: dual-faulty (failing dials / requests, target connection drops),
// dual-clean (every peer answers), dual-findpeer (FindPeer only, target known
// on both sides), dual-write-errors (below); the inbound (server) side is in
// c15_server.go, the FindPeer merge over two independent hosts in
// c15_split.go, GetValue under a caller context that ends in mid-search
// (dual-getvalue-cut: rules getvalue-cut-lan, getvalue-cut-none) in
// c15_getcut.go; state carried from one operation into the next (keys written
// earlier and read later with the tables in another state: dual-getvalue-local;
// provides of inner DHTs configured with EnableOptimisticProvide after they
// completed lookups: dual-optprovide) in c15_local.go.
//
// dual-write-errors. The property quantifies the write clause over "every
// combination of ... per-DHT results and errors" and over configurations: the
// side is chosen by the WAN table alone, whatever the chosen inner DHT then
// answers. The other scenarios never make the routed inner write fail (an
// IpfsDHT write whose recipients all fail still returns nil), so this one
// generates, independently for each side, the ways an inner Provide / PutValue
// reports an error while the caller's context is alive:
//   - configuration (dual.WanDHTOption / dual.LanDHTOption): a stricter record
//     validator on one side only (rejects the value), values disabled,
//     providers disabled;
//   - a datastore read or write error on one side's own datastore (armed right
//     before the call: simds.FailNext);
//   - Provide under a caller deadline with the lookup stalled until shortly
//     before it (time is advanced to a drawn fraction of the deadline while the
//     lookup's requests are unanswered): the inner Provide then reports a
//     deadline error although the caller's context may still be alive.
// Only Provide and PutValue are run. The rules are the write rules above:
// write-side and write-store (a) are judged unconditionally - whatever the
// routed side answered, the other inner DHT saw no request for the key, its
// datastore no write and its provider store does not list the node. Clause
// (b) of write-store and write-no-traffic presuppose that the routed inner
// write got as far as its local record; they are skipped for an operation
// whose routed side carries an injected failure source (configuration that
// refuses this kind of write, or an armed datastore fault) - "may fail, must
// not spill over". A failure source on the side that is NOT routed to relaxes
// nothing: that side must not be touched at all.
//
// Determinism: a cancelled RPC/dial only ever observes its cancellation (a
// reply delivered to it would be processed racily, pitfall 3). When
// FindProvidersAsync reaches count the dual client cancels both sub-searches
// while the one that delivered the last item is still running; from there on
// the run is drained without draws, traces or checks (the result itself is
// fixed before that point).

import (
	"bytes"
	"context"
	"fmt"
	"sort"
	"strings"
	"time"

	"github.com/ipfs/go-cid"
	dht "github.com/libp2p/go-libp2p-kad-dht"
	"github.com/libp2p/go-libp2p-kad-dht/dual"
	pb "github.com/libp2p/go-libp2p-kad-dht/pb"
	recpb "github.com/libp2p/go-libp2p-record/pb"
	"github.com/libp2p/go-libp2p/core/host"
	"github.com/libp2p/go-libp2p/core/network"
	"github.com/libp2p/go-libp2p/core/peer"
	"github.com/libp2p/go-libp2p/core/protocol"
	ma "github.com/multiformats/go-multiaddr"
	mh "github.com/multiformats/go-multihash"

	"verif/sim"
	"verif/simds"
	"verif/simhost"
	"verif/simnet"
)

var c15Faults = []string{
	"fault_dial_fail", "fault_rpc_error", "fault_disconnect_target", "time_advance", "cancel_observed",
	"probe_wan_empty_lan_used", "probe_wan_active_wan_used", "probe_wan_drained_midrun", "probe_both_empty_write_fails",
	"probe_referral_private_dropped", "probe_referral_relay_dropped", "probe_referral_loopback_dropped", "probe_referral_noaddr_dropped",
	"probe_referral_admitted_by_peerstore", "probe_referral_admitted_later",
	"probe_target_followed_without_public_addr",
	"probe_findpeer_union_checked", "probe_findpeer_union_disjoint", "probe_findpeer_notfound",
	"probe_getvalue_wan_wins", "probe_getvalue_wan_wins_lan_finished_first", "probe_getvalue_lan_fallback", "probe_getvalue_none",
	"probe_getvalue_wan_invalid_only",
	"probe_fp_provider_both_sides", "probe_fp_count_reached", "probe_fp_count_across_both", "probe_fp_findall",
	"probe_wan_store_dropped_nonpublic", "probe_wan_store_kept_public",
	"probe_wan_advertise_filtered", "probe_wan_advertise_nothing_public", "probe_lan_advertise_filtered",
	"probe_store_checked_wan_only", "probe_store_checked_lan_only", "probe_store_checked_both_nonempty", "probe_store_checked_both_empty",
	"probe_store_putvalue_checked", "probe_store_provide_checked", "probe_provide_local_only",
}

// fired by dual-write-errors only
var c15WriteErrFaults = []string{
	"fault_ds_error_get", "fault_ds_error_put", "fault_lookup_stalled_to_deadline",
	"probe_werr_cfg_validator_rejects", "probe_werr_cfg_disabled", "probe_werr_ds_fault_on_routed_side", "probe_werr_deadline_error_ctx_alive",
	"probe_werr_routed_failed_other_table_nonempty", "probe_werr_fault_on_other_side_only", "probe_werr_wan_empty_lan_failed",
	"probe_store_checked_both_nonempty", "probe_store_checked_wan_only", "probe_store_checked_lan_only", "probe_store_checked_both_empty",
	"probe_wan_active_wan_used", "probe_wan_empty_lan_used", "time_advance", "cancel_observed",
}

func init() {
	common := func(sc *sim.Scenario) *sim.Scenario {
		sc.Real = []string{"dual.New option layering (WAN/LAN query, routing-table, diversity and address filters, /lan protocol extension)",
			"dual.DHT.Provide/PutValue/GetValue/FindPeer/FindProvidersAsync/WANActive/Close", "two IpfsDHT instances (lookup engine, routing tables, maybeAddAddrs/filterAddrs/FilteredAddrs)",
			"PublicQueryFilter/PrivateQueryFilter", "ProtocolMessenger", "pstoremem peerstore (shared by both instances)"}
		sc.Stub = []string{"host.Host/network (simhost, one host shared by WAN and LAN)", "two pb.MessageSenders (level A, simnet.Sender; told apart by protocol list)",
			"remote peers (scripted responders: referrals, records, providers, failures)", "record validator (harness rank validator)", "provider-order shuffle (deterministic permutation through injected accessor)"}
		sc.Faults = c15Faults
		return sc
	}
	sim.Register(common(&sim.Scenario{Prop: "C15", Name: "dual-faulty", Weight: 3, Run: func(s *sim.Sim) { c15Run(s, true, "") }}))
	sim.Register(common(&sim.Scenario{Prop: "C15", Name: "dual-clean", Weight: 1, Run: func(s *sim.Sim) { c15Run(s, false, "") }}))
	// focused variant: FindPeer only, both sides know the target, both tables
	// seeded, the target's connection may drop in mid-search (the only way the
	// two inner results can differ, see judgeFindPeer)
	sim.Register(common(&sim.Scenario{Prop: "C15", Name: "dual-findpeer", Weight: 1, Run: func(s *sim.Sim) { c15Run(s, true, "findpeer") }}))
	// writes only, with per-side error sources (see the header)
	we := common(&sim.Scenario{Prop: "C15", Name: "dual-write-errors", Weight: 1, Run: func(s *sim.Sim) { c15Run(s, true, "writeerr") }})
	we.Faults = c15WriteErrFaults
	we.Stub = append(we.Stub, "per-side datastores (simds, injected read/write errors)")
	sim.Register(we)
}

// ---------------------------------------------------------------------------
// address palette

// c15Label is the oracle's classification of an address: fixed when the
// address is created from a class whose meaning is unambiguous by RFC.
type c15Label struct {
	class  string
	pub    bool // the IP is a public unicast address
	nonPub bool // the IP is private, loopback or link-local
	relay  bool // the address ends in /p2p-circuit
	loop   bool // the IP is a loopback address
}

type c15Palette struct {
	lab map[string]c15Label
	n   map[string]int
	rid peer.ID
}

// first octets of ordinary public IPv4 allocations (no special-purpose range,
// none of the legacy class-A blocks the diversity filter groups by /8)
var c15PubOctets = []int{8, 9, 1, 4, 13, 23, 34, 52, 64, 77, 80, 91, 104, 128, 151, 185}

var c15Pub6 = []string{"2001:4860:4860::8888", "2606:4700:4700::1111", "2620:fe::fe"}

func newC15Palette(relay peer.ID) *c15Palette {
	return &c15Palette{lab: map[string]c15Label{}, n: map[string]int{}, rid: relay}
}

// mk returns a fresh address of the given class.
func (p *c15Palette) mk(class string) ma.Multiaddr {
	i := p.n[class]
	p.n[class] = i + 1
	var s string
	l := c15Label{class: class}
	pub4 := func() string {
		j := p.n["#pub4"]
		p.n["#pub4"] = j + 1
		// j == 0 is 8.8.8.8; every address has its own /16
		return fmt.Sprintf("%d.%d.8.8", c15PubOctets[j%len(c15PubOctets)], 8+j/len(c15PubOctets))
	}
	switch class {
	case "pub4":
		s, l.pub = "/ip4/"+pub4()+"/tcp/4001", true
	case "pub6":
		s, l.pub = fmt.Sprintf("/ip6/%s/tcp/%d", c15Pub6[i%len(c15Pub6)], 4001+i/len(c15Pub6)), true
	case "priv4":
		if i%2 == 0 {
			s = fmt.Sprintf("/ip4/10.%d.0.1/tcp/4001", 1+i/2)
		} else {
			s = fmt.Sprintf("/ip4/192.168.%d.1/tcp/4001", 1+i/2)
		}
		l.nonPub = true
	case "priv6":
		s, l.nonPub = fmt.Sprintf("/ip6/fd00::%x/tcp/4001", i+1), true
	case "loop4":
		s, l.nonPub, l.loop = fmt.Sprintf("/ip4/127.0.0.1/tcp/%d", 4001+i), true, true
	case "loop6":
		s, l.nonPub, l.loop = fmt.Sprintf("/ip6/::1/tcp/%d", 4001+i), true, true
	case "ll6":
		s, l.nonPub = fmt.Sprintf("/ip6/fe80::%x/tcp/4001", i+1), true
	case "relaypub":
		s, l.pub, l.relay = fmt.Sprintf("/ip4/%s/tcp/4001/p2p/%s/p2p-circuit", pub4(), p.rid), true, true
	case "relaypriv":
		s, l.nonPub, l.relay = fmt.Sprintf("/ip4/10.%d.9.9/tcp/4001/p2p/%s/p2p-circuit", 1+i, p.rid), true, true
	default:
		panic("c15: unknown address class " + class)
	}
	a := ma.StringCast(s)
	p.lab[string(a.Bytes())] = l
	return a
}

func (p *c15Palette) mkAll(classes ...string) []ma.Multiaddr {
	var out []ma.Multiaddr
	for _, c := range classes {
		out = append(out, p.mk(c))
	}
	return out
}

func (p *c15Palette) label(a ma.Multiaddr) (c15Label, bool) {
	l, ok := p.lab[string(a.Bytes())]
	return l, ok
}

// admissible: the set contains a public non-relay address.
func (p *c15Palette) admissible(addrs []ma.Multiaddr) bool {
	for _, a := range addrs {
		if l, ok := p.label(a); ok && l.pub && !l.relay {
			return true
		}
	}
	return false
}

// address kinds of WAN-world peers; "hidden" kinds have no public non-relay address
var c15WanKinds = [][]string{
	{"pub4"},
	{"pub4", "priv4"},
	{"pub4", "relaypub", "loop4", "ll6"},
	{"pub6", "loop6"},
	{"priv4"},             // hidden
	{"priv4", "priv6"},    // hidden
	{"relaypub"},          // hidden
	{"relaypub", "priv4"}, // hidden
	{"relaypriv"},         // hidden
	{"loop4", "ll6"},      // hidden
	{},                    // hidden
	{"pub4", "priv6"},
}

var c15LanKinds = [][]string{
	{"priv4"},
	{"priv4", "loop4"},
	{"priv6", "ll6"},
	{"priv4", "priv6", "loop6"},
	{"pub4"}, // a public address on the LAN side is allowed by the private query filter
	{"priv4", "relaypriv"},
}

var c15WanSaidShared = [][]string{
	{"pub4"},
	{"pub4", "priv4"},
	{"priv4"},
	{"pub4", "loop4", "relaypub"},
	{"relaypub"},
	{},
	{"pub6", "ll6"},
}

var c15LanSaidShared = [][]string{
	{"priv4"},
	{"priv4", "loop4"},
	{"loop4"},
	{"priv6"},
	{"pub4", "priv4"},
	{},
}

// ---------------------------------------------------------------------------
// world

type c15Peer struct {
	p        *simnet.Peer
	side     string // "wan" | "lan" | "both"
	hidden   bool   // WAN-world peer without public non-relay address
	dialFail bool
	reqErr   bool
	knows    []*simnet.Peer
	refMode  map[peer.ID]int
	said     map[string][]ma.Multiaddr  // side -> addresses responders of that side report for this peer
	vals     map[string][]byte          // wire key -> record value served
	provs    map[string][]*simnet.Peer  // wire key -> providers served
	saidSet  map[string]map[string]bool // side -> set of said address bytes
	connAddr ma.Multiaddr
}

type c15Op struct {
	idx    int
	kind   string
	tag    string
	wire   string // key as it appears in RPCs
	cid    cid.Cid
	strKey string
	val    []byte
	count  int
	// provide: announce (false = "just kept in the local accounting")
	announce bool
	// dual-getvalue-local: index of the key in the run's key pool (keys are reused across operations)
	keyIdx int

	op              *Op
	dsFrom          map[string]int // side -> length of that side's datastore log at the call
	cancel          context.CancelFunc
	wanFrom         int
	lanFrom         int
	dialFrom        int
	wanRT, lanRT    []peer.ID
	startStep       int
	endStep         int
	judged          bool
	racy            bool
	tConnPrev       bool
	tConnBeforeLast bool
	disconnected    bool

	// dual-write-errors
	deadline   time.Duration // caller deadline (0: none)
	stallPct   int           // the lookup may be stalled until this percentage of the deadline
	stalled    bool
	startAt    time.Duration
	ctx        context.Context // the caller's context (read at quiescent points only)
	dsPending  map[string]bool // side -> a datastore fault is armed on that side's datastore at the call
	ctxLiveEnd bool            // the caller's context was alive when the call had returned

	// dual-getvalue-cut (c15_getcut.go)
	cutAfter   int             // the caller's context ends after this many scheduler steps of the operation (-1: never)
	cutUnit    string          // "" all steps count | "wan" | "lan": only that side's steps count
	sideSteps  map[string]int  // side -> scheduler steps that released a call of that side
	opSteps    int             // scheduler steps taken for this operation so far
	cut        bool            // the caller's context ended while the call had not returned
	cutHow     string          // "cancel" | "deadline"
	cutPending map[string]bool // side -> that side's lookup had not returned at the quiescent point right before the context ended
	cutUnclear bool            // the state at that point cannot be attributed to the sides: the call is not judged
}

type c15World struct {
	s      *sim.Sim
	faulty bool
	focus  string
	// dual-write-errors: per-side configuration that makes a kind of write fail
	// ("" | "reject" | "novalues" | "noproviders") and datastore faults armed so far
	cfgErr  map[string]string
	dsArmed map[string]int
	refused bool // some write met an injected failure on its routed side and reported an error
	// dual-getvalue-cut: "" | "lan" | "wan" - the side whose pending calls are answered first
	prio string
	// dual-getvalue-local / dual-optprovide (c15_local.go)
	nKeys      int                  // size of the key pool PutValue / GetValue draw from
	putBase    int                  // rank of the first value written (later writes rank higher)
	parkWanGet bool                 // reads of the WAN instance's own datastore are scheduler decisions
	optSides   string               // inner DHTs created with EnableOptimisticProvide: "both" | "wan" | "lan"
	estReady   map[string]bool      // side -> that inner DHT reports a network-size estimate
	left       map[string][]peer.ID // side -> peers that left (removed from that side's table by the harness)
	u          *simnet.Universe
	pal        *c15Palette
	host       *simhost.Host
	d          *dual.DHT
	snd        map[string]*simnet.Sender
	ds         map[string]*simds.DS // one datastore per inner DHT
	k          map[string]int
	peers      map[peer.ID]*c15Peer
	order      []*c15Peer // canonical order
	t          *c15Peer
	ops        []*c15Op
	cl         opSet

	selfAddrs []ma.Multiaddr
	psStart   map[peer.ID]map[string]bool
	tDial     []bool

	// observation state
	everWanRT   map[peer.ID]bool
	wanHadPeers bool
	admissible  map[peer.ID]bool // a public non-relay address was referred on WAN or held by the peerstore
	seenDone    map[*simnet.RPC]bool
	checkedRPC  map[string]int
	dialChecked int
	hiddenRef   map[peer.ID]string // WAN-world peer referred without admissible address -> class of the referral
	refAdm      map[peer.ID]bool   // a WAN referral carried a public non-relay address
	psOnlyRef   map[peer.ID]bool   // referred without admissible address while the peerstore held one beforehand
	contacted   map[peer.ID]bool   // dialled or queried on WAN
	lateAdmit   map[peer.ID]bool
	wanValid    map[string]bool // valid values by side (string(value))
	lanValid    map[string]bool
	stopObserve bool
	traffic     bool
}

const (
	c15W = "wan"
	c15L = "lan"
	c15B = "both"
)

func c15IsLan(protos []protocol.ID) bool {
	for _, p := range protos {
		if strings.Contains(string(p), string(dual.LanExtension)+"/") {
			return true
		}
	}
	return false
}

// c15Shuffle is a stateless deterministic replacement of rand.Shuffle: the
// permutation depends on (seed, n) only; seed 0 is the identity.
func c15Shuffle(seed uint64) func(n int, swap func(i, j int)) {
	return func(n int, swap func(i, j int)) {
		if seed == 0 {
			return
		}
		x := seed*0x9e3779b97f4a7c15 + uint64(n)
		for i := n - 1; i > 0; i-- {
			x ^= x << 13
			x ^= x >> 7
			x ^= x << 17
			swap(i, int(x%uint64(i+1)))
		}
	}
}

// c15StrictValidator is the rank validator with a stricter acceptance policy
// (a minimal rank): installed on one side only it makes that inner DHT refuse
// a record the other one accepts.
type c15StrictValidator struct {
	rankValidator
	minRank int
}

func (v c15StrictValidator) Validate(key string, value []byte) error {
	if err := v.rankValidator.Validate(key, value); err != nil {
		return err
	}
	if r, _, _, _ := parseRankValue(value); r < v.minRank {
		return fmt.Errorf("strict rank validator: rank %d below the minimum %d", r, v.minRank)
	}
	return nil
}

func c15Build(s *sim.Sim, faulty bool, focus string) *c15World {
	w := &c15World{s: s, faulty: faulty, focus: focus, cfgErr: map[string]string{}, dsArmed: map[string]int{},
		snd: map[string]*simnet.Sender{}, k: map[string]int{}, peers: map[peer.ID]*c15Peer{},
		psStart: map[peer.ID]map[string]bool{}, everWanRT: map[peer.ID]bool{}, admissible: map[peer.ID]bool{}, seenDone: map[*simnet.RPC]bool{},
		checkedRPC: map[string]int{}, hiddenRef: map[peer.ID]string{}, contacted: map[peer.ID]bool{}, lateAdmit: map[peer.ID]bool{},
		wanValid: map[string]bool{}, lanValid: map[string]bool{}, refAdm: map[peer.ID]bool{}, psOnlyRef: map[peer.ID]bool{}}
	useed := uint64(s.Draw("universe", 1<<16))
	w.u = simnet.NewUniverse(useed, 0)
	u := w.u
	w.pal = newC15Palette(simnet.MakeID(useed^0x5e1a, 999))
	rng := newSubRng(s, "world")

	nW, nL, nX := s.Range("n-wan", 0, 7), s.Range("n-lan", 0, 5), s.Range("n-prov", 0, 4)
	w.k[c15W], w.k[c15L] = s.Range("k-wan", 1, 4), s.Range("k-lan", 1, 4)
	alphaW, alphaL := s.Range("alpha-wan", 1, 3), s.Range("alpha-lan", 1, 3)
	betaW, betaL := s.Range("beta-wan", 1, w.k[c15W]), s.Range("beta-lan", 1, w.k[c15L])
	hiddenPct := []int{35, 10, 60}[s.Draw("hidden-pct", 3)]
	if focus == "optprov" {
		// a healthy network of more than K reachable peers per side (c15_local.go)
		w.k[c15W], w.k[c15L] = w.k[c15W]+s.Range("k-more-wan", 0, 3), w.k[c15L]+s.Range("k-more-lan", 0, 3)
		hiddenPct, nW, nL = 0, w.k[c15W]+1+nW%3, w.k[c15L]+1+nL%3
	}

	idn := 0
	add := func(name, side string, addrs []ma.Multiaddr) *c15Peer {
		sp := u.Add(name, simnet.MakeID(useed, idn), addrs)
		idn++
		cp := &c15Peer{p: sp, side: side, refMode: map[peer.ID]int{}, said: map[string][]ma.Multiaddr{}, vals: map[string][]byte{}, provs: map[string][]*simnet.Peer{}, saidSet: map[string]map[string]bool{}}
		w.peers[sp.ID] = cp
		w.order = append(w.order, cp)
		return cp
	}
	setSaid := func(cp *c15Peer, side string, addrs []ma.Multiaddr) {
		cp.said[side] = addrs
		m := map[string]bool{}
		for _, a := range addrs {
			m[string(a.Bytes())] = true
		}
		cp.saidSet[side] = m
	}
	var wan, lan, prov []*c15Peer
	for i := 0; i < nW; i++ {
		var kind []string
		if rng.Intn(100) < hiddenPct {
			kind = c15WanKinds[4+rng.Intn(7)]
		} else {
			kind = [][]string{c15WanKinds[0], c15WanKinds[1], c15WanKinds[2], c15WanKinds[3], c15WanKinds[11]}[rng.Intn(5)]
		}
		cp := add(fmt.Sprintf("w%02d", i), c15W, w.pal.mkAll(kind...))
		cp.hidden = !w.pal.admissible(cp.p.Addrs)
		setSaid(cp, c15W, cp.p.Addrs)
		wan = append(wan, cp)
	}
	for i := 0; i < nL; i++ {
		cp := add(fmt.Sprintf("l%02d", i), c15L, w.pal.mkAll(c15LanKinds[rng.Intn(len(c15LanKinds))]...))
		setSaid(cp, c15L, cp.p.Addrs)
		lan = append(lan, cp)
	}
	w.t = add("t", c15B, nil)
	setSaid(w.t, c15W, w.pal.mkAll(c15WanSaidShared[s.Draw("t-wan-said", len(c15WanSaidShared))]...))
	setSaid(w.t, c15L, w.pal.mkAll(c15LanSaidShared[s.Draw("t-lan-said", len(c15LanSaidShared))]...))
	for i := 0; i < nX; i++ {
		cp := add(fmt.Sprintf("x%02d", i), c15B, nil)
		setSaid(cp, c15W, w.pal.mkAll(c15WanSaidShared[rng.Intn(len(c15WanSaidShared))]...))
		setSaid(cp, c15L, w.pal.mkAll(c15LanSaidShared[rng.Intn(len(c15LanSaidShared))]...))
		prov = append(prov, cp)
	}

	// connection addresses (what a live connection reports as remote address):
	// the peer's first public / first address, or a dedicated one
	for _, cp := range w.order {
		all := append(append([]ma.Multiaddr{}, cp.said[c15W]...), cp.said[c15L]...)
		for _, a := range all {
			if l, _ := w.pal.label(a); l.pub && !l.relay && cp.side != c15L {
				cp.connAddr = a
				break
			}
		}
		if cp.connAddr == nil && cp.side == c15L {
			for _, a := range all {
				if l, _ := w.pal.label(a); !l.relay && !l.loop {
					cp.connAddr = a
					break
				}
			}
		}
		if cp.connAddr == nil {
			if cp.side == c15L {
				cp.connAddr = w.pal.mk("priv4")
			} else {
				cp.connAddr = w.pal.mk("pub4")
			}
		}
	}

	// local host addresses: drawn subset of all classes (tape value 0 = one
	// public, one private, one loopback address)
	classes := []string{"pub4", "priv4", "loop4", "pub6", "priv6", "loop6", "ll6", "relaypub", "relaypriv"}
	mask := s.Draw("self-addrs", 1<<len(classes)) ^ 0b111
	for i, c := range classes {
		if mask&(1<<i) != 0 {
			w.selfAddrs = append(w.selfAddrs, w.pal.mk(c))
		}
	}
	w.host = simhost.New(s, u.Self.ID, w.selfAddrs, u.Name)

	// the dual client
	builder := func(_ host.Host, protos []protocol.ID) pb.MessageSenderWithDisconnect {
		side := c15W
		if c15IsLan(protos) {
			side = c15L
		}
		snd := &simnet.Sender{S: s, U: u, Label: side + ":"}
		w.snd[side] = snd
		return snd
	}
	// one datastore per inner DHT (what the default configuration gives them as
	// well: each dht.New creates its own in-memory map), here observable
	w.ds = map[string]*simds.DS{c15W: simds.New(s, "ds-"+c15W), c15L: simds.New(s, "ds-"+c15L)}
	// dual-write-errors: each side may be configured so that one kind of write
	// is refused by that inner DHT (tape value 0: ordinary configuration)
	sideOpts := map[string][]dht.Option{}
	if focus == "writeerr" {
		for _, side := range []string{c15W, c15L} {
			switch w.cfgErr[side] = []string{"", "reject", "novalues", "noproviders"}[s.Draw("cfg-err-"+side, 4)]; w.cfgErr[side] {
			case "reject":
				// stricter policy on this side only: the ranks this scenario writes are refused
				sideOpts[side] = []dht.Option{dht.NamespacedValidator("r", c15StrictValidator{minRank: 1000})}
			case "novalues":
				sideOpts[side] = []dht.Option{dht.DisableValues()}
			case "noproviders":
				sideOpts[side] = []dht.Option{dht.DisableProviders()}
			}
		}
	}
	var extra []dual.Option
	if focus == "optprov" {
		// the configuration under which Provide takes the optimistic path: given
		// to both inner DHTs (dual.DHTOption) or to one of them
		switch w.optSides = []string{c15B, c15W, c15L}[s.Draw("opt-provide", 3)]; w.optSides {
		case c15B:
			extra = append(extra, dual.DHTOption(dht.EnableOptimisticProvide()))
		default:
			sideOpts[w.optSides] = append(sideOpts[w.optSides], dht.EnableOptimisticProvide())
		}
	}
	if focus == "local" {
		// reads of the WAN instance's own datastore park while a GetValue runs
		// (see c15_local.go, determinism)
		w.ds[c15W].ParkOp = func(op, _ string) bool { return op == "get" && w.parkWanGet }
	}
	d, err := dual.New(w.host, append([]dual.Option{
		// dual.New applies the caller's options after its own, and ProtocolPrefix
		// overwrites what ProtocolExtension("/lan") appended: a prefix passed as
		// a common option would leave both inner DHTs on the same protocol. So
		// the prefix goes to each side, with the extension repeated for the LAN.
		dual.DHTOption(dht.Mode(dht.ModeClient), dht.DisableAutoRefresh(),
			dht.NamespacedValidator("r", rankValidator{}), dht.MaxRecordAge(100000*time.Hour), dht.WithCustomMessageSender(builder)),
		dual.WanDHTOption(dht.ProtocolPrefix("/sim"), dht.BucketSize(w.k[c15W]), dht.Concurrency(alphaW), dht.Resiliency(betaW), dht.Datastore(w.ds[c15W])),
		dual.LanDHTOption(dht.ProtocolPrefix("/sim"), dht.ProtocolExtension(dual.LanExtension), dht.BucketSize(w.k[c15L]), dht.Concurrency(alphaL), dht.Resiliency(betaL), dht.Datastore(w.ds[c15L])),
		dual.WanDHTOption(sideOpts[c15W]...), dual.LanDHTOption(sideOpts[c15L]...),
	}, extra...)...)
	if err != nil {
		panic(err)
	}
	w.d = d
	s.Quiesce()
	if w.snd[c15W] == nil || w.snd[c15L] == nil {
		panic("c15: dual.New did not build one WAN and one LAN message sender")
	}
	dht.VerifSetShuffle(d.WAN, c15Shuffle(uint64(s.Draw("shuffle-wan", 8))))
	dht.VerifSetShuffle(d.LAN, c15Shuffle(uint64(s.Draw("shuffle-lan", 8))))

	// knowledge graphs (disjoint worlds; both may know the shared target)
	density := []int{5, 2, 8}[s.Draw("density", 3)]
	tKnownPct := []int{50, 0, 100}[s.Draw("t-known", 3)]
	if focus == "findpeer" {
		tKnownPct = 100
	}
	if focus == "optprov" {
		// everybody knows everybody and reports all addresses (warm-up lookups must find K peers)
		density, tKnownPct = 8, 0
	}
	if focus == "getcut" {
		// every dial is then attributable to one inner DHT (see c15_getcut.go)
		tKnownPct = 0
		w.prio = []string{"", c15L, c15W}[s.Draw("answer-first", 3)]
	}
	graph := func(grp []*c15Peer) {
		for _, x := range grp {
			for _, q := range grp {
				if q != x && rng.Intn(8) < density {
					x.knows = append(x.knows, q.p)
				}
			}
			if rng.Intn(100) < tKnownPct {
				x.knows = append(x.knows, w.t.p)
			}
			for _, q := range x.knows {
				// how x renders q's addresses: 0 all, 1 only the non-admissible ones, 2 only public non-relay, 3 none
				x.refMode[q.ID] = []int{0, 0, 0, 0, 1, 1, 2, 3}[rng.Intn(8)]
				if focus == "optprov" {
					x.refMode[q.ID] = 0
				}
			}
			if faulty {
				switch rng.Intn(10) {
				case 0, 1:
					x.dialFail = true
				case 2, 3:
					x.reqErr = true
				}
			}
		}
	}
	graph(wan)
	graph(lan)
	if faulty && rng.Intn(3) == 0 {
		w.t.reqErr = true
	}
	for i := 0; i < 4; i++ {
		w.tDial = append(w.tDial, !faulty || rng.Intn(3) != 0)
	}

	// operations
	nOps := s.Range("n-ops", 1, 3)
	if focus == "local" {
		nOps += s.Range("more-ops", 1, 3)
		w.nKeys = s.Range("n-keys", 1, 2)
		w.putBase = []int{20, 2}[s.Draw("put-rank", 2)]
	}
	kinds := []string{"provide", "putvalue", "getvalue", "findpeer"}
	for i := 0; i < nOps; i++ {
		k := kinds[s.Draw("op-kind", len(kinds))]
		switch focus {
		case "":
		case "writeerr":
			k = map[string]string{"provide": "provide", "putvalue": "putvalue", "getvalue": "provide", "findpeer": "putvalue"}[k]
		case "getcut":
			k = "getvalue"
		case "local":
			k = map[string]string{"provide": "putvalue", "putvalue": "getvalue", "getvalue": "getvalue", "findpeer": "putvalue"}[k]
		case "optprov":
			k = "provide"
		default:
			k = focus
		}
		w.ops = append(w.ops, &c15Op{kind: k})
	}
	if focus == "" && s.Chance("find-providers", 1, 3) {
		w.ops = append(w.ops, &c15Op{kind: "findprovs"})
	}
	for i, o := range w.ops {
		o.idx, o.tag, o.announce, o.cutAfter, o.sideSteps = i, fmt.Sprintf("o%d", i), true, -1, map[string]int{}
		switch o.kind {
		case "provide", "findprovs":
			sum, err := mh.Sum([]byte(fmt.Sprintf("c15-content-%d-%d", useed, i)), mh.SHA2_256, -1)
			if err != nil {
				panic(err)
			}
			o.cid = cid.NewCidV1(cid.Raw, sum)
			o.wire = string(sum)
			if o.kind == "provide" && s.Chance("provide-local-only", 1, 4) {
				o.announce = false
			}
			if o.kind == "provide" && focus == "writeerr" && o.announce && s.Chance("deadline", 1, 3) {
				o.deadline = []time.Duration{20 * time.Second, 5 * time.Second, 90 * time.Second}[s.Draw("deadline-len", 3)]
				o.stallPct = []int{97, 92, 50, 99}[s.Draw("stall-pct", 4)]
			}
		case "putvalue", "getvalue":
			o.strKey = fmt.Sprintf("/r/c15-%d-%d", useed, i)
			o.wire = o.strKey
			o.val = rankValue(5, time.Time{}, o.strKey)
			if focus == "local" {
				// keys are reused; every write of a run ranks higher than the ones
				// before it (a write is never refused as "older than the stored one"),
				// all of them above or all below the ranks the responders serve
				o.keyIdx = s.Draw("key", w.nKeys)
				o.strKey = fmt.Sprintf("/r/c15-%d-k%d", useed, o.keyIdx)
				o.wire = o.strKey
				o.val = rankValue(w.putBase+i, time.Time{}, o.strKey)
			}
		case "findpeer":
			o.wire = string(w.t.p.ID)
		}
		if focus == "getcut" {
			w.drawCut(o)
		}
		switch o.kind {
		case "getvalue":
			// per side: nobody / some / all responders hold a record; WAN ranks
			// are even, LAN ranks odd, so the two value sets are disjoint
			for si, grp := range [][]*c15Peer{wan, lan} {
				mode := s.Draw(fmt.Sprintf("val-mode-%d", si), 3) // 0 some, 1 none, 2 all
				for _, x := range grp {
					if mode == 1 || (mode == 0 && rng.Intn(3) != 0) {
						continue
					}
					rank := 10 + 2*rng.Intn(3) + si
					if rng.Intn(5) == 0 {
						// invalid: embedded key differs from the record key
						x.vals[o.wire] = rankValue(rank, time.Time{}, o.strKey+"-other")
						continue
					}
					v := rankValue(rank, time.Time{}, o.strKey)
					x.vals[o.wire] = v
					if si == 0 {
						w.wanValid[string(v)] = true
					} else {
						w.lanValid[string(v)] = true
					}
				}
			}
		case "findprovs":
			o.count = []int{2, 1, 0, 3, 5}[s.Draw("count", 5)]
			for _, grp := range [][]*c15Peer{wan, lan} {
				for _, x := range grp {
					for _, pv := range prov {
						if rng.Intn(3) == 0 {
							x.provs[o.wire] = append(x.provs[o.wire], pv.p)
						}
					}
				}
			}
		}
	}

	// peerstore content known beforehand (a "local source", exempt from wan-store)
	for _, cp := range wan {
		if rng.Intn(6) == 0 {
			pre := cp.p.Addrs
			if rng.Intn(2) == 0 {
				pre = nil
				for _, a := range cp.p.Addrs {
					if l, _ := w.pal.label(a); !l.pub || l.relay {
						pre = append(pre, a)
					}
				}
			}
			w.host.Peerstore().AddAddrs(cp.p.ID, pre, time.Hour)
		}
	}
	if s.Chance("t-prestored", 1, 4) {
		w.host.Peerstore().AddAddrs(w.t.p.ID, w.pal.mkAll("pub4"), time.Hour)
	}

	// routing tables (direct TryAddPeer: seeding is the harness' business). The
	// WAN table's diversity filter reads the remote address of a live
	// connection, so WAN seeds are connected while they are added.
	seedMode := func(l string) int { // 0,1 some; 2 none; 3 all
		m := s.Draw(l, 4)
		if (focus == "findpeer" && m == 2) || focus == "optprov" {
			m = 3
		}
		if focus == "getcut" && m == 2 && l == "seed-wan" {
			// (a WAN lookup that fails at once is what the other scenarios cover;
			// an empty WAN population still gives an empty table)
			m = 3
		}
		return m
	}
	pick := func(grp []*c15Peer, mode int) []*c15Peer {
		var out []*c15Peer
		for _, cp := range grp {
			if mode == 3 || (mode < 2 && rng.Intn(2) == 0) {
				out = append(out, cp)
			}
		}
		if mode < 2 && len(out) == 0 && len(grp) > 0 {
			out = append(out, grp[rng.Intn(len(grp))])
		}
		return out
	}
	for _, cp := range pick(wan, seedMode("seed-wan")) {
		w.host.Peerstore().AddAddrs(cp.p.ID, cp.p.Addrs, time.Hour)
		w.host.Net().SetConnected(cp.p.ID, true)
		w.host.Net().SetRemoteAddr(cp.p.ID, cp.connAddr)
		_, _ = d.WAN.RoutingTable().TryAddPeer(cp.p.ID, true, false)
		if rng.Intn(3) != 0 {
			w.host.Net().SetConnected(cp.p.ID, false)
		}
	}
	for _, cp := range pick(lan, seedMode("seed-lan")) {
		w.host.Peerstore().AddAddrs(cp.p.ID, cp.p.Addrs, time.Hour)
		_, _ = d.LAN.RoutingTable().TryAddPeer(cp.p.ID, true, false)
		if rng.Intn(4) == 0 {
			w.host.Net().SetConnected(cp.p.ID, true)
			w.host.Net().SetRemoteAddr(cp.p.ID, cp.connAddr)
		}
	}
	s.Quiesce()
	for _, cp := range w.order {
		m := map[string]bool{}
		for _, a := range w.host.Peerstore().Addrs(cp.p.ID) {
			m[string(a.Bytes())] = true
		}
		w.psStart[cp.p.ID] = m
	}

	var selfCls []string
	for _, a := range w.selfAddrs {
		l, _ := w.pal.label(a)
		selfCls = append(selfCls, l.class)
	}
	var opk []string
	for _, o := range w.ops {
		opk = append(opk, o.kind)
	}
	nh := 0
	for _, cp := range wan {
		if cp.hidden {
			nh++
		}
	}
	s.Summary["cfg"] = fmt.Sprintf("faulty=%v wan=%d(hidden %d) lan=%d prov=%d Kw=%d aw=%d bw=%d Kl=%d al=%d bl=%d tables=%d/%d self=[%s] ops=%s",
		faulty, nW, nh, nL, nX, w.k[c15W], alphaW, betaW, w.k[c15L], alphaL, betaL, d.WAN.RoutingTable().Size(), d.LAN.RoutingTable().Size(),
		strings.Join(selfCls, ","), strings.Join(opk, ","))
	if focus == "writeerr" {
		s.Summary["cfg"] = fmt.Sprintf("%v cfgerr=%q/%q", s.Summary["cfg"], w.cfgErr[c15W], w.cfgErr[c15L])
	}
	return w
}

// ---------------------------------------------------------------------------
// scripted responders

func (w *c15World) renderPeer(side string, q *simnet.Peer, mode int) *pb.Message_Peer {
	m := &pb.Message_Peer{Id: []byte(q.ID)}
	cq := w.peers[q.ID]
	if cq == nil {
		return m
	}
	for _, a := range cq.said[side] {
		l, _ := w.pal.label(a)
		adm := l.pub && !l.relay
		if mode == 3 || (mode == 1 && adm) || (mode == 2 && !adm) {
			continue
		}
		m.Addrs = append(m.Addrs, a.Bytes())
	}
	return m
}

func (w *c15World) reply(side string, r *simnet.RPC) simnet.Reply {
	x := w.peers[r.To]
	if x == nil || x.reqErr {
		w.s.Count("fault_rpc_error")
		return simnet.Reply{Err: errReqFailed}
	}
	req := r.Req
	resp := &pb.Message{Type: req.GetType(), Key: req.GetKey()}
	switch req.GetType() {
	case pb.Message_PUT_VALUE:
		resp.Record = req.GetRecord()
		return simnet.Reply{Msg: resp}
	case pb.Message_ADD_PROVIDER:
		return simnet.Reply{}
	case pb.Message_PING:
		return simnet.Reply{Msg: resp}
	}
	key := string(req.GetKey())
	var cands []*simnet.Peer
	for _, q := range x.knows {
		if q != x.p {
			cands = append(cands, q)
		}
	}
	for _, q := range simnet.Nearest(cands, simnet.KadOfKey(key), w.k[side]) {
		resp.CloserPeers = append(resp.CloserPeers, w.renderPeer(side, q, x.refMode[q.ID]))
	}
	switch req.GetType() {
	case pb.Message_GET_VALUE:
		if v := x.vals[key]; v != nil {
			resp.Record = &recpb.Record{Key: req.GetKey(), Value: v}
		}
	case pb.Message_GET_PROVIDERS:
		for _, pv := range x.provs[key] {
			resp.ProviderPeers = append(resp.ProviderPeers, w.renderPeer(side, pv, 0))
		}
	}
	return simnet.Reply{Msg: resp}
}

func c15SideOfPark(p *sim.Parked) string {
	if strings.HasPrefix(p.ID, "rpc:"+c15L+":") {
		return c15L
	}
	return c15W
}

func (w *c15World) connected(p peer.ID) bool {
	return w.host.Network().Connectedness(p) == network.Connected
}

// actions: one release per parked call, outcome by the addressed peer's script.
func (w *c15World) actions(o *c15Op) []sim.Action {
	s := w.s
	var acts []sim.Action
	for _, p := range s.Parked() {
		p := p
		if p.Cancelled() {
			// a cancelled call only ever observes its cancellation
			acts = append(acts, sim.Action{ID: "cancel>" + p.ID, Do: func() { s.ReleaseCancelled(p) }})
			continue
		}
		switch p.Kind {
		case "dial":
			who := p.Data.(peer.ID)
			acts = append(acts, sim.Action{ID: p.ID, Do: func() {
				cp := w.peers[who]
				fail := cp == nil || cp.dialFail
				if cp == w.t {
					// the n-th dial of the target follows the drawn script
					n := 0
					if i := strings.LastIndexByte(p.ID, '#'); i >= 0 {
						fmt.Sscanf(p.ID[i+1:], "%d", &n)
					}
					fail = !w.tDial[n%len(w.tDial)]
				}
				if fail {
					s.Count("fault_dial_fail")
					s.Release(p, simhost.ErrDialFailed)
					return
				}
				s.Release(p, nil)
				s.Quiesce()
				w.host.Net().SetRemoteAddr(who, cp.connAddr)
			}})
		case "rpc":
			r := p.Data.(*simnet.RPC)
			side := c15SideOfPark(p)
			acts = append(acts, sim.Action{ID: p.ID, Do: func() { s.Release(p, w.reply(side, r)) }})
		case "ds":
			// dual-getvalue-local: a read of the WAN instance's own datastore (fault-free)
			acts = append(acts, sim.Action{ID: p.ID, Do: func() { s.Release(p, nil) }})
		}
	}
	if o != nil && o.kind == "findpeer" && w.faulty && !o.op.Done && !o.disconnected && w.connected(w.t.p.ID) {
		acts = append(acts, sim.Action{ID: "zz-disconnect-target", Do: func() {
			o.disconnected = true
			s.Count("fault_disconnect_target")
			w.host.Net().SetConnected(w.t.p.ID, false)
		}})
	}
	return acts
}

// ---------------------------------------------------------------------------
// continuous observation (quiescent points only)

// c15Canon orders RPC records canonically (the log order of calls that arrive
// in the same step is the Go scheduler's): by step, addressee, type, key.
func (w *c15World) canon(rs []*simnet.RPC) []*simnet.RPC {
	out := append([]*simnet.RPC(nil), rs...)
	key := func(r *simnet.RPC) string {
		return fmt.Sprintf("%08d|%s|%s|%x", r.SentStep, w.u.Name(r.To), r.Req.GetType(), r.Req.GetKey())
	}
	sort.SliceStable(out, func(i, j int) bool { return key(out[i]) < key(out[j]) })
	return out
}

func c15SortAddrs(as []ma.Multiaddr) []ma.Multiaddr {
	out := append([]ma.Multiaddr(nil), as...)
	sort.Slice(out, func(i, j int) bool { return out[i].String() < out[j].String() })
	return out
}

func c15PeerAddrs(m *pb.Message_Peer) []ma.Multiaddr {
	var out []ma.Multiaddr
	for _, b := range m.GetAddrs() {
		if a, err := ma.NewMultiaddrBytes(b); err == nil {
			out = append(out, a)
		}
	}
	return out
}

func (w *c15World) classOf(addrs []ma.Multiaddr) string {
	if len(addrs) == 0 {
		return "noaddr"
	}
	relay, loop, other := false, true, false
	for _, a := range addrs {
		l, _ := w.pal.label(a)
		relay = relay || l.relay
		loop = loop && l.loop
		other = other || (!l.relay && !l.loop)
	}
	switch {
	case loop:
		return "loopback"
	case relay && !other:
		return "relay"
	}
	return "private"
}

func (w *c15World) observe() {
	if w.stopObserve {
		return
	}
	s := w.s
	// 1. WAN table membership
	rt := w.d.WAN.RoutingTable().ListPeers()
	for _, p := range rt {
		w.everWanRT[p] = true
	}
	if len(rt) > 0 {
		w.wanHadPeers = true
	} else if w.wanHadPeers {
		w.wanHadPeers = false
		s.Count("probe_wan_drained_midrun")
	}

	wanLog := w.snd[c15W].Snapshot()
	// 2. referrals delivered on the WAN side
	for _, r := range wanLog {
		if !r.Done || w.seenDone[r] {
			continue
		}
		w.seenDone[r] = true
		if r.Resp == nil {
			continue
		}
		for _, list := range [][]*pb.Message_Peer{r.Resp.GetCloserPeers(), r.Resp.GetProviderPeers()} {
			for _, m := range list {
				id := peer.ID(m.GetId())
				addrs := c15PeerAddrs(m)
				cp := w.peers[id]
				if w.pal.admissible(addrs) {
					if !w.admissible[id] && w.hiddenRef[id] != "" {
						w.lateAdmit[id] = true
					}
					w.admissible[id], w.refAdm[id] = true, true
				} else if cp != nil && cp.side == c15W && !w.admissible[id] {
					if w.hiddenRef[id] == "" {
						w.hiddenRef[id] = w.classOf(addrs)
					}
				} else if cp != nil && cp.side == c15W && !w.refAdm[id] && !w.everWanRT[id] {
					w.psOnlyRef[id] = true
				}
				if cp != nil {
					for _, a := range addrs {
						if l, _ := w.pal.label(a); l.nonPub && !w.psStart[id][string(a.Bytes())] && !w.connected(id) {
							s.Count("probe_wan_store_dropped_nonpublic")
						} else if l.pub {
							s.Count("probe_wan_store_kept_public")
						}
					}
				}
			}
		}
	}
	// 3. what the peerstore holds
	for _, cp := range w.order {
		id := cp.p.ID
		held := c15SortAddrs(w.host.Peerstore().Addrs(id))
		if w.pal.admissible(held) {
			w.admissible[id] = true
		}
		// rule wan-store
		for _, a := range held {
			k := string(a.Bytes())
			if w.psStart[id][k] || !cp.saidSet[c15W][k] {
				continue
			}
			if l, _ := w.pal.label(a); l.nonPub {
				s.Violate("wan-store", "peerstore holds %s (%s) for %s; only WAN DHT messages carried that address", a, l.class, cp.p.Name)
			}
		}
	}
	// 4. whom the WAN side contacts
	check := func(id peer.ID, how string, key []byte) {
		w.contacted[id] = true
		if w.everWanRT[id] || string(key) == string(id) || w.admissible[id] {
			if !w.admissible[id] && !w.everWanRT[id] {
				s.Count("probe_target_followed_without_public_addr")
			}
			return
		}
		s.Violate("wan-referral", "WAN DHT %s %s, which was never in the WAN table, is not the lookup target, and for which no public non-relay address was referred or held", how, w.u.Name(id))
	}
	for _, r := range w.canon(wanLog[w.checkedRPC[c15W]:]) {
		check(r.To, "sent "+r.Req.GetType().String()+" to", r.Req.GetKey())
		w.traffic = true
	}
	w.checkedRPC[c15W] = len(wanLog)
	newDials := append([]peer.ID(nil), w.host.DialLog[w.dialChecked:]...)
	w.dialChecked = len(w.host.DialLog)
	sort.Slice(newDials, func(i, j int) bool { return w.u.Name(newDials[i]) < w.u.Name(newDials[j]) })
	for _, id := range newDials {
		if cp := w.peers[id]; cp != nil && cp.side == c15W {
			// (dials of shared peers cannot be attributed to one inner DHT)
			check(id, "dialled", nil)
		}
	}
	// 5. advertised addresses
	lanLog := w.snd[c15L].Snapshot()
	for _, sl := range []struct {
		side string
		log  []*simnet.RPC
	}{{c15W + "-adv", wanLog}, {c15L + "-adv", lanLog}} {
		side, log := sl.side, sl.log
		for _, r := range w.canon(log[w.checkedRPC[side]:]) {
			if r.Req.GetType() != pb.Message_ADD_PROVIDER {
				continue
			}
			for _, m := range r.Req.GetProviderPeers() {
				for _, a := range c15SortAddrs(c15PeerAddrs(m)) {
					l, _ := w.pal.label(a)
					if side == c15W+"-adv" && l.nonPub {
						s.Violate("wan-advertise", "WAN ADD_PROVIDER to %s carries %s (%s)", w.u.Name(r.To), a, l.class)
					}
					if side == c15L+"-adv" && l.loop {
						s.Violate("lan-advertise", "LAN ADD_PROVIDER to %s carries loopback address %s", w.u.Name(r.To), a)
					}
				}
			}
			nonPub, loop := false, false
			for _, a := range w.selfAddrs {
				l, _ := w.pal.label(a)
				nonPub, loop = nonPub || l.nonPub, loop || l.loop
			}
			if side == c15W+"-adv" && nonPub {
				s.Count("probe_wan_advertise_filtered")
			}
			if side == c15L+"-adv" && loop {
				s.Count("probe_lan_advertise_filtered")
			}
		}
		w.checkedRPC[side] = len(log)
	}
	if len(lanLog) > 0 {
		w.traffic = true
	}
}

// ---------------------------------------------------------------------------
// running and judging one operation

func (w *c15World) keyRPCs(side string, from int, wire string, upTo int) []*simnet.RPC {
	var out []*simnet.RPC
	log := w.snd[side].Snapshot()
	for i := from; i < len(log); i++ {
		r := log[i]
		if string(r.Req.GetKey()) == wire && (upTo < 0 || r.SentStep <= upTo) {
			out = append(out, r)
		}
	}
	return out
}

func (w *c15World) start(o *c15Op) {
	s := w.s
	base, cancel := context.WithCancel(context.Background())
	if o.deadline > 0 {
		base, cancel = context.WithTimeout(context.Background(), o.deadline)
	}
	ctx := sim.WithTag(base, o.tag)
	o.cancel, o.ctx, o.startAt = cancel, ctx, s.Now()
	d := w.d
	o.op = w.cl.Go(s, o.kind, func() (any, error) {
		switch o.kind {
		case "provide":
			return nil, d.Provide(ctx, o.cid, o.announce)
		case "putvalue":
			return nil, d.PutValue(ctx, o.strKey, o.val)
		case "getvalue":
			return d.GetValue(ctx, o.strKey)
		case "findpeer":
			return d.FindPeer(ctx, w.t.p.ID)
		default:
			var out []peer.AddrInfo
			for pi := range d.FindProvidersAsync(ctx, o.cid, o.count) {
				out = append(out, pi)
			}
			return out, nil
		}
	})
}

// runOp returns false when the run has to end after this operation.
func (w *c15World) runOp(o *c15Op) bool {
	s := w.s
	s.Quiesce()
	w.observe()
	if s.Failed() {
		return false
	}
	w.churn(o)
	o.wanRT, o.lanRT = w.d.WAN.RoutingTable().ListPeers(), w.d.LAN.RoutingTable().ListPeers()
	// The shared target is the only peer both inner DHTs can dial. If it sits
	// in both tables and is not connected, both lookups would dial it in the
	// very first step of the operation; the two calls reach the dial seam with
	// the same label and the Go scheduler would number them (pitfall 2). That
	// state only arises after the harness dropped the target's connection in an
	// earlier operation: the target reconnects before the next one starts.
	if t := w.t.p.ID; !w.connected(t) && idSet(o.wanRT)[t] && idSet(o.lanRT)[t] {
		w.host.Net().SetConnected(t, true)
		w.host.Net().SetRemoteAddr(t, w.t.connAddr)
		s.Tracef("target reconnects")
	}
	o.wanFrom, o.lanFrom, o.dialFrom = len(w.snd[c15W].Snapshot()), len(w.snd[c15L].Snapshot()), len(w.host.DialLog)
	o.dsFrom = map[string]int{c15W: w.ds[c15W].LogLen(), c15L: w.ds[c15L].LogLen()}
	o.startStep = s.Steps
	o.tConnPrev = w.connected(w.t.p.ID)
	s.Tracef("op %s %s wanRT=%d lanRT=%d", o.tag, o.kind, len(o.wanRT), len(o.lanRT))
	if w.focus == "writeerr" {
		w.armDSFault(o)
	}
	w.parkWanGet = w.focus == "local" && o.kind == "getvalue"
	w.start(o)
	s.Quiesce()
	idle := 0
	for {
		if o.op.Done && !o.judged {
			o.judged = true
			o.endStep = s.Steps
			o.tConnBeforeLast = o.tConnPrev
			o.ctxLiveEnd = o.ctx.Err() == nil
			w.judge(o)
			if o.racy {
				// see the header: no draws, traces or checks from here on
				w.stopObserve = true
				o.cancel()
				return false
			}
		}
		w.observe()
		if s.Failed() {
			break
		}
		if o.op.Done && len(s.Parked()) == 0 {
			break
		}
		if !s.Step() {
			break
		}
		if s.Chance("tick", 1, 16) {
			w.sleepWatched(o, time.Duration(1+s.Draw("tick-ms", 40))*time.Millisecond)
			s.Count("time_advance")
		}
		if w.cutDue(o) && w.cutCaller(o) {
			continue
		}
		if o.deadline > 0 && !o.stalled && !o.op.Done && len(s.Parked()) > 0 && s.Chance("stall", 1, 5) {
			// nobody answers until a drawn fraction of the caller's deadline has passed
			o.stalled = true
			if d := o.startAt + o.deadline*time.Duration(o.stallPct)/100 - s.Now(); d > 0 {
				s.Tracef("stall %s until %d%% of the deadline", o.tag, o.stallPct)
				s.Sleep(d)
				s.Count("fault_lookup_stalled_to_deadline")
			}
		}
		acts := w.actions(o)
		if len(acts) == 0 {
			idle++
			if idle > 20 {
				break
			}
			w.sleepWatched(o, time.Second)
			continue
		}
		idle = 0
		o.tConnPrev = w.connected(w.t.p.ID)
		o.opSteps++
		s.Choose("next", w.preferSide(o, acts))
	}
	w.parkWanGet = false
	defer func() {
		o.cancel()
		s.Quiesce()
	}()
	if s.Failed() {
		return false
	}
	if !o.op.Done {
		if s.Steps > s.MaxSteps {
			s.Summary["budget"] = "step budget exhausted"
			s.Count("step_budget_exhausted")
			return false
		}
		s.Violate("no-return", "%s did not return although nothing is parked and %d s of virtual time passed", o.kind, idle)
		return false
	}
	if o.cut {
		// dual-getvalue-cut: the run ends with the operation whose caller gave up
		return false
	}
	return s.Steps <= s.MaxSteps
}

func c15ErrText(err error) string {
	if err == nil {
		return "nil"
	}
	t := strings.ReplaceAll(err.Error(), "\n", "; ")
	if len(t) > 80 {
		t = t[:80]
	}
	return t
}

func (w *c15World) judge(o *c15Op) {
	s := w.s
	if o.op.Panic != "" {
		s.Violate("panic", "%s panicked: %s", o.kind, firstLine(o.op.Panic))
		return
	}
	switch o.kind {
	case "provide", "putvalue":
		w.judgeWrite(o)
	case "getvalue":
		w.judgeGetValue(o)
	case "findpeer":
		w.judgeFindPeer(o)
	case "findprovs":
		w.judgeFindProvs(o)
	}
}

func (w *c15World) judgeWrite(o *c15Op) {
	s := w.s
	// "non-empty at the call": the table content at the quiescent point right
	// before the client goroutine was started (nothing else ran in between)
	want, other := c15L, c15W
	wantRT := o.lanRT
	if len(o.wanRT) > 0 {
		want, other, wantRT = c15W, c15L, o.wanRT
	}
	froms := map[string]int{c15W: o.wanFrom, c15L: o.lanFrom}
	onWant, onOther := w.keyRPCs(want, froms[want], o.wire, -1), w.keyRPCs(other, froms[other], o.wire, -1)
	kind := o.kind
	if !o.announce {
		kind = "provide(announce=false)"
		s.Count("probe_provide_local_only")
	}
	putsWant, putsOther := w.dsPuts(want, o.dsFrom[want]), w.dsPuts(other, o.dsFrom[other])
	s.Tracef("done %s %s err=%s want=%s rpcs=%d/%d puts=%d/%d", o.tag, kind, c15ErrText(o.op.Err), want, len(onWant), len(onOther), len(putsWant), len(putsOther))
	// dual-write-errors: a failure source on the routed side relaxes the clauses
	// that presuppose the inner write got as far as its local record; one on the
	// other side relaxes nothing
	mayFail := w.injected(o, want)
	if o.kind == "provide" {
		w.optProvProbes(o, want, onWant)
	} else if w.ownRecord(want, o) != "" {
		s.Count("probe_putvalue_key_rewritten")
	}
	w.refused = w.refused || (mayFail != "" && o.op.Err != nil)
	w.judgeWriteStore(o, kind, want, other, putsWant, putsOther, mayFail != "")
	if w.focus == "writeerr" {
		otherRT := o.wanRT
		if other == c15L {
			otherRT = o.lanRT
		}
		switch {
		case mayFail == "reject" && o.op.Err != nil:
			s.Count("probe_werr_cfg_validator_rejects")
		case (mayFail == "novalues" || mayFail == "noproviders") && o.op.Err != nil:
			s.Count("probe_werr_cfg_disabled")
		case mayFail == "ds" && o.op.Err != nil:
			s.Count("probe_werr_ds_fault_on_routed_side")
		case mayFail == "" && w.injected(o, other) != "":
			s.Count("probe_werr_fault_on_other_side_only")
		}
		if o.op.Err != nil && o.ctxLiveEnd && o.deadline > 0 && mayFail == "" {
			s.Count("probe_werr_deadline_error_ctx_alive")
		}
		if o.op.Err != nil && o.ctxLiveEnd && len(otherRT) > 0 {
			// the state in which "try the other DHT" would have had somewhere to go
			s.Count("probe_werr_routed_failed_other_table_nonempty")
		}
		if o.op.Err != nil && o.ctxLiveEnd && want == c15L && len(o.lanRT) > 0 {
			s.Count("probe_werr_wan_empty_lan_failed")
		}
	}
	if len(onOther) > 0 {
		r := w.canon(onOther)[0]
		s.Violate("write-side", "%s with WAN table size %d at the call: %s for the key was sent to %s through the %s DHT (expected side: %s)",
			o.kind, len(o.wanRT), r.Req.GetType(), w.u.Name(r.To), strings.ToUpper(other), strings.ToUpper(want))
	}
	dials := 0
	for _, id := range w.host.DialLog[o.dialFrom:] {
		// (a shared peer - the FindPeer target may sit in a table by now - is
		// dialled through the one host; only one inner DHT runs a write)
		if cp := w.peers[id]; cp != nil && (cp.side == want || cp.side == c15B) {
			dials++
		}
	}
	if o.kind == "provide" && w.focus == "optprov" && !w.advertisable(want) {
		// dual-optprovide: a node without any address it may advertise on that
		// side has nothing to send (an optimistic Provide may not even need a
		// lookup request before it finds that out); see c15_local.go
		s.Count("probe_optprov_nothing_to_advertise")
	} else if len(wantRT) > 0 && len(onWant) == 0 && dials == 0 && o.announce && mayFail == "" {
		s.Violate("write-no-traffic", "%s with WAN table size %d, LAN table size %d at the call produced no dial and no RPC on the %s DHT (err=%v)",
			o.kind, len(o.wanRT), len(o.lanRT), strings.ToUpper(want), o.op.Err)
	}
	switch {
	case want == c15W && len(onWant) > 0:
		s.Count("probe_wan_active_wan_used")
	case want == c15L && len(onWant) > 0:
		s.Count("probe_wan_empty_lan_used")
	case want == c15L && len(o.lanRT) == 0 && o.op.Err != nil:
		s.Count("probe_both_empty_write_fails")
	}
	if o.kind == "provide" && want == c15W && len(onWant) > 0 && !w.pal.admissibleOrPublic(w.selfAddrs) {
		s.Count("probe_wan_advertise_nothing_public")
	}
	s.State("%s want=%s err=%v traffic=%v lanRT=%v", kind, want, o.op.Err != nil, len(onWant) > 0, len(o.lanRT) > 0)
}

// armDSFault (dual-write-errors): a drawn datastore fault - the next read or
// the next write of one side's own datastore fails. A fault armed on the side
// the write is not routed to stays armed (that datastore must not be touched);
// o.dsPending tells for which sides a fault is outstanding at the call.
func (w *c15World) armDSFault(o *c15Op) {
	switch w.s.Draw("ds-fault", 5) {
	case 1:
		w.ds[c15W].FailNext("get", 1)
		w.dsArmed[c15W]++
	case 2:
		w.ds[c15W].FailNext("put", 1)
		w.dsArmed[c15W]++
	case 3:
		w.ds[c15L].FailNext("get", 1)
		w.dsArmed[c15L]++
	case 4:
		w.ds[c15L].FailNext("put", 1)
		w.dsArmed[c15L]++
	}
	o.dsPending = map[string]bool{}
	for _, side := range []string{c15W, c15L} {
		fired := 0
		for _, r := range w.ds[side].Log() {
			if r.Err == simds.ErrInjected {
				fired++
			}
		}
		o.dsPending[side] = w.dsArmed[side] > fired
	}
}

// injected (dual-write-errors): the failure source this operation meets on the
// given side, "" if none: configuration that refuses this kind of write, or an
// armed datastore fault.
func (w *c15World) injected(o *c15Op, side string) string {
	switch c := w.cfgErr[side]; {
	case (c == "reject" || c == "novalues") && o.kind == "putvalue", c == "noproviders" && o.kind == "provide":
		return c
	case o.dsPending[side]:
		return "ds"
	}
	return ""
}

// dsPuts: the writes applied to one side's datastore since log position from.
func (w *c15World) dsPuts(side string, from int) []*simds.Rec {
	var out []*simds.Rec
	for _, r := range w.ds[side].Log()[from:] {
		if r.Op == "put" && r.Err == nil {
			out = append(out, r)
		}
	}
	return out
}

// selfProvides asks each inner DHT's provider store (public accessor) whether
// it lists this node as a provider of the operation's key. The calls take
// repository locks, so they run on a client goroutine.
func (w *c15World) selfProvides(o *c15Op) (map[string]bool, bool) {
	res := map[string]bool{}
	op := w.cl.Go(w.s, "read-provider-stores", func() (any, error) {
		for _, sd := range []struct {
			side string
			d    *dht.IpfsDHT
		}{{c15W, w.d.WAN}, {c15L, w.d.LAN}} {
			ps := sd.d.ProviderStore()
			if ps == nil {
				continue // providers disabled on this side (dual-write-errors)
			}
			provs, err := ps.GetProviders(context.Background(), o.cid.Hash())
			if err != nil {
				return nil, err
			}
			for _, pi := range provs {
				if pi.ID == w.u.Self.ID {
					res[sd.side] = true
				}
			}
		}
		return nil, nil
	})
	w.s.Quiesce()
	return res, op.Done && op.Err == nil && op.Panic == ""
}

// judgeWriteStore is rule write-store (see the header).
func (w *c15World) judgeWriteStore(o *c15Op, kind, want, other string, putsWant, putsOther []*simds.Rec, mayFail bool) {
	s := w.s
	where := fmt.Sprintf("%s with WAN table size %d, LAN table size %d at the call (err=%s)", kind, len(o.wanRT), len(o.lanRT), c15ErrText(o.op.Err))
	// (a) the side the write was not routed to
	if len(putsOther) > 0 {
		s.Violate("write-store", "%s: the %s DHT's datastore received %d write(s) (first key %q); the write belongs to the %s DHT, whose datastore received %d",
			where, strings.ToUpper(other), len(putsOther), putsOther[0].Key, strings.ToUpper(want), len(putsWant))
	}
	switch o.kind {
	case "provide":
		has, ok := w.selfProvides(o)
		if !ok {
			s.Count("probe_store_read_failed")
			break
		}
		s.Count("probe_store_provide_checked")
		if has[other] {
			s.Violate("write-store", "%s: the %s DHT's provider store lists the node as provider of the key; the write belongs to the %s DHT (listed there: %v)",
				where, strings.ToUpper(other), strings.ToUpper(want), has[want])
		}
		if !has[want] && !mayFail {
			// (b)
			s.Violate("write-store", "%s: the %s DHT's provider store does not list the node as provider of the key after Provide returned", where, strings.ToUpper(want))
		}
	case "putvalue":
		s.Count("probe_store_putvalue_checked")
		stored := false
		for _, r := range putsWant {
			stored = stored || bytes.Contains(r.Val, o.val)
		}
		if !stored && !mayFail {
			// (b)
			s.Violate("write-store", "%s: the %s DHT's datastore received no entry containing the record's value (%d writes)", where, strings.ToUpper(want), len(putsWant))
		}
	}
	switch {
	case len(o.wanRT) > 0 && len(o.lanRT) > 0:
		s.Count("probe_store_checked_both_nonempty")
	case len(o.wanRT) > 0:
		s.Count("probe_store_checked_wan_only")
	case len(o.lanRT) > 0:
		s.Count("probe_store_checked_lan_only")
	default:
		s.Count("probe_store_checked_both_empty")
	}
}

func (p *c15Palette) admissibleOrPublic(addrs []ma.Multiaddr) bool {
	for _, a := range addrs {
		if l, ok := p.label(a); ok && l.pub {
			return true
		}
	}
	return false
}

// validDelivered: valid record values delivered (reply released to a live
// call) on one side for this operation, in delivery order.
func (w *c15World) validDelivered(side string, from int, o *c15Op, valid map[string]bool) (vals []string, steps []int, invalid int) {
	for _, r := range w.keyRPCs(side, from, o.wire, -1) {
		if r.Req.GetType() != pb.Message_GET_VALUE || !r.Done || r.Cancelled || r.Err != nil || r.Resp == nil || r.Resp.GetRecord() == nil {
			continue
		}
		if r.DoneStep > o.endStep {
			continue
		}
		v := string(r.Resp.GetRecord().GetValue())
		if valid[v] {
			vals, steps = append(vals, v), append(steps, r.DoneStep)
		} else {
			invalid++
		}
	}
	return
}

func (w *c15World) judgeGetValue(o *c15Op) {
	s := w.s
	res, _ := o.op.Result.([]byte)
	wv, _, winv := w.validDelivered(c15W, o.wanFrom, o, w.wanValid)
	lv, lsteps, _ := w.validDelivered(c15L, o.lanFrom, o, w.lanValid)
	// dual-getvalue-local: a valid record an inner DHT holds in its own store
	// for the key is a result of that DHT's lookup as well (c15_local.go)
	wOwn, lOwn := w.ownRecord(c15W, o), w.ownRecord(c15L, o)
	if wOwn != "" {
		wv = append(wv, wOwn)
	}
	if lOwn != "" {
		lv = append(lv, lOwn)
	}
	s.Tracef("done %s getvalue err=%s res=%q wan=%d lan=%d", o.tag, c15ErrText(o.op.Err), res, len(wv), len(lv))
	in := func(set []string) bool {
		for _, v := range set {
			if v == string(res) {
				return true
			}
		}
		return false
	}
	if o.cutUnclear {
		s.Count("probe_cut_unclear_not_judged")
		return
	}
	// A lookup succeeded iff it ran to its end and a valid record was delivered
	// to it. dual-getvalue-cut: a lookup that had not returned when the caller's
	// context ended was cut short - it did not succeed, whatever it had received
	// by then (see c15_getcut.go).
	cutW, cutL := o.cut && o.cutPending[c15W], o.cut && o.cutPending[c15L]
	wanOK, lanOK := len(wv) > 0 && !cutW, len(lv) > 0 && !cutL
	if o.cut {
		w.cutProbes(o, len(wv) > 0, len(lv) > 0)
	} else if o.cutAfter >= 0 {
		s.Count("probe_cut_point_not_reached")
	}
	switch {
	case wanOK:
		if o.op.Err != nil || !in(wv) {
			s.Violate("getvalue-wan", "the WAN lookup received valid value(s) %q (of which from the WAN DHT's own store: %q; WAN table size at the call %d) but GetValue returned %q, err=%v (LAN received %q)", wv, wOwn, len(o.wanRT), res, o.op.Err, lv)
		}
		s.Count("probe_getvalue_wan_wins")
		// did the LAN lookup finish (successfully) before the WAN one?
		lanOpen := false
		for _, r := range w.keyRPCs(c15L, o.lanFrom, o.wire, -1) {
			lanOpen = lanOpen || !r.Done || r.Cancelled
		}
		if len(lsteps) > 0 && !lanOpen && lsteps[len(lsteps)-1] < o.endStep {
			s.Count("probe_getvalue_wan_wins_lan_finished_first")
		}
	case lanOK && cutW:
		if o.op.Err != nil || !in(lv) {
			s.Violate("getvalue-cut-lan", "the caller's context ended (%s) while the WAN lookup had not returned (valid value(s) received by then: %q), so the WAN lookup did not succeed; the LAN lookup had finished before and received %q, but GetValue returned %q, err=%v",
				o.cutHow, wv, lv, res, o.op.Err)
		}
	case lanOK:
		if o.op.Err != nil || !in(lv) {
			s.Violate("getvalue-lan", "the WAN lookup received no valid value, the LAN lookup received %q, but GetValue returned %q, err=%v", lv, res, o.op.Err)
		}
		s.Count("probe_getvalue_lan_fallback")
		if winv > 0 {
			s.Count("probe_getvalue_wan_invalid_only")
		}
	case cutW || cutL:
		if o.op.Err == nil {
			s.Violate("getvalue-cut-none", "the caller's context ended (%s) while the %s had not returned: cut short, not succeeded (valid values received by then: wan %q, lan %q); %s; neither lookup succeeded but GetValue returned %q without error",
				o.cutHow, c15CutWho(cutW, cutL), wv, lv, c15CutOther(cutW, cutL), res)
		}
	default:
		if o.op.Err == nil {
			s.Violate("getvalue-none", "neither lookup received a valid value but GetValue returned %q without error", res)
		}
		s.Count("probe_getvalue_none")
	}
	w.ownRecordProbes(o, wOwn, lOwn, wanOK)
	s.State("getvalue wan=%v lan=%v err=%v cut=%v/%v own=%v/%v rt=%v", len(wv) > 0, len(lv) > 0, o.op.Err != nil, cutW, cutL, wOwn != "", lOwn != "", len(o.wanRT) > 0)
}

func c15CutWho(cutW, cutL bool) string {
	switch {
	case cutW && cutL:
		return "WAN and the LAN lookup"
	case cutW:
		return "WAN lookup"
	}
	return "LAN lookup"
}

func c15CutOther(cutW, cutL bool) string {
	switch {
	case cutW && cutL:
		return "no lookup had finished"
	case cutW:
		return "the LAN lookup had finished before without a valid value"
	}
	return "the WAN lookup had finished before without a valid value"
}

func (w *c15World) judgeFindPeer(o *c15Op) {
	s := w.s
	t := w.t.p.ID
	ai, _ := o.op.Result.(peer.AddrInfo)
	held := w.host.Peerstore().Addrs(t) // the quiescent point right after the call returned
	set := func(addrs []ma.Multiaddr) (map[string]bool, []string) {
		m := map[string]bool{}
		var names []string
		for _, a := range addrs {
			if !m[string(a.Bytes())] {
				m[string(a.Bytes())] = true
				names = append(names, a.String())
			}
		}
		sort.Strings(names)
		return m, names
	}
	got, gotN := set(ai.Addrs)
	have, haveN := set(held)
	connNow := w.connected(t)
	s.Tracef("done %s findpeer err=%s addrs=%s", o.tag, c15ErrText(o.op.Err), strings.Join(gotN, ","))
	for k := range got {
		if !have[k] {
			s.Violate("findpeer-invented", "FindPeer returned [%s] but the peerstore holds [%s] for the target", strings.Join(gotN, ","), strings.Join(haveN, ","))
			break
		}
	}
	// Both inner DHTs share the host's peerstore and each returns a snapshot of
	// its entry for the target (or nothing when it fails); the entry only grows
	// during the call (no expiry: virtual time advances by milliseconds). The
	// union therefore equals the snapshot of the last inner call that succeeded.
	// An inner call that returns while the target is connected succeeds (it
	// either dialled it or finds it connected); if the target was connected
	// before and after the step in which the dual call returned, the inner call
	// that returned in that step - the last one - succeeded, and its snapshot is
	// what the peerstore holds now. Outside that sub-space the last inner call
	// may have failed after the other side's success and the clause is not
	// observable.
	if o.op.Err == nil && o.tConnBeforeLast && connNow {
		s.Count("probe_findpeer_union_checked")
		same := len(got) == len(have)
		for k := range have {
			same = same && got[k]
		}
		if !same {
			s.Violate("findpeer-union", "FindPeer returned [%s]; the WAN and LAN DHTs together know [%s] for the target", strings.Join(gotN, ","), strings.Join(haveN, ","))
		}
		fromW, fromL := false, false
		for k := range got {
			fromW = fromW || (w.t.saidSet[c15W][k] && !w.psStart[t][k])
			fromL = fromL || (w.t.saidSet[c15L][k] && !w.psStart[t][k])
		}
		if fromW && fromL {
			s.Count("probe_findpeer_union_disjoint")
		}
	}
	if o.op.Err != nil {
		s.Count("probe_findpeer_notfound")
	}
	s.State("findpeer err=%v n=%d conn=%v/%v", o.op.Err != nil, len(got), o.tConnBeforeLast, connNow)
}

func (w *c15World) judgeFindProvs(o *c15Op) {
	s := w.s
	res, _ := o.op.Result.([]peer.AddrInfo)
	var ids []peer.ID
	seen := map[peer.ID]bool{}
	for _, pi := range res {
		if seen[pi.ID] {
			s.Violate("fp-dup", "FindProvidersAsync yielded %s twice (%s)", w.u.Name(pi.ID), names(w.u, append(ids, pi.ID)))
		}
		seen[pi.ID] = true
		ids = append(ids, pi.ID)
	}
	s.Tracef("done %s findprovs count=%d res=%s", o.tag, o.count, names(w.u, ids))
	if o.count > 0 && len(res) > o.count {
		s.Violate("fp-count", "FindProvidersAsync(count=%d) yielded %d providers (%s)", o.count, len(res), names(w.u, ids))
	}
	// who delivered which provider first
	type dl struct {
		step int
		side string
	}
	first := map[peer.ID]dl{}
	both := map[peer.ID]map[string]bool{}
	for _, side := range []string{c15W, c15L} {
		from := o.wanFrom
		if side == c15L {
			from = o.lanFrom
		}
		for _, r := range w.keyRPCs(side, from, o.wire, -1) {
			if !r.Done || r.Resp == nil || r.DoneStep > o.endStep {
				continue
			}
			for _, m := range r.Resp.GetProviderPeers() {
				id := peer.ID(m.GetId())
				if f, ok := first[id]; !ok || r.DoneStep < f.step {
					first[id] = dl{r.DoneStep, side}
				}
				if both[id] == nil {
					both[id] = map[string]bool{}
				}
				both[id][side] = true
			}
		}
	}
	for _, id := range ids {
		if len(both[id]) == 2 {
			s.Count("probe_fp_provider_both_sides")
			break
		}
	}
	if o.count == 0 {
		s.Count("probe_fp_findall")
	}
	if o.count > 0 && len(res) >= o.count {
		o.racy = true
		s.Count("probe_fp_count_reached")
		sides := map[string]bool{}
		for _, id := range ids {
			sides[first[id].side] = true
		}
		if sides[c15W] && sides[c15L] {
			s.Count("probe_fp_count_across_both")
		}
	}
	s.State("findprovs count=%d n=%d", o.count, len(res))
}

// ---------------------------------------------------------------------------

func (w *c15World) finalProbes() {
	if w.stopObserve || w.s.Failed() {
		return
	}
	for _, cp := range w.order {
		id := cp.p.ID
		if w.psOnlyRef[id] && !w.refAdm[id] && !w.everWanRT[id] && w.contacted[id] {
			w.s.Count("probe_referral_admitted_by_peerstore")
		}
		cls := w.hiddenRef[id]
		if cls == "" {
			continue
		}
		if w.lateAdmit[id] {
			w.s.Count("probe_referral_admitted_later")
		}
		if !w.contacted[id] && !w.admissible[id] {
			w.s.Count("probe_referral_" + cls + "_dropped")
		}
	}
}

func c15Run(s *sim.Sim, faulty bool, focus string) {
	s.MaxSteps = 1500
	w := c15Build(s, faulty, focus)
	if focus == "optprov" {
		w.warmUp()
	}
	for _, o := range w.ops {
		if !w.runOp(o) {
			break
		}
	}
	w.finalProbes()
	// (dual-write-errors: a write refused before any traffic is still an
	// evaluation of the clause - the other side must stay untouched)
	s.NonTrivial = w.traffic || w.refused
	for _, o := range w.ops {
		if o.cancel != nil {
			o.cancel()
		}
	}
	closeAndCensus(s, func() {
		_ = w.d.Close()
		_ = w.host.Close()
	})
	s.Finish()
}
