//go:build all || c15

package scen

// C15, dual GetValue whose caller gives up in mid-search: "GetValue returns the
// WAN result when the WAN lookup SUCCEEDS and otherwise the LAN result ... for
// every combination of ... per-DHT results and errors ... and every arrival
// order of the two DHTs' results".
//
// Why a further scenario. In the other C15 scenarios the caller's context
// lives until GetValue has returned, so every inner lookup runs to its end and
// "the lookup succeeded" coincides with "the lookup received a valid record".
// The clause, however, is about SUCCESS: a lookup that is cut short - the
// caller cancels, or the caller's deadline passes, while requests of the lookup
// are still unanswered - has not succeeded, although it may already hold a
// record it received on the way (a per-DHT result in which a value and an error
// go together). Such a lookup must not win over the other side's finished one,
// and what it had collected must not be handed out as a success when the other
// side has nothing. This scenario generates those per-DHT results:
//
//   the world, the scripted responders and the scheduler are those of c15.go
//   (dual.New on one simulated host, disjoint WAN / LAN populations holding
//   disjoint sets of valid values or none, failing dials and requests); only
//   GetValue is run (1..3 calls, fresh key each). For each call a drawn number
//   of scheduler steps (answers to dials and requests of either side, in a
//   drawn order, optionally one side's calls first) after which the caller's
//   context ends, either by cancellation or - the call was then started with a
//   deadline - by advancing virtual time past the deadline. The run ends with
//   the first call that was cut.
//
// Oracle. At the quiescent point right before the context ends (nothing runs
// between that point and the cancellation; virtual time only moves while every
// goroutine is blocked) each side is classified from the harness' own seams:
//
//   pending(X): a GET_VALUE request for the call's key on X's message sender,
//     or a dial of a peer of X's population, has not been released yet. Then
//     X's lookup has not returned: an inner lookup under a live context returns
//     only after every dial and request it issued has returned (also those it
//     abandoned itself: it waits for them), and before the cut nobody but the
//     dual DHT can end X's context - which it does only after the WAN lookup
//     SUCCEEDED, when the answer is the WAN's anyway. X's lookup is cut short
//     by the context's end: it did not succeed.
//   otherwise X's lookup has finished before the cut, and it succeeded iff a
//     valid record was delivered to it (as in c15.go).
//   Corrective PUT_VALUEs are not counted: they are sent after a lookup's end
//     under the instance's own context and outlive the call.
//   Populations are disjoint and the shared target peer is referred by nobody
//     in this scenario, so every dial belongs to one side. Should a pending
//     dial of a shared peer exist all the same, the cut is postponed.
//
//   getvalue-wan       WAN finished before the cut with a valid record (or no
//                      cut): nil error, one of the WAN values (as in c15.go).
//   getvalue-cut-lan   WAN cut short (whatever it received), LAN finished
//                      before the cut with a valid record: "otherwise the LAN
//                      result" - nil error and one of the valid LAN values.
//   getvalue-lan       WAN finished without a valid record, LAN finished with
//                      one (as in c15.go).
//   getvalue-cut-none  a side was cut short and the other one did not succeed
//                      either (cut short as well, or finished without a valid
//                      record): neither lookup succeeded - an error, not a
//                      value collected by an unfinished lookup.
//   getvalue-none      no cut, no valid record on either side: an error.
//   no-return, panic   as in c15.go; in particular the call returns once the
//                      cancelled dials and requests have observed their
//                      cancellation.
//
// Not constrained: WHICH error is returned; the value of `result` when an
// error is returned.
//
// Determinism: after the cut every pending call only observes its
// cancellation (c15.go); the lookups start nothing new under an ended context.
// The cut is taken at a quiescent point, so no delivered record is still on
// its way to the search when the context ends.

import (
	"time"

	pb "github.com/libp2p/go-libp2p-kad-dht/pb"
	"github.com/libp2p/go-libp2p/core/peer"

	"verif/sim"
	"verif/simnet"
)

func init() {
	sim.Register(&sim.Scenario{Prop: "C15", Name: "dual-getvalue-cut", Weight: 2, Run: func(s *sim.Sim) { c15Run(s, true, "getcut") },
		Real: []string{"dual.New option layering", "dual.DHT.GetValue (choice between the two inner results, LAN cancellation)", "two IpfsDHT instances (GetValue/SearchValue, lookup engine under a caller context that ends in mid-search)"},
		Stub: []string{"host.Host/network (simhost, one host shared by WAN and LAN)", "two pb.MessageSenders (level A, simnet.Sender)", "remote peers (scripted responders: referrals, records, failures)", "record validator (harness rank validator)"},
		Faults: []string{"fault_dial_fail", "fault_rpc_error", "time_advance", "cancel_observed",
			"fault_caller_cancel", "fault_caller_deadline",
			"probe_cut_wan_unfinished_holds_record", "probe_cut_wan_holds_record_lan_succeeded", "probe_cut_wan_holds_record_lan_found_nothing",
			"probe_cut_wan_unfinished_lan_succeeded", "probe_cut_lan_unfinished_holds_record_wan_found_nothing", "probe_cut_both_unfinished", "probe_cut_both_unfinished_hold_records",
			"probe_cut_point_not_reached", "probe_cut_one_side_answered_first",
			"probe_getvalue_wan_wins", "probe_getvalue_wan_wins_lan_finished_first", "probe_getvalue_lan_fallback", "probe_getvalue_none", "probe_getvalue_wan_invalid_only"},
	})
}

// drawCut: when the caller of this GetValue gives up (tape value 0: never).
func (w *c15World) drawCut(o *c15Op) {
	s := w.s
	o.cutAfter = []int{-1, 1, 2, 3, 0, 4, 2, 3, 5, 7}[s.Draw("cut-after", 10)]
	// the steps counted: all, or only those of one side's calls
	o.cutUnit = []string{"", c15W, c15L}[s.Draw("cut-unit", 3)]
	if o.cutAfter >= 0 && s.Chance("cut-by-deadline", 1, 3) {
		o.deadline = []time.Duration{30 * time.Second, 5 * time.Second, 5 * time.Minute}[s.Draw("cut-deadline", 3)]
	}
}

// pendingSides: which side's lookup has calls that were not released yet
// (cancelled ones included: the lookup waits for them). unclear: a pending dial
// cannot be attributed to one side.
func (w *c15World) pendingSides(o *c15Op) (pend map[string]bool, unclear bool) {
	pend = map[string]bool{}
	for _, p := range w.s.Parked() {
		switch p.Kind {
		case "dial":
			cp := w.peers[p.Data.(peer.ID)]
			if cp == nil || cp.side == c15B {
				unclear = true
				continue
			}
			pend[cp.side] = true
		case "rpc":
			if r := p.Data.(*simnet.RPC); string(r.Req.GetKey()) == o.wire && r.Req.GetType() == pb.Message_GET_VALUE {
				pend[c15SideOfPark(p)] = true
			}
		}
	}
	return pend, unclear
}

// noteCut records that the caller's context ended while the call had not
// returned; pend/unclear describe the quiescent point right before.
func (w *c15World) noteCut(o *c15Op, how string, pend map[string]bool, unclear bool) {
	o.cut, o.cutHow, o.cutPending = true, how, pend
	// not returned, yet neither side pending: not a state the classification covers
	o.cutUnclear = unclear || (!pend[c15W] && !pend[c15L])
}

// cutCaller ends the caller's context now. It returns false when the cut has
// to wait (a pending dial that cannot be attributed).
func (w *c15World) cutCaller(o *c15Op) bool {
	s := w.s
	pend, unclear := w.pendingSides(o)
	if unclear {
		s.Count("probe_cut_postponed")
		return false
	}
	how := "cancel"
	if o.deadline > 0 {
		how = "deadline"
	}
	s.Tracef("cut %s %s pending wan=%v lan=%v", o.tag, how, pend[c15W], pend[c15L])
	w.noteCut(o, how, pend, false)
	if o.deadline > 0 {
		s.Count("fault_caller_deadline")
		s.Sleep(o.startAt + o.deadline - s.Now() + time.Millisecond)
	} else {
		s.Count("fault_caller_cancel")
		o.cancel()
		s.Quiesce()
	}
	return true
}

// sleepWatched advances virtual time; should the caller's deadline pass
// meanwhile (before the drawn cut point), that is the cut.
func (w *c15World) sleepWatched(o *c15Op, d time.Duration) {
	s := w.s
	if o.cutAfter < 0 || o.cut || o.op.Done || o.ctx.Err() != nil {
		s.Sleep(d)
		return
	}
	pend, unclear := w.pendingSides(o)
	s.Sleep(d)
	if o.ctx.Err() != nil {
		s.Tracef("cut %s deadline passed during a pause, pending wan=%v lan=%v", o.tag, pend[c15W], pend[c15L])
		s.Count("fault_caller_deadline")
		w.noteCut(o, "deadline", pend, unclear)
	}
}

// actionSide: the side whose call an action releases ("" if none).
func (w *c15World) actionSides(acts []sim.Action) []string {
	byID := map[string]*sim.Parked{}
	for _, p := range w.s.Parked() {
		byID[p.ID] = p
		byID["cancel>"+p.ID] = p
	}
	out := make([]string, len(acts))
	for i, a := range acts {
		p := byID[a.ID]
		if p == nil {
			continue
		}
		switch p.Kind {
		case "dial":
			if cp := w.peers[p.Data.(peer.ID)]; cp != nil && cp.side != c15B {
				out[i] = cp.side
			}
		case "rpc":
			out[i] = c15SideOfPark(p)
		}
	}
	return out
}

// preferSide (dual-getvalue-cut only). With a drawn preference, one side's
// pending calls are answered (or observe their cancellation) before the other
// side's - the extreme arrival orders of the two results. Every action also
// counts the operation's steps, in total and per side (the cut point's unit).
func (w *c15World) preferSide(o *c15Op, acts []sim.Action) []sim.Action {
	if w.focus != "getcut" {
		return acts
	}
	sides := w.actionSides(acts)
	var out []sim.Action
	for i, a := range acts {
		side, do := sides[i], a.Do
		if w.prio != "" && side != w.prio {
			continue
		}
		out = append(out, sim.Action{ID: a.ID, Do: func() {
			o.sideSteps[side]++
			do()
		}})
	}
	if len(out) == 0 {
		// nothing of the preferred side is pending
		for i, a := range acts {
			side, do := sides[i], a.Do
			out = append(out, sim.Action{ID: a.ID, Do: func() {
				o.sideSteps[side]++
				do()
			}})
		}
		return out
	}
	if w.prio != "" && len(out) < len(acts) {
		w.s.Count("probe_cut_one_side_answered_first")
	}
	return out
}

// cutDue: the drawn cut point is reached.
func (w *c15World) cutDue(o *c15Op) bool {
	if o.cutAfter < 0 || o.cut || o.op.Done {
		return false
	}
	if o.cutUnit == "" {
		return o.opSteps >= o.cutAfter
	}
	return o.sideSteps[o.cutUnit] >= o.cutAfter
}

// cutProbes: which of the states the clause distinguishes this cut produced.
func (w *c15World) cutProbes(o *c15Op, wanRec, lanRec bool) {
	s := w.s
	cutW, cutL := o.cutPending[c15W], o.cutPending[c15L]
	switch {
	case cutW && cutL:
		s.Count("probe_cut_both_unfinished")
		if wanRec && lanRec {
			s.Count("probe_cut_both_unfinished_hold_records")
		}
	case cutW:
		if lanRec {
			s.Count("probe_cut_wan_unfinished_lan_succeeded")
		}
		if wanRec && lanRec {
			s.Count("probe_cut_wan_holds_record_lan_succeeded")
		}
		if wanRec && !lanRec {
			s.Count("probe_cut_wan_holds_record_lan_found_nothing")
		}
	case cutL:
		if lanRec && !wanRec {
			s.Count("probe_cut_lan_unfinished_holds_record_wan_found_nothing")
		}
	}
	if cutW && wanRec {
		s.Count("probe_cut_wan_unfinished_holds_record")
	}
}
