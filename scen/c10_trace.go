//go:build all || c10

package scen

// C10: a minimal OpenTelemetry tracer provider whose spans are RECORDING for
// the calls the scenario chose to trace.
//
// Why. The property quantifies over every response and names no configuration:
// "no response a remote peer can send can crash the requesting node" holds for
// a node whose embedding application has installed an OpenTelemetry SDK just
// as for one that has not. With the default (no-op) global provider every
// `if span.IsRecording() { ... }` block of the library is dead code, and those
// blocks are exactly where the library reads the *decoded response* a second
// time (peer lists, records) to describe it in span attributes. The class of
// regressions this exposes: anything that can panic or block inside
// tracing-only code on an adversarial (or perfectly ordinary) response.
//
// How. The OTel SDK is not a dependency of the module; the public API
// (go.opentelemetry.io/otel, .../trace, already dependencies of the library)
// is enough to write a provider. Sampling is decided per call by a value the
// scenario puts into the call's context (a sampler that samples some spans
// and not others is the normal case), so there is no mutable process-wide
// switch: a context without the marker gets the API's own no-op span, which
// is what the default global provider hands out as well. The provider is
// installed at the start of the C10 runs that can trace (idempotent; worker
// processes run one property), never in processes of other properties.
//
// The span does nothing with what it is given except count the calls, which
// the scenario reads after the call returned (probes).

import (
	"context"
	"sync/atomic"

	"go.opentelemetry.io/otel"
	"go.opentelemetry.io/otel/attribute"
	"go.opentelemetry.io/otel/trace"
	"go.opentelemetry.io/otel/trace/embedded"
	"go.opentelemetry.io/otel/trace/noop"
)

type c10TraceKey struct{}

// c10TraceStats is carried by the context of a traced call.
type c10TraceStats struct {
	spans atomic.Int64 // recording spans started under the call's context
	attrs atomic.Int64 // SetAttributes calls on them
}

// c10InstallTracing makes c10TracerProvider the process-wide provider.
func c10InstallTracing() {
	if _, ok := otel.GetTracerProvider().(c10TracerProvider); !ok {
		otel.SetTracerProvider(c10TracerProvider{})
	}
}

// c10Traced marks ctx (and every context derived from it) as sampled.
func c10Traced(ctx context.Context) (context.Context, *c10TraceStats) {
	st := &c10TraceStats{}
	return context.WithValue(ctx, c10TraceKey{}, st), st
}

type c10TracerProvider struct{ embedded.TracerProvider }

func (c10TracerProvider) Tracer(string, ...trace.TracerOption) trace.Tracer { return c10Tracer{} }

type c10Tracer struct{ embedded.Tracer }

var c10NoopTracer = noop.NewTracerProvider().Tracer("")

var c10SpanContext = trace.NewSpanContext(trace.SpanContextConfig{
	TraceID:    trace.TraceID{0xc1, 0x0c, 0x10},
	SpanID:     trace.SpanID{0xc1, 0x0c, 0x10},
	TraceFlags: trace.FlagsSampled,
})

func (c10Tracer) Start(ctx context.Context, name string, opts ...trace.SpanStartOption) (context.Context, trace.Span) {
	st, _ := ctx.Value(c10TraceKey{}).(*c10TraceStats)
	if st == nil {
		return c10NoopTracer.Start(ctx, name, opts...)
	}
	st.spans.Add(1)
	sp := c10Span{st: st}
	return trace.ContextWithSpan(ctx, sp), sp
}

// c10Span: every operation is the no-op span's, except that the span says it
// is recording, has a valid sampled span context and counts SetAttributes.
type c10Span struct {
	noop.Span
	st *c10TraceStats
}

func (c10Span) IsRecording() bool                      { return true }
func (c10Span) SpanContext() trace.SpanContext         { return c10SpanContext }
func (c10Span) TracerProvider() trace.TracerProvider   { return c10TracerProvider{} }
func (sp c10Span) SetAttributes(...attribute.KeyValue) { sp.st.attrs.Add(1) }
