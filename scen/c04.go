//go:build all || c04

package scen

// C04 - value lookups only ever yield validator-approved, best-known values.
//
// Harness H1 (message level): one real client (standard IpfsDHT here; the
// accelerated and the dual client live in c04_fullrt.go / c04_dual.go) whose
// GET_VALUE requests are answered by scripted responders serving every mixture
// of valid / stale / invalid / mis-keyed / empty / missing records - and
// byte-identical copies of the record the client stores itself, whatever state
// that record is in (valid, expired before the search, expiring during it) -
// in every arrival order, for every quorum. The oracle only uses observables: the
// replies the simulator delivered (and the virtual instant and the state of
// the output channel at the quiescent point before each delivery), the values
// that came out of the SearchValue channel / GetValue, and the harness' own
// validator (never the client's bookkeeping).
//
// Inputs drawn since wave 5 (each is part of "for every assignment of ...
// records to responders and to local storage, every quorum"; none adds a rule
// of its own except where said):
//
//   - the routing options of the call: Quorum(q), routing.Offline,
//     routing.Expired in every combination, on all clients. The property makes
//     no exception for any option: whatever the caller passes, only
//     validator-approved values supplied to THIS search may come out. (A client
//     that serves an Offline call from local storage alone supplies nothing
//     from peers; the rules then only look at the local record.)
//   - local storage holding a record that never was valid for the requested key
//     (written straight to the datastore: garbage, a value that belongs to
//     another key, another peer's public key under /pk/<id>, an empty value, a
//     record filed under another key): rule yield-invalid-local, the same
//     clause as yield-expired-local ("only yield values that the configured
//     validator accepts ... supplied by local storage").
//   - the requester's MaxRecordAge (far beyond the run, unset, disabled, 30
//     minutes, 6 hours) and the time-received stamp of every record a responder
//     serves (none, recent, older than the requester's maximum age, far in the
//     future, unparsable). The stamp is the sender's bookkeeping; the property
//     ranks supplied values by the validator alone, so best-known /
//     valid-value-lost / not-found apply unchanged. A LOCAL record that may have
//     outlived the requester's maximum age by the end of the search is no longer
//     "supplied by local storage" for sure: it is then neither demanded nor
//     held against the client (boundary instants stay unconstrained).
//   - value-lazy-* (c04_lazy.go): a SearchValue consumer that reads only when
//     the scheduler says so and pauses for virtual minutes between reads while
//     answers pile up behind it.
//
// Inputs and seams drawn since wave 6 (c04_wave6.go says which clause each one
// exercises): requested keys outside the configured validator's namespaces
// (with responders and local storage holding correctly keyed records for
// them), clients without any starting point (empty routing table; the
// accelerated client before its first crawl ended or after a crawl that found
// nobody), and - on the accelerated client - the validator as a
// scheduler-owned seam, so that validations of concurrently received answers
// complete in any order relative to each other and to further deliveries.
//
// Input drawn since wave 12: WHICH namespace the node's configuration gives to
// the rank validator (c04Cfg.NS): one of the harness' own ("r", installed next
// to the validators the library ships), or one for which the library ships a
// validator itself ("pk", "ipns" - the NamespacedValidator option then replaces
// the shipped one; the Validator option is not used and the protocol prefix is
// not the public network's, the only setting in which the library lets an
// application do that). "The configured validator" of the property is what the
// application configured, for every namespace it configured; no rule is added,
// the oracle's copy of the validator (c04NSVFor) simply follows the drawn
// configuration, and every existing rule reads it:
//   - yield-invalid / yield-invalid-local ("only yield values that the
//     configured validator accepts for the requested key"): for half of the
//     "pk" runs the requested key is a real /pk/<peer ID> key and responders
//     (invalid sub-kind 4) and local storage (planted record) hold that
//     peer's genuine public key - a value that the validator the library
//     ships for the namespace accepts and the configured one refuses;
//   - best-known / valid-value-lost / notfound-value ("the final value is
//     ranked at least as good as every valid value supplied ..."): the values
//     the configured validator accepts are values a shipped validator refuses.
//   Both directions expose every regression in which a value search (or the
//   store behind PutValue / the local read) judges records of a configured
//   namespace with anything but the configured validator: defaults applied
//   over the configuration, a validator looked up by a hard-wired namespace, a
//   client variant (accelerated, dual) assembling its validator differently.
//   Left out: GetPublicKey under a replaced "pk" validator (c04_pk.go keeps the
//   shipped one): its ask-the-peer-itself path checks that the key hashes to
//   the peer ID (the second clause of the property) and does not consult the
//   validator; whether a replaced "pk" validator also binds that path is not
//   decided by this scenario.

import (
	"bytes"
	"context"
	"errors"
	"fmt"
	"hash/fnv"
	"sort"
	"strings"
	"time"

	dht "github.com/libp2p/go-libp2p-kad-dht"
	"github.com/libp2p/go-libp2p-kad-dht/amino"
	pb "github.com/libp2p/go-libp2p-kad-dht/pb"
	record "github.com/libp2p/go-libp2p-record"
	recpb "github.com/libp2p/go-libp2p-record/pb"
	"github.com/libp2p/go-libp2p/core/peer"
	"github.com/libp2p/go-libp2p/core/routing"
	"google.golang.org/protobuf/proto"

	"verif/sim"
	"verif/simds"
	"verif/simhost"
	"verif/simnet"
)

func init() {
	sim.Register(&sim.Scenario{Prop: "C04", Name: "value-standard", Weight: 4, Run: func(s *sim.Sim) { c04RunValue(s, "standard", false) },
		Real: []string{"IpfsDHT.GetValue/SearchValue/searchValueQuorum/getValues/processValues (routing.go)", "ProtocolMessenger.GetValue (record key check)", "query.go lookup + follow-up", "records.ValueStore (local record)", "go-libp2p-record NamespacedValidator dispatch"},
		Stub: []string{"host.Host/network (simhost)", "pb.MessageSender (level A, simnet.Sender)", "remote peers (scripted responders)", "record validator (harness rank validator, time-aware)", "datastore (simds, not parking)"},
		Faults: []string{"fault_rec_invalid", "fault_rec_miskeyed", "fault_rec_empty", "fault_rpc_error", "fault_dial_fail", "fault_cancel", "time_advance",
			"probe_found", "probe_notfound", "probe_stream_multi", "probe_search_ended_early", "probe_local_valid", "probe_local_expired", "probe_local_expired_midsearch", "probe_peer_serves_local_bytes_valid", "probe_peer_serves_local_bytes_expired_at_start", "probe_peer_serves_local_bytes_expired_midsearch", "probe_value_expired_midsearch", "probe_bestknown_checked",
			"probe_opt_offline", "probe_opt_expired", "probe_opt_offline_local_not_valid", "probe_local_never_valid", "probe_local_outlived_max_age", "probe_stamp_valid_value_held_past_requesters_max_age", "probe_stamp_valid_value_from_the_future", "probe_stamp_valid_value_unparsable",
			"probe_key_outside_namespaces", "probe_key_outside_record_acceptable_to_unregistered_validator", "probe_key_outside_local_record", "probe_key_registered_namespace_empty_rest_found",
			"probe_no_starting_points", "probe_no_starting_points_local_valid",
			"probe_ns_configured_in_place_of_shipped_pk", "probe_ns_configured_in_place_of_shipped_ipns", "probe_ns_configured_in_place_of_shipped_local_record", "probe_ns_record_acceptable_to_shipped_validator_only", "probe_ns_local_record_acceptable_to_shipped_validator_only"},
	})
}

// ---------------------------------------------------------------------------
// configuration and world

type c04Kind int

const (
	c04Valid    c04Kind = iota // correctly keyed record whose value the validator accepts (when not yet expired)
	c04Invalid                 // correctly keyed record whose value the validator rejects
	c04MisKeyed                // record filed under another key than the requested one
	c04Empty                   // correctly keyed record without a value
	c04NoRecord                // closer peers only
	c04ReqError                // the request fails
	// c04LocalCopy: correctly keyed record carrying exactly the bytes of the
	// record in the client's own storage (a peer that holds the very record the
	// node holds: the common case for a node that published or relayed it).
	// Whether that is a valid record is the validator's business at the delivery
	// instant, exactly as for every other supplied record: the local record may
	// be valid, expired before the search started, or expire while it runs.
	c04LocalCopy
	// c04Replay (histories only, c04_history.go): a record carrying exactly the
	// bytes that an earlier search on the same client saw (supplied by a peer,
	// yielded, or held in local storage under some key), filed under the key
	// requested now or - a verbatim replay - under the key it was first seen
	// with. Whether that is a valid record for the requested key at the delivery
	// instant is, again, the validator's business alone.
	c04Replay
)

func (k c04Kind) String() string {
	return [...]string{"valid", "invalid", "miskeyed", "empty", "norecord", "error", "localcopy", "replay"}[k]
}

// c04Resp is the script of one responder.
type c04Resp struct {
	Kind     c04Kind
	Sub      int
	Val      []byte
	NilVal   bool // Empty: nil value (else zero-length)
	RecKey   string
	Knows    []*simnet.Peer
	DialFail bool
}

type c04Cfg struct {
	Variant           string // standard | fullrt | dual
	N, K, Alpha, Beta int
	Quorum            int  // -1: no Quorum option passed
	Search            bool // SearchValue (streaming) or GetValue
	Key, Other        string
	// Local: 0 nothing, 1 valid, 2 valid when stored but expired when the search
	// starts, 3 valid and time passes, 4 valid when the search starts and
	// expiring a few virtual seconds later (while the search may still run)
	Local     int
	LocalRank int
	// LocalCopies: how many responders serve the bytes of the local record
	// (c04LocalCopy): 0 none, 1 few, 2 about half, 3 all
	LocalCopies int
	CancelAt    int
	Profile     int
	Ranks       int
	// routing options next to Quorum
	Offline, Expired bool
	// LocalPlant (Local == 5): what is written straight to the datastore in
	// place of the stored record (c04Plant*)
	LocalPlant int
	// MaxAge: index into c04MaxAges (the requester's MaxRecordAge option)
	MaxAge int
	// Stamps: time-received stamps on served records: 0 none, 1 every kind,
	// 2 mostly "older than the requester's maximum age"
	Stamps    int
	StampSeed int
	// Lazy: the SearchValue consumer reads only when the scheduler says so
	Lazy bool
	// KeyClass: where the requested key lies relative to the configured
	// validator's namespaces (c04Key*, c04_wave6.go)
	KeyClass int
	// NoPeers: the client has no starting point: 1 empty routing table (the
	// accelerated client: a crawl that found nobody), 2 the accelerated
	// client's first crawl is still running
	NoPeers int
	// SlowVal: the client's validator is a scheduler-owned seam (accelerated
	// client only, c04_wave6.go)
	SlowVal bool
	// NS: the namespace the node is CONFIGURED to validate with the rank
	// validator ("" = "r"; "pk" / "ipns": the namespaces for which the library
	// ships validators of its own - the configuration replaces them, wave 12)
	NS string
	// StockRec (NS == "pk", the requested key is a real /pk/<peer ID> key): a
	// value that the validator the library ships for that namespace accepts
	// for the requested key, and the configured validator refuses
	StockRec []byte
}

// ns is the namespace under which the rank validator is configured.
func (c c04Cfg) ns() string {
	if c.NS == "" {
		return "r"
	}
	return c.NS
}

// c04MaxAge is one choice of the requester's MaxRecordAge option.
type c04MaxAge struct {
	Set bool
	D   time.Duration
}

// c04MaxAges: index 0 is the benign choice (far beyond any run).
var c04MaxAges = []c04MaxAge{{true, 100000 * time.Hour}, {false, 0}, {true, 0}, {true, 30 * time.Minute}, {true, 6 * time.Hour}}

// bound is the age from which on a node configured with this choice may treat
// a record it holds as gone (0: never). For "unset" it is the library's
// documented default (amino.DefaultMaxRecordAge); a client that applies no
// default (the accelerated one) never ages records out, which the oracle
// tolerates as well: beyond the bound the local record is unconstrained.
func (m c04MaxAge) bound() time.Duration {
	switch {
	case !m.Set:
		return amino.DefaultMaxRecordAge
	case m.D <= 0:
		return 0
	}
	return m.D
}

// what a planted local record (Local == 5) carries
const (
	c04PlantGarbage  = iota // correctly keyed record, value is not a rank value at all
	c04PlantOtherKey        // correctly keyed record, value that belongs to another key
	c04PlantBadRank         // correctly keyed record, malformed rank field
	c04PlantEmpty           // correctly keyed record without a value
	c04PlantMisKeyed        // record filed under another key (value fine for the requested key)
	c04PlantKinds
)

// c04Supply is one reply carrying a record that the simulator delivered.
type c04Supply struct {
	Step       int
	Peer       peer.ID
	Kind       c04Kind
	Val        []byte
	KeyOK      bool // the record is filed under the requested key
	ValidNow   bool // KeyOK and the validator accepts the value at the delivery instant
	OpenBefore bool // the output was still open at the quiescent point before this delivery
	// Backlog (lazy consumers): the caller was between two receives at that
	// quiescent point, so the record joined whatever was already queued for it
	Backlog bool
}

// c04Emit is one value that came out of the client.
type c04Emit struct {
	Val  []byte
	Step int
	At   time.Duration
	VErr error // harness validator at the instant the value was received
}

// c04Sut is what a client variant provides to the generic scenario.
type c04Sut struct {
	client routing.ValueStore
	pk     routing.PubKeyFetcher
	seed   func(peers []*simnet.Peer) // make these peers the starting points of lookups
	stored func(val []byte) bool      // is a record with this value in local storage
	// plant rewrites, straight in the datastore(s), the stored record carrying
	// old (it never goes through the client: "a record that was written by
	// somebody else / an older version / under another configuration")
	plant func(key string, old []byte, mutate func(*recpb.Record)) bool
	// dss: the datastore(s) behind the client's value store(s), for records
	// written by ANOTHER value store (c04World.foreignPut)
	dss   []*simds.DS
	close func()
	// lanSize (dual only): how many peers the LAN side's routing table holds
	// (public accessor; read for a probe, never for a verdict)
	lanSize func() int
}

type c04World struct {
	s    *sim.Sim
	cfg  c04Cfg
	u    *simnet.Universe
	host *simhost.Host
	sut  *c04Sut
	val  rankValidator
	// validate is the validator the oracle applies to supplied records (the
	// rank validator, or the real public-key validator in the /pk scenario)
	validate func(key string, val []byte) error
	// sel is the selection function that goes with validate (nil: the rank
	// validator's)
	sel  func(key string, vals [][]byte) (int, error)
	hist *c04Hist // multi-search histories only (c04_history.go)
	lazy *c04Lazy // lazy-consumer scenarios only (c04_lazy.go)
	slow *c04Slow // validator-seam runs only (c04_wave6.go)
	resp map[peer.ID]*c04Resp
	side map[peer.ID]string // dual: "wan" / "lan"

	localVal          []byte
	localStored       bool
	localValidAtStart bool
	localPlanted      bool          // the stored record was rewritten in the datastore: never valid for the key
	localForeign      bool          // the stored record was written by another value store: the key lies outside the client's namespaces
	localStoredAt     time.Duration // when the client stored it (its age counts from here)
	// lanEmptyAtStart (dual, probe only): the LAN side's routing table held
	// nobody at the quiescent point before the search started
	lanEmptyAtStart bool

	op         *Op
	startAt    time.Duration
	emits      []c04Emit
	traced     int
	supplies   []c04Supply
	cancelStep int
	endedEarly bool // the operation ended while GET_VALUE requests were still in flight
	ops        opSet
}

func c04GenCfg(s *sim.Sim, variant string, lazy bool) c04Cfg {
	c := c04Cfg{Variant: variant, Lazy: lazy}
	switch s.Draw("size-class", 3) {
	case 0:
		c.N = s.Range("n", 1, 5)
	case 1:
		c.N = s.Range("n", 3, 12)
	default:
		c.N = s.Range("n", 8, 24)
	}
	c.K = s.Range("k", 1, 8)
	c.Alpha = s.Range("alpha", 1, 5)
	c.Beta = s.Range("beta", 1, c.K+1)
	// -1: no Quorum option; small quorums (early stop) are deliberately frequent
	c.Quorum = []int{-1, 0, 1, 2, 3, 1, 2, 4, 6}[s.Draw("quorum", 9)]
	c.Search = s.Chance("search", 1, 2)
	c.Offline = s.Chance("opt-offline", 1, 4)
	c.Expired = s.Chance("opt-expired", 1, 6)
	if variant == "dual" && !c.Search && c.Quorum > 0 {
		// Determinism (HARNESS pitfall 3): when a quorum is reached the value
		// goroutine closes the stop channel while the lookup loop polls it
		// unsynchronised, so whether the lookup spawns one more round of requests
		// is the Go scheduler's choice. Everywhere else the operation is over at
		// that very quiescent point and the leftover is never scheduled; only
		// dual.GetValue keeps running (the WAN side) after its LAN side stopped
		// that way, so it runs without an early stop.
		c.Quorum = 0
	}
	n := s.Draw("key", 1<<12)
	// the namespace the rank validator is configured for: one of the harness'
	// own, or one for which the library ships a validator (see the header)
	c.NS = []string{"r", "r", "pk", "ipns"}[s.Draw("validator-namespace", 4)]
	c.Key = fmt.Sprintf("/%s/key-%d", c.NS, n)
	c.Other = fmt.Sprintf("/%s/other-%d", c.NS, n)
	if s.Chance("key-outside", 1, 5) {
		// outside the configured validator's namespaces (or, one class, on the
		// inner boundary); "other" stays a key of the registered namespace
		c.KeyClass = 1 + s.Draw("key-class", c04KeyClasses-1)
		c.Key = c04KeyOfClassNS(c.KeyClass, n, c.NS)
	} else if c.NS == "pk" && s.Chance("real-pk-key", 1, 2) {
		// a key of the shape applications use in that namespace: /pk/<peer ID>
		// of an existing (RSA) identity, whose public key some responders serve
		ks := c04Keys()
		i := s.Draw("pk-identity", len(ks))
		c.Key, c.Other = routing.KeyForPublicKey(ks[i].ID), routing.KeyForPublicKey(ks[(i+1)%len(ks)].ID)
		c.StockRec = ks[i].Raw
	}
	if s.Chance("no-starting-points", 1, 10) {
		c.NoPeers = 1
		if variant == "fullrt" && s.Chance("first-crawl-still-running", 1, 2) {
			c.NoPeers = 2
		}
	}
	if variant == "fullrt" && !lazy {
		c.SlowVal = s.Chance("validator-seam", 1, 3)
	}
	c.Profile = s.Draw("profile", 3)
	c.Ranks = s.Range("ranks", 1, 8)
	c.Local = s.Draw("local", 6)
	if c.Local != 0 {
		c.LocalRank = s.Draw("local-rank", 2*c.Ranks)
		c.LocalCopies = s.Draw("local-copies", 4)
	}
	if c.Local == 5 {
		c.LocalPlant = s.Draw("local-plant", c04PlantKinds)
	}
	if s.Chance("cancel", 1, 8) {
		c.CancelAt = s.Range("cancel-at", 1, 30)
	}
	c.MaxAge = s.Draw("max-record-age", len(c04MaxAges))
	if c.Stamps = s.Draw("stamps", 3); c.Stamps != 0 {
		c.StampSeed = s.Draw("stamp-seed", 1<<16)
	}
	if c.SlowVal && c.Local == 4 {
		c.Local = 1 // see c04_wave6.go: nothing expires while a validation is parked
	}
	if lazy {
		// see c04_lazy.go for what is left out of the lazy scenarios and why
		c.Search, c.CancelAt = true, 0
		if c.Quorum > 0 {
			c.Quorum = 0
		}
		if c.Local == 4 {
			c.Local = 1
		}
		c.Profile = []int{2, 1, 2}[c.Profile]
		// few responders, many ranks: the pipeline behind the result channel
		// holds at most three records, and which of them is the best one matters
		// most when it is not also held by a crowd of other responders
		if c.N > 10 {
			c.N = 3 + c.N%8
		}
		c.Ranks = 4 + 2*c.Ranks
	}
	return c
}

// c04Opts are the DHT options every variant shares: the rank validator under
// the drawn namespace ("r" next to the default ones, or in place of the
// default "pk" / "ipns" one) and the drawn MaxRecordAge.
func c04Opts(rv record.Validator, c c04Cfg) []dht.Option {
	opts := []dht.Option{dht.NamespacedValidator(c.ns(), rv)}
	if m := c04MaxAges[c.MaxAge]; m.Set {
		opts = append(opts, dht.MaxRecordAge(m.D))
	}
	return opts
}

// clientValidator is the validator the CLIENT gets under namespace "r": the
// rank validator itself, or the seam wrapper around it.
func (w *c04World) clientValidator() record.Validator {
	if w.slow != nil {
		return w.slow.v
	}
	return w.val
}

// c04RoutingOpts are the routing options of one call.
func (c c04Cfg) routingOpts() []routing.Option {
	var opts []routing.Option
	if c.Quorum >= 0 {
		opts = append(opts, dht.Quorum(c.Quorum))
	}
	if c.Offline {
		opts = append(opts, routing.Offline)
	}
	if c.Expired {
		opts = append(opts, routing.Expired)
	}
	return opts
}

// c04StoredIn reports whether ds holds a record carrying exactly val (scan of
// the whole content: the datastore key layout is not the harness' business).
func c04StoredIn(d *simds.DS, val []byte) bool {
	for _, raw := range d.Snapshot() {
		rec := new(recpb.Record)
		if proto.Unmarshal(raw, rec) == nil && bytes.Equal(rec.GetValue(), val) {
			return true
		}
	}
	return false
}

// c04PlantIn rewrites the record(s) in ds that are filed under key and carry
// exactly old (found by scanning the content, the datastore key layout is not
// the harness' business; the receive stamp the client wrote stays as it is).
func c04PlantIn(d *simds.DS, key string, old []byte, mutate func(*recpb.Record)) bool {
	snap := d.Snapshot()
	keys := make([]string, 0, len(snap))
	for k := range snap {
		keys = append(keys, k)
	}
	sort.Strings(keys)
	done := false
	for _, k := range keys {
		rec := new(recpb.Record)
		if proto.Unmarshal(snap[k], rec) != nil || string(rec.GetKey()) != key || !bytes.Equal(rec.GetValue(), old) {
			continue
		}
		mutate(rec)
		raw, err := proto.Marshal(rec)
		if err != nil {
			continue
		}
		d.Poke(k, raw)
		done = true
	}
	return done
}

func c04BuildStandard(w *c04World) error {
	d := simds.New(w.s, "ds")
	h, err := newH1(w.s, w.u, w.cfg.K, w.cfg.Alpha, w.cfg.Beta, append(c04Opts(w.clientValidator(), w.cfg), dht.Datastore(d))...)
	if err != nil {
		return err
	}
	w.host = h.Host
	w.sut = &c04Sut{
		client: h.DHT,
		pk:     h.DHT,
		seed:   func(peers []*simnet.Peer) { h.Seed(peers) },
		stored: func(val []byte) bool { return c04StoredIn(d, val) },
		plant:  func(key string, old []byte, m func(*recpb.Record)) bool { return c04PlantIn(d, key, old, m) },
		dss:    c04DSS(d),
		close: func() {
			_ = h.DHT.Close()
			_ = h.Host.Close()
		},
	}
	return nil
}

// genResponders scripts the responders. t0 is the virtual instant at which the
// search is about to start; "far" expiries lie far beyond anything a run can
// reach, "past" ones before t0, "soon" ones a few virtual seconds after t0 (so
// that a value can expire while the search is running).
func (w *c04World) genResponders(peers []*simnet.Peer, knowable []*simnet.Peer) {
	s, c := w.s, w.cfg
	rng := newSubRng(s, "responders")
	t0 := time.Now()
	far := func(i int) time.Time { return t0.Add(1000*time.Hour + time.Duration(i)*time.Nanosecond) }
	// weights: valid invalid miskeyed empty norecord error
	weights := [][]int{{0, 3, 3, 2, 4, 2}, {3, 3, 2, 1, 4, 2}, {10, 2, 2, 1, 1, 1}}[c.Profile]
	total := 0
	for _, x := range weights {
		total += x
	}
	density := []int{2, 4, 8}[s.Draw("density", 3)]
	failDial := s.Chance("dial-faults", 1, 3)
	var valids []*c04Resp
	for i, p := range peers {
		r := &c04Resp{RecKey: c.Key}
		x := rng.Intn(total)
		for k, wt := range weights {
			if x < wt {
				r.Kind = c04Kind(k)
				break
			}
			x -= wt
		}
		// a holder of the very record the node stores itself (whatever client is
		// under test; whatever the record's state is by now)
		if w.localVal != nil && c.LocalCopies > 0 && rng.Intn(8) < []int{0, 1, 4, 8}[c.LocalCopies] {
			r.Kind = c04LocalCopy
		}
		switch r.Kind {
		case c04LocalCopy:
			r.Val = w.localVal
		case c04Valid:
			switch {
			case len(valids) > 0 && rng.Intn(4) == 0: // byte-identical to another responder's value
				r.Val = valids[rng.Intn(len(valids))].Val
			case !c.Lazy && !c.SlowVal && rng.Intn(6) == 0: // expires while the search may still be running
				r.Sub = 1
				r.Val = rankValue(rng.Intn(c.Ranks), t0.Add(time.Duration(1+rng.Intn(4000))*time.Millisecond+time.Duration(i)), c.Key)
			default:
				r.Val = rankValue(rng.Intn(c.Ranks), far(i), c.Key)
			}
			valids = append(valids, r)
		case c04Invalid:
			r.Sub = rng.Intn(4)
			rank := rng.Intn(2 * c.Ranks)
			if c.StockRec != nil && rng.Intn(2) == 0 {
				r.Sub = 4
			}
			switch r.Sub {
			case 4: // a value that ANOTHER validator for this namespace (the one the library ships) accepts for the requested key
				r.Val = c.StockRec
			case 0: // not a rank value at all
				r.Val = []byte(fmt.Sprintf("garbage-%d", i))
			case 1: // expired before the search started
				r.Val = rankValue(rank, t0.Add(-time.Duration(1+rng.Intn(5000))*time.Millisecond-time.Duration(i)), c.Key)
			case 2: // a fine value, for another key
				r.Val = rankValue(rank, far(i), c.Other)
			default: // bad rank field
				r.Val = []byte(fmt.Sprintf("-%d|%d|%s", 1+rank, far(i).UnixNano(), c.Key))
			}
		case c04MisKeyed:
			r.Sub = rng.Intn(3)
			rank := rng.Intn(2 * c.Ranks)
			switch r.Sub {
			case 0: // value fine for the requested key, record filed under another key
				r.RecKey, r.Val = c.Other, rankValue(rank, far(i), c.Key)
			case 1: // a consistent record for another key
				r.RecKey, r.Val = c.Other, rankValue(rank, far(i), c.Other)
			default: // record without a key
				r.RecKey, r.Val = "", rankValue(rank, far(i), c.Key)
			}
		case c04Empty:
			r.NilVal = rng.Intn(2) == 0
		}
		for _, q := range knowable {
			if q != p && rng.Intn(8) < density {
				r.Knows = append(r.Knows, q)
			}
		}
		if failDial && rng.Intn(8) == 0 {
			r.DialFail = true
		}
		w.resp[p.ID] = r
	}
}

// replyFor builds the GET_VALUE reply of responder x.
func (w *c04World) replyFor(x *simnet.Peer, r *c04Resp, req *pb.Message) *pb.Message {
	var cands []*simnet.Peer
	for _, p := range r.Knows {
		if p != x {
			cands = append(cands, p)
		}
	}
	near := simnet.Nearest(cands, simnet.KadOfKey(string(req.GetKey())), w.cfg.K)
	resp := &pb.Message{Type: req.GetType(), Key: req.GetKey(), CloserPeers: simnet.ToPB(near)}
	switch r.Kind {
	case c04Valid, c04Invalid, c04MisKeyed, c04LocalCopy, c04Replay:
		resp.Record = &recpb.Record{Key: []byte(r.RecKey), Value: append([]byte{}, r.Val...)}
	case c04Empty:
		resp.Record = &recpb.Record{Key: []byte(r.RecKey)}
		if !r.NilVal {
			resp.Record.Value = []byte{}
		}
	}
	if resp.Record != nil {
		_, resp.Record.TimeReceived = w.stampOf(x.ID)
	}
	return resp
}

// time-received stamps a responder puts on the record it serves
const (
	c04StampNone       = iota
	c04StampRecent     // received a moment ago
	c04StampOld        // held for longer than the REQUESTER's maximum record age
	c04StampFuture     // far in the future (clock skew)
	c04StampUnparsable // not a time at all
)

// stampOf is the time-received stamp responder p puts on its record now: the
// kind is fixed per responder and run (a hash of the drawn stamp seed and the
// peer ID), the instant is relative to the responder's "now". It is the
// sender's private bookkeeping: nothing in the property lets it decide whether
// a supplied value counts.
func (w *c04World) stampOf(p peer.ID) (kind int, stamp string) {
	c := w.cfg
	if c.Stamps == 0 {
		return c04StampNone, ""
	}
	h := fnv.New64a()
	fmt.Fprintf(h, "%d|%s", c.StampSeed, string(p))
	x := h.Sum64()
	kind = int(x % 5)
	if c.Stamps == 2 && (x>>8)%2 == 0 {
		kind = c04StampOld
	}
	x >>= 16
	now := time.Now().UTC()
	switch kind {
	case c04StampRecent:
		stamp = now.Add(-time.Duration(x%3600) * time.Second).Format(time.RFC3339Nano)
	case c04StampOld:
		age := c04MaxAges[c.MaxAge].bound()
		if age == 0 {
			age = 20000 * time.Hour
		}
		stamp = now.Add(-age - time.Duration(1+x%100000)*time.Second).Format(time.RFC3339Nano)
	case c04StampFuture:
		stamp = now.Add(time.Duration(1+x%100000) * time.Hour).Format(time.RFC3339Nano)
	case c04StampUnparsable:
		stamp = []string{"yesterday", "2001-02-30T25:61:00Z", "0000-00-00T00:00:00Z", "1234567890"}[x%4]
	}
	return kind, stamp
}

// outputOpen: the client has not finished handing out values (GetValue has not
// returned / the SearchValue channel has not been closed). Read at quiescent
// points only.
func (w *c04World) outputOpen() bool { return w.op != nil && !w.op.Done }

func (w *c04World) actions() []sim.Action {
	s := w.s
	var acts []sim.Action
	for _, p := range s.Parked() {
		p := p
		if p.Cancelled() {
			acts = append(acts, sim.Action{ID: "cancel>" + p.ID, Do: func() { s.ReleaseCancelled(p) }})
			continue
		}
		switch p.Kind {
		case "dial":
			who := p.Data.(peer.ID)
			acts = append(acts, sim.Action{ID: p.ID, Do: func() {
				if w.hist != nil {
					w.hist.contacted[who] = true
				}
				if r := w.resp[who]; r == nil || r.DialFail {
					s.Count("fault_dial_fail")
					s.Release(p, simhost.ErrDialFailed)
				} else {
					s.Release(p, nil)
				}
			}})
		case "rpc":
			rpc := p.Data.(*simnet.RPC)
			if w.lazy != nil && !w.lazy.room(w, rpc) {
				continue // enabled again once the consumer has read
			}
			if w.slow != nil && !w.slow.room(w, rpc) {
				continue // enabled again once a validation has completed
			}
			acts = append(acts, sim.Action{ID: p.ID, Do: func() { w.answer(p, rpc) }})
		case "consume":
			acts = append(acts, w.lazy.actions(w, p)...)
		case "validate":
			if w.slow != nil {
				acts = append(acts, sim.Action{ID: p.ID, Do: func() { w.slow.complete(w, p) }})
			}
		}
	}
	return acts
}

// answer releases one parked request with the addressed responder's reply and
// records what was supplied.
func (w *c04World) answer(p *sim.Parked, rpc *simnet.RPC) {
	s := w.s
	r, x := w.resp[rpc.To], w.u.ByID(rpc.To)
	if w.hist != nil {
		w.hist.contacted[rpc.To] = true
	}
	switch rpc.Req.GetType() {
	case pb.Message_PUT_VALUE:
		// corrective put after the search: acknowledged by echoing the record
		s.Release(p, simnet.Reply{Msg: &pb.Message{Type: rpc.Req.GetType(), Key: rpc.Req.GetKey(), Record: rpc.Req.GetRecord()}})
		return
	case pb.Message_GET_VALUE:
	default:
		s.Release(p, simnet.Reply{Err: errReqFailed})
		return
	}
	if r == nil || x == nil || r.Kind == c04ReqError {
		s.Count("fault_rpc_error")
		s.Release(p, simnet.Reply{Err: errReqFailed})
		return
	}
	resp := w.replyFor(x, r, rpc.Req)
	if rec := resp.GetRecord(); rec != nil && string(rpc.Req.GetKey()) == w.cfg.Key {
		sup := c04Supply{Step: s.Steps, Peer: rpc.To, Kind: r.Kind, Val: r.Val, OpenBefore: w.outputOpen() && w.cancelStep == 0}
		sup.Backlog = w.lazy != nil && !w.lazy.receiving.Load()
		sup.KeyOK = string(rec.GetKey()) == w.cfg.Key
		sup.ValidNow = sup.KeyOK && len(rec.GetValue()) > 0 && w.validate(w.cfg.Key, rec.GetValue()) == nil
		w.supplies = append(w.supplies, sup)
		if w.slow != nil && sup.ValidNow {
			w.slow.delivered(w, len(w.supplies)-1)
		}
		if w.cfg.KeyClass != c04KeyRegistered && w.cfg.KeyClass != c04KeyRegisteredEmpty && sup.KeyOK && w.val.Validate(w.cfg.Key, rec.GetValue()) == nil {
			// a record the rank validator would accept if it were asked: it is
			// not, the key is not in its namespace
			s.Count("probe_key_outside_record_acceptable_to_unregistered_validator")
		}
		if w.hist != nil {
			w.hist.delivered(w, &sup)
		}
		if r.Kind == c04LocalCopy {
			switch {
			case !w.localStored:
			case sup.ValidNow:
				s.Count("probe_peer_serves_local_bytes_valid")
			case w.localValidAtStart:
				s.Count("probe_peer_serves_local_bytes_expired_midsearch")
			default:
				s.Count("probe_peer_serves_local_bytes_expired_at_start")
			}
		}
		switch {
		case !sup.KeyOK:
			s.Count("fault_rec_miskeyed")
		case len(rec.GetValue()) == 0:
			s.Count("fault_rec_empty")
		case !sup.ValidNow:
			s.Count("fault_rec_invalid")
			if w.cfg.StockRec != nil && bytes.Equal(rec.GetValue(), w.cfg.StockRec) {
				s.Count("probe_ns_record_acceptable_to_shipped_validator_only")
			}
			if r.Kind == c04Valid {
				s.Count("probe_value_expired_midsearch")
			}
		}
		if sup.ValidNow {
			switch k, _ := w.stampOf(rpc.To); k {
			case c04StampOld:
				s.Count("probe_stamp_valid_value_held_past_requesters_max_age")
			case c04StampFuture:
				s.Count("probe_stamp_valid_value_from_the_future")
			case c04StampUnparsable:
				s.Count("probe_stamp_valid_value_unparsable")
			}
		}
	}
	if rec := resp.GetRecord(); w.lazy != nil && rec != nil && string(rec.GetKey()) == w.cfg.Key && len(rec.GetValue()) > 0 && w.validate(w.cfg.Key, rec.GetValue()) == nil {
		w.lazy.delivered(w)
	}
	s.Release(p, simnet.Reply{Msg: resp})
}

// putLocal stores the local record through the public API while the client
// has no peer to talk to (so nothing leaves the node), then lets virtual time
// pass as the configuration demands.
func (w *c04World) putLocal() {
	s, c := w.s, w.cfg
	if c.Local == 0 {
		return
	}
	var exp time.Time
	var wait time.Duration
	switch c.Local {
	case 1:
		exp = time.Now().Add(2000 * time.Hour)
	case 2: // expires between now and the start of the search
		d := time.Duration(1+s.Draw("local-ttl-ms", 600000)) * time.Millisecond
		exp = time.Now().Add(d)
		wait = d + time.Duration(s.Draw("local-over-ms", 5000))*time.Millisecond
	case 3: // time passes, the record stays valid
		exp = time.Now().Add(2000 * time.Hour)
		wait = time.Duration(1+s.Draw("local-wait-ms", 600000)) * time.Millisecond
	case 4: // valid when the search starts, expires a few virtual seconds into it
		wait = time.Duration(s.Draw("local-wait-ms", 600000)) * time.Millisecond
		exp = time.Now().Add(wait + time.Duration(1+s.Draw("local-left-ms", 4000))*time.Millisecond)
	default: // 5: a record that never was valid, written straight to the datastore (below)
		exp = time.Now().Add(2000 * time.Hour)
		if s.Chance("local-wait", 1, 2) {
			wait = time.Duration(1+s.Draw("local-wait-ms", 600000)) * time.Millisecond
		}
	}
	w.localVal = rankValue(c.LocalRank, exp, c.Key)
	val := w.localVal
	if c04NSVFor(w.val, c.ns()).ValidatorByKey(c.Key) == nil {
		// The key lies outside the client's namespaces: the client itself refuses
		// to store anything for it. The record (one the rank validator would
		// accept, were it registered for this key) is written by another value
		// store over the same datastore.
		w.localStored = w.foreignPut(c.Key, val)
		w.localForeign = w.localStored
	} else {
		op := w.ops.Go(s, "PutValue", func() (any, error) {
			return nil, w.sut.client.PutValue(context.Background(), c.Key, val)
		})
		s.Quiesce()
		for i := 0; i < 50 && !op.Done; i++ { // nothing should be parked; be robust anyway
			ps := s.Parked()
			if len(ps) == 0 {
				s.Sleep(time.Second)
				continue
			}
			releaseBenign(s, ps[0])
			s.Quiesce()
		}
		w.localStored = op.Done && w.sut.stored(val)
	}
	w.localStoredAt = s.Now()
	if c.Local == 5 && w.localStored {
		planted := c04PlantValue(c.LocalPlant, val, c.LocalRank, exp, c.Key, c.Other)
		if c.LocalPlant == c04PlantGarbage && c.StockRec != nil {
			// not any garbage: a value the validator the library ships for this
			// namespace would accept for this key (the configured one does not)
			planted = c.StockRec
			s.Count("probe_ns_local_record_acceptable_to_shipped_validator_only")
		}
		w.localStored = w.sut.plant(c.Key, val, func(rec *recpb.Record) {
			if c.LocalPlant == c04PlantMisKeyed {
				rec.Key = []byte(c.Other)
			}
			rec.Value = planted
		})
		w.localVal, w.localPlanted = planted, true
		if w.localVal == nil {
			w.localVal = []byte{}
		}
	}
	if wait > 0 {
		s.Sleep(wait)
		s.Count("time_advance")
	}
}

// c04PlantValue is the value a planted local record carries (nil: none).
func c04PlantValue(kind int, orig []byte, rank int, exp time.Time, key, other string) []byte {
	switch kind {
	case c04PlantGarbage:
		return []byte("garbage-in-local-storage")
	case c04PlantOtherKey:
		return rankValue(rank, exp, other)
	case c04PlantBadRank:
		return []byte(fmt.Sprintf("-%d|%d|%s", 1+rank, exp.UnixNano(), key))
	case c04PlantEmpty:
		return nil
	}
	return orig // c04PlantMisKeyed: the record is filed under another key
}

// observe traces the values that came out since the last quiescent point.
func (w *c04World) observe() {
	for ; w.traced < len(w.emits); w.traced++ {
		e := w.emits[w.traced]
		w.s.Tracef("value #%d %q verr=%v", w.traced, e.Val, e.VErr != nil)
	}
}

// consume receives what SearchValue streams until the channel is closed (on the
// client goroutine). A lazy consumer (c04_lazy.go) asks the scheduler before
// every receive.
func (w *c04World) consume(ch <-chan []byte, key string, validate func(string, []byte) error) {
	s := w.s
	for {
		if w.lazy != nil {
			s.Park("consume", "out", nil, nil)
			w.lazy.receiving.Store(true)
		}
		v, ok := <-ch
		if w.lazy != nil {
			w.lazy.receiving.Store(false)
		}
		if !ok {
			return
		}
		w.emits = append(w.emits, c04Emit{Val: append([]byte(nil), v...), Step: s.Steps, At: s.Now(), VErr: validate(key, v)})
		if w.lazy != nil {
			w.lazy.received.Add(1)
		}
	}
}

// c04RunValue is the generic GetValue/SearchValue scenario.
func c04RunValue(s *sim.Sim, variant string, lazy bool) {
	s.MaxSteps = 500
	c := c04GenCfg(s, variant, lazy)
	w := &c04World{s: s, cfg: c, val: rankValidator{TimeAware: true}, resp: map[peer.ID]*c04Resp{}, side: map[peer.ID]string{}}
	if lazy {
		w.lazy = &c04Lazy{}
	}
	if c.SlowVal {
		w.slow = &c04Slow{v: &c04SeamValidator{s: s, inner: w.val}}
	}
	// the oracle's validator: the configured one (namespaced), see c04NSV
	nsv := c04NSVFor(w.val, c.ns())
	w.validate, w.sel = nsv.Validate, nsv.Select
	w.u = simnet.NewUniverse(uint64(s.Draw("universe", 1<<16)), c.N)
	var err error
	switch variant {
	case "standard":
		err = c04BuildStandard(w)
	case "fullrt":
		err = c04BuildFullRT(w)
	case "dual":
		err = c04BuildDual(w)
	}
	if err != nil {
		panic(err)
	}
	s.Summary["cfg"] = fmt.Sprintf("%s N=%d K=%d alpha=%d beta=%d quorum=%d offline=%v expired=%v search=%v lazy=%v local=%d/%d profile=%d ranks=%d cancelAt=%d maxage=%d stamps=%d",
		variant, c.N, c.K, c.Alpha, c.Beta, c.Quorum, c.Offline, c.Expired, c.Search, c.Lazy, c.Local, c.LocalPlant, c.Profile, c.Ranks, c.CancelAt, c.MaxAge, c.Stamps)

	// 1. local record (nothing to talk to yet), time passes
	w.putLocal()

	// 2. responders, starting points
	real := w.u.Peers[:c.N]
	if variant == "dual" {
		c04DualResponders(w, real)
	} else {
		w.genResponders(real, real)
		rng := newSubRng(s, "seeds")
		frac := 1 + s.Draw("seed-frac", 4)
		var seeds []*simnet.Peer
		for _, p := range real {
			if rng.Intn(4) < frac {
				seeds = append(seeds, p)
			}
		}
		if len(seeds) == 0 {
			seeds = []*simnet.Peer{real[rng.Intn(len(real))]}
		}
		switch c.NoPeers {
		case 0:
			w.sut.seed(seeds)
		case 1: // nobody to start from (accelerated client: the crawl found nobody)
			w.sut.seed(nil)
		default: // 2: the accelerated client's first crawl stays parked
		}
	}
	if c.NoPeers != 0 {
		s.Count("probe_no_starting_points")
		if variant == "fullrt" {
			s.Count([]string{"", "probe_fullrt_crawl_found_nobody", "probe_fullrt_first_crawl_still_running"}[c.NoPeers])
		}
	}
	if w.slow != nil {
		w.slow.v.armed.Store(true)
	}

	// 3. the operation under test
	ctx, cancel := context.WithCancel(context.Background())
	defer cancel()
	opts := c.routingOpts()
	if c.Offline {
		s.Count("probe_opt_offline")
	}
	if c.Expired {
		s.Count("probe_opt_expired")
	}
	name := "GetValue"
	if c.Search {
		name = "SearchValue"
	}
	if c.KeyClass != c04KeyRegistered && c.KeyClass != c04KeyRegisteredEmpty {
		s.Count("probe_key_outside_namespaces")
		if w.localStored {
			s.Count("probe_key_outside_local_record")
		}
	} else if c.ns() != "r" {
		s.Count("probe_ns_configured_in_place_of_shipped_" + c.ns())
		if w.localStored && !w.localPlanted {
			s.Count("probe_ns_configured_in_place_of_shipped_local_record")
		}
	}
	if w.lazy != nil && w.localStored && !w.localPlanted && w.validate(c.Key, w.localVal) == nil {
		w.lazy.pipe++ // the search hands the local record to its value loop first
	}
	w.lanEmptyAtStart = w.sut.lanSize != nil && w.sut.lanSize() == 0
	w.op = w.ops.Go(s, name, func() (any, error) {
		w.startAt = s.Now()
		w.localValidAtStart = w.localStored && !w.localPlanted && w.validate(c.Key, w.localVal) == nil
		if !c.Search {
			v, err := w.sut.client.GetValue(ctx, c.Key, opts...)
			return v, err
		}
		ch, err := w.sut.client.SearchValue(ctx, c.Key, opts...)
		if err != nil {
			return nil, err
		}
		w.consume(ch, c.Key, w.validate)
		return nil, nil
	})
	s.Quiesce()

	idle := 0
	for {
		w.observe()
		if !s.Step() || w.op.Done {
			break
		}
		if c.CancelAt > 0 && s.Steps >= c.CancelAt && w.cancelStep == 0 && (w.slow == nil || len(s.ParkedKind("validate")) == 0) {
			w.cancelStep = s.Steps
			s.Tracef("cancel")
			s.Count("fault_cancel")
			cancel()
			s.Quiesce()
			continue
		}
		if s.Chance("tick", 1, 8) {
			s.Sleep(time.Duration(1+s.Draw("tick-ms", 2000)) * time.Millisecond)
			s.Count("time_advance")
			if w.slow != nil && len(s.ParkedKind("validate")) > 0 {
				s.Count("probe_slowval_time_passed_during_validation")
			}
			if w.op.Done {
				continue
			}
		}
		if w.lazy != nil {
			w.lazy.sync(w)
			if w.lazy.pauseWhenFull(w) {
				continue
			}
		}
		acts := w.actions()
		if len(acts) == 0 {
			idle++
			if idle > 60 {
				break
			}
			s.Sleep(997 * time.Millisecond)
			continue
		}
		idle = 0
		s.Choose("next", acts)
	}
	w.observe()

	switch {
	case s.Failed():
	case !w.op.Done && s.Steps > s.MaxSteps:
		s.Summary["budget"] = "step budget exhausted"
		s.Count("step_budget_exhausted")
	case !w.op.Done:
		s.Violate("no-return", "%s did not return although nothing is parked and %d s of virtual time passed", name, idle)
	case w.op.Panic != "":
		s.Violate("panic", "%s panicked: %s", name, firstLine(w.op.Panic))
	default:
		w.check()
		if !s.Failed() && w.cancelStep == 0 && w.endedEarly {
			w.afterSearch()
		}
	}

	// 4. epilogue: the caller gives up its context (anything still blocked on it
	// may go), Close, census
	cancel()
	s.Quiesce()
	closeAndCensus(s, w.sut.close)
	s.Finish()
}

// afterSearch answers, with the caller's context still live, whatever the
// finished search left in flight (first parked call first, no decisions), lets
// two virtual minutes pass and looks for goroutines of the search that are
// still blocked. Not part of C04 (that is C03/C14 territory), so it is a probe,
// not a rule: it documents that after an early (quorum) stop the lookup's
// request goroutines can stay blocked on the value channel nobody reads any
// more until the caller's context ends. (Since the repository's fixes
// "value-search quorum hand-over" and "fullrt: an approved value is no longer
// dropped when the consumer is slow" the workers of both clients leave through
// the stop channel, so the counter is expected to stay at zero and is no longer
// listed among the probes that must fire; it is kept as a canary.)
func (w *c04World) afterSearch() {
	s := w.s
	for i := 0; i < 80; i++ {
		acts := w.actions()
		if len(acts) == 0 {
			break
		}
		sort.SliceStable(acts, func(i, j int) bool { return acts[i].ID < acts[j].ID })
		acts[0].Do()
		s.Quiesce()
	}
	s.Sleep(2 * time.Minute)
	sut, _ := sim.BubbleGoroutines(harnessPrefixes...)
	for _, g := range sut {
		if strings.Contains(g, ").getValues.func") {
			s.Count("probe_search_goroutine_blocked_after_end_" + w.cfg.Variant)
			return
		}
	}
}

// ---------------------------------------------------------------------------
// oracle

func c04Short(v []byte) string {
	if len(v) > 48 {
		return fmt.Sprintf("%q...", v[:48])
	}
	return fmt.Sprintf("%q", v)
}

// provenance decides whether a yielded value was legitimately supplied: by a
// correctly keyed record that the validator accepted at its delivery instant
// (delivered no later than step upto), or by the local record if that was
// valid when the search started. Otherwise it names the violated clause.
func (w *c04World) provenance(val []byte, upto int) (rule, detail string) {
	var misKeyed, invalid *c04Supply
	for i := range w.supplies {
		sp := &w.supplies[i]
		if sp.Step > upto || !bytes.Equal(sp.Val, val) {
			continue
		}
		switch {
		case sp.ValidNow:
			return "", ""
		case !sp.KeyOK:
			misKeyed = sp
		default:
			invalid = sp
		}
	}
	if w.localStored && bytes.Equal(w.localVal, val) {
		if w.localValidAtStart {
			return "", ""
		}
		if w.localForeign {
			return "yield-invalid-local", fmt.Sprintf("the %s client yielded %s, the content of a record in its local storage filed under the requested key %q, which lies outside every namespace of the configured (namespaced) validator - that validator rejects every value for such a key (%v); the record was written by another value store over the same datastore (one configured with a validator for it): the local record enters the search without being judged by the CONFIGURED validator",
				w.cfg.Variant, c04Short(val), w.cfg.Key, w.validate(w.cfg.Key, val))
		}
		if w.localPlanted {
			also := ""
			if invalid != nil {
				also = fmt.Sprintf(" (%s supplied the same bytes, which the validator rejected there too, at step %d)", w.u.Name(invalid.Peer), invalid.Step)
			} else if misKeyed != nil {
				also = fmt.Sprintf(" (%s supplied the same bytes in a record filed under another key)", w.u.Name(misKeyed.Peer))
			}
			return "yield-invalid-local", fmt.Sprintf("the %s client yielded %s, the content of a record in its local storage that is not a valid record for the requested key %q (%s; it was written straight to the datastore and never passed the validator): the local record enters the search without validation%s",
				w.cfg.Variant, c04Short(val), w.cfg.Key, c04PlantName(w.cfg.LocalPlant), also)
		}
		if invalid != nil {
			// the same bytes also came from a peer, and the validator rejected them
			// there too: nobody supplied them validly, whichever way they got in
			return "yield-invalid", fmt.Sprintf("the %s client yielded %s, which %s supplied and the validator rejected at the delivery instant (step %d); the same bytes are held in local storage, where the validator rejects them too when the search starts (valid when stored, expired since) - neither copy may enter the search",
				w.cfg.Variant, c04Short(val), w.u.Name(invalid.Peer), invalid.Step)
		}
		return "yield-expired-local", fmt.Sprintf("the %s client yielded the locally stored record %s, which the validator rejects when the search starts (it was valid when stored): the local record enters the search without re-validation%s",
			w.cfg.Variant, c04Short(val), c04LocalSite(w.cfg.Variant))
	}
	if w.hist != nil && w.hist.carriedOver(w, val) {
		// Histories: the value was supplied for this very key, correctly keyed and
		// validator-approved, to an earlier search on the same client, and the
		// validator still accepts it now. The property does not forbid a client
		// that remembers such a value (GetPublicKey does, through the peerstore),
		// so this is not held against it - except by the not-found clause in
		// check() when nothing valid was supplied to this search at all.
		w.s.Count("probe_history_value_carried_over")
		return "", ""
	}
	switch {
	case misKeyed != nil:
		return "yield-miskeyed", fmt.Sprintf("yielded %s, which %s supplied in a record filed under another key than the requested %q", c04Short(val), w.u.Name(misKeyed.Peer), w.cfg.Key)
	case invalid != nil:
		return "yield-invalid", fmt.Sprintf("yielded %s, which %s supplied and the validator rejected at the delivery instant (step %d)%s", c04Short(val), w.u.Name(invalid.Peer), invalid.Step, w.keyNote())
	}
	return "yield-unsupplied", fmt.Sprintf("yielded %s, which neither local storage nor any delivered reply supplied", c04Short(val))
}

// selectFn is the selection function of the validator in force.
func (w *c04World) selectFn() func(key string, vals [][]byte) (int, error) {
	if w.sel != nil {
		return w.sel
	}
	return w.val.Select
}

func c04PlantName(kind int) string {
	return [...]string{"its value is not a value of this validator at all", "its value belongs to another key", "its value is malformed", "it has no value", "it is filed under another key"}[kind]
}

func c04LocalSite(variant string) string {
	switch variant {
	case "fullrt":
		return " (fullrt/dht.go getValues: rec from dht.getLocal is sent to valCh unvalidated)"
	case "standard":
		return " (routing.go getValues)"
	}
	return ""
}

func (w *c04World) check() {
	s, c := w.s, w.cfg
	cancelled := w.cancelStep != 0
	res, _ := w.op.Result.([]byte)
	err := w.op.Err

	// what came out, in order
	outs := w.emits
	if !c.Search && res != nil {
		outs = []c04Emit{{Val: res, Step: s.Steps, At: w.op.DoneAt}}
	}

	// (1) every yielded value is validator-approved for the requested key and
	// was supplied by a correctly keyed, valid record (or valid local record)
	for i, e := range outs {
		if c.Search && e.VErr != nil {
			// the harness validator, at the very instant the value was received
			if rule, detail := w.provenance(e.Val, e.Step); rule == "yield-expired-local" || rule == "yield-invalid-local" {
				s.Violate(rule, "%s", detail)
			} else if rule == "yield-invalid" {
				s.Violate(rule, "SearchValue value #%d is rejected by the validator at the instant it was received (t=%v: %v): %s", i, e.At, e.VErr, detail)
			} else {
				s.Violate("yield-invalid", "SearchValue value #%d %s is rejected by the validator for %q at the instant it was received (t=%v): %v", i, c04Short(e.Val), c.Key, e.At, e.VErr)
			}
			continue
		}
		if rule, detail := w.provenance(e.Val, e.Step); rule != "" {
			s.Violate(rule, "%s", detail)
		}
	}
	if !c.Search && err == nil && res == nil {
		s.Violate("yield-nil", "GetValue returned neither a value nor an error")
	}

	// (2) the stream strictly improves under the validator's selection
	for i := 1; i < len(outs); i++ {
		sel, serr := w.selectFn()(c.Key, [][]byte{outs[i-1].Val, outs[i].Val})
		if serr != nil || sel != 1 {
			s.Violate("stream-not-improving", "SearchValue value #%d %s does not improve on value #%d %s (Select=%d err=%v)", i, c04Short(outs[i].Val), i-1, c04Short(outs[i-1].Val), sel, serr)
		}
	}
	if len(outs) >= 2 {
		s.Count("probe_stream_multi")
	}

	var final []byte
	if len(outs) > 0 {
		final = outs[len(outs)-1].Val
	}
	// A local record that may have outlived the requester's maximum record age
	// by the time the operation ended is no longer "supplied by local storage"
	// for sure (nodes hold a record for that long, counted from when they stored
	// it): it is then neither demanded (best-known) nor missed (not-found).
	localMaybeGone := false
	if b := c04MaxAges[c.MaxAge].bound(); w.localValidAtStart && b > 0 && w.op.DoneAt-w.localStoredAt >= b {
		localMaybeGone = true
		s.Count("probe_local_outlived_max_age")
	}
	anyValid := w.localValidAtStart && !localMaybeGone
	for _, sp := range w.supplies {
		anyValid = anyValid || sp.ValidNow
	}
	if w.localStored {
		if w.localPlanted {
			s.Count("probe_local_never_valid")
		} else if w.localValidAtStart {
			s.Count("probe_local_valid")
			if w.validate(c.Key, w.localVal) != nil {
				s.Count("probe_local_expired_midsearch")
			}
		} else {
			s.Count("probe_local_expired")
		}
	}
	for _, p := range s.Parked() {
		if p.Kind == "rpc" && !p.Cancelled() && p.Data.(*simnet.RPC).Req.GetType() == pb.Message_GET_VALUE {
			s.Count("probe_search_ended_early")
			w.endedEarly = true
			break
		}
	}

	if !cancelled {
		// (3) best-known. A reply delivered in its own step while the output was
		// still open at the quiescent point before it has been taken into account
		// when the system is quiescent again; cancelled runs, the dual client
		// (two nested searches) and replies delivered after the output ended are
		// left out because "processed before the search ended" cannot be
		// observed there.
		if c.Variant != "dual" {
			type cand struct {
				val     []byte
				from    string
				backlog bool
			}
			var must []cand
			if w.localValidAtStart && !localMaybeGone {
				must = append(must, cand{w.localVal, "local storage", false})
			}
			for _, sp := range w.supplies {
				if sp.ValidNow && sp.OpenBefore {
					must = append(must, cand{sp.Val, fmt.Sprintf("%s (step %d)", w.u.Name(sp.Peer), sp.Step), sp.Backlog})
				}
			}
			for _, m := range must {
				s.Count("probe_bestknown_checked")
				if m.backlog {
					s.Count("probe_bestknown_checked_backlog")
				}
				var sel int
				var serr error
				if final != nil {
					sel, serr = w.selectFn()(c.Key, [][]byte{final, m.val})
					if serr == nil && sel == 0 {
						continue
					}
				}
				fin := "no value at all"
				if final != nil {
					fin = "the final value " + c04Short(final)
				}
				switch {
				case m.backlog:
					// same clause as best-known / valid-value-lost; a rule id of its own
					// because the circumstances are (see c04_lazy.go)
					s.Violate("best-known-backlog", "the %s client was handed the valid value %s by %s while the caller of SearchValue was between two receives; the search was still running, the request was outstanding with a live context, no early stop was asked for - and the value never reached the caller: the stream ended with %s (err=%v), ranked worse. A value the client received and approved got lost on the way to a slow caller",
						c.Variant, c04Short(m.val), m.from, fin, err)
				case final == nil:
					s.Violate("valid-value-lost", "%s ended with no value (err=%v) although %s supplied the valid value %s while the search was running", w.op.Name, err, m.from, c04Short(m.val))
				default:
					s.Violate("best-known", "final value %s is ranked worse than %s supplied by %s while the search was running", c04Short(final), c04Short(m.val), m.from)
				}
				break
			}
		} else if c.Search && w.localValidAtStart && !localMaybeGone {
			// (3-dual) the local-storage half of best-known on dual.SearchValue:
			// "the final value is ranked at least as good as every valid value
			// supplied by local storage" (mechanism: "dual merges WAN and LAN under
			// the same validator"). Unlike the peer half, this half needs no
			// "processed before the search ended" observable: the record sits in the
			// node's own storage (whichever side's datastore it was routed to when
			// the node published it) before the search starts, the validator accepts
			// it at the instant the search starts, and it cannot have outlived the
			// requester's maximum record age by the time the search ended. Nothing
			// about which side holds it, whether either routing table is empty, or
			// what the peers answer enters the rule. Judged for uncancelled
			// SearchValue only: for dual.GetValue property C15 fixes the result to
			// the WAN side's whenever that side succeeds, so the clause is not
			// demanded of it here (see the report / DESIGN note).
			s.Count("probe_dual_local_bestknown_checked")
			lanEmpty := w.lanEmptyAtStart
			// (probes only) WAN peers present: the split gave the WAN side responders
			// and the client got starting points. Whether one of them got to supply
			// anything is the client's business: a LAN side that ends at once, having
			// yielded the local record, ends the merged search before any WAN answer
			// arrives.
			wanPeers, wanSupplied := false, false
			for _, side := range w.side {
				wanPeers = wanPeers || (side == "wan" && c.NoPeers == 0)
			}
			for _, sp := range w.supplies {
				wanSupplied = wanSupplied || (sp.ValidNow && w.side[sp.Peer] == "wan")
			}
			if lanEmpty {
				s.Count("probe_dual_local_valid_lan_table_empty")
				if wanPeers {
					s.Count("probe_dual_local_valid_lan_table_empty_wan_peers_present")
				}
			}
			sel, serr := 1, error(nil)
			if final != nil {
				sel, serr = w.selectFn()(c.Key, [][]byte{final, w.localVal})
			}
			if final == nil || serr != nil || sel != 0 {
				fin := fmt.Sprintf("no value at all (err=%v)", err)
				if final != nil {
					fin = "the final value " + c04Short(final) + ", ranked worse"
				}
				s.Violate("best-known-dual-local", "the dual client's own storage held the valid record %s for %q when SearchValue started (stored through dual.PutValue %v earlier, accepted by the validator at the start instant, within the maximum record age) and the uncancelled search ended with %s: a valid value supplied by local storage did not take part in the WAN/LAN merge under the validator (LAN routing table empty when the search started: %v; WAN peers present: %v; a WAN peer supplied a valid value: %v)",
					c04Short(w.localVal), c.Key, w.startAt-w.localStoredAt, fin, lanEmpty, wanPeers, wanSupplied)
			}
		}
		if c.Variant == "dual" && !c.Search && w.localValidAtStart && !localMaybeGone {
			// Not a rule (see (3-dual)): how often dual.GetValue returns the WAN
			// side's value, or nothing, while the node's own storage holds a valid
			// record the validator ranks higher. Counted so that the evidence shows
			// the situation is generated; not listed among the probes that must fire.
			sel, serr := 1, error(nil)
			if final != nil {
				sel, serr = w.selectFn()(c.Key, [][]byte{final, w.localVal})
			}
			if final == nil || serr != nil || sel != 0 {
				s.Count("probe_dual_getvalue_result_outranked_by_local_record")
			}
		}
		// (4) nothing valid supplied anywhere => not-found, never a value
		// ("never a value" needs no rule of its own: with nothing valid supplied
		// any yielded value already failed the provenance rules of (1))
		if !anyValid && !localMaybeGone {
			s.Count("probe_notfound")
			if !c.Search && final == nil && !errors.Is(err, routing.ErrNotFound) {
				s.Violate("notfound-error", "no valid value was supplied by anyone, GetValue must fail with routing.ErrNotFound, got err=%v", err)
			}
			if c.Search && err != nil {
				s.Violate("notfound-error", "no valid value was supplied by anyone, SearchValue must end without a value, it failed with %v", err)
			}
			if final != nil && w.hist != nil {
				// only reachable in histories, for a value carried over from an earlier
				// search (everything else already failed the provenance rules of (1))
				s.Violate("notfound-value", "neither local storage nor any peer supplied a valid value to this search, the result must be not-found; %s yielded %s, which only an earlier search on the same client was supplied with", w.op.Name, c04Short(final))
			}
		} else if final != nil {
			s.Count("probe_found")
			if c.KeyClass == c04KeyRegisteredEmpty {
				s.Count("probe_key_registered_namespace_empty_rest_found")
			}
		}
		if c.NoPeers != 0 && w.localValidAtStart && !localMaybeGone {
			s.Count("probe_no_starting_points_local_valid")
		}
		if anyValid && c.Offline {
			s.Count("probe_opt_offline_with_valid_supply")
		}
		if c.Offline && w.localStored && !w.localValidAtStart {
			s.Count("probe_opt_offline_local_not_valid")
		}
	}

	if c.Variant == "dual" {
		sides := map[string]bool{}
		for _, sp := range w.supplies {
			sides[w.side[sp.Peer]] = true
		}
		if sides["wan"] && sides["lan"] {
			s.Count("probe_dual_both_sides_answered")
		}
	}
	bad := s.Stats["fault_rec_invalid"] + s.Stats["fault_rec_miskeyed"] + s.Stats["fault_rec_empty"]
	s.NonTrivial = len(w.supplies) > 0 && (bad > 0 || w.localStored || cancelled)
	s.State("%s out=%d any=%v bad=%v local=%v/%v q=%d", c.Variant, len(outs), anyValid, bad > 0, w.localStored, w.localValidAtStart, c.Quorum)
	rs := "nil"
	if res != nil {
		rs = c04Short(res)
	}
	s.Tracef("result %s err=%v values=%d", rs, err, len(w.emits))
}
