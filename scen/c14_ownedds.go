//go:build all || c14

package scen

// C14 — datastores the instance under test OWNS.
//
// Some components are handed a datastore *factory* instead of a datastore
// (ResettableKeystore in factory mode: one datastore per reset slot, created on
// demand, closed and destroyed by the keystore itself). Such a store is part of
// the instance: the instance decides when it is closed. c14OwnedDS wraps the
// simulated datastore the factory returns and observes exactly the two things
// a real store minds (Pebble panics with "pebble: closed", others fail or
// corrupt an iterator):
//
//   - Close arrives while an operation is inside the store (it entered and has
//     not returned: parked in the simulator, i.e. the store is "working");
//   - an operation enters the store after its Close.
//
// Oracle rules (rule id -> clause of the property):
//
//	owned-ds-closed-in-use     "Close ... is safe while operations are in
//	                           flight: those operations finish or fail without
//	                           panic or deadlock" and "returns only after all
//	                           goroutines the instance started have exited":
//	                           whatever is inside an owned store was put there
//	                           by the instance (its worker, its background
//	                           work, or a caller's operation running through
//	                           it). Closing the store under it is not "safe":
//	                           the operation can no longer finish or fail in an
//	                           orderly way (a real store panics on the caller's
//	                           goroutine), and if the closer is Close itself,
//	                           Close is about to return while work of the
//	                           instance still runs inside a store it tore down.
//	owned-ds-use-after-close   the same clauses seen from the other side: the
//	                           instance lets an operation reach a store it has
//	                           already closed.
//
// Both rules are independent of WHO closes (Close, a reset's clean-up on the
// worker) and of WHICH operation is inside (reads as well as writes); they
// say nothing about stores the caller owns (shared-datastore mode: the caller
// closes it, whenever it likes, after Close returned).
//
// The notes are recorded on SUT goroutines (under a harness mutex that is
// never held across a park) and turned into violations on the simulator
// goroutine at quiescent instants only.

import (
	"context"
	"fmt"
	"sort"
	"strings"
	"sync"

	ds "github.com/ipfs/go-datastore"
	dsq "github.com/ipfs/go-datastore/query"

	"verif/sim"
	"verif/simds"
)

type c14OwnedNote struct{ rule, msg string }

type c14OwnedDS struct {
	inner *simds.DS
	name  string

	mu     sync.Mutex
	inside []string // operations that entered the store and have not returned
	closes int
	notes  []c14OwnedNote
}

var _ ds.Batching = (*c14OwnedDS)(nil)

func newC14OwnedDS(inner *simds.DS) *c14OwnedDS {
	return &c14OwnedDS{inner: inner, name: inner.Name}
}

// enter records that an operation is inside the store; the returned function
// records that it left.
func (o *c14OwnedDS) enter(ctx context.Context, op string) func() {
	label := op
	if ctx != nil {
		label += sim.TagOf(ctx)
	}
	o.mu.Lock()
	if o.closes > 0 {
		o.notes = append(o.notes, c14OwnedNote{"owned-ds-use-after-close",
			fmt.Sprintf("datastore %s, created through the factory and closed by the instance, is used after that Close: %s", o.name, label)})
	}
	o.inside = append(o.inside, label)
	o.mu.Unlock()
	return func() {
		o.mu.Lock()
		for i, l := range o.inside {
			if l == label {
				o.inside = append(o.inside[:i], o.inside[i+1:]...)
				break
			}
		}
		o.mu.Unlock()
	}
}

func (o *c14OwnedDS) Close() error {
	o.mu.Lock()
	if len(o.inside) > 0 {
		in := append([]string(nil), o.inside...)
		sort.Strings(in)
		o.notes = append(o.notes, c14OwnedNote{"owned-ds-closed-in-use",
			fmt.Sprintf("datastore %s, created through the factory, was closed by the instance while operations it issued are still inside it: %s", o.name, strings.Join(in, ", "))})
	}
	o.closes++
	o.mu.Unlock()
	return o.inner.Close()
}

// busyWith reports whether an operation whose label contains sub is inside.
func (o *c14OwnedDS) busyWith(sub string) bool {
	o.mu.Lock()
	defer o.mu.Unlock()
	for _, l := range o.inside {
		if strings.Contains(l, sub) {
			return true
		}
	}
	return false
}

func (o *c14OwnedDS) closedCount() int {
	o.mu.Lock()
	defer o.mu.Unlock()
	return o.closes
}

func (o *c14OwnedDS) Get(ctx context.Context, key ds.Key) ([]byte, error) {
	defer o.enter(ctx, "get")()
	return o.inner.Get(ctx, key)
}

func (o *c14OwnedDS) Has(ctx context.Context, key ds.Key) (bool, error) {
	defer o.enter(ctx, "has")()
	return o.inner.Has(ctx, key)
}

func (o *c14OwnedDS) GetSize(ctx context.Context, key ds.Key) (int, error) {
	defer o.enter(ctx, "getsize")()
	return o.inner.GetSize(ctx, key)
}

func (o *c14OwnedDS) Query(ctx context.Context, q dsq.Query) (dsq.Results, error) {
	defer o.enter(ctx, "query")()
	return o.inner.Query(ctx, q)
}

func (o *c14OwnedDS) Put(ctx context.Context, key ds.Key, value []byte) error {
	defer o.enter(ctx, "put")()
	return o.inner.Put(ctx, key, value)
}

func (o *c14OwnedDS) Delete(ctx context.Context, key ds.Key) error {
	defer o.enter(ctx, "delete")()
	return o.inner.Delete(ctx, key)
}

func (o *c14OwnedDS) Sync(ctx context.Context, prefix ds.Key) error {
	defer o.enter(ctx, "sync")()
	return o.inner.Sync(ctx, prefix)
}

func (o *c14OwnedDS) Batch(ctx context.Context) (ds.Batch, error) {
	defer o.enter(ctx, "batch")()
	b, err := o.inner.Batch(ctx)
	if err != nil {
		return nil, err
	}
	return &c14OwnedBatch{o: o, Batch: b}, nil
}

// c14OwnedBatch: buffering writes into a batch does not touch the store;
// committing it does.
type c14OwnedBatch struct {
	o *c14OwnedDS
	ds.Batch
}

func (b *c14OwnedBatch) Commit(ctx context.Context) error {
	defer b.o.enter(ctx, "commit")()
	return b.Batch.Commit(ctx)
}

// c14OwnedCheck turns what the owned stores noted into a violation. Call it
// on the simulator goroutine at a quiescent instant.
func c14OwnedCheck(s *sim.Sim, name string, stores []*c14OwnedDS) {
	if s.Failed() {
		return
	}
	var notes []c14OwnedNote
	for _, o := range stores {
		o.mu.Lock()
		notes = append(notes, o.notes...)
		o.mu.Unlock()
	}
	if len(notes) == 0 {
		return
	}
	// closed-in-use first: it is the cause, use-after-close its consequence
	sort.SliceStable(notes, func(i, j int) bool {
		if notes[i].rule != notes[j].rule {
			return notes[i].rule < notes[j].rule
		}
		return notes[i].msg < notes[j].msg
	})
	s.Violate(notes[0].rule, "%s: %s", name, notes[0].msg)
}
