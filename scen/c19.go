//go:build all || c19

package scen

// C19 — provide and reprovide queues never lose, duplicate or misorder work.
//
// Harness H3: the real provider/internal/queue.ProvideQueue / ReprovideQueue
// (re-exported by the build-time overlay as provider/verifqueue) driven by 1–3
// client goroutines that the scheduler starts one operation at a time; the
// datastore is simds with every operation parked; the queue's mutex is held
// across the datastore calls of Persist/DrainDatastore, so lock hand-over is
// scheduler-owned (s.LockSched) exactly as in c05.go.
//
// Oracle
//   * linearizability (porcupine) of the recorded history against the
//     reference model of c19model.go. Call/Return stamps are 2*step and
//     2*step+1 of the scheduler steps in which the operation was started /
//     returned: unique and ordered, because one step runs one goroutine.
//   * "restart" probes: at a scheduler-chosen instant the live datastore is
//     forked (clean, or cut inside the write journal = crash) and drained into
//     a fresh queue, which is then emptied with Dequeue. A clean fork taken
//     while no writer is half-way must reproduce what the last successful
//     Persist saw (prefixes, order, keys) and leave the fork empty: that is a
//     model operation, checked by porcupine. After a crash cut, a torn write
//     or an injected I/O error the drain may fail, else the fresh queue must be
//     well-formed and hold only keys that were persisted (direct checks).
//   * c19_keys.go: the keys are multihashes of any form (hash function code
//     and digest length are drawn per run: uniform sha2-256, mixed, uniform
//     other); generator only, every rule judges every key alike.
//   * c19_restore.go: queues of many regions (bulk block, size classes), read
//     faults in the middle of a drain (broken result stream, torn entry) and
//     the rules that need no model state (dequeue-without-keys,
//     key-handed-out-twice, final-queue-incoherent, final-restart-differs):
//     they keep judging the queue while the model is in "havoc".
//
// Unconstrained corners (documentation silent, model accepts either / they are
// not generated): Enqueue with no keys; order of keys inside a returned slice;
// nil vs empty slices; the prefix ReprovideQueue.Dequeue returns together with
// false; Persist with batchSize < 1; keys that do not match the prefix they
// are enqueued under (precondition); what an additive DrainDatastore that
// FAILED added to the queue (the MODEL accepts anything until the next Clear;
// the queue must still be a queue: the state-free rules of c19_restore.go); what
// the datastore holds after a Persist that FAILED. Positions used by an
// additive DrainDatastore are taken to be those of Enqueue applied to the
// persisted entries in persisted order ("adds them to the current queue").

import (
	"context"
	"fmt"
	"sort"
	"strings"
	"sync/atomic"
	"time"

	"github.com/anishathalye/porcupine"
	ds "github.com/ipfs/go-datastore"
	"github.com/ipfs/go-datastore/namespace"
	"github.com/ipfs/go-libdht/kad/key/bitstr"
	mh "github.com/multiformats/go-multihash"

	"github.com/libp2p/go-libp2p-kad-dht/provider/verifqueue"

	"verif/sim"
	"verif/simds"
)

func init() {
	real := []string{"provider/internal/queue.ProvideQueue (Enqueue/Dequeue/DequeueMatching/Remove/Clear/Size/IsEmpty/NumRegions/Persist/DrainDatastore)", "provider/internal/queue.prefixQueue", "provider/internal/keyspace trie helpers", "go-libdht trie"}
	stub := []string{"datastore (simds: every operation parks in the scheduler; journal, crash forks)", "lock hand-over (instrumented sync.Mutex calls, scheduler-owned)"}
	var big []string
	if c19Thorough() {
		big = []string{"probe_persist_regions_over_255", "probe_restart_strict_regions_over_255", "probe_final_restart_regions_over_255"}
	}
	sim.Register(&sim.Scenario{Prop: "C19", Name: "provide-queue", Weight: 4, Run: func(s *sim.Sim) { runC19Provide(s, true, false) },
		Real: real, Stub: stub,
		Faults: append(big, "lock_contended", "fault_crash_cut", "probe_superstring_consolidation", "probe_consolidation_multi", "probe_consolidation_nonadjacent", "probe_enqueue_covered", "probe_enqueue_existing",
			"probe_dequeue_matching_partial", "probe_dequeue_matching_multi", "probe_remove_last_key", "probe_persist_contended", "probe_crash_cut_in_batch",
			"probe_crash_cut_in_persist", "probe_restart_torn_writer", "probe_restart_strict", "probe_restart_relaxed", "probe_empty_prefix_used", "probe_empty_prefix_persisted",
			"probe_drain_additive_merge", "probe_persist_multi_batch", "probe_lin_checked",
			"probe_persist_regions_over_10", "probe_persist_regions_over_16", "probe_persist_regions_over_40", "probe_persist_regions_over_100",
			"probe_restart_strict_regions_over_10", "probe_restart_strict_regions_over_16", "probe_restart_strict_regions_over_40",
			"probe_final_phase_checked", "probe_final_restart_compared", "probe_final_restart_regions_over_16", "probe_key_dequeued_again",
			// c19_keys.go: keys of other forms than sha2-256
			"probe_keys_mixed_forms_run", "probe_keys_uniform_other_form_run",
			"probe_persist_key_other_form", "probe_persist_key_code_multibyte", "probe_persist_key_length_multibyte", "probe_persist_region_key_sizes_differ",
			"probe_restart_strict_key_other_form", "probe_restart_strict_key_code_multibyte", "probe_restart_strict_key_length_multibyte", "probe_restart_strict_region_key_sizes_differ"),
	})
	sim.Register(&sim.Scenario{Prop: "C19", Name: "provide-queue-ds-errors", Weight: 2, Run: func(s *sim.Sim) { runC19Provide(s, true, true) },
		Real: real, Stub: append([]string{"datastore error injection (single failures, partial commits)"}, stub...),
		Faults: []string{"fault_ds_error_query", "fault_ds_error_batch", "fault_ds_error_commit", "fault_ds_partial_commit", "probe_drain_after_error", "probe_persist_failed", "probe_drain_failed", "probe_restart_drain_failed",
			"fault_ds_query_breaks_midstream", "fault_ds_torn_entry", "probe_drain_stream_broke_after_some", "probe_drain_torn_entry_not_first",
			"probe_restart_drain_failed_midway", "probe_live_drain_failed_midway", "probe_dequeue_after_failed_drain"},
	})
	sim.Register(&sim.Scenario{Prop: "C19", Name: "provide-queue-model", Weight: 2, Run: func(s *sim.Sim) { runC19Provide(s, false, false) },
		Real: real[:1], Stub: stub[1:],
		Faults: []string{"lock_yield", "probe_lin_checked"},
	})
	sim.Register(&sim.Scenario{Prop: "C19", Name: "reprovide-queue", Weight: 1, Run: runC19Reprovide,
		Real: []string{"provider/internal/queue.ReprovideQueue (Enqueue/Dequeue/Remove/IsEmpty/Size/Clear)"},
		Stub: stub[1:],
		Faults: []string{"probe_rq_consolidation", "probe_rq_covered", "probe_rq_remove_multi", "probe_lin_checked",
			"probe_rq_batch_3plus", "probe_rq_batch_duplicate", "probe_rq_batch_covered_by_earlier", "probe_rq_batch_absorbs_earlier",
			"probe_rq_batch_absorbs_earlier_not_last", "probe_rq_batch_empty_prefix"},
	})
}

// ---------------------------------------------------------------------------
// key pool: multihashes made from "key-<i>" (sha2-256, or the forms of
// c19_keys.go), indexed by their Kademlia bits

type c19Pool struct {
	mh   []mh.Multihash
	bits []string // first 16 bits of the Kademlia identifier
	idOf map[string]int
	// c19_keys.go: the form of each key
	variant  string
	form     []uint8 // index into c19KeyForms
	wideCode []bool  // the varint of its hash function code takes more than one byte
	wideLen  []bool  // the varint of its digest length takes more than one byte
}

// c19GetPool returns the pool of sha2-256 keys.
func c19GetPool() *c19Pool { return c19GetPoolVariant(0) }

func (p *c19Pool) bitsOf(id c19ID) string { return p.bits[id] }

// under returns the ids of the pool keys under a prefix, ascending.
func (p *c19Pool) under(prefix string) []c19ID {
	var out []c19ID
	for i, b := range p.bits {
		if strings.HasPrefix(b, prefix) {
			out = append(out, c19ID(i))
		}
	}
	return out
}

// ---------------------------------------------------------------------------

// c19Op is one operation of the history (input and output).
type c19Op struct {
	n        int
	client   int
	tag      string
	kind     string
	prefix   string
	prefixes []string // reprovide enqueue
	keys     []c19ID
	batch    int
	cutMode  int // restart: 0 clean, 1 crash cut inside the latest persist, 2 crash cut anywhere
	cutFrac  int
	parkFork bool
	final    bool

	started, done, seen bool
	call, ret           int64
	outPrefix           string
	outKeys             []c19ID
	outOK               bool
	outN                int
	outBool             bool
	errStr              string
	panicMsg            string
	faulted             bool // an I/O fault was injected into one of its datastore calls
	dirty               bool // restart: crash cut, torn write or failed drain: only safety is demanded
	why                 string
	dump                []c19Ent
	dumpSize            int
	dsLeft              int
	bad                 []string
	fork                *simds.DS
	cut, jlen           int
	cutInBatch          bool
	cutInPersist        bool
	torn                bool
	multiBatch          bool
	bulk                bool // one of the enqueues of the bulk block (many disjoint regions)
	// read faults (c19_restore.go), decided by the scheduler while the
	// operation's query is parked
	midFail    int  // n+1: the result stream of its query breaks after n entries (0: it does not)
	midFired   bool // ... and it did
	corrupt    bool // the datastore it reads holds an entry whose value was torn (truncated)
	tornAt     int  // i+1: the entry at index i (key order) was torn under this operation (0: none)
	nRead      int  // entries in the datastore when its query was answered
	dumpRegs   int  // restart: NumRegions of the fresh queue before it was emptied
	dumpEmpty  bool // restart: IsEmpty of the fresh queue before it was emptied
	dumpCapped bool // restart: the fresh queue did not run empty within the bound
	// filled by the sequential replay
	stKeys    []c19ID
	stKnown   bool
	stRegions int // persist: regions in the model queue when it ran (-1 unknown)
}

func c19Keys(ks []c19ID) string {
	var b strings.Builder
	for i, k := range ks {
		if i > 0 {
			b.WriteByte(',')
		}
		fmt.Fprintf(&b, "%d", k)
	}
	return b.String()
}

func c19Ents(es []c19Ent) string {
	var b strings.Builder
	b.WriteByte('[')
	for i, e := range es {
		if i > 0 {
			b.WriteByte(' ')
		}
		if i >= 48 {
			fmt.Fprintf(&b, "… %d more", len(es)-i)
			break
		}
		fmt.Fprintf(&b, "%q{%s}", e.P, c19Keys(e.K))
	}
	b.WriteByte(']')
	return b.String()
}

func (o *c19Op) String() string {
	var b strings.Builder
	fmt.Fprintf(&b, "c%d:", o.client)
	switch o.kind {
	case "enq":
		fmt.Fprintf(&b, "Enqueue(%q,{%s})", o.prefix, c19Keys(o.keys))
	case "deq":
		fmt.Fprintf(&b, "Dequeue->(%q,{%s},%v)", o.outPrefix, c19Keys(o.outKeys), o.outOK)
	case "deqm":
		fmt.Fprintf(&b, "DequeueMatching(%q)->{%s}", o.prefix, c19Keys(o.outKeys))
	case "rm":
		fmt.Fprintf(&b, "Remove({%s})", c19Keys(o.keys))
	case "clear", "rclear":
		fmt.Fprintf(&b, "Clear->%d", o.outN)
	case "size", "rsize":
		fmt.Fprintf(&b, "Size->%d", o.outN)
	case "regions":
		fmt.Fprintf(&b, "NumRegions->%d", o.outN)
	case "empty", "rempty":
		fmt.Fprintf(&b, "IsEmpty->%v", o.outBool)
	case "persist":
		fmt.Fprintf(&b, "Persist(batch=%d)->err=%q", o.batch, o.errStr)
	case "drain":
		fmt.Fprintf(&b, "DrainDatastore->err=%q,dsLeft=%d", o.errStr, o.dsLeft)
	case "restart":
		mode := "clean"
		if o.dirty {
			mode = o.why
		}
		fmt.Fprintf(&b, "Restart(%s)->err=%q,queue=%s,dsLeft=%d", mode, o.errStr, c19Ents(o.dump), o.dsLeft)
	case "renq":
		fmt.Fprintf(&b, "Enqueue(%q)", o.prefixes)
	case "rdeq":
		fmt.Fprintf(&b, "Dequeue->(%q,%v)", o.outPrefix, o.outOK)
	case "rrm":
		fmt.Fprintf(&b, "Remove(%q)->%v", o.prefix, o.outBool)
	}
	if o.panicMsg != "" {
		fmt.Fprintf(&b, " PANIC %s", o.panicMsg)
	}
	return b.String()
}

type c19H struct {
	s      *sim.Sim
	pool   *c19Pool
	d      *simds.DS
	pq     *verifqueue.ProvideQueue
	rq     *verifqueue.ReprovideQueue
	ops    []*c19Op
	byTag  map[string]*c19Op
	byFork map[*simds.DS]*c19Op
	forks  []*simds.DS
	stop   bool
	faults bool
	wedged bool
	// journal bookkeeping of the live datastore
	jClean         int // journal length when the last Persist/DrainDatastore on it returned
	lastJ0, lastJ1 int // journal range written by the last returned Persist
	contended      bool
	dynRestarts    int
	overlaps       int // pairs of operations of the history that overlap in time
	namespaced     bool
	clients        opSet
	// liveCorrupt: the live datastore holds an entry torn by the scheduler; it
	// stays there until a Persist (which wipes everything first) returns nil
	liveCorrupt     bool
	everLiveCorrupt bool
	maxRegions      int // bound on the number of regions a queue of this run can hold
}

// ids converts returned multihashes to sorted pool ids; multihashes that are
// not pool keys and repeated multihashes are noted on the operation.
func (h *c19H) ids(o *c19Op, hs []mh.Multihash) []c19ID {
	seen := map[int]bool{}
	out := make([]c19ID, 0, len(hs))
	for _, x := range hs {
		id, ok := h.pool.idOf[string(x)]
		if !ok {
			o.bad = append(o.bad, fmt.Sprintf("foreign-key: %s returned multihash %x which is not one of the keys ever handed to the queue", o.kind, []byte(x)))
			continue
		}
		if seen[id] {
			o.bad = append(o.bad, fmt.Sprintf("duplicate-key: %s returned key %d twice", o.kind, id))
			continue
		}
		seen[id] = true
		out = append(out, c19ID(id))
	}
	sort.Slice(out, func(i, j int) bool { return out[i] < out[j] })
	return out
}

// wrap hands the datastore to the queue the way provider.New does (a
// namespace wrapper over the node's datastore) or bare (as the package's own
// tests do); the choice is drawn per run.
func (h *c19H) wrap(o *c19Op, d *simds.DS) ds.Batching {
	var out ds.Batching = d
	if h.namespaced {
		out = namespace.Wrap(d, ds.NewKey("pqueue"))
	}
	if h.faults {
		// outermost: what the queue reads is the stream of the datastore it was
		// given, which may break in the middle (c19_restore.go)
		out = &c19BreakingDS{Batching: out, o: o}
	}
	return out
}

func (h *c19H) mhs(ids []c19ID) []mh.Multihash {
	out := make([]mh.Multihash, len(ids))
	for i, id := range ids {
		out[i] = h.pool.mh[id]
	}
	return out
}

func c19ErrString(err error) string {
	if err == nil {
		return ""
	}
	return err.Error()
}

// exec runs one operation on the calling client goroutine.
func (h *c19H) exec(o *c19Op) {
	s := h.s
	defer func() {
		if r := recover(); r != nil {
			o.panicMsg = firstLine(fmt.Sprint(r))
		}
		if o.ret == 0 {
			o.ret = 2*int64(s.Steps) + 1
		}
		o.done = true
	}()
	ctx := sim.WithTag(context.Background(), o.tag)
	o.started = true
	o.call = 2 * int64(s.Steps)
	switch o.kind {
	case "enq":
		h.pq.Enqueue(bitstr.Key(o.prefix), h.mhs(o.keys)...)
	case "deq":
		p, ks, ok := h.pq.Dequeue()
		o.outPrefix, o.outKeys, o.outOK = string(p), h.ids(o, ks), ok
	case "deqm":
		o.outKeys = h.ids(o, h.pq.DequeueMatching(bitstr.Key(o.prefix)))
	case "rm":
		h.pq.Remove(h.mhs(o.keys)...)
	case "clear":
		o.outN = h.pq.Clear()
	case "size":
		o.outN = h.pq.Size()
	case "regions":
		o.outN = h.pq.NumRegions()
	case "empty":
		o.outBool = h.pq.IsEmpty()
	case "persist":
		err := h.pq.Persist(ctx, h.wrap(o, h.d), o.batch)
		o.errStr = c19ErrString(err)
		if err == nil {
			h.liveCorrupt = false // "remove all existing persisted entries first"
		}
		j := h.d.JournalLen()
		h.lastJ0, h.lastJ1 = h.jClean, j
		h.jClean = j
		// more than one commit of writes?
		nb := map[int]bool{}
		for _, e := range h.d.Journal()[h.lastJ0:] {
			if !e.Del {
				nb[e.Batch] = true
			}
		}
		o.multiBatch = len(nb) > 1
	case "drain":
		err := h.pq.DrainDatastore(ctx, h.wrap(o, h.d))
		o.errStr = c19ErrString(err)
		o.dsLeft = len(h.d.Snapshot())
		h.jClean = h.d.JournalLen()
	case "restart":
		// the restart happens at this instant; everything after the fork only
		// touches objects private to this operation
		k := int64(s.Steps)
		o.call, o.ret = 2*k, 2*k+1
		jl := h.d.JournalLen()
		o.torn = jl != h.jClean
		cut := -1
		switch o.cutMode {
		case 1:
			lo, hi := h.lastJ0, h.lastJ1
			if o.torn {
				lo, hi = h.jClean, jl
			}
			cut = lo + o.cutFrac%(hi-lo+1)
			o.cutInPersist = cut > lo && cut < hi
		case 2:
			cut = o.cutFrac % (jl + 1)
		}
		if cut >= jl {
			cut = -1 // nothing is lost: same as a clean restart
		}
		o.cut, o.jlen = cut, jl
		if cut > 0 {
			j := h.d.Journal()
			o.cutInBatch = j[cut-1].Batch != 0 && j[cut-1].Batch == j[cut].Batch
		}
		switch {
		case cut >= 0:
			o.dirty, o.why = true, fmt.Sprintf("crash cut %d/%d", cut, jl)
		case o.torn:
			o.dirty, o.why = true, "writer half-way"
		}
		if h.liveCorrupt || cut >= 0 && h.everLiveCorrupt {
			// the torn entry is journaled as durable: a crash cut in front of the
			// Persist that wiped it brings it back
			o.corrupt, o.faulted = true, true
		}
		fork := h.d.Fork(cut, "f"+o.tag)
		if !o.parkFork {
			fork.ParkOp = nil
		}
		o.fork = fork
		h.byFork[fork] = o
		h.forks = append(h.forks, fork)
		q2 := verifqueue.NewProvideQueue()
		o.errStr = c19ErrString(q2.DrainDatastore(ctx, h.wrap(o, fork)))
		o.dumpSize, o.dumpRegs, o.dumpEmpty = q2.Size(), q2.NumRegions(), q2.IsEmpty()
		o.dumpCapped = true
		for i := 0; i < 2*h.maxRegions+8; i++ {
			p, ks, ok := q2.Dequeue()
			if !ok {
				o.dumpCapped = false
				break
			}
			o.dump = append(o.dump, c19Ent{P: string(p), K: h.ids(o, ks)})
		}
		o.dsLeft = len(fork.Snapshot())

	case "renq":
		ps := make([]bitstr.Key, len(o.prefixes))
		for i, p := range o.prefixes {
			ps[i] = bitstr.Key(p)
		}
		h.rq.Enqueue(ps...)
	case "rdeq":
		p, ok := h.rq.Dequeue()
		o.outPrefix, o.outOK = string(p), ok
	case "rrm":
		o.outBool = h.rq.Remove(bitstr.Key(o.prefix))
	case "rsize":
		o.outN = h.rq.Size()
	case "rempty":
		o.outBool = h.rq.IsEmpty()
	case "rclear":
		o.outN = h.rq.Clear()
	}
	if o.kind != "restart" {
		o.ret = 2*int64(s.Steps) + 1
	}
}

// startClients starts one goroutine per client; each parks before every
// operation, so that starting an operation is a scheduler decision.
func (h *c19H) startClients(n int) {
	for c := 0; c < n; c++ {
		c := c
		var mine []*c19Op
		for _, o := range h.ops {
			if o.client == c {
				mine = append(mine, o)
			}
		}
		h.clients.Go(h.s, fmt.Sprintf("client%d", c), func() (any, error) {
			for _, o := range mine {
				if h.stop {
					return nil, nil
				}
				h.s.Park("client", fmt.Sprintf("c%d:%s", c, o.tag), nil, o)
				if h.stop {
					return nil, nil
				}
				h.exec(o)
			}
			return nil, nil
		})
	}
}

func (h *c19H) allDone() bool {
	for _, o := range h.ops {
		if !o.done {
			return false
		}
	}
	return true
}

// owner finds the operation a parked datastore call belongs to.
func (h *c19H) owner(p *sim.Parked) *c19Op {
	op := p.Data.(*simds.Op)
	if o := h.byFork[op.DS]; o != nil {
		return o
	}
	i, j := strings.LastIndex(p.ID, "@"), strings.LastIndex(p.ID, "#")
	if i < 0 || j < i {
		return nil
	}
	return h.byTag[p.ID[i+1:j]]
}

// enqueuedBefore returns the set of keys handed to Enqueue by calls started
// before stamp.
func (h *c19H) enqueuedBefore(stamp int64) map[c19ID]bool {
	out := map[c19ID]bool{}
	for _, e := range h.ops {
		if e.kind == "enq" && e.started && e.call < stamp {
			for _, k := range e.keys {
				out[k] = true
			}
		}
	}
	return out
}

// observe traces newly finished operations and applies the direct checks.
func (h *c19H) observe() {
	s := h.s
	for _, o := range h.ops {
		if !o.done || o.seen {
			continue
		}
		o.seen = true
		if o.kind == "restart" && o.faulted && o.errStr != "" {
			o.dirty, o.why = true, "injected I/O error during the drain"
		}
		if o.kind == "restart" && o.corrupt && !o.dirty {
			o.dirty, o.why = true, "torn entry in the datastore"
		}
		h.readFaultProbes(o)
		s.Tracef("done %s %s", o.tag, o.String())
		if o.panicMsg != "" {
			s.Violate("op-panic", "%s panicked on the caller's goroutine: %s", o.kind, o.panicMsg)
			continue
		}
		for _, b := range o.bad {
			rule, msg, _ := strings.Cut(b, ": ")
			s.Violate(rule, "%s", msg)
		}
		switch o.kind {
		case "deq", "deqm":
			want := o.prefix
			if o.kind == "deq" {
				want = o.outPrefix
			}
			if o.kind == "deq" && o.outOK && len(o.outKeys) == 0 {
				// holds in every state of the queue, known to the model or not
				s.Violate("dequeue-without-keys", "%s returned a prefix as the oldest region of the queue together with no key at all: the queue tracked a region that holds no key", o.String())
			}
			allowed := h.enqueuedBefore(o.ret)
			for _, k := range o.outKeys {
				if !strings.HasPrefix(h.pool.bitsOf(k), want) {
					s.Violate("key-outside-prefix", "%s returned key %d (bits %s…) which does not lie under prefix %q", o.String(), k, h.pool.bitsOf(k)[:8], want)
				}
				if !allowed[k] {
					s.Violate("phantom-key", "%s returned key %d which was never enqueued", o.String(), k)
				}
			}
		case "persist":
			if o.errStr != "" {
				s.Count("probe_persist_failed")
				if !o.faulted {
					s.Violate("ds-op-error-without-fault", "Persist failed although no datastore fault was injected: %s", o.errStr)
				}
			}
			if o.multiBatch {
				s.Count("probe_persist_multi_batch")
			}
		case "drain":
			if o.errStr != "" {
				s.Count("probe_drain_failed")
				if !o.faulted {
					s.Violate("ds-op-error-without-fault", "DrainDatastore failed although no datastore fault was injected: %s", o.errStr)
				}
			}
		case "restart":
			h.checkRestart(o)
		}
	}
}

// checkRestart: safety of a fresh queue drained from a forked datastore,
// whatever happened to that datastore (never a duplicate, a foreign key, a
// malformed queue).
func (h *c19H) checkRestart(o *c19Op) {
	s := h.s
	if o.cut >= 0 {
		s.Count("fault_crash_cut")
	}
	if o.cutInBatch {
		s.Count("probe_crash_cut_in_batch")
	}
	if o.cutInPersist || o.torn && o.cut >= 0 {
		s.Count("probe_crash_cut_in_persist")
	}
	if o.torn {
		s.Count("probe_restart_torn_writer")
	}
	if o.dirty {
		s.Count("probe_restart_relaxed")
	} else {
		s.Count("probe_restart_strict")
	}
	if o.errStr != "" {
		s.Count("probe_restart_drain_failed")
		if !o.faulted {
			s.Violate("ds-op-error-without-fault", "DrainDatastore into a fresh queue failed although no datastore fault was injected (%s): %s", o.String(), o.errStr)
		}
	}
	allowed := h.enqueuedBefore(o.call)
	seen := map[c19ID]bool{}
	total := 0
	for i, e := range o.dump {
		if len(e.K) == 0 {
			s.Violate("restart-corrupt", "queue drained after a restart holds prefix %q without keys: %s", e.P, o.String())
		}
		for j := 0; j < i; j++ {
			if c19IsPrefix(o.dump[j].P, e.P) || c19IsPrefix(e.P, o.dump[j].P) {
				s.Violate("restart-corrupt", "queue drained after a restart holds overlapping prefixes %q and %q: %s", o.dump[j].P, e.P, o.String())
			}
		}
		for _, k := range e.K {
			total++
			if seen[k] {
				s.Violate("restart-duplicate-key", "queue drained after a restart yields key %d twice: %s", k, o.String())
			}
			seen[k] = true
			if !strings.HasPrefix(h.pool.bitsOf(k), e.P) {
				s.Violate("restart-corrupt", "queue drained after a restart holds key %d under prefix %q it does not match: %s", k, e.P, o.String())
			}
			if !allowed[k] {
				s.Violate("restart-foreign-key", "queue drained after a restart holds key %d which was never enqueued before the restart: %s", k, o.String())
			}
		}
	}
	if o.dumpSize != total {
		s.Violate("restart-corrupt", "queue drained after a restart reports Size %d but yields %d keys: %s", o.dumpSize, total, o.String())
	}
	if o.dumpCapped {
		s.Violate("restart-corrupt", "queue drained after a restart does not run empty: %d Dequeue calls returned a region although no more than %d prefixes were ever enqueued: %s", len(o.dump), h.maxRegions, o.String())
	} else if o.dumpRegs != len(o.dump) {
		s.Violate("restart-corrupt", "queue drained after a restart reports %d regions but yields %d prefixes: %s", o.dumpRegs, len(o.dump), o.String())
	}
	if o.dumpEmpty != (total == 0) {
		s.Violate("restart-corrupt", "queue drained after a restart reports IsEmpty=%v but yields %d keys (NumRegions %d): %s", o.dumpEmpty, total, o.dumpRegs, o.String())
	}
}

// spawnRestart starts a restart probe at this very step, on its own goroutine.
func (h *c19H) spawnRestart() {
	s := h.s
	o := &c19Op{n: len(h.ops), client: 100 + h.dynRestarts, tag: fmt.Sprintf("o%03d", len(h.ops)), kind: "restart"}
	h.dynRestarts++
	if s.Chance("dyn-crash", 1, 2) {
		o.cutMode = 1
		o.cutFrac = s.Draw("cut", 9973)
	}
	h.ops = append(h.ops, o)
	h.byTag[o.tag] = o
	h.clients.Go(s, "restart-"+o.tag, func() (any, error) { h.exec(o); return nil, nil })
}

// drive is the scheduler loop.
func (h *c19H) drive(done func() bool) {
	s := h.s
	for s.Step() {
		h.observe()
		if s.Failed() || done() {
			return
		}
		var acts []sim.Action
		persistInDS := false
		for _, p := range s.Parked() {
			p := p
			switch p.Kind {
			case "client":
				acts = append(acts, sim.Action{ID: p.ID, Do: func() { s.Release(p, nil) }})
			case "ds":
				op := p.Data.(*simds.Op)
				if o := h.owner(p); o != nil && o.kind == "persist" {
					persistInDS = true
				}
				acts = append(acts, sim.Action{ID: p.ID, Do: func() {
					if op.Op == "query" && op.DS == h.d && h.liveCorrupt {
						// the live datastore holds a torn entry (c19_restore.go)
						if o := h.owner(p); o != nil && o.kind == "drain" {
							o.corrupt, o.faulted = true, true
						}
					}
					if h.faults && op.Op == "query" && h.readFault(p, op) {
						return
					}
					if h.faults && s.Chance("ds-error", 1, 10) {
						if o := h.owner(p); o != nil {
							o.faulted = true
						}
						if op.Op == "commit" && op.NOps > 0 && s.Chance("partial", 1, 2) {
							s.Release(p, simds.Partial{N: s.Draw("partial-n", op.NOps)})
						} else {
							s.Release(p, simds.ErrInjected)
						}
						return
					}
					s.Release(p, nil)
				}})
			}
		}
		if persistInDS && !h.contended && len(s.ParkedKind("lock")) > 0 {
			h.contended = true
			s.Count("probe_persist_contended")
		}
		acts = append(acts, s.LockActions()...)
		if h.d != nil && len(acts) > 0 && h.dynRestarts < 2 && h.d.JournalLen() != h.jClean {
			// a writer is half-way through the live datastore: "the process is
			// killed / restarted now" is one more choice of the scheduler
			acts = append(acts, sim.Action{ID: "restart-now", Do: h.spawnRestart})
		}
		if len(acts) == 0 {
			h.wedged = true
			return
		}
		s.Choose("next", acts)
	}
}

// ---------------------------------------------------------------------------
// linearizability

const c19ModelBudget = 400000

// c19Check runs porcupine on the history. A budget on model steps keeps the
// check bounded inside the bubble (where porcupine's own wall-clock time-out
// cannot fire): exhausted ⇒ Unknown.
func c19Check(cfg *c19ModelCfg, hist []porcupine.Operation) porcupine.CheckResult {
	var n atomic.Int64
	var exhausted atomic.Bool
	m := porcupine.Model{
		Init: func() interface{} { return c19NewState(nil, false, true, nil) },
		Step: func(st, in, out interface{}) (bool, interface{}) {
			if n.Add(1) > c19ModelBudget {
				exhausted.Store(true)
				return false, st
			}
			ok, ns := c19Step(cfg, st.(*c19State), in.(*c19Op), nil)
			return ok, ns
		},
		Equal: func(a, b interface{}) bool { return a.(*c19State).canon == b.(*c19State).canon },
	}
	res := porcupine.CheckOperationsTimeout(m, hist, 10*time.Second)
	if exhausted.Load() && res == porcupine.Illegal {
		return porcupine.Unknown
	}
	return res
}

// judge: sequential replay in order of return (reach probes, diagnosis, tight
// subset clause), then the linearizability check.
func (h *c19H) judge(reprov bool) {
	s := h.s
	for _, o := range h.ops {
		if !o.done || o.panicMsg != "" {
			s.Count("probe_lin_skipped_incomplete")
			return
		}
	}
	cfg := &c19ModelCfg{bits: h.pool.bitsOf}
	byRet := append([]*c19Op(nil), h.ops...)
	sort.SliceStable(byRet, func(i, j int) bool { return byRet[i].ret < byRet[j].ret })

	// --- replay in order of return. All operations of one queue hold its mutex
	// from start to return, so this order is the order of the critical
	// sections; it is used for reach probes and diagnosis only (the oracle is
	// the linearizability check below, which does not assume it).
	st := c19NewState(nil, false, true, nil)
	firstBad := -1
	var stBefore *c19State
	sawHavoc := false
	failedMidway := false // an additive drain gave up after it had loaded something, no Clear since
	for i, o := range byRet {
		var info c19Info
		if o.kind == "persist" {
			o.stKnown = !st.havoc
			for _, e := range st.ents {
				o.stKeys = append(o.stKeys, e.K...)
			}
			if !st.havoc && o.errStr == "" && c19OnlyEmptyPrefix(st.ents) {
				s.Count("probe_empty_prefix_persisted")
			}
			o.stRegions = -1
			if !st.havoc {
				o.stRegions = len(st.ents)
				c19SizeProbes(s, "probe_persist_regions", len(st.ents))
				if o.errStr == "" {
					h.keyFormProbes("persist", st.ents)
				}
			}
		}
		if o.kind == "restart" && !o.dirty && st.pk && o.errStr == "" {
			c19SizeProbes(s, "probe_restart_strict_regions", len(st.pers))
			h.keyFormProbes("restart_strict", o.dump)
		}
		if (o.kind == "restart" || o.kind == "drain") && !st.pk {
			s.Count("probe_drain_after_error")
		}
		if o.kind == "drain" && o.errStr != "" && (o.midFired && o.midFail > 1 || o.tornAt > 1) {
			failedMidway = true
		}
		if o.kind == "clear" {
			failedMidway = false
		}
		if o.kind == "deq" && o.outOK && failedMidway {
			s.Count("probe_dequeue_after_failed_drain")
		}
		nPers := len(st.pers)
		var batch c19BatchInfo
		if o.kind == "renq" {
			batch = c19MBatchInfo(st.ents, o.prefixes)
		}
		ok, ns := c19Step(cfg, st, o, &info)
		if !ok && firstBad < 0 {
			firstBad, stBefore = i, st
		}
		sawHavoc = sawHavoc || ns.havoc
		st = ns
		if o.kind == "persist" || o.kind == "drain" || o.kind == "restart" || i == len(byRet)-1 || i == len(byRet)/2 {
			// abstract state: the shape of the queue (prefixes in order) and of
			// what is persisted, at the datastore operations
			var b strings.Builder
			for _, e := range st.ents {
				b.WriteString(e.P)
				b.WriteByte(',')
			}
			fmt.Fprintf(&b, "|h=%v pk=%v n=%d|%s", st.havoc, st.pk, len(st.pers), o.kind)
			s.State("shape %s", b.String())
		}
		switch o.kind {
		case "enq":
			if o.prefix == "" {
				s.Count("probe_empty_prefix_used")
			}
			if info.absorbed > 0 {
				s.Count("probe_superstring_consolidation")
			}
			if info.absorbed > 1 {
				s.Count("probe_consolidation_multi")
			}
			if info.absorbedGap {
				s.Count("probe_consolidation_nonadjacent")
			}
			if info.covered {
				s.Count("probe_enqueue_covered")
			}
			if info.existed {
				s.Count("probe_enqueue_existing")
			}
		case "deqm":
			if info.partial {
				s.Count("probe_dequeue_matching_partial")
			}
			if info.multi {
				s.Count("probe_dequeue_matching_multi")
			}
		case "rm":
			if info.emptied {
				s.Count("probe_remove_last_key")
			}
		case "drain":
			if nPers > 0 && (info.absorbed > 0 || info.covered || info.existed) {
				s.Count("probe_drain_additive_merge")
			}
		case "renq":
			if info.absorbed > 0 {
				s.Count("probe_rq_consolidation")
			}
			if info.covered {
				s.Count("probe_rq_covered")
			}
			if len(o.prefixes) >= 3 {
				s.Count("probe_rq_batch_3plus")
			}
			if batch.dup {
				s.Count("probe_rq_batch_duplicate")
			}
			if batch.coveredByEarlier {
				s.Count("probe_rq_batch_covered_by_earlier")
			}
			if batch.absorbsEarlier {
				s.Count("probe_rq_batch_absorbs_earlier")
			}
			if batch.absorbsEarlierNotLast {
				s.Count("probe_rq_batch_absorbs_earlier_not_last")
			}
			if batch.empty {
				s.Count("probe_rq_batch_empty_prefix")
			}
		case "rrm":
			if info.multi {
				s.Count("probe_rq_remove_multi")
			}
		}
	}

	// --- "a queue whose keys are a subset of those persisted": for restarts
	// that are only held to safety, the keys must come from a queue state some
	// Persist started before the restart was working on. Needs those states:
	// only when the replay above explained every output.
	if firstBad < 0 && !reprov {
		for _, r := range h.ops {
			if r.kind != "restart" || !r.dirty {
				continue
			}
			allowed := map[c19ID]bool{}
			known := true
			for _, p := range h.ops {
				if p.kind == "persist" && p.call < r.call {
					known = known && p.stKnown
					for _, k := range p.stKeys {
						allowed[k] = true
					}
				}
			}
			if !known {
				continue
			}
			s.Count("probe_restart_subset_checked")
			for _, e := range r.dump {
				for _, k := range e.K {
					if !allowed[k] {
						s.Violate("restart-not-subset", "queue drained after %s holds key %d which was in the queue at no Persist before it: %s", r.why, k, r.String())
					}
				}
			}
		}
	}

	// --- linearizability
	hist := make([]porcupine.Operation, 0, len(h.ops))
	for _, o := range h.ops {
		hist = append(hist, porcupine.Operation{ClientId: o.client, Input: o, Call: o.call, Output: o, Return: o.ret})
	}
	s.Count("probe_lin_checked")
	s.CountN("probe_lin_ops", len(hist))
	if len(hist) > 40 {
		s.Count("probe_lin_history_over_40_ops")
	}
	for i, a := range h.ops {
		for _, b := range h.ops[i+1:] {
			if a.call < b.ret && b.call < a.ret {
				h.overlaps++
			}
		}
	}
	if h.overlaps > 0 {
		s.Count("probe_lin_concurrent_history")
		s.CountN("probe_lin_overlapping_pairs", h.overlaps)
	}
	res := c19Check(cfg, hist)
	s.Tracef("lin %d ops: %v", len(hist), res)
	switch res {
	case porcupine.Ok:
		s.Count("probe_lin_ok")
		// rules that hold in every state of the queue, known to the model or not
		// (c19_restore.go): they add something where the model is in "havoc"
		h.checkHandedOutOnce()
		h.checkFinalPhase()
		return
	case porcupine.Unknown:
		s.Count("probe_lin_unknown")
		h.checkHandedOutOnce()
		h.checkFinalPhase()
		return
	}
	s.Count("probe_lin_illegal")
	detail := h.describe(byRet, firstBad, stBefore)
	if reprov {
		s.Violate("reprovide-queue-contract", "history of the reprovide queue is not linearizable with respect to the documented contract (unique non-overlapping prefixes in first-enqueue order). %s", detail)
		return
	}
	tol := *cfg
	tol.tolerateEmptyLoss = true
	if c19Check(&tol, hist) == porcupine.Ok {
		s.Violate("empty-prefix-lost", "entry under the empty prefix lost across Persist/DrainDatastore: a queue whose only prefix is \"\" was persisted without error, DrainDatastore then returned nil but loaded nothing and left the entry in the datastore. %s", detail)
		return
	}
	rel := *cfg
	rel.relaxDS = true
	switch c19Check(&rel, hist) {
	case porcupine.Ok:
		s.Violate("persist-restart-mismatch", "Persist followed by DrainDatastore does not reproduce the queue (prefixes, order, keys; datastore left empty); the history is linearizable only if the persist/restart clause is dropped. %s", detail)
	case porcupine.Illegal:
		s.Violate("queue-contract", "history of the provide queue is not linearizable with respect to the documented contract, even with the persist/restart clause dropped. %s", detail)
	default:
		s.Violate("not-linearizable", "history of the provide queue is not linearizable with respect to the documented contract. %s", detail)
	}
}

func (h *c19H) describe(byRet []*c19Op, firstBad int, stBefore *c19State) string {
	var b strings.Builder
	if firstBad >= 0 {
		fmt.Fprintf(&b, "First output the model cannot explain when operations are taken in order of return: #%d %s", firstBad, byRet[firstBad].String())
		if stBefore != nil {
			if stBefore.havoc {
				b.WriteString("; model queue before it: unknown")
			} else {
				fmt.Fprintf(&b, "; model queue before it: %s", c19Ents(stBefore.ents))
			}
			if stBefore.pk {
				fmt.Fprintf(&b, ", persisted: %s", c19Ents(stBefore.pers))
			} else {
				b.WriteString(", persisted: unknown")
			}
		}
		b.WriteString(". ")
	}
	b.WriteString("History in order of return: ")
	from := 0
	if firstBad > 14 {
		from = firstBad - 14
		fmt.Fprintf(&b, "(… %d earlier) ", from)
	}
	for i := from; i < len(byRet); i++ {
		if firstBad >= 0 && i > firstBad+2 {
			fmt.Fprintf(&b, "(… %d later)", len(byRet)-i)
			break
		}
		fmt.Fprintf(&b, "#%d %s; ", i, byRet[i].String())
	}
	out := b.String()
	if len(out) > 2400 {
		out = out[:2400] + "…"
	}
	return out
}

// ---------------------------------------------------------------------------
// workload generation

func c19Flip(b byte) byte { return '0' + '1' - b }

// c19HotPaths draws 1–3 six-bit paths that share prefixes of random length,
// so that the prefixes of a run overlap often.
func c19HotPaths(s *sim.Sim) []string {
	bits := func(v, n int) string {
		out := make([]byte, n)
		for i := range out {
			out[i] = byte('0' + (v>>(n-1-i))&1)
		}
		return string(out)
	}
	first := bits(s.Draw("path", 64), 6)
	paths := []string{first}
	n := s.Range("paths", 1, 4)
	for len(paths) < n {
		j := s.Draw("fork-bit", 6)
		p := first[:j] + string(c19Flip(first[j])) + bits(s.Draw("tail", 32), 5)
		paths = append(paths, p[:6])
	}
	return paths
}

var c19LenTable = []int{3, 2, 4, 3, 5, 4, 2, 6, 3, 1, 5, 4}

// c19DrawPrefix draws a prefix of 0–6 bits along one of the hot paths. The
// empty prefix absorbs the whole queue, so it is drawn rarely per operation
// (it still shows up in about every fourth run) unless the run models a tiny
// network, where every region is the whole keyspace.
func c19DrawPrefix(s *sim.Sim, hot []string, tiny bool) string {
	if tiny || s.Chance("empty-prefix", 1, 36) {
		return ""
	}
	p := hot[s.Draw("hot", len(hot))]
	p = p[:c19LenTable[s.Draw("plen", len(c19LenTable))]]
	if s.Chance("sibling", 1, 3) {
		// the sibling subtree: disjoint from everything deeper on the path
		p = p[:len(p)-1] + string(c19Flip(p[len(p)-1]))
	}
	return p
}

// c19DrawKeys picks 1–3 pool keys under prefix (preferring keys on a hot path,
// from a small candidate set so that keys recur).
func c19DrawKeys(s *sim.Sim, pool *c19Pool, hot []string, prefix string) (string, []c19ID) {
	cands := pool.under(prefix)
	for len(cands) == 0 { // no pool key there: shorten the prefix
		prefix = prefix[:len(prefix)-1]
		cands = pool.under(prefix)
	}
	var onHot []c19ID
	for _, k := range cands {
		for _, hp := range hot {
			if strings.HasPrefix(pool.bitsOf(k), hp[:4]) {
				onHot = append(onHot, k)
				break
			}
		}
	}
	if len(onHot) > 0 && !s.Chance("off-hot", 1, 3) {
		cands = onHot
	}
	if len(cands) > 8 {
		cands = cands[:8]
	}
	n := s.Range("nkeys", 1, 3)
	keys := make([]c19ID, 0, n)
	for i := 0; i < n; i++ {
		keys = append(keys, cands[s.Draw("key", len(cands))])
	}
	return prefix, keys
}

func runC19Provide(s *sim.Sim, withDS, dsErrors bool) {
	s.MaxSteps = 2500
	s.LockSched = true
	yield := s.Chance("yield-all", 1, 2)
	if yield {
		s.YieldSites["*"] = true
	}
	pool := c19DrawPool(s) // the form of the keys is a drawn choice (c19_keys.go)
	nClients := s.Range("clients", 1, 3)
	nOps := s.Range("ops", 3, 28)
	hot := c19HotPaths(s)
	tiny := s.Chance("tiny-network", 1, 8) // every region is the whole keyspace
	h := &c19H{s: s, pool: pool, pq: verifqueue.NewProvideQueue(), byTag: map[string]*c19Op{}, byFork: map[*simds.DS]*c19Op{}, faults: dsErrors}
	if withDS {
		h.d = simds.New(s, "ds")
		h.d.ParkOp = func(op, key string) bool { return true }
		h.d.AtomicBatch = s.Chance("atomic-batch", 1, 3)
		h.namespaced = s.Chance("namespaced", 1, 2)
	}
	// bulk block: many disjoint regions (c19_restore.go); not in a tiny network,
	// where every region is the whole keyspace
	var bulk []*c19Op
	if !tiny {
		bulk = c19DrawBulk(s, pool, nClients, withDS)
	}
	bulkAt := 0
	if len(bulk) > 0 {
		bulkAt = s.Draw("bulk-at", nOps+1)
	}
	s.MaxSteps += 40 * len(bulk)
	s.Summary["cfg"] = fmt.Sprintf("clients=%d ops=%d hot=%v tiny=%v yieldAll=%v ds=%v dsErrors=%v atomicBatch=%v namespaced=%v bulk=%d@%d keys=%s", nClients, nOps, hot, tiny, yield, withDS, dsErrors, withDS && h.d.AtomicBatch, h.namespaced, len(bulk), bulkAt, pool.variant)

	// ---- workload
	var ever []c19ID
	for _, o := range bulk {
		ever = append(ever, o.keys...)
	}
	for i := 0; i < nOps; i++ {
		o := &c19Op{n: i, client: s.Draw("client", nClients), tag: fmt.Sprintf("o%03d", i)}
		k := s.Draw("kind", 100)
		if !withDS && k >= 77 {
			k = (k - 77) * 3 // spread over the queue operations
		}
		switch {
		case k < 34:
			o.kind = "enq"
			o.prefix, o.keys = c19DrawKeys(s, pool, hot, c19DrawPrefix(s, hot, tiny))
			ever = append(ever, o.keys...)
		case k < 43:
			o.kind = "deq"
		case k < 53:
			o.kind = "deqm"
			o.prefix = c19DrawPrefix(s, hot, false)
		case k < 63:
			o.kind = "rm"
			n := s.Range("nrm", 1, 3)
			for j := 0; j < n; j++ {
				if len(ever) == 0 || s.Chance("rm-absent", 1, 6) {
					o.keys = append(o.keys, c19ID(s.Draw("pool-key", 256)))
				} else {
					o.keys = append(o.keys, ever[s.Draw("ever-key", len(ever))])
				}
			}
		case k < 66:
			o.kind = "clear"
		case k < 70:
			o.kind = "size"
		case k < 73:
			o.kind = "empty"
		case k < 77:
			o.kind = "regions"
		case k < 87:
			o.kind = "persist"
			o.batch = []int{100, 1, 2, 3}[s.Draw("batch", 4)]
		case k < 92:
			o.kind = "drain"
		default:
			o.kind = "restart"
			o.cutMode = s.Draw("cut-mode", 3)
			o.cutFrac = s.Draw("cut", 9973)
			o.parkFork = s.Chance("park-fork", 1, 2)
		}
		h.ops = append(h.ops, o)
	}
	if len(bulk) > 0 {
		ops := append([]*c19Op(nil), h.ops[:bulkAt]...)
		ops = append(ops, bulk...)
		h.ops = append(ops, h.ops[bulkAt:]...)
	}
	for i, o := range h.ops {
		o.n, o.tag = i, fmt.Sprintf("o%03d", i)
		h.byTag[o.tag] = o
		if o.kind == "enq" {
			h.maxRegions++
		}
	}
	h.startClients(nClients)
	s.Quiesce()
	h.drive(h.allDone)

	// ---- final phase: one client, no faults: persist, clean restart, then
	// empty the queue so that everything still queued is observed
	mainDone := h.allDone()
	if mainDone && !s.Failed() && !h.wedged {
		h.faults = false
		finDone := false
		h.clients.Go(s, "finisher", func() (any, error) {
			defer func() { finDone = true }()
			run := func(o *c19Op) bool {
				o.n, o.client, o.final = len(h.ops), nClients, true
				o.tag = fmt.Sprintf("o%03d", o.n)
				h.ops = append(h.ops, o)
				h.byTag[o.tag] = o
				if h.stop {
					o.done = true
					return false
				}
				s.Park("client", "fin:"+o.tag, nil, o)
				if h.stop {
					o.done = true
					return false
				}
				h.exec(o)
				return true
			}
			if withDS {
				if !run(&c19Op{kind: "persist", batch: []int{100, 2}[len(h.ops)%2]}) || !run(&c19Op{kind: "restart"}) {
					return nil, nil
				}
			}
			if !run(&c19Op{kind: "regions"}) || !run(&c19Op{kind: "size"}) {
				return nil, nil
			}
			for i := 0; i < 80+h.maxRegions; i++ {
				o := &c19Op{kind: "deq"}
				if !run(o) || !o.outOK {
					break
				}
			}
			return nil, nil
		})
		s.Quiesce()
		h.drive(func() bool { return finDone && h.allDone() })
	}
	h.observe()
	h.finish(false, mainDone)
}

// finish: verdicts that need the whole history, shutdown, census.
func (h *c19H) finish(reprov, mainDone bool) {
	s := h.s
	switch {
	case s.Failed():
	case s.Steps > s.MaxSteps:
		s.Count("step_budget_exhausted")
	case h.wedged || !h.allDone():
		s.Violate("queue-wedged", "queue operations did not finish although nothing is parked")
	default:
		h.judge(reprov)
	}
	nEnq, nRestart, nDirty, nFaulted := 0, 0, 0, 0
	for _, o := range h.ops {
		if o.done && (o.kind == "enq" || o.kind == "renq") {
			nEnq++
		}
		if o.done && o.kind == "restart" {
			nRestart++
			if o.dirty {
				nDirty++
			}
		}
		if o.faulted {
			nFaulted++
		}
	}
	s.Tracef("end ops=%d enq=%d restarts=%d", len(h.ops), nEnq, nRestart)
	s.State("end ops=%d enq=%d restarts=%d dirty=%d faulted=%d cont=%v", len(h.ops)/4, nEnq/2, nRestart, nDirty, nFaulted, s.Stats["lock_contended"] > 0)
	// non-trivial: work was queued AND (operations overlapped in time, or a
	// restart hit a crash cut / a half-way writer, or an I/O fault fired)
	s.NonTrivial = nEnq >= 1 && (h.overlaps > 0 || nDirty > 0 || nFaulted > 0)

	// shut down: let everything run to its end
	h.stop = true
	if h.d != nil {
		h.d.ParkOp = nil
	}
	for _, f := range h.forks {
		f.ParkOp = nil
	}
	s.LockSched = false
	closeAndCensus(s, func() {})
	s.Finish()
}

// ---------------------------------------------------------------------------
// reprovide queue: same model without keys

// c19DrawBatch draws the arguments of ONE ReprovideQueue.Enqueue call: one
// prefix in half of the calls, else 2–5. The prefixes of a multi-prefix call
// are related to each other on purpose: besides independent draws along the hot
// paths (which overlap often by themselves) a prefix may repeat an earlier
// prefix of the same call, cover an earlier one (shorter by one or two bits,
// down to the empty prefix) or lie under an earlier one (longer). "Longer prefix, something
// else, then the shorter prefix that covers the first" is therefore a common
// shape, and so are duplicates and batches containing the empty prefix.
//
// What such a call means is taken from the documentation of Enqueue / Push,
// which is written for "the supplied prefix" (singular: no-op when already
// queued; takes the position of the first superstring and removes all
// superstrings) on a queue that keeps prefixes "in the order they were
// enqueued": the variadic call applies that sentence to each argument in
// argument order, atomically. The model's "renq" step is exactly that.
func c19DrawBatch(s *sim.Sim, hot []string) []string {
	if !s.Chance("multi", 1, 2) {
		return []string{c19DrawPrefix(s, hot, false)}
	}
	n := s.Range("nprefix", 2, 5)
	out := make([]string, 0, n)
	for len(out) < n {
		shape := 0
		if len(out) > 0 {
			shape = s.Draw("shape", 8)
		}
		switch shape {
		case 4: // the same prefix again
			out = append(out, out[s.Draw("dup-of", len(out))])
		case 5: // a longer prefix under an earlier prefix of the call
			q := out[s.Draw("under", len(out))]
			for i, m := 0, s.Range("deeper", 1, 2); i < m && len(q) < 8; i++ {
				q += string(byte('0' + s.Draw("bit", 2)))
			}
			out = append(out, q)
		case 6, 7: // a shorter prefix covering an earlier prefix of the call
			q := out[s.Draw("cover", len(out))]
			if q == "" {
				out = append(out, c19DrawPrefix(s, hot, false))
				break
			}
			l := len(q) - s.Range("shorter-by", 1, 2)
			if l < 1 && !s.Chance("cover-all", 1, 4) {
				// the empty prefix would absorb the whole queue: rarely
				out = append(out, c19DrawPrefix(s, hot, false))
				break
			}
			out = append(out, q[:max(l, 0)])
		default:
			out = append(out, c19DrawPrefix(s, hot, false))
		}
	}
	return out
}

func runC19Reprovide(s *sim.Sim) {
	s.MaxSteps = 1500
	s.LockSched = true
	yield := !s.Chance("no-yield", 1, 4)
	if yield {
		s.YieldSites["*"] = true
	}
	pool := c19GetPool()
	nClients := s.Range("clients", 1, 3)
	nOps := s.Range("ops", 3, 34)
	hot := c19HotPaths(s)
	h := &c19H{s: s, pool: pool, rq: verifqueue.NewReprovideQueue(), byTag: map[string]*c19Op{}, byFork: map[*simds.DS]*c19Op{}}
	s.Summary["cfg"] = fmt.Sprintf("reprovide clients=%d ops=%d hot=%v yieldAll=%v", nClients, nOps, hot, yield)
	for i := 0; i < nOps; i++ {
		o := &c19Op{n: i, client: s.Draw("client", nClients), tag: fmt.Sprintf("o%03d", i)}
		k := s.Draw("kind", 100)
		switch {
		case k < 50:
			o.kind = "renq"
			o.prefixes = c19DrawBatch(s, hot)
		case k < 65:
			o.kind = "rdeq"
		case k < 80:
			o.kind = "rrm"
			o.prefix = c19DrawPrefix(s, hot, false)
		case k < 88:
			o.kind = "rsize"
		case k < 95:
			o.kind = "rempty"
		default:
			o.kind = "rclear"
		}
		h.ops = append(h.ops, o)
		h.byTag[o.tag] = o
	}
	h.startClients(nClients)
	s.Quiesce()
	h.drive(h.allDone)
	mainDone := h.allDone()
	if mainDone && !s.Failed() && !h.wedged {
		finDone := false
		h.clients.Go(s, "finisher", func() (any, error) {
			defer func() { finDone = true }()
			run := func(o *c19Op) bool {
				o.n, o.client, o.final = len(h.ops), nClients, true
				o.tag = fmt.Sprintf("o%03d", o.n)
				h.ops = append(h.ops, o)
				h.byTag[o.tag] = o
				if h.stop {
					o.done = true
					return false
				}
				s.Park("client", "fin:"+o.tag, nil, o)
				if h.stop {
					o.done = true
					return false
				}
				h.exec(o)
				return true
			}
			if !run(&c19Op{kind: "rsize"}) {
				return nil, nil
			}
			for i := 0; i < 80; i++ {
				o := &c19Op{kind: "rdeq"}
				if !run(o) || !o.outOK {
					break
				}
			}
			return nil, nil
		})
		s.Quiesce()
		h.drive(func() bool { return finDone && h.allDone() })
	}
	h.observe()
	h.finish(true, mainDone)
}
