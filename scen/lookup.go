package scen

import (
	"context"
	"errors"
	"fmt"
	"sort"
	"strings"
	"time"

	dht "github.com/libp2p/go-libp2p-kad-dht"
	pb "github.com/libp2p/go-libp2p-kad-dht/pb"
	"github.com/libp2p/go-libp2p/core/peer"
	ma "github.com/multiformats/go-multiaddr"

	"verif/sim"
	"verif/simhost"
	"verif/simnet"
)

// subRng is a small deterministic generator seeded from one tape draw; used
// where a run needs many low-value random bits (knowledge subsets) without
// making the tape long.
type subRng struct{ x uint64 }

func newSubRng(s *sim.Sim, label string) *subRng {
	return &subRng{x: uint64(s.Draw(label, 1<<20))*0x9e3779b97f4a7c15 + 1}
}
func (r *subRng) next() uint64 {
	r.x += 0x9e3779b97f4a7c15
	z := r.x
	z = (z ^ (z >> 30)) * 0xbf58476d1ce4e5b9
	z = (z ^ (z >> 27)) * 0x94d049bb133111eb
	return z ^ (z >> 31)
}
func (r *subRng) Intn(n int) int {
	if n <= 1 {
		return 0
	}
	return int(r.next() % uint64(n))
}

var errReqFailed = errors.New("sim: request failed")

// lookupCfg describes one generated closest-peers lookup instance.
type lookupCfg struct {
	N, K, Alpha, Beta int
	Key               string
	Deny              map[peer.ID]bool
	// AddrFilter: the query filter is address-sensitive: a peer passes iff the
	// addresses it is named with (plus what the peerstore holds) contain a
	// "good" (8.x / 9.x) address; repliers then present some peers with a
	// private address only, or with none.
	AddrFilter bool
	// LazyEvents: the lookup-event channel has room for one event and events
	// are consumed by scheduler decisions, so the lookup loop can be held up
	// publishing while further replies pile up behind it.
	LazyEvents bool
	// Present (optional hook, nil = records go out as the responder built
	// them): called for every closer-peer record of every reply just before
	// the reply is delivered, on the simulator goroutine; it may strip or
	// replace the record's address list (it must not touch the identity).
	Present func(responder *simnet.Peer, rec *pb.Message_Peer)
	// SeedAddrs (optional hook, nil = all of the peer's addresses): the
	// addresses of a seed peer the node's peerstore holds when the lookup
	// begins (the peer goes into the routing table either way).
	SeedAddrs func(p *simnet.Peer) []ma.Multiaddr
	// Arrange (optional hook, nil = nearest first as the responder built it):
	// called once per reply on the simulator goroutine with the closer-peer
	// records the responder is about to send; returns the same records in the
	// order in which they go on the wire (it must neither add nor drop one).
	Arrange func(responder *simnet.Peer, recs []*pb.Message_Peer) []*pb.Message_Peer
	// Prepare (optional hook): called once on the simulator goroutine after
	// the routing table was seeded and before the lookup starts (earlier
	// history of the node: what its peerstore still holds about peers).
	Prepare func(h *H1)
	// KeyFor (optional hook, nil = Key is used as it stands): called once the
	// universe exists (the ghosts of a lying world are added later; their
	// identities are simnet.MakeID(0xdead, i)); its result replaces Key. Lets a
	// scenario look up a key that is the identity of a member of the universe.
	KeyFor func(u *simnet.Universe) string
	// DialOK (optional hook, nil = a dial succeeds whenever the peer's scripted
	// behaviour does not say DialFail): called on the simulator goroutine at the
	// moment a parked dial to a peer whose behaviour allows it is released;
	// false makes the dial fail (a host that reaches peers at addresses only).
	DialOK func(h *H1, who peer.ID) bool
	// TickBudget (optional, 0 = unbounded): upper bound on the virtual time the
	// drawn "tick" advances add up to during one lookup (the draws stay the same).
	TickBudget time.Duration
	// ReqErr (optional hook, nil = errReqFailed): called on the simulator
	// goroutine at the moment a parked request to a peer whose scripted
	// behaviour fails requests is released; returns the error the request
	// fails with (the SHAPE of a request failure as an input).
	ReqErr func(to peer.ID) error
	// Opts (optional hook, nil = none): further options of the node under
	// test, appended after the ones buildLookupWorld chooses; called once
	// before the node is built. Built (optional hook): called once right after
	// the node was built, before the routing table is seeded.
	Opts       func() []dht.Option
	Built      func(h *H1)
	CancelAt   int // step at which the context is cancelled (0 = never)
	FaultLevel int // 0 none, 1 light, 2 heavy
	Lies       bool
	Universe   string // "random" | "full" | "kbucket"
}

type stampedEvent struct {
	Step int
	Ev   *dht.LookupEvent
}

// hasGoodAddr: the address-sensitive harness filter (palette: peers live on
// 8.x, ghosts on 9.x; "bad" presentations use 192.168.x).
func hasGoodAddr(addrs []ma.Multiaddr) bool {
	for _, a := range addrs {
		if s := a.String(); strings.HasPrefix(s, "/ip4/8.") || strings.HasPrefix(s, "/ip4/9.") {
			return true
		}
	}
	return false
}

var badAddr = ma.StringCast("/ip4/192.168.7.7/tcp/4001")

type delivery struct {
	Step   int
	Peer   peer.ID
	Kind   string // dial-ok dial-fail reply rpc-err cancel
	Peers  []peer.ID
	Good   map[peer.ID]bool // reply: peers presented with a good address
	RPC    *simnet.RPC
	Before bool
}

// lookupObs is everything observed about one lookup.
type lookupObs struct {
	cfg        lookupCfg
	h          *H1
	keyKad     simnet.Kad
	table      []peer.ID // routing table content when the lookup began
	events     []stampedEvent
	deliveries []delivery
	op         *Op
	cancelStep int // step at which cancel was applied (0 = not cancelled)
	drainAll   bool
	seeded     map[peer.ID]bool
	stampsPre  []time.Time
	stampsPost []time.Time
	returnedAt time.Time
}

func genLookupCfg(s *sim.Sim, universe string) lookupCfg {
	var c lookupCfg
	c.Universe = universe
	switch s.Draw("size-class", 3) {
	case 0:
		c.N = s.Range("n", 1, 6)
	case 1:
		c.N = s.Range("n", 4, 16)
	default:
		c.N = s.Range("n", 10, 48)
	}
	c.K = s.Range("k", 1, 8)
	c.Alpha = s.Range("alpha", 1, 5)
	c.Beta = s.Range("beta", 1, c.K+1)
	c.Key = fmt.Sprintf("key-%d", s.Draw("key", 1<<16))
	return c
}

// buildLookupWorld creates universe, behaviours and the DHT for cfg.
func buildLookupWorld(s *sim.Sim, c *lookupCfg) (*H1, error) {
	u := simnet.NewUniverse(uint64(s.Draw("universe", 1<<16)), c.N)
	rng := newSubRng(s, "world")
	if c.KeyFor != nil {
		c.Key = c.KeyFor(u)
	}
	keyKad := simnet.KadOfKey(c.Key)

	var opts []dht.Option
	if len(c.Deny) > 0 || (c.Universe == "random" && !c.AddrFilter && s.Chance("use-filter", 1, 3)) {
		c.Deny = map[peer.ID]bool{}
		for _, p := range u.Peers {
			if rng.Intn(5) == 0 {
				c.Deny[p.ID] = true
			}
		}
		deny := c.Deny
		opts = append(opts, dht.QueryFilter(func(_ any, ai peer.AddrInfo) bool { return !deny[ai.ID] }))
	} else if c.AddrFilter {
		opts = append(opts, dht.QueryFilter(func(_ any, ai peer.AddrInfo) bool { return hasGoodAddr(ai.Addrs) }))
	}
	if c.Opts != nil {
		opts = append(opts, c.Opts()...)
	}
	h, err := newH1(s, u, c.K, c.Alpha, c.Beta, opts...)
	if err != nil {
		return nil, err
	}
	if c.Built != nil {
		c.Built(h)
	}

	// ghosts: peers that exist only in lies
	var ghosts []*simnet.Peer
	if c.Lies {
		for i := 0; i < 2*c.K+6; i++ {
			g := u.Add(fmt.Sprintf("g%02d", i), simnet.MakeID(0xdead, i), []ma.Multiaddr{ma.StringCast(fmt.Sprintf("/ip4/9.9.%d.1/tcp/1", i))})
			ghosts = append(ghosts, g)
			h.Beh[g.ID] = &Behaviour{DialFail: true}
		}
	}
	real := u.Peers[:c.N]

	switch c.Universe {
	case "full":
		for _, p := range real {
			h.Beh[p.ID] = &Behaviour{Knows: real}
		}
	case "kbucket":
		// peer X knows all peers of each of its buckets holding <= K peers and
		// a K-subset of each larger one.
		for _, x := range real {
			buckets := map[int][]*simnet.Peer{}
			for _, y := range real {
				if y != x {
					cpl := x.Kad.CPL(y.Kad)
					buckets[cpl] = append(buckets[cpl], y)
				}
			}
			var knows []*simnet.Peer
			var cpls []int
			for c := range buckets {
				cpls = append(cpls, c)
			}
			sort.Ints(cpls)
			for _, cp := range cpls {
				b := buckets[cp]
				if len(b) > c.K {
					// drawn K-subset
					idx := make([]int, len(b))
					for i := range idx {
						idx[i] = i
					}
					for i := 0; i < c.K; i++ {
						j := i + rng.Intn(len(idx)-i)
						idx[i], idx[j] = idx[j], idx[i]
					}
					for i := 0; i < c.K; i++ {
						knows = append(knows, b[idx[i]])
					}
				} else {
					knows = append(knows, b...)
				}
			}
			sort.Slice(knows, func(i, j int) bool { return knows[i].Idx < knows[j].Idx })
			h.Beh[x.ID] = &Behaviour{Knows: knows}
		}
	default: // "random", "random-nofilter"
		density := []int{1, 3, 8}[s.Draw("density", 3)] // knows each other peer with p = density/8
		for _, p := range real {
			b := &Behaviour{}
			for _, q := range real {
				if q != p && rng.Intn(8) < density {
					b.Knows = append(b.Knows, q)
				}
			}
			if c.FaultLevel > 0 {
				pct := []int{0, 10, 40}[c.FaultLevel]
				if rng.Intn(100) < pct {
					b.DialFail = true
				} else if rng.Intn(100) < pct {
					b.ReqMode = reqError
				} else if c.Lies && rng.Intn(100) < pct {
					b.ReqMode = reqLiar
					b.Lie = rng.Intn(7)
				}
			}
			h.Beh[p.ID] = b
		}
	}
	_ = keyKad
	_ = ghosts
	return h, nil
}

// findNodeReply builds the reply of scripted peer x to a FIND_NODE/GET_* for key.
func (h *H1) closerFor(x *simnet.Peer, key simnet.Kad) []*pb.Message_Peer {
	b := h.Beh[x.ID]
	if b == nil {
		return nil
	}
	var cands []*simnet.Peer
	for _, p := range b.Knows {
		if p != x {
			cands = append(cands, p)
		}
	}
	near := simnet.Nearest(cands, key, h.K)
	if b.ReqMode != reqLiar {
		return simnet.ToPB(near)
	}
	h.S.Count("fault_lying_reply")
	switch b.Lie {
	case 0: // names the requester and itself
		return simnet.ToPB(append([]*simnet.Peer{h.U.Self, x}, near...))
	case 1: // duplicates
		return simnet.ToPB(append(append([]*simnet.Peer{}, near...), near...))
	case 2: // non-existent peers first
		var g []*simnet.Peer
		for _, p := range h.U.Peers {
			if len(p.Name) > 0 && p.Name[0] == 'g' && len(g) < h.K {
				g = append(g, p)
			}
		}
		return simnet.ToPB(append(g, near...))
	case 3: // more than 2K entries
		var all []*simnet.Peer
		for _, p := range h.U.Peers {
			if p != x {
				all = append(all, p)
			}
		}
		if len(all) > 2*h.K+5 {
			all = all[:2*h.K+5]
		}
		return simnet.ToPB(all)
	case 4: // no addresses
		out := simnet.ToPB(near)
		for _, m := range out {
			m.Addrs = nil
		}
		return out
	case 5: // the farthest peers it knows
		far := simnet.Nearest(cands, key, len(cands))
		if len(far) > h.K {
			far = far[len(far)-h.K:]
		}
		return simnet.ToPB(far)
	default:
		return nil
	}
}

// lookupActions turns every parked dial / rpc into a release action whose
// outcome follows the addressed peer's scripted behaviour.
func (o *lookupObs) lookupActions() []sim.Action {
	s, h := o.h.S, o.h
	var acts []sim.Action
	for _, p := range s.Parked() {
		p := p
		if p.Cancelled() {
			acts = append(acts, sim.Action{ID: "cancel>" + p.ID, Do: func() {
				var who peer.ID
				var rpc *simnet.RPC
				switch d := p.Data.(type) {
				case peer.ID:
					who = d
				case *simnet.RPC:
					who, rpc = d.To, d
				}
				s.ReleaseCancelled(p)
				o.deliveries = append(o.deliveries, delivery{Step: s.Steps, Peer: who, Kind: "cancel", RPC: rpc})
			}})
			continue
		}
		switch p.Kind {
		case "dial":
			who := p.Data.(peer.ID)
			acts = append(acts, sim.Action{ID: p.ID, Do: func() {
				b := h.Beh[who]
				if b == nil || b.DialFail || (o.cfg.DialOK != nil && !o.cfg.DialOK(h, who)) {
					s.Count("fault_dial_fail")
					s.Release(p, simhost.ErrDialFailed)
					o.deliveries = append(o.deliveries, delivery{Step: s.Steps, Peer: who, Kind: "dial-fail"})
				} else {
					s.Release(p, nil)
					o.deliveries = append(o.deliveries, delivery{Step: s.Steps, Peer: who, Kind: "dial-ok"})
				}
			}})
		case "rpc":
			r := p.Data.(*simnet.RPC)
			acts = append(acts, sim.Action{ID: p.ID, Do: func() {
				b := h.Beh[r.To]
				x := h.U.ByID(r.To)
				if b == nil || x == nil || b.ReqMode == reqError {
					s.Count("fault_rpc_error")
					reqErr := errReqFailed
					if o.cfg.ReqErr != nil {
						reqErr = o.cfg.ReqErr(r.To)
					}
					s.Release(p, simnet.Reply{Err: reqErr})
					o.deliveries = append(o.deliveries, delivery{Step: s.Steps, Peer: r.To, Kind: "rpc-err", RPC: r})
					return
				}
				closer := h.closerFor(x, simnet.KadOfKey(string(r.Req.GetKey())))
				if o.cfg.Arrange != nil {
					closer = o.cfg.Arrange(x, closer)
				}
				good := map[peer.ID]bool{}
				for _, c := range closer {
					if o.cfg.AddrFilter {
						switch s.Draw("present", 4) {
						case 1: // private address only
							c.Addrs = [][]byte{badAddr.Bytes()}
							s.Count("fault_bad_addr_presentation")
						case 2: // no address
							c.Addrs = nil
							s.Count("fault_bad_addr_presentation")
						}
					}
					if o.cfg.Present != nil {
						o.cfg.Present(x, c)
					}
					var as []ma.Multiaddr
					for _, b := range c.Addrs {
						if a, err := ma.NewMultiaddrBytes(b); err == nil {
							as = append(as, a)
						}
					}
					if hasGoodAddr(as) {
						good[peer.ID(c.Id)] = true
					}
				}
				resp := &pb.Message{Type: r.Req.GetType(), Key: r.Req.GetKey(), CloserPeers: closer}
				var ids []peer.ID
				for _, c := range closer {
					ids = append(ids, peer.ID(c.Id))
				}
				s.Release(p, simnet.Reply{Msg: resp})
				o.deliveries = append(o.deliveries, delivery{Step: s.Steps, Peer: r.To, Kind: "reply", Peers: ids, Good: good, RPC: r})
			}})
		}
	}
	return acts
}

// runLookup builds the world for cfg, runs one GetClosestPeers under the
// scheduler and returns what was observed. The DHT is left open.
func runLookup(s *sim.Sim, c lookupCfg) *lookupObs {
	h, err := buildLookupWorld(s, &c)
	if err != nil {
		panic(err)
	}
	o := &lookupObs{cfg: c, h: h, keyKad: simnet.KadOfKey(c.Key)}

	// seed routing table: a drawn non-empty subset
	rng := newSubRng(s, "seeds")
	real := h.U.Peers[:c.N]
	var seeds []*simnet.Peer
	frac := 1 + s.Draw("seed-frac", 4) // each peer seeded with p = frac/4
	for _, p := range real {
		if rng.Intn(4) < frac {
			seeds = append(seeds, p)
		}
	}
	if len(seeds) == 0 {
		seeds = []*simnet.Peer{real[rng.Intn(len(real))]}
	}
	o.seeded = map[peer.ID]bool{} // their true addresses went into the peerstore
	if c.SeedAddrs != nil {
		recs := make([]*simnet.Peer, len(seeds))
		for i, p := range seeds {
			cp := *p
			cp.Addrs = c.SeedAddrs(p)
			recs[i] = &cp
			if len(cp.Addrs) > 0 {
				o.seeded[p.ID] = true
			}
		}
		o.table = h.Seed(recs)
	} else {
		o.table = h.Seed(seeds)
		for _, p := range seeds {
			o.seeded[p.ID] = true
		}
	}
	if c.Prepare != nil {
		c.Prepare(h)
	}
	o.stampsPre = h.DHT.RoutingTable().GetTrackedCplsForRefresh()

	s.Summary["cfg"] = fmt.Sprintf("universe=%s N=%d K=%d alpha=%d beta=%d table=%d faults=%d lies=%v deny=%d addrFilter=%v lazyEvents=%v cancelAt=%d",
		c.Universe, c.N, c.K, c.Alpha, c.Beta, len(o.table), c.FaultLevel, c.Lies, len(c.Deny), c.AddrFilter, c.LazyEvents, c.CancelAt)

	evCtx, evCancel := context.WithCancel(context.Background())
	defer evCancel()
	oldBuf := dht.LookupEventBufferSize
	if c.LazyEvents {
		dht.LookupEventBufferSize = 1
	} else {
		dht.LookupEventBufferSize = 4096
	}
	regCtx, evCh := dht.RegisterForLookupEvents(evCtx)
	dht.LookupEventBufferSize = oldBuf
	opCtx, cancel := context.WithCancel(regCtx)
	defer cancel()

	takeOne := func() bool {
		select {
		case ev := <-evCh:
			if ev != nil {
				o.events = append(o.events, stampedEvent{s.Steps, ev})
			}
			return true
		default:
			return false
		}
	}
	drain := func() {
		if c.LazyEvents && !o.drainAll {
			return
		}
		for takeOne() {
		}
	}

	o.op = h.Ops.Go(s, "GetClosestPeers", func() (any, error) {
		r, err := h.DHT.GetClosestPeers(opCtx, c.Key)
		o.returnedAt = time.Now()
		return r, err
	})
	s.Quiesce()
	idle := 0
	var ticked time.Duration // virtual time advanced by drawn ticks (TickBudget)
	for {
		drain() // events published during step n are stamped n
		if !s.Step() || o.op.Done {
			break
		}
		if c.CancelAt > 0 && s.Steps >= c.CancelAt && o.cancelStep == 0 {
			o.cancelStep = s.Steps
			s.Tracef("cancel")
			s.Count("fault_cancel")
			cancel()
			s.Quiesce()
			continue
		}
		if s.Chance("tick", 1, 8) {
			d := time.Duration(1+s.Draw("tick-ms", 2000)) * time.Millisecond
			if c.TickBudget > 0 && ticked+d > c.TickBudget {
				d = c.TickBudget - ticked // the rest of the budget (possibly nothing)
			}
			if d > 0 {
				ticked += d
				s.Sleep(d)
				s.Count("time_advance")
			}
		}
		acts := o.lookupActions()
		if c.LazyEvents && len(evCh) > 0 {
			acts = append(acts, sim.Action{ID: "consume-event", Do: func() {
				if len(acts) > 1 {
					s.Count("probe_event_consumed_with_calls_parked")
				}
				takeOne()
			}})
		}
		if len(acts) == 0 {
			idle++
			if idle > 30 {
				break
			}
			s.Sleep(time.Second)
			continue
		}
		idle = 0
		s.Choose("next", acts)
	}
	o.drainAll = true
	drain()
	o.stampsPost = h.DHT.RoutingTable().GetTrackedCplsForRefresh()
	if s.Failed() {
		return o
	}
	if !o.op.Done {
		if s.Steps > s.MaxSteps {
			s.Summary["budget"] = "step budget exhausted"
			s.Count("step_budget_exhausted")
			return nil
		}
		s.Violate("no-return", "GetClosestPeers did not return although nothing is parked and %d s of virtual time passed", idle)
		return o
	}
	if o.op.Panic != "" {
		s.Violate("panic", "GetClosestPeers panicked: %s", firstLine(o.op.Panic))
	}
	// trace the observable outcome (determinism witness)
	res, _ := o.op.Result.([]peer.ID)
	// (the Terminate event of a cancelled lookup is published through a select
	// that races with the cancelled context, so it is not part of the witness)
	nev := 0
	for _, e := range o.events {
		if e.Ev.Terminate == nil {
			nev++
		}
	}
	s.Tracef("result %s err=%v events=%d", names(h.U, res), o.op.Err, nev)
	return o
}

// ---------------------------------------------------------------------------
// derived views on the event stream

type lookupView struct {
	seeds      []peer.ID
	termIdx    int // index in events of the Terminate event (-1 if none)
	termStep   int // step at which the search phase ended
	reason     string
	requested  map[peer.ID]int // step of the Request event
	queried    map[peer.ID]int
	unreach    map[peer.ID]int
	heardBy    map[peer.ID][]peer.ID // per responder, the Heard list published
	learned    map[peer.ID]bool
	respEvents int
	// peers reported as queried/unreachable in an event whose cause is another
	// peer, or together with others in one event
	causeMismatch []peer.ID
}

func (o *lookupObs) view() (*lookupView, string) {
	self := o.h.U.Self.ID
	v := &lookupView{termIdx: -1, requested: map[peer.ID]int{}, queried: map[peer.ID]int{}, unreach: map[peer.ID]int{},
		heardBy: map[peer.ID][]peer.ID{}, learned: map[peer.ID]bool{}}
	for i, se := range o.events {
		ev := se.Ev
		if ev.Key == nil || ev.Key.Key != o.cfg.Key {
			continue
		}
		switch {
		case ev.Terminate != nil:
			if v.termIdx >= 0 {
				return nil, "two Terminate events"
			}
			v.termIdx, v.termStep, v.reason = i, se.Step, ev.Terminate.Reason.String()
		case ev.Request != nil:
			if v.termIdx >= 0 {
				return nil, "Request event after Terminate"
			}
			for _, w := range ev.Request.Waiting {
				if _, dup := v.requested[w.Peer]; dup {
					return nil, fmt.Sprintf("peer %s requested twice", o.h.U.Name(w.Peer))
				}
				v.requested[w.Peer] = se.Step
			}
		case ev.Response != nil:
			if v.termIdx >= 0 {
				return nil, "Response event after Terminate"
			}
			r := ev.Response
			if r.Cause != nil && r.Cause.Peer == self && len(r.Queried) == 0 && len(r.Unreachable) == 0 && v.respEvents == 0 {
				for _, p := range r.Heard {
					v.seeds = append(v.seeds, p.Peer)
					v.learned[p.Peer] = true
				}
				v.respEvents++
				continue
			}
			v.respEvents++
			var cause peer.ID
			if r.Cause != nil {
				cause = r.Cause.Peer
			}
			for _, q := range r.Queried {
				v.queried[q.Peer] = se.Step
				if q.Peer != cause {
					v.causeMismatch = append(v.causeMismatch, q.Peer)
				}
			}
			for _, q := range r.Unreachable {
				v.unreach[q.Peer] = se.Step
				if q.Peer != cause {
					v.causeMismatch = append(v.causeMismatch, q.Peer)
				}
			}
			if len(r.Queried)+len(r.Unreachable) > 1 {
				v.causeMismatch = append(v.causeMismatch, cause)
			}
			var hl []peer.ID
			for _, p := range r.Heard {
				hl = append(hl, p.Peer)
				if p.Peer != self {
					v.learned[p.Peer] = true
				}
			}
			if len(r.Queried) > 0 {
				v.heardBy[cause] = hl
			}
		}
	}
	if v.termIdx < 0 {
		v.termStep = o.cancelStep
		v.reason = "cancelled(no event)"
	}
	return v, ""
}

// expectedResult: the first K of (learned \ unreachable \ self) by distance.
func (o *lookupObs) expectedResult(v *lookupView) []peer.ID {
	var cand []peer.ID
	for p := range v.learned {
		if _, bad := v.unreach[p]; bad || p == o.h.U.Self.ID {
			continue
		}
		cand = append(cand, p)
	}
	sort.Slice(cand, func(i, j int) bool { return o.h.U.Name(cand[i]) < o.h.U.Name(cand[j]) })
	simnet.SortByDistance(cand, o.keyKad)
	if len(cand) > o.cfg.K {
		cand = cand[:o.cfg.K]
	}
	return cand
}

func idSet(ids []peer.ID) map[peer.ID]bool {
	m := map[peer.ID]bool{}
	for _, p := range ids {
		m[p] = true
	}
	return m
}

func sameSet(a, b []peer.ID) bool {
	x, y := idSet(a), idSet(b)
	if len(x) != len(y) {
		return false
	}
	for p := range x {
		if !y[p] {
			return false
		}
	}
	return true
}
