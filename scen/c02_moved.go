//go:build all || c02

package scen

// C02, scenario `converge-moved-peers`: the convergence universes on a host
// that reaches peers AT ADDRESSES, with an address book that remembers where
// some peers used to live.
//
// Property clause encoded (no new rule id; `converge-full` and
// `converge-nearest` judge it):
//
//   * "If every peer answers, knows every peer of each of its non-full
//     k-buckets (and K peers of each full one) and replies with the K nearest
//     peers it knows, an uncancelled closest-peers lookup returns the globally
//     nearest peer first, and returns exactly the K globally nearest peers when
//     every peer knows the whole network."  The premise describes the network
//     WHILE the lookup runs: every peer is up, answers at the address it lives
//     at now, and every reply that names a peer gives that current address.
//     It says nothing about the node's earlier history. A node that has been
//     running for a while has met some peers before (a connection, an identify
//     exchange, a referral of an earlier lookup), and its address book still
//     holds the address they had then; meanwhile they restarted on another
//     port or moved to another machine. The peers answer now, the replies say
//     where, so the conclusion must hold whatever the address book remembered
//     before the lookup began.
//
// World model. The other C02 scenarios run on a host that connects by identity
// (c02_bare.go: a routed host; the peerstore content does not matter for a
// dial). Here the host is an ordinary one: a dial to a peer succeeds iff, at
// the moment the dial is carried out, the node's address book holds an address
// at which the peer is reachable now (lookupCfg.DialOK reads the real
// peerstore of the simulated host at the release of the parked dial). Nobody
// is named bare in this scenario, every seed is stored with its current
// address, no faults, no cancellation, no query filter: "every peer answers"
// holds at the level of addresses.
//
// What is generated (on top of the universe, K/alpha/beta incl. wide K, the
// seed table, the reply order and the protocol-list leftovers of
// c02_stale.go; all derived from six tape draws):
//
//   * a share (1/8, 1/4, 1/2 or all) of the peers of the network — seeds and
//     peers the node will only hear of alike — have MOVED since the node last
//     noted an address for them: before the lookup starts the address book
//     holds one or two out-of-date addresses for them (same machine on another
//     port, another machine, or both), with a drawn lifetime (a minute, ten
//     minutes, an hour, permanent). For a drawn part of them (none, some, all)
//     the note is up to date as well (it also lists the current address);
//   * what a reply says about a moved peer: its current address only, or — the
//     responder remembers the old place too — the current address together
//     with an old one, in either order (fixed per (responder, peer) pair);
//   * everything else as in `converge-full-knowledge` /
//     `converge-kbucket-complete` (the universe kind is drawn).
//
// Regressions this exposes: any place where the lookup lets what the local
// address book already holds for a peer decide whether the addresses of a
// referral are taken in — "have an entry already, skip the write", replacing
// instead of adding, keeping only the first address of a record, caching a
// dial verdict per peer across address changes — so that a live peer whose
// current address was handed to the lookup is tried at a dead address only,
// written off as unreachable and missing from the result.
//
// Soundness. On the unchanged tree every peer the lookup dials is either a
// seed (current address stored by the scenario for an hour) or was named in a
// delivered reply, and every reply gives the current address, which the lookup
// adds to the address book before the peer can be picked for a dial. The
// address book forgets referral addresses after a while; how long it keeps
// them is the library's business and not part of the property, so the
// scenario keeps a lookup short instead: the drawn clock ticks of one lookup
// add up to at most 20 s of virtual time (lookupCfg.TickBudget), far below any
// lifetime an address book would give an address it was just handed (EXCLUDED:
// lookups that outlast the lifetime of referral addresses; in an
// address-based world the premise "every peer answers" does not survive
// that). The dial verdict is computed on the simulator goroutine while the
// system under test is quiescent; reading the peerstore emits no event.
//
// Probes: fault_moved_peer (the address book starts with out-of-date addresses
// only for a peer), probe_moved_peer_named (such a peer, not in the routing
// table, was named in a delivered reply), probe_moved_peer_dialed (a dial to
// it was carried out and found the current address in the address book next
// to the old one), probe_moved_peer_returned (it is part of the result),
// probe_moved_record_old_first (a record went out with an old address in
// front of the current one).

import (
	"fmt"
	"strconv"
	"strings"
	"time"

	pb "github.com/libp2p/go-libp2p-kad-dht/pb"
	"github.com/libp2p/go-libp2p/core/peer"
	"github.com/libp2p/go-libp2p/core/peerstore"
	ma "github.com/multiformats/go-multiaddr"

	"verif/sim"
	"verif/simnet"
)

var c02MovedFaults = []string{"fault_moved_peer", "probe_moved_peer_named", "probe_moved_peer_dialed", "probe_moved_peer_returned", "probe_moved_record_old_first"}

func init() {
	sim.Register(&sim.Scenario{Prop: "C02", Name: "converge-moved-peers", Weight: 3, Run: runC02Moved,
		Real: []string{"IpfsDHT.GetClosestPeers", "query.go state machine incl. follow-up phase", "qpeerset", "lookup events", "address handling of referrals (maybeAddAddrs, real pstoremem address book)", "ProtocolMessenger"},
		Stub: []string{"host.Host/network (simhost; dials judged by the address book content)", "pb.MessageSender (level A)", "remote peers (scripted: full knowledge / k-bucket complete)"},
		Faults: append([]string{"time_advance", "probe_term_completed", "probe_followup_ran", "probe_stamp_checked", "probe_reply_reordered"},
			c02MovedFaults...)})
}

type movedWorld struct {
	s     *sim.Sim
	seed  uint64
	share int           // eighths of the peers that moved
	fresh int           // 0 none / 1 some / 2 all of the notes list the current address too
	ttl   time.Duration // lifetime of the old note
	how   int           // 0 other port, 1 other machine, 2 both (two old addresses), 3 mixed per peer
	recs  int           // 0 current only, 1 current+old per (responder, peer) pair, 2 always both
	old   map[peer.ID][]ma.Multiaddr
	// outdated: peers for which the address book held out-of-date addresses
	// only when the lookup began
	outdated map[peer.ID]bool
	dialedOK map[peer.ID]bool
}

func drawMovedWorld(s *sim.Sim) *movedWorld {
	w := &movedWorld{s: s, seed: uint64(s.Draw("moved-seed", 1<<20)), old: map[peer.ID][]ma.Multiaddr{},
		outdated: map[peer.ID]bool{}, dialedOK: map[peer.ID]bool{}}
	w.share = []int{2, 1, 4, 8}[s.Draw("moved-share", 4)]
	w.fresh = s.Draw("moved-fresh", 3)
	w.ttl = []time.Duration{time.Hour, time.Minute, 10 * time.Minute, peerstore.PermanentAddrTTL}[s.Draw("moved-ttl", 4)]
	w.how = s.Draw("moved-how", 4)
	w.recs = s.Draw("moved-present", 3)
	return w
}

func (w *movedWorld) String() string {
	return fmt.Sprintf("share=%d/8,fresh=%s,ttl=%s,how=%s,present=%s", w.share, [...]string{"none", "some", "all"}[w.fresh], w.ttl,
		[...]string{"port", "machine", "both", "mixed"}[w.how], [...]string{"current", "pairwise", "both"}[w.recs])
}

// oldAddrs: where p used to live (never one of its current addresses).
func (w *movedWorld) oldAddrs(p *simnet.Peer) []ma.Multiaddr {
	if as, ok := w.old[p.ID]; ok {
		return as
	}
	var out []ma.Multiaddr
	z := bareMix(w.seed ^ kad64(p.Kad) ^ 0x6d6f7665)
	if int(z%8) < w.share && len(p.Addrs) > 0 {
		// "/ip4/a.b.c.d/tcp/port"
		parts := strings.Split(p.Addrs[0].String(), "/")
		if len(parts) == 5 {
			ip := strings.Split(parts[2], ".")
			port, _ := strconv.Atoi(parts[4])
			how := w.how
			if how == 3 {
				how = int((z >> 8) % 3)
			}
			if how == 0 || how == 2 {
				out = append(out, ma.StringCast(fmt.Sprintf("/ip4/%s/tcp/%d", parts[2], port+1+int((z>>16)%1000))))
			}
			if (how == 1 || how == 2) && len(ip) == 4 {
				out = append(out, ma.StringCast(fmt.Sprintf("/ip4/%s.%s.%s.%d/tcp/%d", ip[0], ip[1], ip[2], 2+int((z>>32)%200), port)))
			}
		}
	}
	w.old[p.ID] = out
	return out
}

// bookHasCurrent: the address book of the node holds an address p lives at now.
func bookHasCurrent(h *H1, p *simnet.Peer) bool {
	for _, a := range h.Host.Peerstore().Addrs(p.ID) {
		for _, c := range p.Addrs {
			if a.Equal(c) {
				return true
			}
		}
	}
	return false
}

// prepare is the lookupCfg.Prepare hook: the leftovers of earlier encounters.
func (w *movedWorld) prepare(h *H1) {
	ps := h.Host.Peerstore()
	for _, p := range h.U.Peers {
		old := w.oldAddrs(p)
		if len(old) == 0 {
			continue
		}
		ps.AddAddrs(p.ID, old, w.ttl)
		z := bareMix(w.seed ^ kad64(p.Kad) ^ 0x66726573)
		if w.fresh == 2 || (w.fresh == 1 && z%2 == 0) {
			ps.AddAddrs(p.ID, p.Addrs, w.ttl) // the note is up to date as well
		}
		if !bookHasCurrent(h, p) {
			w.outdated[p.ID] = true
			w.s.Count("fault_moved_peer")
		}
	}
}

// dialOK is the lookupCfg.DialOK hook: the host reaches a peer at addresses
// the address book holds at this moment, and the peer lives at p.Addrs only.
func (w *movedWorld) dialOK(h *H1, who peer.ID) bool {
	p := h.U.ByID(who)
	if p == nil {
		return false
	}
	ok := bookHasCurrent(h, p)
	if ok && w.outdated[who] {
		w.dialedOK[who] = true
	}
	return ok
}

// present is the lookupCfg.Present hook: a responder that remembers the old
// place of a moved peer names both, the current address always among them.
func (w *movedWorld) present(responder *simnet.Peer, rec *pb.Message_Peer) {
	if w.recs == 0 || len(rec.Addrs) == 0 {
		return
	}
	target := peer.ID(rec.Id)
	old := w.old[target]
	if len(old) == 0 {
		return
	}
	z := bareMix(bareMix(w.seed^kad64(responder.Kad)) ^ kad64(simnet.KadOfPeer(target)))
	if w.recs == 1 && z%2 == 0 {
		return
	}
	o := old[int((z>>8)%uint64(len(old)))].Bytes()
	if (z>>16)%2 == 0 {
		rec.Addrs = append(rec.Addrs, o)
	} else {
		rec.Addrs = append([][]byte{o}, rec.Addrs...)
		w.s.Count("probe_moved_record_old_first")
	}
}

func (w *movedWorld) probes(s *sim.Sim, o *lookupObs, res []peer.ID) {
	inTable := idSet(o.table)
	named := map[peer.ID]bool{}
	for _, d := range o.deliveries {
		if d.Kind != "reply" {
			continue
		}
		for _, p := range d.Peers {
			if w.outdated[p] && !inTable[p] {
				named[p] = true
			}
		}
	}
	if len(named) == 0 {
		return
	}
	s.Count("probe_moved_peer_named")
	for p := range named {
		if w.dialedOK[p] {
			s.Count("probe_moved_peer_dialed")
			break
		}
	}
	if o.op.Err == nil && o.cancelStep == 0 {
		for _, p := range res {
			if named[p] {
				s.Count("probe_moved_peer_returned")
				break
			}
		}
	}
}

func runC02Moved(s *sim.Sim) {
	universe := []string{"kbucket", "full"}[s.Draw("moved-universe", 2)]
	c := genLookupCfg(s, universe)
	drawWideK(s, &c)
	order := drawReplyOrder(s)
	c.Arrange = order.arrange
	stale := drawStaleWorld(s)
	moved := drawMovedWorld(s)
	c.Prepare = func(h *H1) {
		if stale != nil {
			stale.prepare(h)
		}
		moved.prepare(h)
	}
	c.Present = moved.present
	c.DialOK = moved.dialOK
	c.TickBudget = 20 * time.Second
	s.MaxSteps = 800
	if c.K > c02SmallK {
		s.MaxSteps = 1600
	}
	o := runLookup(s, c)
	if o != nil {
		s.Summary["cfg"] = fmt.Sprintf("%v order=%s stale=%s moved=%s outdated=%d", s.Summary["cfg"], order, stale, moved, len(moved.outdated))
	}
	if o != nil && !s.Failed() {
		checkC02(s, o, &c02Extras{stale: stale})
		if !s.Failed() {
			res, _ := o.op.Result.([]peer.ID)
			moved.probes(s, o, res)
		}
	}
	if o != nil {
		o.h.closeAndCensus()
	}
	s.Finish()
}
