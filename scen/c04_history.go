//go:build all || c04

package scen

// C04, histories: SEVERAL value lookups, one after the other, on ONE client
// instance (standard, accelerated, dual), for a small pool of different keys
// (rank-validator keys under /r, public keys of RSA identities under /pk, or
// both), with drawn amounts of virtual time between them. The property is
// quantified over every assignment of records to responders; in a history the
// assignment of a later search includes *replays*: records carrying exactly the
// bytes an earlier search on this client came across - supplied by a peer
// (accepted or rejected then), yielded by the client, or held in local storage
// under some key - filed under the key requested now (or, a verbatim replay,
// under the key they were first seen with). A value that was valid for K1 is
// served for K2; peer A's public key is served as peer B's; a value that was
// valid an hour ago is served again; a value that was rejected under K1 because
// it belongs to K2 is served when K2 is looked up. What a client keeps between
// searches (connections, routing state, the peerstore, whatever memory a later
// version may add) must not change what a search may yield.
//
// Every search of a history is judged by exactly the rules of the one-search
// scenarios (c04World.check / the public-key rule of c04_pk.go), each of which
// is a clause of the property read for "the requested key" of THAT search:
//
//	yield-invalid / yield-miskeyed / yield-unsupplied / yield-expired-local /
//	yield-invalid-local
//	    "only yield values that the configured validator accepts for the
//	    requested key ... never an invalid or mis-keyed record": a yielded
//	    value was supplied to this search by a correctly keyed record that the
//	    harness' validator accepts for the requested key at the delivery instant
//	    (or by the local record, valid when the search starts), and every value
//	    streamed by SearchValue is accepted at the instant it is received;
//	pk-mismatch / pk-nil
//	    "a public key returned for a peer always hashes to that peer's ID"
//	    (routing.GetPublicKey on the client: the client's own GetPublicKey where
//	    it has one, GetValue("/pk/<id>") on the accelerated client);
//	stream-not-improving, best-known, valid-value-lost
//	    "strictly improving ... ranked at least as good as every valid value
//	    supplied ... before the search ended" - a replayed value that IS valid
//	    for the requested key counts like any other supplied value;
//	notfound-error, notfound-value
//	    "if no valid value was supplied the result is not-found". "Supplied" is
//	    read per search (local storage, or a peer whose answer was processed
//	    before the search ended). A value validly supplied for the same key to
//	    an earlier search and still accepted by the validator is tolerated as a
//	    yield when this search was supplied with something valid too (the
//	    property is silent about such a memory; the unchanged clients have none
//	    for values) but not as a substitute for not-found.
//
// Left out of the generated space, for determinism (HARNESS pitfalls 2 and 3):
// searches of a history never overlap; on the standard and the dual client
// only the LAST search of a history may stop early on a quorum, be cancelled,
// or go through the client's own GetPublicKey (which stops on a quorum of 1
// internally) - what such a search leaves in flight depends on a runtime coin
// inside the lookup, and a later search must not be built on it - and their
// GetPublicKey(X) is only generated while X has never been contacted (else the
// direct request to X and the lookup's request to X are indistinguishable
// twins). The accelerated client has no such coin: any of its searches may stop
// early or be cancelled, and the caller may keep its context alive after an
// early stop so that the requests left in flight are still answered (and their
// records validated) after the search ended.

import (
	"bytes"
	"context"
	"fmt"
	"sort"
	"strings"
	"time"

	recpb "github.com/libp2p/go-libp2p-record/pb"
	ci "github.com/libp2p/go-libp2p/core/crypto"
	"github.com/libp2p/go-libp2p/core/peer"
	"github.com/libp2p/go-libp2p/core/routing"
	ma "github.com/multiformats/go-multiaddr"

	"verif/sim"
	"verif/simnet"
)

func init() {
	for _, v := range []struct {
		name   string
		weight int
	}{{"standard", 2}, {"fullrt", 2}, {"dual", 1}} {
		v := v
		var dualProbes []string
		if v.name == "dual" {
			// rule best-known-dual-local (c04World.check): the local-storage half of
			// best-known on dual.SearchValue
			dualProbes = []string{"probe_dual_local_bestknown_checked", "probe_dual_local_valid_lan_table_empty"}
		}
		sim.Register(&sim.Scenario{Prop: "C04", Name: "history-" + v.name, Weight: v.weight, Run: func(s *sim.Sim) { c04RunHistory(s, v.name) },
			Real: []string{"the same client instance across 2-5 consecutive GetValue/SearchValue/routing.GetPublicKey calls for different keys (everything a client keeps between searches)"},
			Stub: []string{"remote peers (scripted per search; replaying bytes seen in earlier searches)", "record validators (harness rank validator under /r, the real PublicKeyValidator under /pk)"},
			Faults: append([]string{"fault_rec_invalid", "fault_rec_miskeyed", "fault_rec_empty", "fault_rpc_error", "fault_cancel", "time_advance",
				"probe_history_searches", "probe_history_other_key_than_before", "probe_history_same_key_again", "probe_history_found_after_other_key_found",
				"probe_history_replay_valid_for_other_key", "probe_history_replay_rejected_elsewhere_valid_here", "probe_history_replay_same_key_still_valid",
				"probe_history_replay_same_key_expired_since", "probe_history_replay_verbatim_record", "probe_history_pk_other_identity_key_after_its_search",
				"probe_history_answered_after_search_end", "probe_history_getpublickey",
				"probe_key_outside_namespaces", "probe_key_outside_record_acceptable_to_unregistered_validator",
				"probe_opt_offline", "probe_opt_expired", "probe_opt_offline_local_not_valid", "probe_local_never_valid", "probe_local_outlived_max_age", "probe_stamp_valid_value_held_past_requesters_max_age", "probe_stamp_valid_value_from_the_future", "probe_stamp_valid_value_unparsable"}, dualProbes...),
		})
	}
}

// c04HKey is one key of a history's pool.
type c04HKey struct {
	Key   string
	Class int          // c04Key*: where the key lies relative to the configured validator's namespaces
	PK    *c04PK       // "/pk/<id>" of this identity (nil: a rank-validator key)
	Peer  *simnet.Peer // the identity's own node
	Local []byte       // the record the client stores under this key (nil: none)
	// Planted: the stored record was rewritten straight in the datastore into
	// one that never was valid for this key (PlantKind: c04Plant*)
	Planted   bool
	PlantKind int
	StoredAt  time.Duration
}

// c04Seen is one byte string an earlier search of the history came across.
type c04Seen struct {
	ReqKey string // the key that search requested (or the key it is stored under)
	RecKey string // the key the record carrying it was filed under
	Val    []byte
	Valid  bool // filed under the requested key and validator-approved at that instant
}

type c04Hist struct {
	keys      []*c04HKey
	groups    [][]*simnet.Peer // responder populations (dual: WAN, LAN), identities' nodes included
	plain     [][]*simnet.Peer // the same without the identities' nodes
	seen      []c04Seen
	seenIdx   map[string]bool
	contacted map[peer.ID]bool
	found     map[string]bool // keys whose search yielded a value
	round     int
}

func (h *c04Hist) note(x c04Seen) {
	if len(x.Val) == 0 {
		return
	}
	id := fmt.Sprintf("%v|%s|%s|%s", x.Valid, x.ReqKey, x.RecKey, x.Val)
	if h.seenIdx[id] {
		return
	}
	h.seenIdx[id] = true
	h.seen = append(h.seen, c04Seen{ReqKey: x.ReqKey, RecKey: x.RecKey, Val: append([]byte(nil), x.Val...), Valid: x.Valid})
}

// delivered classifies a delivered record against the earlier searches (probes
// only; h.seen holds earlier searches' material, never the current one's).
func (h *c04Hist) delivered(w *c04World, sup *c04Supply) {
	s := w.s
	if len(sup.Val) == 0 {
		return
	}
	if !sup.KeyOK {
		if sup.Kind == c04Replay {
			s.Count("probe_history_replay_verbatim_record")
		}
		return
	}
	var validElsewhere, rejectedElsewhere, sameKeyValid bool
	for _, x := range h.seen {
		if !bytes.Equal(x.Val, sup.Val) {
			continue
		}
		switch {
		case x.ReqKey != w.cfg.Key && x.Valid:
			validElsewhere = true
		case x.ReqKey != w.cfg.Key:
			rejectedElsewhere = true
		case x.Valid:
			sameKeyValid = true
		}
	}
	switch {
	case validElsewhere && !sup.ValidNow:
		s.Count("probe_history_replay_valid_for_other_key")
		if strings.HasPrefix(w.cfg.Key, "/pk/") {
			s.Count("probe_history_pk_other_identity_key_after_its_search")
		}
	case rejectedElsewhere && sup.ValidNow:
		s.Count("probe_history_replay_rejected_elsewhere_valid_here")
	case sameKeyValid && sup.ValidNow:
		s.Count("probe_history_replay_same_key_still_valid")
	case sameKeyValid:
		s.Count("probe_history_replay_same_key_expired_since")
	}
}

// carriedOver: val was validly supplied for the key requested now to an earlier
// search of the history, and the validator still accepts it.
func (h *c04Hist) carriedOver(w *c04World, val []byte) bool {
	for _, x := range h.seen {
		if x.Valid && x.ReqKey == w.cfg.Key && bytes.Equal(x.Val, val) {
			return w.validate(w.cfg.Key, val) == nil
		}
	}
	return false
}

// c04NSValidate / c04NSSelect: the validator in force for a key, by namespace,
// as configured on the clients (c04Opts next to the default /pk validator).
// It is a real record.NamespacedValidator of the harness' own making (c04NSV):
// for a key outside its namespaces it rejects every value.
func c04NSValidate(rv rankValidator) func(string, []byte) error { return c04NSV(rv).Validate }

func c04NSSelect(rv rankValidator) func(string, [][]byte) (int, error) { return c04NSV(rv).Select }

// histPutLocal stores a record under hk.Key through the public API while the
// client has nobody to talk to: valid for the whole run, or expiring after a
// drawn while (so that, depending on when the key is searched, the record is
// valid, expires during the search, or has expired).
func (w *c04World) histPutLocal(hk *c04HKey, i int) {
	s := w.s
	var val []byte
	var exp time.Time
	rank, plant := 0, -1
	switch {
	case hk.PK != nil:
		switch s.Draw(fmt.Sprintf("local-pk-%d", i), 6) {
		case 1:
		case 2: // later rewritten into another identity's (perfectly valid) key
			plant = c04PlantOtherKey
		default:
			return
		}
		val = hk.PK.Raw
	default:
		rank = s.Draw(fmt.Sprintf("local-rank-%d", i), 2*w.cfg.Ranks)
		switch s.Draw(fmt.Sprintf("local-%d", i), 5) {
		case 0:
			return
		case 1:
			exp = time.Now().Add(2000 * time.Hour)
		case 2:
			exp = time.Now().Add(time.Duration(1+s.Draw("local-ttl-ms", 20000)) * time.Millisecond)
		case 3:
			exp = time.Now().Add(time.Duration(1+s.Draw("local-ttl-s", 7200)) * time.Second)
		default: // later rewritten into a record that never was valid for this key
			exp = time.Now().Add(2000 * time.Hour)
			plant = s.Draw("local-plant", c04PlantKinds)
		}
		val = rankValue(rank, exp, hk.Key)
	}
	op := w.ops.Go(s, "PutValue", func() (any, error) {
		return nil, w.sut.client.PutValue(context.Background(), hk.Key, val)
	})
	s.Quiesce()
	for i := 0; i < 50 && !op.Done; i++ { // nothing should be parked; be robust anyway
		ps := s.Parked()
		if len(ps) == 0 {
			s.Sleep(time.Second)
			continue
		}
		releaseBenign(s, ps[0])
		s.Quiesce()
	}
	if !op.Done || !w.sut.stored(val) {
		return
	}
	hk.StoredAt = s.Now()
	if plant < 0 {
		hk.Local = val
		w.hist.note(c04Seen{ReqKey: hk.Key, RecKey: hk.Key, Val: val, Valid: true})
		return
	}
	// another key of the pool (or, for a lone key, a made-up one) is what the
	// "belongs to another key" records are made of
	otherKey, planted := hk.Key+"-other", []byte(nil)
	for _, o := range w.hist.keys {
		if o != hk && (o.PK != nil) == (hk.PK != nil) {
			otherKey = o.Key
		}
	}
	if hk.PK != nil {
		for j, k := range c04Keys() {
			if k.ID != hk.PK.ID {
				planted, otherKey = c04Keys()[j].Raw, routing.KeyForPublicKey(k.ID)
				break
			}
		}
	} else {
		planted = c04PlantValue(plant, val, rank, exp, hk.Key, otherKey)
	}
	if !w.sut.plant(hk.Key, val, func(rec *recpb.Record) {
		if plant == c04PlantMisKeyed {
			rec.Key = []byte(otherKey)
		}
		rec.Value = planted
	}) {
		return
	}
	if planted == nil {
		planted = []byte{}
	}
	hk.Local, hk.Planted, hk.PlantKind = planted, true, plant
	w.hist.note(c04Seen{ReqKey: hk.Key, RecKey: hk.Key, Val: planted, Valid: false})
}

// histFlush lets everything that is parked go, first parked call first, without
// decisions and without tracing: calls whose context is done observe that,
// the others get the addressed responder's scripted answer.
func (w *c04World) histFlush() int {
	s := w.s
	n := 0
	for i := 0; i < 600; i++ {
		acts := w.actions()
		if len(acts) == 0 {
			break
		}
		sort.SliceStable(acts, func(i, j int) bool { return acts[i].ID < acts[j].ID })
		acts[0].Do()
		s.Quiesce()
		n++
	}
	return n
}

// histScript scripts every responder for a search of hk (other: the key whose
// records the "belongs to another key" kinds are made of), then turns a drawn
// share of them into replayers of earlier searches' bytes.
func (w *c04World) histScript(hk, other *c04HKey, replay int) {
	s, h := w.s, w.hist
	w.resp = map[peer.ID]*c04Resp{}
	for _, grp := range h.groups {
		if len(grp) == 0 {
			continue
		}
		if hk.PK == nil {
			w.genResponders(grp, grp)
			continue
		}
		// public-key search (compare c04RunPK)
		otherPK := other.PK
		if otherPK == nil {
			for i, k := range c04Keys() {
				if k.ID != hk.PK.ID {
					otherPK = &c04Keys()[i]
					break
				}
			}
		}
		rng := newSubRng(s, "responders")
		// weights: right-key invalid miskeyed empty norecord error
		weights := [][]int{{0, 4, 2, 1, 4, 2}, {1, 4, 2, 1, 5, 2}, {5, 3, 2, 1, 3, 1}}[w.cfg.Profile]
		tWeights := []int{3, 4, 2, 1, 2, 2}
		density := []int{2, 4, 8}[s.Draw("density", 3)]
		for i, p := range grp {
			wts := weights
			if p == hk.Peer {
				wts = tWeights
			}
			r := c04PKScript(rng, i, *hk.PK, *otherPK, wts)
			for _, q := range grp {
				if q != p && rng.Intn(8) < density {
					r.Knows = append(r.Knows, q)
				}
			}
			r.DialFail = rng.Intn(10) == 0
			w.resp[p.ID] = r
		}
	}
	if replay == 0 || len(h.seen) == 0 {
		return
	}
	// the most telling replays: bytes an earlier search accepted for another key
	var elsewhere []int
	for i, x := range h.seen {
		if x.Valid && x.ReqKey != hk.Key {
			elsewhere = append(elsewhere, i)
		}
	}
	rng := newSubRng(s, "replays")
	for _, grp := range h.groups {
		for _, p := range grp {
			r := w.resp[p.ID]
			if r == nil || rng.Intn(8) >= replay {
				continue
			}
			x := h.seen[rng.Intn(len(h.seen))]
			if len(elsewhere) > 0 && rng.Intn(2) == 0 {
				x = h.seen[elsewhere[rng.Intn(len(elsewhere))]]
			}
			r.Kind, r.Sub, r.Val, r.NilVal, r.RecKey = c04Replay, 0, x.Val, false, hk.Key
			if rng.Intn(4) == 0 { // the earlier record, verbatim
				r.Sub, r.RecKey = 1, x.RecKey
			}
		}
	}
}

func c04RunHistory(s *sim.Sim, variant string) {
	s.MaxSteps = 1500
	c := c04Cfg{Variant: variant, Quorum: -1}
	switch s.Draw("size-class", 3) {
	case 0:
		c.N = s.Range("n", 1, 5)
	case 1:
		c.N = s.Range("n", 3, 12)
	default:
		c.N = s.Range("n", 8, 24)
	}
	c.K = s.Range("k", 1, 8)
	c.Alpha = s.Range("alpha", 1, 5)
	c.Beta = s.Range("beta", 1, c.K+1)
	c.Ranks = s.Range("ranks", 1, 8)
	c.MaxAge = s.Draw("max-record-age", len(c04MaxAges))
	if c.Stamps = s.Draw("stamps", 3); c.Stamps != 0 {
		c.StampSeed = s.Draw("stamp-seed", 1<<16)
	}
	rounds := s.Range("searches", 2, 5)
	h := &c04Hist{seenIdx: map[string]bool{}, contacted: map[peer.ID]bool{}, found: map[string]bool{}}
	w := &c04World{s: s, cfg: c, val: rankValidator{TimeAware: true}, resp: map[peer.ID]*c04Resp{}, side: map[peer.ID]string{}, hist: h}
	w.validate, w.sel = c04NSValidate(w.val), c04NSSelect(w.val)
	w.u = simnet.NewUniverse(uint64(s.Draw("universe", 1<<16)), c.N)
	real := w.u.Peers[:c.N:c.N]
	var err error
	switch variant {
	case "standard":
		err = c04BuildStandard(w)
	case "fullrt":
		err = c04BuildFullRT(w)
	case "dual":
		err = c04BuildDual(w)
	}
	if err != nil {
		panic(err)
	}

	// 1. the pool of keys: rank-validator keys, public keys, or both
	var nRank, nPK int
	switch s.Draw("pool", 3) {
	case 0:
		nRank = s.Range("rank-keys", 2, 3)
	case 1:
		nRank, nPK = s.Range("rank-keys", 1, 2), 2
	default:
		nPK = s.Range("pk-keys", 2, 3)
	}
	kn := s.Draw("key", 1<<12)
	for i := 0; i < nRank; i++ {
		h.keys = append(h.keys, &c04HKey{Key: fmt.Sprintf("/r/key-%d-%c", kn, 'a'+i)})
	}
	if s.Chance("key-outside", 1, 4) {
		// one key of the pool lies outside the configured validator's namespaces
		// (c04_wave6.go): what earlier searches accepted for the other keys is
		// replayed for it, and nothing of it may come out
		class := 1 + s.Draw("key-class", c04KeyClasses-1)
		h.keys = append(h.keys, &c04HKey{Key: c04KeyOfClass(class, kn), Class: class})
	}
	// populations (dual: WAN and LAN, either may be empty)
	h.plain = [][]*simnet.Peer{real}
	if variant == "dual" {
		nw := s.Range("wan-n", 0, len(real))
		h.plain = [][]*simnet.Peer{real[:nw:nw], real[nw:]}
		for i, p := range real[nw:] {
			p.Addrs = []ma.Multiaddr{ma.StringCast(fmt.Sprintf("/ip4/192.168.%d.%d/tcp/4001", i/200, 1+i%200))}
			w.side[p.ID] = "lan"
		}
		for _, p := range real[:nw] {
			w.side[p.ID] = "wan"
		}
	}
	h.groups = make([][]*simnet.Peer, len(h.plain))
	for gi := range h.plain {
		h.groups[gi] = append([]*simnet.Peer(nil), h.plain[gi]...)
	}
	if nPK > 0 {
		fix := c04Keys()
		rot := s.Draw("identities", len(fix))
		for i := 0; i < nPK; i++ {
			k := &fix[(rot+i)%len(fix)]
			gi, addr := 0, fmt.Sprintf("/ip4/8.250.250.%d/tcp/4001", 1+i)
			if variant == "dual" && s.Chance("identity-lan", 1, 2) {
				gi, addr = 1, fmt.Sprintf("/ip4/192.168.250.%d/tcp/4001", 1+i)
			}
			t := w.u.Add(fmt.Sprintf("t%c", 'a'+i), k.ID, []ma.Multiaddr{ma.StringCast(addr)})
			if variant == "dual" {
				w.side[t.ID] = []string{"wan", "lan"}[gi]
			}
			h.groups[gi] = append(h.groups[gi], t)
			h.keys = append(h.keys, &c04HKey{Key: routing.KeyForPublicKey(k.ID), PK: k, Peer: t})
		}
	}
	s.Summary["cfg"] = fmt.Sprintf("history-%s N=%d K=%d alpha=%d beta=%d ranks=%d searches=%d rank-keys=%d pk-keys=%d", variant, c.N, c.K, c.Alpha, c.Beta, c.Ranks, rounds, nRank, nPK)

	// 2. local records (nobody to talk to yet)
	for i, hk := range h.keys {
		w.histPutLocal(hk, i)
	}

	// 3. starting points. The identities' own nodes are starting points only on
	// the accelerated client (see the header comment: twins).
	{
		rng := newSubRng(s, "seeds")
		frac := 1 + s.Draw("seed-frac", 4)
		for gi := range h.groups {
			grp := h.plain[gi]
			if variant == "fullrt" {
				grp = h.groups[gi]
			}
			if len(grp) == 0 {
				continue
			}
			var seeds []*simnet.Peer
			for _, p := range grp {
				if rng.Intn(4) < frac {
					seeds = append(seeds, p)
				}
			}
			if len(seeds) == 0 {
				seeds = []*simnet.Peer{grp[rng.Intn(len(grp))]}
			}
			w.sut.seed(seeds)
		}
	}

	// 4. the searches
	replay := []int{1, 3, 6, 0}[s.Draw("replay-share", 4)]
	prev := -1
	nonTrivial := false
	for i := 0; i < rounds && !s.Failed(); i++ {
		h.round = i
		final := i == rounds-1
		if i > 0 {
			var gap time.Duration
			switch s.Draw("gap", 4) {
			case 1:
				gap = time.Duration(1+s.Draw("gap-ms", 2000)) * time.Millisecond
			case 2:
				gap = time.Duration(2+s.Draw("gap-s", 120)) * time.Second
			case 3:
				gap = time.Duration(2+s.Draw("gap-min", 120)) * time.Minute
			}
			if gap > 0 {
				s.Sleep(gap)
				s.Count("time_advance")
				w.histFlush() // whatever background work came up with meanwhile
			}
		}
		// which key
		idx := 0
		if prev >= 0 && len(h.keys) > 1 && !s.Chance("same-key-again", 1, 4) {
			idx = (prev + 1 + s.Draw("search-key", len(h.keys)-1)) % len(h.keys)
		} else {
			idx = s.Draw("search-key", len(h.keys))
		}
		hk := h.keys[idx]
		other := h.keys[(idx+1)%len(h.keys)]
		if prev >= 0 && prev != idx {
			other = h.keys[prev]
		}
		if prev >= 0 {
			if prev != idx {
				s.Count("probe_history_other_key_than_before")
			} else {
				s.Count("probe_history_same_key_again")
			}
		}
		prev = idx
		// which call
		const (
			opGet = iota
			opSearch
			opPK
		)
		opk := s.Draw("call", 2)
		if hk.PK != nil {
			opk = []int{opPK, opPK, opGet, opSearch}[s.Draw("call-pk", 4)]
			if opk == opPK && variant != "fullrt" && (!final || h.contacted[hk.Peer.ID]) {
				opk = opGet
			}
		}
		quorum := []int{-1, 0, 1, 2, 3, 1, 2, 4, 6}[s.Draw("quorum", 9)]
		if quorum > 0 && ((variant != "fullrt" && !final) || (variant == "dual" && opk == opGet)) {
			quorum = 0 // see the header comment, and c04GenCfg for dual.GetValue
		}
		cancelAt := 0
		if (final || variant == "fullrt") && s.Chance("cancel", 1, 8) {
			cancelAt = s.Range("cancel-at", 1, 30)
		}
		linger := s.Chance("caller-keeps-context", 1, 3)
		w.cfg.Key, w.cfg.Other, w.cfg.Search, w.cfg.Quorum, w.cfg.KeyClass = hk.Key, other.Key, opk == opSearch, quorum, hk.Class
		if other == hk {
			w.cfg.Other = fmt.Sprintf("/r/other-%d", kn)
		}
		w.cfg.Profile = []int{2, 1, 0, 2}[s.Draw("profile", 4)]
		w.cfg.LocalCopies = 0
		w.cfg.Offline, w.cfg.Expired = s.Chance("opt-offline", 1, 4), s.Chance("opt-expired", 1, 6)
		w.localVal, w.localStored, w.localValidAtStart, w.localPlanted = nil, false, false, false
		if hk.Local != nil {
			w.localVal = hk.Local
			w.localStored = w.sut.stored(hk.Local)
			w.localPlanted, w.localStoredAt, w.cfg.LocalPlant = hk.Planted, hk.StoredAt, hk.PlantKind
			w.cfg.LocalCopies = s.Draw("local-copies", 4)
		}
		w.histScript(hk, other, replay)
		name := []string{"GetValue", "SearchValue", "GetPublicKey"}[opk]
		s.Tracef("search %d: %s key#%d quorum=%d offline=%v expired=%v", i, name, idx, quorum, w.cfg.Offline, w.cfg.Expired)
		s.Count("probe_history_searches")

		// the call
		w.op, w.emits, w.traced, w.supplies, w.cancelStep, w.endedEarly = nil, nil, 0, nil, 0, false
		ctx, cancel := context.WithCancel(sim.WithTag(context.Background(), fmt.Sprintf("s%d", i)))
		opts := w.cfg.routingOpts()
		if opk != opPK {
			if hk.Class != c04KeyRegistered && hk.Class != c04KeyRegisteredEmpty {
				s.Count("probe_key_outside_namespaces")
			}
			if w.cfg.Offline {
				s.Count("probe_opt_offline")
			}
			if w.cfg.Expired {
				s.Count("probe_opt_expired")
			}
		}
		key, target := hk.Key, hk.PK
		w.lanEmptyAtStart = w.sut.lanSize != nil && w.sut.lanSize() == 0
		w.op = w.ops.Go(s, name, func() (any, error) {
			w.startAt = s.Now()
			w.localValidAtStart = w.localStored && !w.localPlanted && w.validate(key, w.localVal) == nil
			switch opk {
			case opPK:
				k, err := routing.GetPublicKey(w.sut.client, ctx, target.ID)
				if k == nil { // keep a typed nil out of the interface
					return nil, err
				}
				return k, err
			case opGet:
				v, err := w.sut.client.GetValue(ctx, key, opts...)
				return v, err
			}
			ch, err := w.sut.client.SearchValue(ctx, key, opts...)
			if err != nil {
				return nil, err
			}
			w.consume(ch, key, w.validate)
			return nil, nil
		})
		s.Quiesce()
		start, idle := s.Steps, 0
		for {
			w.observe()
			if !s.Step() || w.op.Done {
				break
			}
			if cancelAt > 0 && s.Steps-start >= cancelAt && w.cancelStep == 0 {
				w.cancelStep = s.Steps
				s.Tracef("cancel")
				s.Count("fault_cancel")
				cancel()
				s.Quiesce()
				continue
			}
			if s.Chance("tick", 1, 8) {
				s.Sleep(time.Duration(1+s.Draw("tick-ms", 2000)) * time.Millisecond)
				s.Count("time_advance")
				if w.op.Done {
					continue
				}
			}
			acts := w.actions()
			if len(acts) == 0 {
				idle++
				if idle > 60 {
					break
				}
				s.Sleep(997 * time.Millisecond)
				continue
			}
			idle = 0
			s.Choose("next", acts)
		}
		w.observe()

		stop := true
		switch {
		case s.Failed():
		case !w.op.Done && s.Steps > s.MaxSteps:
			s.Summary["budget"] = "step budget exhausted"
			s.Count("step_budget_exhausted")
		case !w.op.Done:
			s.Violate("no-return", "search %d of the history: %s did not return although nothing is parked and %d s of virtual time passed", i, name, idle)
		case w.op.Panic != "":
			s.Violate("panic", "search %d of the history: %s panicked: %s", i, name, firstLine(w.op.Panic))
		case opk == opPK:
			stop = false
			s.Count("probe_history_getpublickey")
			got, _ := w.op.Result.(ci.PubKey)
			switch {
			case w.op.Err == nil && got == nil:
				s.Violate("pk-nil", "GetPublicKey returned neither a key nor an error")
			case got != nil:
				id, ierr := peer.IDFromPublicKey(got)
				if ierr != nil || id != target.ID {
					who := "an unknown peer"
					for _, o := range h.keys {
						if o.PK != nil && o.PK.ID == id {
							who = "another peer, whose (valid) key a responder served"
							if h.found[o.Key] {
								who = "another peer, whose key an earlier search on this client fetched and a responder now served as the requested peer's"
							}
						}
					}
					s.Violate("pk-mismatch", "search %d of the history: GetPublicKey(%s) returned a key that hashes to %s (%s), err=%v", i, target.ID, id, who, w.op.Err)
				}
				h.noteFound(s, hk.Key)
			}
			nonTrivial = nonTrivial || len(w.supplies) > 0
			s.State("hist pk %s found=%v", variant, got != nil)
			s.Tracef("result found=%v failed=%v", got != nil, w.op.Err != nil)
		default:
			stop = false
			w.check()
			nonTrivial = nonTrivial || s.NonTrivial
			if res, _ := w.op.Result.([]byte); res != nil || len(w.emits) > 0 {
				h.noteFound(s, hk.Key)
			}
		}
		if stop || s.Failed() {
			cancel()
			s.Quiesce()
			break
		}

		// after the call: the caller may keep its context for a while (whatever the
		// search left in flight is still answered and processed), then gives it up
		if linger && w.cancelStep == 0 {
			if w.histFlush() > 0 && w.endedEarly {
				s.Count("probe_history_answered_after_search_end")
			}
		}
		cancel()
		s.Quiesce()
		w.histFlush()
		// what this search came across is replay material for the later ones
		for _, sp := range w.supplies {
			r := w.resp[sp.Peer]
			recKey := hk.Key
			if r != nil && !sp.KeyOK {
				recKey = r.RecKey
			}
			h.note(c04Seen{ReqKey: hk.Key, RecKey: recKey, Val: sp.Val, Valid: sp.ValidNow})
		}
		for _, e := range w.emits {
			h.note(c04Seen{ReqKey: hk.Key, RecKey: hk.Key, Val: e.Val, Valid: e.VErr == nil})
		}
		w.supplies = nil
	}
	s.NonTrivial = nonTrivial && h.round > 0

	// 5. epilogue: Close, census
	closeAndCensus(s, w.sut.close)
	s.Finish()
}

// noteFound records that the search of key yielded something, and counts the
// histories in which a search yields after a search of another key did.
func (h *c04Hist) noteFound(s *sim.Sim, key string) {
	for k := range h.found {
		if k != key {
			s.Count("probe_history_found_after_other_key_found")
			break
		}
	}
	h.found[key] = true
}
