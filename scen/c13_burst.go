//go:build all || c13

package scen

// C13, second scenario: bursts of reachability events.
//
// The property says the mode after ANY sequence of reachability events is
// determined by the last one. "mode-switch" emits one event per scheduler step
// and waits for quiescence, so the node always finishes one switch before the
// next event exists. Here several events are emitted back to back within one
// step, and every instrumented lock call of the node is a yield point whose
// order the scheduler decides (LockSched + YieldSites). If the node applied
// events on more than one goroutine, the order in which they reach the mode
// lock would be a scheduler choice and the last event would not always win.
// On the unchanged tree one subscriber goroutine applies them in order.

import (
	"fmt"

	dht "github.com/libp2p/go-libp2p-kad-dht"
	"github.com/libp2p/go-libp2p/core/event"
	"github.com/libp2p/go-libp2p/core/network"
	"github.com/libp2p/go-libp2p/p2p/host/eventbus"

	"verif/sim"
	"verif/simhost"
	"verif/simnet"
)

func init() {
	sim.Register(&sim.Scenario{Prop: "C13", Name: "mode-burst", Weight: 1, Run: runC13Burst,
		Real:   []string{"IpfsDHT mode switching (setMode, moveToServerMode/moveToClientMode), subscriber loop, real event bus"},
		Stub:   []string{"host (simhost)", "lock hand-over and yields before every instrumented lock call (scheduler-owned)"},
		Faults: []string{"lock_yield", "probe_burst_emitted", "probe_burst_with_mode_change", "probe_burst_settled"},
	})
}

func runC13Burst(s *sim.Sim) {
	s.MaxSteps = 1500
	opts := []dht.ModeOpt{dht.ModeAuto, dht.ModeAutoServer}
	opt := opts[s.Draw("mode-opt", 2)]
	nBursts := s.Range("bursts", 1, 4)
	u := simnet.NewUniverse(uint64(s.Draw("universe", 1<<16)), 1)
	h := simhost.New(s, u.Self.ID, u.Self.Addrs, u.Name)
	em, err := h.RealBus().Emitter(new(event.EvtLocalReachabilityChanged), eventbus.Stateful)
	if err != nil {
		panic(err)
	}
	defer em.Close()
	d, err := dht.New(h, dht.ProtocolPrefix("/sim"), dht.Mode(opt), dht.DisableAutoRefresh())
	if err != nil {
		panic(err)
	}
	s.Quiesce()
	// from here on every lock call of the node is a scheduler decision
	s.LockSched = true
	s.YieldSites["*"] = true
	const proto = "/sim/kad/1.0.0"
	reach := []network.Reachability{network.ReachabilityPublic, network.ReachabilityPrivate, network.ReachabilityUnknown}
	expected := func(last *network.Reachability) bool {
		if last == nil {
			return opt == dht.ModeAutoServer
		}
		return c13Expected(opt, last)
	}
	var last *network.Reachability
	s.Summary["cfg"] = fmt.Sprintf("burst mode=%v bursts=%d", opt, nBursts)

	settle := func() bool {
		// let every yield / lock hand-over happen, in an order the tape decides
		for i := 0; i < 400; i++ {
			acts := s.LockActions()
			if len(acts) == 0 {
				return true
			}
			if !s.Step() {
				return false
			}
			s.Choose("lock", acts)
		}
		return false
	}
	for b := 0; b < nBursts && !s.Failed(); b++ {
		n := s.Range("burst-len", 2, 4)
		before := expected(last)
		changed := false
		for i := 0; i < n; i++ {
			r := reach[s.Draw("reach", 3)]
			rr := r
			last = &rr
			if expected(last) != before {
				changed = true
			}
			s.Tracef("emit %v", r)
			if err := em.Emit(event.EvtLocalReachabilityChanged{Reachability: r}); err != nil {
				panic(err)
			}
		}
		s.Count("probe_burst_emitted")
		if changed {
			s.Count("probe_burst_with_mode_change")
		}
		s.Quiesce()
		if !settle() {
			s.Count("step_budget_exhausted")
			break
		}
		s.Count("probe_burst_settled")
		want := expected(last)
		got := h.Handler(proto) != nil
		if got != want {
			s.Violate("auto-mode-wrong", "after a burst of reachability events ending in %v (option %v) the node settled with DHT stream handler registered=%v, expected server=%v", *last, opt, got, want)
		}
		s.State("burst want=%v got=%v", want, got)
	}
	s.NonTrivial = s.Stats["probe_burst_with_mode_change"] > 0
	s.Tracef("done")
	s.LockSched = false
	s.YieldSites = map[string]bool{}
	closeAndCensus(s, func() {
		_ = d.Close()
		_ = h.Close()
	})
	s.Finish()
}
