//go:build all || c17

package scen

// C17 — sweeping provider advertises every key to its closest peers, on
// schedule (harness H4). See DESIGN.md §5 C17: the oracle is stated only over
// windows in which it is sound; every rule below says which window it uses.
//
// Time model ("fast-forward"): every GetClosestPeers and every ADD_PROVIDER
// parks in the scheduler. The simulator advances virtual time until the first
// call parks (the seams poke a wake channel) or a parked call comes due, then
// answers every call that is due, one call per quiescent point in canonical id
// order. An ADD_PROVIDER the world delivers is delivered at the instant it was
// sent, a lookup the world answers takes lookupLat (1 ms .. 1.7 s, drawn), a
// call the world fails is failed after failLat. Answers are pure functions of
// (call, simulated world); the world (swarm, outage, failing recipients, self
// addresses) only changes in explicit, tape-chosen steps; nothing inside the
// pump draws. Rounds are evaluated when nothing is parked ("quiet point") over
// everything delivered since the previous quiet point, and the witness is
// emitted once per scenario step, so that the recorded history does not
// depend on the order in which the provider's internal goroutines reach the
// seams (its own sources of order nondeterminism are map iteration in
// sendProviderRecords and SortPrefixesBySize, and sync.Cond wake-up order in
// the worker pool). Where that order would change more than millisecond
// timing (small worker pools together with calls that fail after a delay;
// partial answers while two calls carry the same label) the combination is
// not generated - see genC17Cfg and pump.
//
// Rules (clause of the property -> rule id):
//   payload-provider / payload-addrs   one provider = self, current addresses
//   recipients-count                   a clean round reaches r peers (or all)
//   recipients-nearest[-unexplored]    ... and they include the r nearest
//   recipients-exact                   K == r: exactly the r nearest
//   recipients-reported                every recipient was named by the router
//                                      since the last quiet point
//   first-advert                       accepted online+fault-free: complete
//                                      round within 10 min
//   cadence                            kept key, clean window: gap between
//                                      complete rounds <= (I + maxDelay) * 1.05
//   stop-readvertised                  nothing later than stop + I + maxDelay
//   catch-up / catch-up-prompt         after a fault window: every kept key
//                                      within one bound; missed rounds of a
//                                      clean-cut outage within 10 min
//   restart-resume                     accepted, unadvertised at Close: complete
//                                      round within 10 min of the restarted
//                                      node being online
//   first-advert-after-fault           "While the node is online, every key
//                                      given to StartProviding or ProvideOnce
//                                      is advertised ... to the r peers nearest
//                                      to it" + "missed work is caught up": a
//                                      key accepted while the node was online
//                                      by its own account and the router
//                                      answered, whose every ADD_PROVIDER was
//                                      refused by the recipients (send
//                                      black-out: the router keeps answering,
//                                      the node never leaves the online state),
//                                      has a complete round within 10 min of
//                                      the node being fault-free again. Only
//                                      demanded where it is unambiguous: the
//                                      whole fault window consisted of send
//                                      black-outs (every recipient refuses), it
//                                      ended at a quiet point, and no record of
//                                      the key was delivered to anybody since
//                                      it was accepted (a round that reached
//                                      some recipients counts as done for the
//                                      provider, which documents that it does
//                                      not retry single recipients).
//   first-advert-after-fault-reprovide (same clause; label of the open finding:
//                                      the key is not kept, and it vanished
//                                      from the provide queue while a region
//                                      reprovide ran - see labelForgotten)
//                                      Fault used: send black-out (step
//                                      blackout-begin/-end) - every ADD_PROVIDER
//                                      is refused after failLat, lookups are
//                                      answered; it may begin while the calls
//                                      of an API step are still outstanding
//                                      (fault between exploration and sending).
//                                      Not judged: keys of a window that also
//                                      saw a router outage or single failing
//                                      recipients, or in which the provider
//                                      reported disconnected/offline (it clears
//                                      its provide queue then), and black-outs
//                                      that end while a round is in flight.
//   schedule-merge                     (label of cadence/catch-up violations
//                                      whose key's region was consolidated)
//   schedule-merge-awaits-retry        (same; label of the pending finding: the
//                                      broader region was handed to the
//                                      late-region catch-up and was still
//                                      waiting in the reprovide queue at every
//                                      quiet point since - see timingRule)
//   cadence-restart                    "re-advertised ... at least once per
//                                      reprovide interval plus the allowed
//                                      delay until it is stopped, regardless of
//                                      ... restart": the cadence clause over a
//                                      history that contains restarts. Kept
//                                      key, last complete round made in a clean
//                                      window, since then nothing but restarts
//                                      from a clean state (any number, resume
//                                      on, same datastore): next complete round
//                                      within (I + maxDelay) * 1.05 of that
//                                      round plus the restarts' own downtime
//                                      (Close called .. successor online and
//                                      clean). Dropped by any fault window, by
//                                      a restart from a state that is not
//                                      clean, and with
//                                      WithSkipBootstrapReprovide (see
//                                      c17_restarts.go, which makes histories
//                                      with several restarts frequent).
//   cadence-restart-regroup            (same clause; label of the pending
//                                      finding: a restarted instance scheduled
//                                      the key under a region of another prefix
//                                      length since its last round - see
//                                      restartRule)
//   Fault step due-outage (generator only, judged by catch-up /
//   catch-up-prompt): an outage that begins a drawn fraction of the failure
//   latency before the next reprovide of kept keys is due (their last complete
//   round + the interval), with a ProvideOnce at its beginning, so that the
//   reprovide falls due after the first failure and before the node has found
//   itself disconnected ("offline/online transitions (after which missed work
//   is caught up)").
//   api-panic/-hang/-error, close-panic/-hang, new-failed, leak

import (
	"context"
	"crypto/rand"
	"crypto/sha256"
	"encoding/binary"
	"encoding/json"
	"errors"
	"fmt"
	"io"
	"os"
	"runtime"
	"sort"
	"strings"
	"sync"
	"sync/atomic"
	"time"

	dsapi "github.com/ipfs/go-datastore"
	"github.com/ipfs/go-datastore/namespace"
	"github.com/libp2p/go-libp2p/core/peer"
	ma "github.com/multiformats/go-multiaddr"
	mh "github.com/multiformats/go-multihash"

	pb "github.com/libp2p/go-libp2p-kad-dht/pb"
	"github.com/libp2p/go-libp2p-kad-dht/provider"
	"github.com/libp2p/go-libp2p-kad-dht/provider/keystore"

	"verif/sim"
	"verif/simds"
	"verif/simnet"
)

func init() {
	real := []string{"provider.SweepingProvider (New/StartProviding/ProvideOnce/StopProviding/Close, schedule, worker pool, exploreSwarm, vanillaProvide, batchProvide/batchReprovide, catch-up)",
		"provider/keystore.Keystore", "provider/internal/queue (provide + reprovide queues, Persist/DrainDatastore)", "provider/internal/connectivity.ConnectivityChecker", "provider/internal/keyspace"}
	stub := []string{"KadClosestPeersRouter (simulator: K nearest members of the current simulated swarm by the harness metric, error during an outage)",
		"pb.MessageSender (level A, simnet.Sender; per-recipient failures)", "datastore (simds, not parking)", "self-address function", "crypto/rand.Reader (replaced for the run by a tape-seeded reader; no option exists)"}
	probes := []string{"probe_region_split", "probe_region_merge", "probe_vanilla_path", "probe_batch_path", "probe_outage_during_round",
		"probe_catchup_ran", "probe_restart_with_queued_work", "probe_stop_before_first_advert", "probe_worker_starvation",
		"probe_reprovide_round", "probe_round_judged", "probe_first_advert", "probe_sut_offline", "probe_sut_disconnected", "probe_empty_prefix_queue_persisted",
		"probe_owed_after_blackout", "probe_owed_batch_after_blackout", "probe_advert_after_blackout",
		"probe_region_reprovide_fails_while_disconnected", "probe_cadence_carried_over_restart", "probe_round_after_restart"}
	sim.Register(&sim.Scenario{Prop: "C17", Name: "sweep", Weight: 3, Run: func(s *sim.Sim) { runC17Sweep(s, true) },
		Real: real, Stub: stub,
		Faults: append([]string{"fault_outage", "fault_outage_midround", "fault_outage_before_due", "fault_peer_fail", "fault_send_blackout", "fault_router_error", "fault_send_error", "time_advance", "swarm_grow", "swarm_shrink", "addr_change", "restart"}, probes...)})
	sim.Register(&sim.Scenario{Prop: "C17", Name: "sweep-clean", Weight: 2, Run: func(s *sim.Sim) { runC17Sweep(s, false) },
		Real: real, Stub: stub,
		Faults: append([]string{"time_advance", "swarm_grow", "swarm_shrink", "addr_change", "restart"}, probes[:4]...)})
}

// ---------------------------------------------------------------------------
// deterministic pools of peer ids and multihashes (process-wide, pure)

const c17PoolN = 2048

type c17PoolEntry struct {
	raw string // peer id bytes / multihash bytes
	kad simnet.Kad
}

var c17Pools struct {
	once  sync.Once
	peers []c17PoolEntry
	keys  []c17PoolEntry
}

func c17InitPools() {
	c17Pools.once.Do(func() {
		for i := 0; i < c17PoolN; i++ {
			id := simnet.MakeID(0xC17, i)
			c17Pools.peers = append(c17Pools.peers, c17PoolEntry{raw: string(id), kad: simnet.KadOfPeer(id)})
			var b [16]byte
			binary.BigEndian.PutUint64(b[:8], 0xC17C17)
			binary.BigEndian.PutUint64(b[8:], uint64(i))
			h, err := mh.Sum(b[:], mh.SHA2_256, -1)
			if err != nil {
				panic(err)
			}
			c17Pools.keys = append(c17Pools.keys, c17PoolEntry{raw: string(h), kad: simnet.KadOfKey(string(h))})
		}
	})
}

// kadPrefixIs reports whether the first n bits of k equal the low n bits of val.
func kadPrefixIs(k simnet.Kad, val uint32, n int) bool {
	if n == 0 {
		return true
	}
	top := binary.BigEndian.Uint32(k[:4]) >> (32 - uint(n))
	return top == val&((1<<uint(n))-1)
}

// c17Rand is the reader that replaces crypto/rand.Reader for one run. The bytes
// returned are a pure function of (seed, read length, per-length counter), so
// the set of values handed to concurrent readers does not depend on the order
// in which they arrive (approxPrefixLen draws four random keys on four
// goroutines; kbucket.GenRandPeerIDWithCPL reads two bytes that do not
// influence its result at the CPL the provider uses).
type c17Rand struct {
	mu   sync.Mutex
	seed uint64
	ctr  map[int]uint64
}

func (r *c17Rand) Read(b []byte) (int, error) {
	r.mu.Lock()
	n := r.ctr[len(b)]
	r.ctr[len(b)] = n + 1
	r.mu.Unlock()
	var in [24]byte
	binary.BigEndian.PutUint64(in[:8], r.seed)
	binary.BigEndian.PutUint64(in[8:16], uint64(len(b)))
	binary.BigEndian.PutUint64(in[16:], n)
	off := 0
	for blk := uint64(0); off < len(b); blk++ {
		var x [32]byte
		binary.BigEndian.PutUint64(x[:8], blk)
		copy(x[8:], in[:])
		h := sha256.Sum256(x[:])
		off += copy(b[off:], h[:])
	}
	return len(b), nil
}

// ---------------------------------------------------------------------------
// configuration

type c17Cfg struct {
	class     int
	nPeers    int
	nKeys     int
	peerBits  int // >0: clustered peer ids (this many leading bits shared by most)
	peerVal   uint32
	keyBits   int
	keyVal    uint32
	r, K      int
	interval  time.Duration
	maxDelay  time.Duration
	offDelay  time.Duration
	checkIvl  time.Duration
	maxW      int
	dedP      int
	dedB      int
	conns     int
	ample     bool
	skipBoot  bool
	horizon   time.Duration
	failLat   time.Duration
	lookupLat time.Duration
	faults    bool
	maxBatch  int
	stepLimit int
	// restartBias (scenario sweep-restarts): restarts are drawn more often, so
	// that a run sees several instances on one datastore
	restartBias bool
}

func (c *c17Cfg) String() string {
	return fmt.Sprintf("class=%d peers=%d(bits=%d) keys=%d(bits=%d) r=%d K=%d I=%v maxDelay=%v offDelay=%v checkIvl=%v workers=%d/%d/%d conns=%d ample=%v skipBoot=%v horizon=%v failLat=%v lookupLat=%v faults=%v",
		c.class, c.nPeers, c.peerBits, c.nKeys, c.keyBits, c.r, c.K, c.interval, c.maxDelay, c.offDelay, c.checkIvl, c.maxW, c.dedP, c.dedB, c.conns, c.ample, c.skipBoot, c.horizon, c.failLat, c.lookupLat, c.faults)
}

func genC17Cfg(s *sim.Sim, faults bool) *c17Cfg {
	c := &c17Cfg{faults: faults}
	nClasses := 2
	if os.Getenv("VERIF_TIER") == "thorough" {
		nClasses = 4
	}
	c.class = s.Draw("size-class", nClasses)
	var maxIvls int // horizon of the step phase in tenths of an interval
	switch c.class {
	case 0:
		c.nPeers, c.nKeys, maxIvls, c.stepLimit = s.Range("peers", 1, 4), s.Range("keys", 0, 4), 12, 40
	case 1:
		c.nPeers, c.nKeys, maxIvls, c.stepLimit = s.Range("peers", 3, 12), s.Range("keys", 1, 10), 16, 60
	case 2:
		c.nPeers, c.nKeys, maxIvls, c.stepLimit = s.Range("peers", 8, 40), s.Range("keys", 4, 30), 35, 120
	default:
		c.nPeers, c.nKeys, maxIvls, c.stepLimit = s.Range("peers", 20, 80), s.Range("keys", 10, 60), 50, 200
	}
	if s.Chance("peers-clustered", 1, 2) {
		c.peerBits = s.Range("peer-bits", 1, 4)
		c.peerVal = uint32(s.Draw("peer-val", 1<<uint(c.peerBits)))
	}
	if s.Chance("keys-clustered", 1, 2) {
		c.keyBits = s.Range("key-bits", 1, 5)
		c.keyVal = uint32(s.Draw("key-val", 1<<uint(c.keyBits)))
	}
	c.r = s.Range("r", 1, 5)
	// the router's K: K == r (the deployed configuration) half of the time.
	// K = 1 is not generated: a closest-peers router that names a single peer
	// per lookup is a degenerate DHT (bucket size 1) in which region exploration
	// cannot learn anything beyond the peer next to the lookup target; the
	// property speaks about "the r peers ... as reported by the router".
	if s.Chance("k-larger", 1, 2) || c.r == 1 {
		c.K = c.r + s.Range("k-extra", 1, 4)
	} else {
		c.K = c.r
	}
	c.interval = time.Duration([]int{20, 30, 45, 60, 90, 120, 180, 240}[s.Draw("interval", 8)]) * time.Minute
	switch s.Draw("max-delay", 4) {
	case 0:
		c.maxDelay = time.Minute
	case 1:
		c.maxDelay = 5 * time.Minute
	case 2:
		c.maxDelay = 17 * time.Minute
	default:
		c.maxDelay = c.interval / 4
	}
	// offline delays carry an odd offset so that the offline timer never fires
	// at the same virtual instant as a probe back-off timer (two ready cases of
	// one select in the connectivity checker would be resolved at random)
	c.offDelay = []time.Duration{0, 3*time.Minute + 37*time.Millisecond, 47*time.Minute + 37*time.Millisecond}[s.Draw("offline-delay", 3)]
	c.checkIvl = []time.Duration{time.Minute, time.Second}[s.Draw("check-interval", 2)]
	c.maxBatch = 8
	// Small worker pools are only generated in the fault-free scenario: there
	// every call is answered at the instant it is made, so the history does not
	// depend on which queued region or recipient the provider serves first (its
	// own map-iteration / unstable-sort / sync.Cond order). With failing calls
	// that take virtual time, a small pool makes the timing - and with it the
	// connectivity state machine - depend on that order, and the run would not
	// be reproducible.
	if !faults && s.Chance("tight-workers", 2, 3) {
		// small worker pools; both job kinds must be able to obtain a worker
		// ("as long as workers keep up"): a kind whose reserve is 0 while the
		// reserves use up the whole pool can never run and is not generated.
		c.maxW = s.Range("max-workers", 1, 4)
		c.dedP = s.Draw("ded-periodic", c.maxW+1)
		c.dedB = s.Draw("ded-burst", c.maxW-c.dedP+1)
		if c.dedP+c.dedB == c.maxW && (c.dedP == 0 || c.dedB == 0) {
			c.dedP, c.dedB = 0, 0
		}
		c.conns = []int{20, 1, 2, 3}[s.Draw("conns", 4)]
	} else {
		c.ample = true
		c.maxW, c.dedP, c.dedB, c.conns = 24, 2, 2, 200
	}
	c.skipBoot = s.Chance("skip-bootstrap-reprovide", 1, 6)
	c.failLat = []time.Duration{7 * time.Second, 2 * time.Second, 31 * time.Second}[s.Draw("fail-latency", 3)]
	// A lookup always takes some virtual time. With instantaneous lookups a
	// region reprovide would reschedule its regions at the very nanosecond its
	// own timer fired, and the provider's schedule arithmetic (timeUntil == a
	// full interval, taken modulo the interval) behaves differently in that
	// unreachable state. Small pools get the minimal latency only, so that the
	// order in which they serve queued regions changes timing by milliseconds.
	c.lookupLat = time.Millisecond
	if c.ample {
		c.lookupLat = []time.Duration{time.Millisecond, 211 * time.Millisecond, 1700 * time.Millisecond}[s.Draw("lookup-latency", 3)]
	}
	tenths := s.Range("horizon", 3, maxIvls)
	c.horizon = c.interval * time.Duration(tenths) / 10
	return c
}

// ---------------------------------------------------------------------------
// harness

const (
	c17Offline = iota
	c17Online
	c17Disconnected
)

var (
	errC17Outage   = errors.New("sim: network outage")
	errC17SendFail = errors.New("sim: recipient unreachable")
	errC17Drained  = errors.New("sim: router call drained")
)

// c17Jitter is added to every time advance, so that harness steps never fall
// on an instant that is an exact multiple of interval/2^n (the region slots):
// 1237 ms is coprime to every such slot width the scenario can produce.
const c17Jitter = 1237 * time.Millisecond

// c17FirstBound: "a complete round within 10 min of virtual time" (DESIGN §5).
const c17FirstBound = 10 * time.Minute

type c17RouterCall struct {
	Gid    uint64 // goroutine that made the call (a round's lookups run on one goroutine)
	Reprov bool   // made by a region REprovide (label of first-advert-after-fault violations only)
	Key    string
	At     time.Duration
	Done   bool
	Err    error
	Reply  []peer.ID
}

type c17Key struct {
	idx  int
	name string
	mh   mh.Multihash
	kad  simnet.Kad

	kept          bool // reference keystore membership (plain set semantics)
	pendingFirst  bool
	firstRule     string
	firstDue      time.Duration
	resumePending bool
	lastComplete  time.Duration
	catchDue      time.Duration
	promptDue     time.Duration
	stoppedAt     time.Duration
	validBefore   bool // had a complete round in the clean window preceding the current fault window
	msgsInFault   bool
	ever          bool
	nComplete     int
	// rule cadence-restart: xLast is the key's last complete round, made in a
	// clean window of an earlier instance, when only restarts from a clean state
	// (and no fault window) happened since (-1: none); xDown is the downtime of
	// those restarts (Close called .. restarted node online and clean), xN their
	// number
	xLast, xDown time.Duration
	xN           int
	// regroup: since the key's last complete round the scheduled region that
	// covers it was replaced by one of another prefix length (label of
	// cadence-restart violations, see restartRule; regroupNote: first change)
	regroup     bool
	regroupNote string
	// slotDown: since the key's last complete round the slot of its scheduled
	// region came up while the node was being restarted, or less than
	// c17RoundSpan before Close was called (label, see restartRule)
	slotDown     bool
	slotDownNote string
	// owed: accepted while the node was online by its own account and the
	// router had answered ever since the last clean window; no record of the key
	// was delivered to anybody since (rule first-advert-after-fault)
	owed bool
	// forgotten: owed, and found in no queue at a quiet point; lostInReprov: a
	// region REprovide had run since the quiet point before (label of
	// first-advert-after-fault violations, decides nothing)
	forgotten, lostInReprov bool

	ok, all  map[peer.ID]bool // recipients since the last fixpoint
	spanning bool

	// the scheduled region covering the key, and whether it was replaced by a
	// broader one since the key's last round (labels findings, decides nothing)
	schedPrefix string
	hasSched    bool
	merged      bool
	// mergeWait: merged, and ever since the merge was observed the reprovide
	// queue (late regions waiting for the catch-up) has held a prefix that covers
	// the key at every quiet point (label, see timingRule)
	mergeWait     bool
	mergeWaitNote string
}

// timingRule returns the rule id of a cadence / catch-up violation: the open
// finding schedule-merge when the key's scheduled region was replaced by a
// broader one since its last round, else the clause's own id.
//
// Pending finding schedule-merge-awaits-retry (what is left of schedule-merge
// after its repair): StartProviding of a key outside the schedule, made after
// the prefix-length estimate has shrunk, schedules a region that swallows
// scheduled longer ones; they lose their pending reprovides and the broader
// region is put into the reprovide queue to be caught up - but nothing starts
// the catch-up: it runs when the provider's periodic retry tick comes round
// (or at the next offline/online transition). A swallowed region whose slot was
// about to come up is therefore late by up to one retry period, which the
// allowed delay does not cover when it is configured shorter than that. The
// label is constructive: the key's region was consolidated since its last
// round, the broader region was found in the reprovide queue (injected
// read-only accessor) when the consolidation was observed and at every quiet
// point from then on to the violation - it has been waiting, not running. A
// consolidated region that left the queue without the key being advertised is
// reported as schedule-merge (the repaired finding: a violation again).
func (k *c17Key) timingRule(clause string) string {
	if k.merged && k.mergeWait {
		return "schedule-merge-awaits-retry"
	}
	if k.merged {
		return "schedule-merge"
	}
	return clause
}

// restartRule returns the rule id of a cadence-restart violation. Pending
// finding cadence-restart-regroup: since the key's last round one of the
// restarted instances scheduled it under a region of another prefix length
// (the swarm grew or shrank, or the successor's prefix-length measurement came
// out differently), and the slot of that region lies elsewhere in the cycle (a
// longer prefix comes up to interval / 2^len later, the second half of a
// merged region has its slot up to that much earlier). A running instance
// handles both moves: it caps the next slot of a region it has just
// reprovided at now + interval + max delay (schedulePrefixNoLock,
// justReprovided), and it merges regions only by reproviding the broader one.
// The successor does neither: RefreshSchedule uses the plain slot of the new
// prefix, and the bootstrap check (loadRecentlyReprovidedRegions /
// enqueueExpiredRegionsNoLock) only asks whether the history holds entries
// younger than one interval that cover the region by prefix (entries of both
// halves are coalesced, an entry of a shorter prefix covers the longer ones),
// not when the key is due. A key whose new slot has already passed in the
// current cycle, or comes later than the old one, then waits up to two
// intervals. The label is computed from the read-only schedule snapshots taken
// at every quiet point; a violation whose key stayed under regions of one
// prefix length ever since its last round is reported under the clause's own
// id.
func (h *c17H) restartRule(k *c17Key) string {
	if k.regroup {
		return "cadence-restart-regroup"
	}
	if k.slotDown {
		return "cadence-restart-slot-down"
	}
	return k.timingRule("cadence-restart")
}

func (h *c17H) restartNote(k *c17Key) string {
	if k.regroup {
		return fmt.Sprintf("; since its last round a restarted instance replaced the scheduled region of the key by one of another prefix length (%s), whose slot lies elsewhere in the cycle: the successor neither caps the move at interval + max delay (as a running instance does when it reschedules a region it has just reprovided) nor catches the region up when it starts (the reprovide history, matched by prefix only, holds entries younger than one interval that cover it)", k.regroupNote)
	}
	if k.slotDown {
		return fmt.Sprintf("; %s: the successor does not catch the region up when it starts, because its last reprovide is younger than one interval, and arms its timer for the slot of the next cycle", k.slotDownNote)
	}
	return k.mergeNote()
}

// c17RoundSpan: a round whose slot came up less than this long before Close
// was called may still have been in flight at Close (label slotDown only).
const c17RoundSpan = time.Minute

// labelSlotDown runs at the quiet point at which a restarted node is online
// and clean again. Pending finding cadence-restart-slot-down: the slot of a
// region comes up while the node is being restarted (or so shortly before
// Close that its reprovide is cut short). The successor's bootstrap check
// (enqueueExpiredRegionsNoLock) only catches up regions whose last recorded
// reprovide is older than one interval; a region reprovided later than its
// slot in the previous cycle (first provide, catch-up after an earlier start)
// is younger than that, is not caught up, and RefreshSchedule arms the timer
// for the slot of the NEXT cycle: the key waits up to two intervals although
// the node was down for seconds. The slot is read from the schedule of the
// successor (injected read-only accessor) and compared with the downtime the
// harness measured. Labels only; a violation whose key's slot did not come up
// around a downtime is reported under the clause's own id.
func (h *c17H) labelSlotDown(sched []string) {
	cs, slots := provider.VerifScheduleSlots(h.prov)
	anchor := time.Duration(cs - h.s.Start.UnixNano())
	ivl := h.cfg.interval
	from, to := h.downFrom-c17RoundSpan, h.downTo+time.Second
	for _, k := range h.keys {
		if k.xLast < 0 || !k.hasSched {
			continue
		}
		off, ok := slots[k.schedPrefix]
		if !ok {
			continue
		}
		// first occurrence of the slot at or after `from`
		t := anchor + time.Duration(off)
		if t < from {
			t += (from - t + ivl - 1) / ivl * ivl
		} else {
			t -= (t - from) / ivl * ivl
		}
		if t >= from && t <= to && !k.slotDown {
			k.slotDown = true
			k.slotDownNote = fmt.Sprintf("the slot of its scheduled region %q came up at %v, the node was being restarted from %v to %v", k.schedPrefix, t, h.downFrom, h.downTo)
			h.s.Count("probe_slot_during_restart")
		}
	}
}

func (k *c17Key) mergeNote() string {
	if k.merged && k.mergeWait {
		return "; since its last round the scheduled region of the key was replaced by a broader one (schedule merge), and " + k.mergeWaitNote + ": nothing starts the catch-up of a consolidated region, it waits for the provider's next periodic retry"
	}
	if k.merged {
		return "; since its last round the scheduled region of the key was replaced by a broader one (schedule merge)"
	}
	return ""
}

type c17H struct {
	s   *sim.Sim
	cfg *c17Cfg
	u   *simnet.Universe
	rng *subRng

	wake chan struct{}

	// world
	swarm      []*simnet.Peer
	member     map[peer.ID]bool
	usedPeer   map[int]bool
	outage     bool
	sendOutage bool // send black-out: every recipient refuses, the router answers
	failing    map[peer.ID]bool
	addrMu     sync.Mutex
	addrs      []ma.Multiaddr
	addrGen    int
	routerMu   sync.Mutex
	routerLog  []*c17RouterCall
	routerIdx  int

	// system under test
	ds      *simds.DS
	ks      keystore.Keystore
	prov    *provider.SweepingProvider
	gen     int
	snd     *simnet.Sender
	sut     atomic.Int32
	sutGen  atomic.Int32
	ops     opSet
	lastSut int32

	// oracle
	keys                 []*c17Key
	byMh                 map[string]*c17Key
	seen                 []bool
	logIdx               int
	chain                int
	reported             map[peer.ID]int
	lookups              []c17Lookup                // round lookups answered since the last quiet point
	sendRounds           map[string]map[uint64]bool // key -> goroutines whose rounds sent it since the last quiet point
	cleanSince           time.Duration              // start of the current clean window, -1 if not clean
	faultFree            time.Duration              // end of the last fault window (restarts do not reset it), -1 while a fault is active
	prevClean            time.Duration
	inWindow             bool // a fault window is open
	cleanCut             bool // the open fault window is a clean-cut full outage
	dirty                bool // a fault/restart/partial answer happened since the last fixpoint
	held                 bool
	stop                 bool
	lastSched            []string
	stepRounds           map[string]int
	lastEmit             string
	lastCursor           string
	lastFailAt           time.Duration
	statsProbes          int
	quiet                bool
	freshStart           bool // no clean window since the provider was (re)started
	bootOnlineAt         time.Duration
	due                  map[string]time.Duration
	failLat              time.Duration
	outageSeenFail       bool
	emptyPrefixAtRestart bool
	lastOnlineAt         time.Duration
	boundC               time.Duration
	winSendOnly          bool         // the open fault window consists of send black-outs only
	offCount             atomic.Int32 // disconnected / offline callbacks of the provider
	lastOffCount         int32
	restartAt            time.Duration // instant at which the restart in progress called Close (-1: none)
	nCalls               int           // lookups and ADD_PROVIDER calls answered by the pump so far
	downFrom, downTo     time.Duration // the restart whose downtime was accounted at this fixpoint (downFrom < 0: none)
}

func (h *c17H) signal() {
	select {
	case h.wake <- struct{}{}:
	default:
	}
}

// ---- seams ----

type c17Router struct{ h *c17H }

func (r *c17Router) GetClosestPeers(ctx context.Context, key string) ([]peer.ID, error) {
	h := r.h
	gid, _, reprov := c17GoidsX("batchReprovide")
	c := &c17RouterCall{Gid: gid, Reprov: reprov, Key: key, At: h.s.Now()}
	h.routerMu.Lock()
	h.routerLog = append(h.routerLog, c)
	h.routerMu.Unlock()
	h.signal()
	hk := sha256.Sum256([]byte(key))
	out, cerr := h.s.Park("router", fmt.Sprintf("gcp:%x%s", hk[:4], sim.TagOf(ctx)), ctx, c)
	if cerr != nil {
		return nil, cerr
	}
	switch o := out.(type) {
	case []peer.ID:
		return o, nil
	case error:
		return nil, o
	}
	return nil, errC17Drained
}

type c17Sender struct {
	h     *c17H
	inner *simnet.Sender
}

func (w *c17Sender) SendRequest(ctx context.Context, p peer.ID, m *pb.Message) (*pb.Message, error) {
	w.h.signal()
	return w.inner.SendRequest(ctx, p, m)
}

func (w *c17Sender) SendMessage(ctx context.Context, p peer.ID, m *pb.Message) error {
	// sendProviderRecords starts its sender goroutines from the goroutine that
	// ran the round's lookups: the creator of the calling goroutine identifies
	// the round this message belongs to.
	_, parent := c17Goids()
	w.h.noteSend(string(m.GetKey()), parent)
	w.h.signal()
	return w.inner.SendMessage(ctx, p, m)
}

// c17Goids returns the id of the calling goroutine and of the goroutine that
// created it (0 if unknown), parsed from the goroutine's own stack trace.
// Harness-side observation only: it attributes lookups and messages to rounds
// for the label of recipients-nearest violations.
func c17Goids() (self, parent uint64) {
	self, parent, _ = c17GoidsX("")
	return
}

// c17GoidsX additionally reports whether a function whose name contains fn is
// on the calling goroutine's stack (labels only, see unexploredRound and
// labelForgotten).
func c17GoidsX(fn string) (self, parent uint64, onStack bool) {
	buf := make([]byte, 16<<10)
	st := string(buf[:runtime.Stack(buf, false)])
	fmt.Sscanf(st, "goroutine %d ", &self)
	if i := strings.LastIndex(st, " in goroutine "); i >= 0 {
		fmt.Sscanf(st[i:], " in goroutine %d", &parent)
	}
	onStack = fn != "" && strings.Contains(st, fn)
	return
}

func (h *c17H) noteSend(key string, round uint64) {
	h.routerMu.Lock()
	if h.sendRounds[key] == nil {
		h.sendRounds[key] = map[uint64]bool{}
	}
	h.sendRounds[key][round] = true
	h.routerMu.Unlock()
}

func (h *c17H) selfAddrs() []ma.Multiaddr {
	h.addrMu.Lock()
	defer h.addrMu.Unlock()
	return append([]ma.Multiaddr(nil), h.addrs...)
}

func (h *c17H) setAddrs() {
	h.addrGen++
	n := 1 + h.addrGen%2
	var a []ma.Multiaddr
	for i := 0; i < n; i++ {
		a = append(a, ma.StringCast(fmt.Sprintf("/ip4/7.%d.%d.1/tcp/4001", h.addrGen%250, i)))
	}
	h.addrMu.Lock()
	h.addrs = a
	h.addrMu.Unlock()
}

// ---- world ----

func (h *c17H) addPeer() *simnet.Peer {
	c := h.cfg
	for tries := 0; tries < 100000; tries++ {
		i := h.rng.Intn(c17PoolN)
		if h.usedPeer[i] {
			continue
		}
		e := c17Pools.peers[i]
		if c.peerBits > 0 && !kadPrefixIs(e.kad, c.peerVal, c.peerBits) && h.rng.Intn(10) >= 2 {
			continue
		}
		h.usedPeer[i] = true
		p := h.u.Add(fmt.Sprintf("p%04d", i), peer.ID(e.raw), nil)
		h.swarm = append(h.swarm, p)
		h.member[p.ID] = true
		return p
	}
	panic("c17: peer pool exhausted")
}

func (h *c17H) removePeer(i int) {
	p := h.swarm[i]
	delete(h.member, p.ID)
	if h.failing[p.ID] {
		delete(h.failing, p.ID)
		h.dirty = true
	}
	h.swarm = append(h.swarm[:i:i], h.swarm[i+1:]...)
}

// nearest returns the k nearest current members to key (harness metric).
func (h *c17H) nearest(key simnet.Kad, k int) []peer.ID {
	return simnet.IDs(simnet.Nearest(h.swarm, key, k))
}

// ---- system under test ----

func (h *c17H) newProvider() {
	s, c := h.s, h.cfg
	h.gen++
	gen := int32(h.gen)
	h.sutGen.Store(gen)
	h.sut.Store(c17Offline)
	set := func(v int32) func() {
		return func() {
			if h.sutGen.Load() == gen {
				h.sut.Store(v)
				if v != c17Online {
					h.offCount.Add(1)
				}
			}
		}
	}
	var err error
	h.ks, err = keystore.NewKeystore(namespace.Wrap(h.ds, dsapi.NewKey("/ks")))
	if err != nil {
		panic(err)
	}
	opts := []provider.Option{
		provider.WithPeerID(h.u.Self.ID),
		provider.WithRouter(&c17Router{h}),
		provider.WithMessageSender(&c17Sender{h, h.snd}),
		provider.WithSelfAddrs(h.selfAddrs),
		provider.WithKeystore(h.ks),
		provider.WithDatastore(namespace.Wrap(h.ds, dsapi.NewKey("/prov"))),
		provider.WithReplicationFactor(c.r),
		provider.WithReprovideInterval(c.interval),
		provider.WithMaxReprovideDelay(c.maxDelay),
		provider.WithOfflineDelay(c.offDelay),
		provider.WithConnectivityCheckOnlineInterval(c.checkIvl),
		provider.WithMaxWorkers(c.maxW),
		provider.WithDedicatedPeriodicWorkers(c.dedP),
		provider.WithDedicatedBurstWorkers(c.dedB),
		provider.WithMaxProvideConnsPerWorker(c.conns),
		provider.WithSkipBootstrapReprovide(c.skipBoot),
		provider.WithResumeCycle(true),
		provider.WithConnectivityCallbacks(set(c17Online), set(c17Disconnected), set(c17Offline)),
	}
	op := h.ops.Go(s, "New", func() (any, error) {
		p, err := provider.New(opts...)
		return p, err
	})
	s.Quiesce()
	if !op.Done || op.Panic != "" || op.Err != nil {
		s.Violate("new-failed", "provider.New did not succeed: done=%v err=%v panic=%s", op.Done, op.Err, firstLine(op.Panic))
		h.stop = true
		return
	}
	h.prov = op.Result.(*provider.SweepingProvider)
	h.freshStart = true
	// Let a little time pass before the first lookup is answered. In a
	// zero-latency world the node would come online at the very instant the
	// reprovide cycle starts, and every schedule computation would see a time
	// offset that coincides to the nanosecond with a region's slot - a state a
	// real clock never produces (see also c17Jitter).
	s.Sleep(c17Jitter)
}

// closeProvider closes provider and keystore, releasing whatever is parked the
// way a real network would after the provider's context was cancelled.
func (h *c17H) closeProvider() bool {
	prov, ks := h.prov, h.ks
	return h.closeWith(func() error {
		err := prov.Close()
		if e2 := ks.Close(); err == nil {
			err = e2
		}
		return err
	})
}

// closeWith runs closer on a client goroutine and meanwhile releases every
// parked lookup / ADD_PROVIDER (cancelled calls observe their cancellation).
// The generic closeAndCensus loop is not enough here: it releases one parked
// entry per round in id order, and a Close that is lock-blocked behind a
// connectivity check parked in the router re-parks as "lock:..." every time,
// which sorts before "router:..." and would be released for ever.
func (h *c17H) closeWith(closer func() error) bool {
	s := h.s
	op := h.ops.Go(s, "Close", func() (any, error) { return nil, closer() })
	for i := 0; i < 100000 && !op.Done; i++ {
		s.Quiesce()
		if op.Done {
			break
		}
		var todo []*sim.Parked
		for _, p := range s.Parked() {
			if p.Kind == "router" || p.Kind == "rpc" || p.Kind == "bufop" {
				todo = append(todo, p)
			}
		}
		if len(todo) == 0 {
			// Close waits for something that is not a seam call: give timers a chance
			s.Sleep(time.Second)
			if i > 300 {
				break
			}
			continue
		}
		for _, p := range todo {
			if c17Debug {
				s.Tracef("  close: release %s cancelled=%v", p.ID, p.Cancelled())
			}
			if p.Kind == "bufop" {
				s.Release(p, nil)
			} else {
				h.answer(p) // (observes a cancelled context first)
			}
			s.Quiesce()
		}
	}
	s.Quiesce()
	if op.Panic != "" {
		s.Violate("close-panic", "Close panicked: %s", firstLine(op.Panic))
		return false
	}
	if !op.Done {
		s.Violate("close-hang", "provider.Close did not return although every parked call was released")
		return false
	}
	h.prov, h.ks = nil, nil
	return true
}

// ---- pump ----

// answer releases one parked router / ADD_PROVIDER call with the outcome the
// simulated world dictates.
func (h *c17H) answer(p *sim.Parked) {
	s := h.s
	if p.Cancelled() {
		if rc, ok := p.Data.(*c17RouterCall); ok {
			rc.Done, rc.Err = true, context.Canceled
		}
		s.ReleaseCancelled(p)
		return
	}
	switch p.Kind {
	case "router":
		c := p.Data.(*c17RouterCall)
		c.Done = true
		if h.outage {
			c.Err = errC17Outage
			h.outageSeenFail = true
			h.lastFailAt = s.Now()
			s.Count("fault_router_error")
			if c.Reprov && h.sut.Load() != c17Online && h.byMh[c.Key] == nil {
				// the exploration of a region reprovide fails when the node already
				// knows that it is not online
				s.Count("probe_region_reprovide_fails_while_disconnected")
			}
			s.Release(p, error(errC17Outage))
			return
		}
		ids := h.nearest(simnet.KadOfKey(c.Key), h.cfg.K)
		c.Reply = ids
		if c17Debug {
			var ns []string
			for _, id := range ids {
				ns = append(ns, fmt.Sprintf("%s/%s", h.u.Name(id), kadBits(simnet.KadOfPeer(id), 12)))
			}
			what := "?"
			if k := h.byMh[c.Key]; k != nil {
				what = k.name
			}
			s.Tracef("  gcp %s target=%s -> %s", what, kadBits(simnet.KadOfKey(c.Key), 16), strings.Join(ns, " "))
		}
		// lookups that belong to a provide round: for one of our keys (single-key
		// path) or for a peer id from kbucket's preimage table (region
		// exploration); the others are connectivity probes and the prefix-length
		// estimate. Only used to label recipients-nearest violations.
		if h.byMh[c.Key] != nil || (len(c.Key) == 34 && strings.Trim(c.Key[6:], "\x00") == "") {
			h.lookups = append(h.lookups, c17Lookup{gid: c.Gid, reprov: c.Reprov, key: c.Key, target: simnet.KadOfKey(c.Key), reply: ids})
		}
		for _, id := range ids {
			h.reported[id] = h.chain
		}
		s.Release(p, ids)
	case "rpc":
		r := p.Data.(*simnet.RPC)
		if h.outage || h.sendOutage || h.failing[r.To] || !h.member[r.To] {
			h.lastFailAt = s.Now()
			s.Count("fault_send_error")
			if c17Debug {
				name := "?"
				if k := h.byMh[string(r.Req.GetKey())]; k != nil {
					name = k.name + "/" + kadBits(k.kad, 12)
				}
				s.Tracef("  add_provider %s -> %s REFUSED", name, h.u.Name(r.To))
			}
			s.Release(p, simnet.Reply{Err: errC17SendFail})
			return
		}
		if c17Debug {
			name := "?"
			if k := h.byMh[string(r.Req.GetKey())]; k != nil {
				name = k.name + "/" + kadBits(k.kad, 12)
			}
			s.Tracef("  add_provider %s -> %s", name, h.u.Name(r.To))
		}
		s.Release(p, simnet.Reply{})
	}
}

// c17Soft (env VERIF_C17_SOFT, development aid) turns recipients-nearest
// violations into counters to obtain a histogram over configurations.
var c17Soft = os.Getenv("VERIF_C17_SOFT") != ""

// Genuine findings of this check that are not yet recorded in
// known_findings.json (c17PendingRules). Their rules are live as soon as the
// rule id is listed there for C17 - status open: the driver reports
// KNOWN-FINDING and exploration continues past it; status fixed: a violation
// again. Until then a hit is counted as soft_<rule> (shown with the fault
// counters of the evidence file), so that the registered check stays usable on
// the unchanged tree. Env VERIF_C17_PENDING=strict raises them regardless
// (that is how the replays under findings/ were recorded; strict=<rule> only
// that rule), =soft never does.
var c17PendingRules = map[string]bool{"first-advert-after-fault-reprovide": true, "buffered-close-drops-batch": true, "buffered-restart-reorder": true, "cadence-restart-regroup": true, "cadence-restart-slot-down": true, "schedule-merge-awaits-retry": true}

var c17Listed struct {
	once  sync.Once
	rules map[string]bool
}

func c17RuleListed(rule string) bool {
	c17Listed.once.Do(func() {
		c17Listed.rules = map[string]bool{}
		data, err := os.ReadFile(os.Getenv("VERIF_KNOWN_FILE"))
		if err != nil {
			return
		}
		var k struct {
			Findings []struct{ Property, Rule string } `json:"findings"`
		}
		if json.Unmarshal(data, &k) != nil {
			return
		}
		for _, f := range k.Findings {
			if f.Property == "C17" {
				c17Listed.rules[f.Rule] = true
			}
		}
	})
	return c17Listed.rules[rule]
}

func (h *c17H) violatePending(rule, format string, a ...any) {
	if c17PendingRules[rule] {
		mode := os.Getenv("VERIF_C17_PENDING")
		if only, ok := strings.CutPrefix(mode, "strict="); ok {
			mode = "soft" // (strict=<rule>: that rule only)
			if only == rule {
				mode = "strict"
			}
		}
		if mode == "soft" || (mode != "strict" && !c17RuleListed(rule)) {
			h.s.Count("soft_" + rule)
			return
		}
	}
	h.s.Violate(rule, format, a...)
}

// c17ForceViol (env VERIF_C17_FORCEVIOL=<step>, development aid) records a
// violation after the given step, to exercise the abort path of a run.
var c17ForceViol = envInt("VERIF_C17_FORCEVIOL", 0)

// c17Debug (env VERIF_C17_DEBUG, replay only) traces every answered call.
var c17Debug = os.Getenv("VERIF_C17_DEBUG") != ""

func kadBits(k simnet.Kad, n int) string {
	var b strings.Builder
	for i := 0; i < n; i++ {
		if k[i/8]&(0x80>>uint(i%8)) != 0 {
			b.WriteByte('1')
		} else {
			b.WriteByte('0')
		}
	}
	return b.String()
}

func (h *c17H) parkedCalls() []*sim.Parked {
	var todo []*sim.Parked
	for _, p := range h.s.Parked() {
		if p.Kind == "router" || p.Kind == "rpc" {
			todo = append(todo, p)
		}
	}
	return todo
}

// wouldFail reports whether the simulated world currently fails the call.
func (h *c17H) wouldFail(p *sim.Parked) bool {
	switch p.Kind {
	case "router":
		return h.outage
	case "rpc":
		r := p.Data.(*simnet.RPC)
		return h.outage || h.sendOutage || h.failing[r.To] || !h.member[r.To]
	}
	return false
}

// pump answers parked calls in canonical order, one per quiescent point, until
// nothing answerable is parked (limit < 0) or limit calls were answered.
//
// An ADD_PROVIDER the world delivers is delivered at the instant it was sent; a
// lookup the world answers takes lookupLat. A call the world fails is failed
// failLat after it was first seen (a failing
// lookup or send ends by time-out, not at once): the provider retries failed
// work without back-off while it still believes it is online, which with
// zero-latency failures would never let virtual time advance.
//
// It returns the number of calls answered, whether nothing is parked any more
// (quiet), and the earliest instant at which a parked failing call comes due
// (-1 if none).
func (h *c17H) pump(limit int) (n int, quiet bool, nextDue time.Duration) {
	s := h.s
	for {
		s.Quiesce()
		todo := h.parkedCalls()
		now := s.Now()
		nextDue = -1
		var ready []*sim.Parked
		for _, p := range todo {
			if !p.Cancelled() {
				first, ok := h.due[p.ID]
				if !ok {
					first = now
					h.due[p.ID] = first
				}
				d := first
				switch {
				case h.wouldFail(p):
					d += h.failLat
				case p.Kind == "router":
					d += h.cfg.lookupLat
				}
				if d > now {
					if nextDue < 0 || d < nextDue {
						nextDue = d
					}
					continue
				}
			}
			ready = append(ready, p)
		}
		if len(ready) == 0 {
			quiet = len(todo) == 0
			break
		}
		if !h.cfg.ample && h.statsProbes < 6 && h.prov != nil {
			h.statsProbe()
		}
		if limit >= 0 && h.dupLabels(todo) {
			// A partial answer is only reproducible when every parked call is
			// identified by its content: two calls with the same label (two rounds
			// of one key in flight at once) get their sequence numbers in Go
			// scheduler order, and answering "the first" would favour either.
			return n, false, nextDue
		}
		for i, p := range ready {
			if limit >= 0 && (n >= limit || i > 0) {
				if n >= limit {
					return n, false, nextDue
				}
				break // partial mode: re-read the parked set after every answer
			}
			delete(h.due, p.ID)
			h.answer(p)
			n++
			h.nCalls++
			s.Quiesce()
			if h.nCalls > c17CallBudget {
				// see c17CallBudget: the run ends here, unjudged from now on
				s.Count("call_budget_exhausted")
				h.stop = true
				return n, false, nextDue
			}
			if n > 100000 {
				s.Count("pump_budget_exhausted")
				h.stop = true
				return n, false, nextDue
			}
		}
	}
	select {
	case <-h.wake:
	default:
	}
	return n, quiet, nextDue
}

// c17CallBudget bounds the number of lookups and ADD_PROVIDER calls the pump
// answers in one run. While recipients refuse its records but the router
// answers (send black-out, failing recipients), the provider still believes it
// is online and retries every failed provide without back-off: each pending key
// costs one lookup and r sends per failure latency of virtual time, for as long
// as the fault lasts. A black-out of a few hours (intervals of up to 4 h, time
// steps of up to interval + max delay) with some dozens of pending keys at the
// thorough sizes then means several hundred thousand calls - replay
// C17-1-60965-wedge: 146 000 lookups and 324 000 refused sends, five minutes of
// wall time, killed by the 20 s watchdog and reported as a wedge although
// virtual time advanced all the time and the run ends normally when left alone.
// Such a run repeats one state over and over; nothing is learnt from it. Like
// the step budget, the call budget is not a violation: the run stops (no drain,
// no further deadline is checked), the provider is closed and the goroutine
// census still runs. The number of answered calls is a function of the tape,
// so the cut is reproducible. Measured at the thorough sizes (24 000 runs):
// fault-free runs stay below 2 000 calls (a round of one key is a lookup and r
// sends), 99.4 % of the fault runs below 5 000, and no run of the quick size
// classes was seen above 5 000; one call costs 0.1 - 0.3 ms of wall time on an
// idle machine, so a run stays near one second - the worst case of the quick
// tier - and keeps a wide margin to the watchdog on a loaded one (with a
// budget of 10 000 a 2 s run was still killed once when the machine was
// oversubscribed; it took 0.95 s when re-executed).
const c17CallBudget = 5000

// dupLabels reports whether two parked calls carry the same label.
func (h *c17H) dupLabels(ps []*sim.Parked) bool {
	seen := map[string]bool{}
	for _, p := range ps {
		base := p.ID
		if i := strings.LastIndexByte(base, '#'); i >= 0 {
			base = base[:i]
		}
		if seen[base] {
			return true
		}
		seen[base] = true
	}
	return false
}

// statsProbe asks the provider (public Stats API, on a client goroutine) how
// many jobs are waiting for a worker.
func (h *c17H) statsProbe() {
	h.statsProbes++
	prov := h.prov
	op := h.ops.Go(h.s, "Stats", func() (any, error) {
		st, err := prov.Stats(context.Background())
		return st.Workers.QueuedBurst + st.Workers.QueuedPeriodic, err
	})
	h.s.Quiesce()
	if op.Done && op.Err == nil {
		if q, _ := op.Result.(int); q > 0 {
			h.s.Count("probe_worker_starvation")
		}
	}
}

// ---- oracle ----

// c17Grace: a clean window starts no earlier than this long after the last
// call the world failed. "Liveness only after faults stop": right after a
// fault the provider may report ONLINE while it is still repeating the
// prefix-length measurement the fault interrupted (it retries once a second),
// and silently treats StartProviding/ProvideOnce as if it were offline.
const c17Grace = time.Minute

func (h *c17H) settled(now time.Duration) bool {
	return h.lastFailAt < 0 || now-h.lastFailAt >= c17Grace
}

func (h *c17H) isClean() bool {
	return h.prov != nil && !h.outage && !h.sendOutage && len(h.failing) == 0 && h.sut.Load() == c17Online
}

// beginFault opens (or extends) a fault window: every liveness obligation is
// dropped, because liveness is only demanded after faults stop.
func (h *c17H) beginFault(kind string, cleanCut bool) {
	if !h.inWindow {
		h.inWindow = true
		h.cleanCut = cleanCut
		// (a black-out only keeps the owed obligations when it starts from a clean window)
		h.winSendOnly = kind == "send" && h.cleanSince >= 0 && h.stillOnline()
		h.prevClean = h.cleanSince
		for _, k := range h.keys {
			k.validBefore = k.kept && h.prevClean >= 0 && k.lastComplete >= h.prevClean
			k.msgsInFault = false
		}
	} else {
		h.cleanCut = false
		h.winSendOnly = h.winSendOnly && kind == "send"
	}
	h.cleanSince = -1
	h.faultFree = -1
	h.dirty = true
	for _, k := range h.keys {
		k.pendingFirst, k.resumePending = false, false
		k.catchDue, k.promptDue = -1, -1
		k.xLast = -1
		if !h.winSendOnly {
			k.owed = false
		}
	}
}

// stillOnline: the provider is online and has not reported anything else
// since the last fixpoint looked.
func (h *c17H) stillOnline() bool {
	return h.prov != nil && h.sut.Load() == c17Online && h.offCount.Load() == h.lastOffCount
}

func (h *c17H) dropOwed() {
	for _, k := range h.keys {
		k.owed = false
	}
}

func (h *c17H) need(k *c17Key) []peer.ID { return h.nearest(k.kad, h.cfg.r) }

// c17Lookup is one answered lookup that belongs to a provide round.
type c17Lookup struct {
	gid    uint64
	reprov bool
	key    string
	target simnet.Kad
	reply  []peer.ID
}

// c17Inside returns the peers of a lookup reply that lie inside the zone the
// reply covers, as opposed to the peers that only mark its boundary.
//
// Geometry (the documented contract of keyspace.ShortestCoveredPrefix plus
// "when every peer diverges from the target at the same bit, that branch is
// empty: look from the sibling branch where the peers are"): let L be the
// length of the prefix common to all named peers. Above bit L the reply says
// nothing that distinguishes them; at bit L they split, and the half on the
// target's side (bit L equal to the target's bit L) is the zone the reply
// covers - every swarm member in it was named, because the router names the
// nearest peers. The peers on the other side of bit L are the farthest ones
// and only bound the zone. A single named peer covers just itself.
func c17Inside(target simnet.Kad, reply []peer.ID) []peer.ID {
	if len(reply) <= 1 {
		return reply
	}
	kads := make([]simnet.Kad, len(reply))
	for i, p := range reply {
		kads[i] = simnet.KadOfPeer(p)
	}
	L := 256
	for _, k := range kads[1:] {
		if c := kads[0].CPL(k); c < L {
			L = c
		}
	}
	if L >= 256 {
		return reply
	}
	bit := func(k simnet.Kad) byte { return (k[L/8] >> (7 - uint(L%8))) & 1 }
	var in []peer.ID
	for i, p := range reply {
		if bit(kads[i]) == bit(target) {
			in = append(in, p)
		}
	}
	return in
}

// unexploredRound decides constructively, from the round's own router log,
// whether a wrong recipient set of k stems from the open finding
// recipients-nearest-unexplored: among the rounds that sent k since the last
// quiet point (a round = one goroutine: it makes the lookups and starts the
// sender goroutines), a region round - one that explored with lookups for
// peer ids of kbucket's preimage table - none of whose replies ever covered
// the position of one of the nearest peers `need`. closestPeersToPrefix
// promises the peers of the whole prefix it reports as covered; a nearest
// peer of k shares with k at least the prefix any farther recipient shares,
// so its position lies in the region the round allocated over: exploration
// ended with an unexplored gap there. If every nearest peer was covered by
// the round's replies and the round still left one out, the allocation is at
// fault and the plain rule is reported. Labels only; decides nothing.
func (h *c17H) unexploredRound(k *c17Key, need []peer.ID) (note string, found bool) {
	h.routerMu.Lock()
	var rounds []uint64
	for g := range h.sendRounds[string(k.mh)] {
		rounds = append(rounds, g)
	}
	h.routerMu.Unlock()
	sort.Slice(rounds, func(i, j int) bool { return rounds[i] < rounds[j] })
	for _, g := range rounds {
		inside := map[peer.ID]bool{}
		n, stale := 0, 0
		for _, l := range h.lookups {
			if l.gid != g || h.byMh[l.key] != nil {
				continue // another round, or the single-key lookup of a key
			}
			fresh := false
			for _, p := range c17Inside(l.target, l.reply) {
				if !inside[p] {
					inside[p], fresh = true, true
				}
			}
			n++
			if !fresh {
				stale++
			}
		}
		if n == 0 {
			continue // single-key round: it asked the router for the key itself
		}
		var uncovered []peer.ID
		for _, p := range need {
			if !inside[p] {
				uncovered = append(uncovered, p)
			}
		}
		if len(uncovered) > 0 {
			return fmt.Sprintf("; the round that sent it explored with %d lookups (%d of them named no new peer) and ended with an unexplored gap: no reply covered the position of {%s}", n, stale, sortedNames(h.u, uncovered)), true
		}
	}
	return "", false
}

// labelForgotten looks, at a quiet point, whether the keys that are still
// owed sit in the provide queue (injected read-only accessor). A key that is
// owed, was delivered to nobody and is not queued while nothing is in flight
// has been forgotten. Open finding first-advert-after-fault-reprovide: a
// region reprovide takes the queued keys of its region along (a key that is
// not kept gets into a reprovide only that way); when the reprovide then
// fails, only the region goes back to the reprovide queue, and a ProvideOnce
// key - not in the keystore either - is in no queue any more. The label is
// given when a region reprovide (exploration lookups made from
// batchReprovide) ran since the quiet point before the one at which the key
// was found missing. Labels only; decides nothing.
func (h *c17H) labelForgotten() {
	if h.prov == nil {
		return
	}
	reprovRan := false
	for _, l := range h.lookups {
		if l.reprov && h.byMh[l.key] == nil {
			reprovRan = true
		}
	}
	for _, k := range h.keys {
		if !k.owed {
			k.forgotten, k.lostInReprov = false, false
			continue
		}
		if provider.VerifProvideQueueHas(h.prov, k.mh) {
			k.forgotten, k.lostInReprov = false, false
		} else if !k.forgotten {
			k.forgotten, k.lostInReprov = true, reprovRan
			h.s.Count("probe_owed_key_in_no_queue")
		}
	}
}

// observe folds finished ADD_PROVIDER calls into the per-key accumulators and
// checks the per-message rules (payload, reported recipient, stop).
func (h *c17H) observe() {
	s := h.s
	// (only the part of the log that is not folded yet: a run with a long send
	// black-out makes several hundred thousand calls)
	base := h.logIdx
	tail, total := h.snd.SnapshotFrom(base)
	for len(h.seen) < total {
		h.seen = append(h.seen, false)
	}
	self := h.u.Self.ID
	cur := h.selfAddrs()
	for i := base; i < total; i++ {
		r := tail[i-base]
		if h.seen[i] || !r.Done {
			continue
		}
		h.seen[i] = true
		if r.Req.GetType() != pb.Message_ADD_PROVIDER {
			s.Violate("unexpected-message", "provider sent a %s message to %s", r.Req.GetType(), h.u.Name(r.To))
			continue
		}
		k := h.byMh[string(r.Req.GetKey())]
		if k == nil {
			s.Violate("unknown-key", "ADD_PROVIDER to %s for a key that was never given to the provider", h.u.Name(r.To))
			continue
		}
		// rule payload: exactly one provider = self with the current self
		// addresses. Self addresses only change at fixpoints (no round in
		// flight), so "current" is unambiguous.
		pp := r.Req.GetProviderPeers()
		if len(pp) != 1 || peer.ID(pp[0].GetId()) != self {
			s.Violate("payload-provider", "ADD_PROVIDER for %s to %s names %d provider(s), want exactly the local node", k.name, h.u.Name(r.To), len(pp))
		} else if !sameAddrBytes(pp[0].GetAddrs(), cur) {
			s.Violate("payload-addrs", "ADD_PROVIDER for %s to %s carries addresses %v, current self addresses are %v", k.name, h.u.Name(r.To), pp[0].Addresses(), cur)
		}
		// rule recipients-reported: every recipient is a peer the router
		// reported since the last fixpoint (a round never outlives a fixpoint)
		if h.reported[r.To] != h.chain {
			s.Violate("recipients-reported", "ADD_PROVIDER for %s sent to %s, which the router did not report for this round", k.name, h.u.Name(r.To))
		}
		// rule stop: judged only if the whole time since the stop was fault-free
		if k.stoppedAt >= 0 && h.faultFree >= 0 && k.stoppedAt >= h.faultFree && r.SentAt > k.stoppedAt+h.cfg.interval+h.cfg.maxDelay {
			s.Violate("stop-readvertised", "ADD_PROVIDER for %s sent at %v, StopProviding was acknowledged at %v (interval %v, max delay %v) and the key was not re-added", k.name, r.SentAt, k.stoppedAt, h.cfg.interval, h.cfg.maxDelay)
		}
		k.msgsInFault = true
		if k.all == nil {
			k.all, k.ok = map[peer.ID]bool{}, map[peer.ID]bool{}
		}
		k.all[r.To] = true
		if r.Err == nil && !r.Cancelled {
			k.ok[r.To] = true
		}
		if r.SentAt != r.DoneAt {
			k.spanning = true // the send itself took time: it was failed or cut
		}
	}
	for h.logIdx < total && h.seen[h.logIdx] {
		h.logIdx++
	}
}

func sameAddrBytes(got [][]byte, want []ma.Multiaddr) bool {
	if len(got) != len(want) {
		return false
	}
	w := map[string]int{}
	for _, a := range want {
		w[string(a.Bytes())]++
	}
	for _, g := range got {
		if w[string(g)] == 0 {
			return false
		}
		w[string(g)]--
	}
	return true
}

// classifyRouterCalls feeds the path probes from the router inputs.
func (h *c17H) classifyRouterCalls() {
	h.routerMu.Lock()
	var calls []*c17RouterCall
	for h.routerIdx < len(h.routerLog) && h.routerLog[h.routerIdx].Done {
		calls = append(calls, h.routerLog[h.routerIdx])
		h.routerIdx++
	}
	h.routerMu.Unlock()
	for _, c := range calls {
		if c.Err != nil {
			continue
		}
		if h.byMh[c.Key] != nil {
			h.s.Count("probe_vanilla_path")
		} else if len(c.Key) == 34 && strings.Trim(c.Key[6:], "\x00") == "" {
			// a peer id from kbucket's preimage table: region exploration
			h.s.Count("probe_batch_path")
		}
	}
}

// fixpoint is called when nothing is parked: evaluates the rounds completed
// since the previous fixpoint, maintains the clean window, checks deadlines.
func (h *c17H) fixpoint(quiet bool) {
	s, c := h.s, h.cfg
	now := s.Now()
	h.observe()
	h.classifyRouterCalls()
	if n := h.offCount.Load(); n != h.lastOffCount {
		// the provider reported disconnected / offline since the last look: it
		// clears its provide queue when it goes offline, nothing stays owed
		h.lastOffCount = n
		h.winSendOnly = false
		h.dropOwed()
	}
	judged := !h.dirty && h.isClean()
	var line []string
	roundNow := map[int]bool{}
	for _, k := range h.keys {
		// Rounds are evaluated only when nothing is parked: while failing calls
		// wait for their time-out a round is still in flight, and which of its
		// messages went out first is the provider's own (map-order) business.
		if len(k.all) == 0 || !quiet {
			continue
		}
		need := h.need(k)
		nearestAll := true
		for _, p := range need {
			if !k.ok[p] {
				nearestAll = false
			}
		}
		// A round is "complete" for the timing rules when it reached as many
		// recipients as the property demands (r, or all members of a smaller
		// swarm); whether they are the nearest ones is the recipients-nearest
		// clause, judged separately, so that a misallocation is reported once and
		// not a second time as a missed deadline.
		complete := len(k.ok) >= len(need)
		wasPending := k.pendingFirst
		if len(k.ok) > 0 {
			// somebody holds a record now; a round that reached only some of its
			// recipients is done for the provider (no retry of single recipients)
			k.owed = false
		}
		if judged && !k.spanning {
			s.Count("probe_round_judged")
			// Did the round go wrong because its exploration stopped early (open
			// finding recipients-nearest-unexplored) rather than because of the
			// allocation? Only evaluated when a violation is about to be raised.
			label, note := "", ""
			classify := func() {
				if n, ok := h.unexploredRound(k, need); ok {
					label, note = "-unexplored", n
				}
			}
			switch {
			case !complete:
				// rule recipients-count: a round that ran entirely while the swarm was
				// unchanged, the node online and no fault injected reaches r peers
				s.Violate("recipients-count", "round of %s at %v reached %d peer(s) {%s}; r=%d, swarm of %d (router K=%d)", k.name, now, len(k.ok), sortedNames(h.u, mapKeys(k.ok)), c.r, len(h.swarm), c.K)
			case !nearestAll:
				// rule recipients-nearest: ... and they include every one of the r
				// nearest swarm members
				if c17Soft {
					s.Count(fmt.Sprintf("soft_nearest_r%d_K%d", c.r, c.K))
					break
				}
				classify()
				s.Violate("recipients-nearest"+label, "round of %s at %v reached {%s}; the %d nearest swarm members are {%s} (r=%d, router K=%d, swarm of %d)%s", k.name, now, sortedNames(h.u, mapKeys(k.ok)), len(need), sortedNames(h.u, need), c.r, c.K, len(h.swarm), note)
			case c.K == c.r && len(k.all) != len(need):
				// rule recipients-exact: with K == r the recipients are exactly the r
				// nearest. (An extra recipient that stems from a region round whose
				// exploration stopped early is the same open finding.)
				classify()
				rule := "recipients-exact"
				if label != "" {
					rule = "recipients-nearest-unexplored"
				}
				s.Violate(rule, "round of %s at %v addressed {%s}; with K == r the recipients must be exactly the %d nearest swarm members {%s} (r=%d, router K=%d, swarm of %d)%s", k.name, now, sortedNames(h.u, mapKeys(k.all)), len(need), sortedNames(h.u, need), c.r, c.K, len(h.swarm), note)
			}
		}
		if complete {
			if k.ever && k.kept {
				s.Count("probe_reprovide_round")
			}
			if k.pendingFirst {
				s.Count("probe_first_advert")
				if k.firstRule == "first-advert-after-fault" {
					s.Count("probe_advert_after_blackout")
				}
			}
			if h.lastOnlineAt >= 0 && k.kept && k.validBefore && now-h.lastOnlineAt <= c17FirstBound && h.outageSeenFail && k.catchDue >= 0 {
				s.Count("probe_catchup_ran")
			}
			if k.xLast >= 0 {
				s.Count("probe_round_after_restart")
				if k.xN > 1 {
					s.Count("probe_round_after_two_restarts")
				}
			}
			k.xLast = -1
			k.lastComplete, k.ever = now, true
			k.nComplete++
			k.merged, k.regroup, k.slotDown = false, false, false
			k.mergeWait = false
			roundNow[k.idx] = true
			k.pendingFirst, k.resumePending = false, false
			k.catchDue, k.promptDue = -1, -1
		}
		// (the witness lists only keys the provider is obliged to advertise:
		// whether a key that was stopped while its first advertisement was still
		// queued goes out or not depends on the provider's internal queue order)
		if k.kept || wasPending {
			mark := "-"
			if complete {
				mark = "+"
			}
			line = append(line, k.name+mark)
		}
		k.all, k.ok, k.spanning = nil, nil, false
	}
	if quiet {
		h.labelForgotten()
		// no round is in flight: later messages belong to later rounds
		h.chain++
		h.lookups = h.lookups[:0]
		h.routerMu.Lock()
		h.sendRounds = map[string]map[uint64]bool{}
		h.routerMu.Unlock()
	}
	h.quiet = quiet

	// clean-window bookkeeping (a clean window only starts when nothing is in
	// flight any more)
	if h.isClean() {
		if h.cleanSince < 0 && quiet && h.settled(now) {
			h.cleanSince = now
			if h.faultFree < 0 {
				h.faultFree = now
			}
			h.lastOnlineAt = now
			if h.restartAt >= 0 {
				// rule cadence-restart: the restart's own downtime is granted on top
				for _, k := range h.keys {
					if k.xLast >= 0 {
						k.xDown += now - h.restartAt
					}
				}
				h.downFrom, h.downTo = h.restartAt, now
				h.restartAt = -1
			}
			for _, k := range h.keys {
				if k.kept {
					// rule catch-up: after a fault window (or a restart) every kept key
					// has a complete round within one interval (+ allowed delay + slack)
					k.catchDue = now + h.boundC
					firstCycle := h.freshStart || now < h.bootOnlineAt+c.interval
					if firstCycle && c.skipBoot {
						// WithSkipBootstrapReprovide: the user accepts to wait for the
						// schedule instead of a catch-up at start. The schedule starts
						// with the next cycle, so a key may wait for up to two
						// intervals; the property does not speak about this option.
						k.catchDue = now + h.boundC + c.interval
					}
					if h.inWindow && h.cleanCut && k.validBefore && !k.msgsInFault {
						// rule catch-up-prompt (clean-cut full outages only)
						d := k.lastComplete + h.boundC
						if c.skipBoot && (firstCycle || k.lastComplete < h.bootOnlineAt+c.interval) {
							// WithSkipBootstrapReprovide (see the cadence rule below, which
							// grants the same): the schedule of an instance starts with the
							// cycle after the one in which it came online, so the next round
							// of a key advertised during that first cycle is not due before
							// one more interval has passed - whether or not an outage
							// happens meanwhile, and also when the outage ends after that
							// first cycle (replay C17-1-71598: round at 11m3, instance online
							// since 11m3, slot 25m18 skipped by the option, outage 11m3..42m42;
							// the key's first scheduled round is the one at 55m18 and was not
							// "missed during the outage")
							d += c.interval
						}
						if d < now+c17FirstBound {
							d = now + c17FirstBound
						}
						k.promptDue = d
					}
				}
				if k.resumePending {
					k.resumePending = false
					k.pendingFirst, k.firstRule, k.firstDue = true, "restart-resume", now+c17FirstBound
				}
			}
			if h.inWindow && h.winSendOnly {
				// rule first-advert-after-fault: the window that ends here consisted of
				// send black-outs only and the node stayed online throughout
				nOwed := 0
				for _, k := range h.keys {
					if k.owed && !k.pendingFirst {
						k.pendingFirst, k.firstRule, k.firstDue = true, "first-advert-after-fault", now+c17FirstBound
						s.Count("probe_owed_after_blackout")
						nOwed++
					}
				}
				if nOwed > 2 {
					s.Count("probe_owed_batch_after_blackout")
				}
			}
			h.winSendOnly = false
			h.inWindow = false
			if h.freshStart {
				h.bootOnlineAt = now
			}
			h.freshStart = false
		}
	} else if h.cleanSince >= 0 {
		// the provider left the online state without a harness fault being
		// active (it was already cleared): treat as part of the fault window
		h.beginFault("sut", false)
	}
	if quiet {
		// (set by faults, restarts and partial answers; a lookup merely being in
		// flight does not make a window unclean)
		h.dirty = !h.isClean()
	}

	// schedule snapshot (injected read-only accessor): determinism witness,
	// split/merge probes, and the merge label of cadence / catch-up violations
	var sched []string
	if h.prov != nil {
		sched = provider.VerifScheduledPrefixes(h.prov)
		sort.Strings(sched)
		h.splitMergeProbe(h.lastSched, sched)
		for _, k := range h.keys {
			bits := kadBits(k.kad, 32)
			for _, p := range sched {
				if !strings.HasPrefix(bits, p) {
					continue
				}
				if k.hasSched && len(p) != len(k.schedPrefix) && !roundNow[k.idx] && !k.regroup {
					k.regroup, k.regroupNote = true, fmt.Sprintf("%q by %q at %v", k.schedPrefix, p, now)
				}
				if k.hasSched && len(p) < len(k.schedPrefix) && !roundNow[k.idx] {
					// the region k is scheduled under was replaced by a broader one
					// without k being advertised at that instant
					k.merged = true
					if q, ok := provider.VerifReprovideQueueCovering(h.prov, k.mh); ok {
						k.mergeWait = true
						k.mergeWaitNote = fmt.Sprintf("the broader region %q has been waiting in the reprovide queue (as %q) since the consolidation was observed at %v", p, q, now)
					} else {
						k.mergeWait = false
					}
				}
				k.schedPrefix, k.hasSched = p, true
				break
			}
			if k.mergeWait && quiet {
				// (only at quiet points: while calls are in flight the catch-up may
				// have taken the region out of the queue and be advertising it)
				if _, ok := provider.VerifReprovideQueueCovering(h.prov, k.mh); !ok {
					k.mergeWait = false
				}
			}
		}
		if h.downFrom >= 0 {
			h.labelSlotDown(sched)
		}
	}
	h.downFrom = -1

	// deadlines
	for _, k := range h.keys {
		if k.pendingFirst && now > k.firstDue {
			what := "accepted while online and fault-free"
			if k.firstRule == "restart-resume" {
				what = "accepted but not yet advertised when the provider was closed; restarted with resume"
			}
			if k.firstRule == "first-advert-after-fault" {
				what = "accepted while the node was online and the router answered; every ADD_PROVIDER for it was refused during a send black-out, the node stayed online, the black-out is over"
			}
			rule := k.firstRule
			if rule == "first-advert-after-fault" && !k.kept && k.lostInReprov {
				rule += "-reprovide"
				what += "; it left the provide queue, delivered to nobody, while a region reprovide ran: the reprovide took it along and failed, only the region was queued again, the key (ProvideOnce: not in the keystore) is in no queue any more"
			}
			h.violatePending(rule, "%s (%s) has no complete round %v after %v", k.name, what, c17FirstBound, k.firstDue-c17FirstBound)
			k.pendingFirst = false
		}
		bound := h.boundC
		if c.skipBoot && k.lastComplete < h.bootOnlineAt+c.interval {
			// WithSkipBootstrapReprovide: the schedule starts with the cycle after
			// the one in which the node came online (that is what the option asks
			// for); a key advertised during that first cycle may therefore wait up
			// to one more interval. The property does not speak about the option,
			// so the clause is only applied at full strength afterwards.
			bound += c.interval
		}
		if k.kept && h.cleanSince >= 0 && k.lastComplete >= h.cleanSince && now-k.lastComplete > bound {
			h.violatePending(k.timingRule("cadence"), "%s kept for reproviding: last complete round at %v, none since, now %v (interval %v + max delay %v + 5%%); node online and fault-free since %v%s", k.name, k.lastComplete, now, c.interval, c.maxDelay, h.cleanSince, k.mergeNote())
			k.lastComplete = -1
		}
		if k.kept && k.xLast >= 0 && h.cleanSince >= 0 && h.restartAt < 0 && now-k.xLast > h.boundC+k.xDown {
			// rule cadence-restart: the cadence clause over a history that contains
			// restarts from a clean state and no fault
			h.violatePending(h.restartRule(k), "%s kept for reproviding: last complete round at %v, none since, now %v (interval %v + max delay %v + 5%%, plus %v during which the node was being restarted); no fault was injected since, the node was restarted %d time(s) on the same datastore (resume enabled) from an online, fault-free state and is online and fault-free again since %v%s", k.name, k.xLast, now, c.interval, c.maxDelay, k.xDown, k.xN, h.cleanSince, h.restartNote(k))
			k.xLast = -1
		}
		if k.kept && k.catchDue >= 0 && now > k.catchDue {
			h.violatePending(k.timingRule("catch-up"), "%s kept for reproviding has no complete round by %v although the node is online and fault-free again since %v%s", k.name, k.catchDue, h.cleanSince, k.mergeNote())
			k.catchDue = -1
		}
		if k.kept && k.promptDue >= 0 && now > k.promptDue {
			s.Violate("catch-up-prompt", "%s: last complete round %v, its round was missed during an outage, node online again since %v, no complete round by %v", k.name, k.lastComplete, h.cleanSince, k.promptDue)
			k.promptDue = -1
		}
	}

	// determinism witness + probes
	st := h.sut.Load()
	if st != h.lastSut {
		switch st {
		case c17Offline:
			s.Count("probe_sut_offline")
		case c17Disconnected:
			s.Count("probe_sut_disconnected")
		}
	}
	// The witness is emitted once per scenario step (emitStep): which of two
	// rounds a few milliseconds apart is evaluated first depends, with a small
	// worker pool, on the provider's internal queue order.
	for _, l := range line {
		h.stepRounds[l]++
	}
	if c17Debug && len(line) > 0 {
		s.Tracef("  rounds %s", strings.Join(line, " "))
	}
	if c17Debug && h.prov != nil {
		cur, at := provider.VerifScheduleCursor(h.prov)
		if x := fmt.Sprintf("cursor=%q armed-at=%v", cur, time.Duration(at-s.Start.UnixNano())); x != h.lastCursor {
			s.Tracef("  %s", x)
			h.lastCursor = x
		}
	}
	h.lastSut = st
	if h.prov != nil {
		h.lastSched = sched
	}
	nk, np := 0, 0
	for _, k := range h.keys {
		if k.kept {
			nk++
		}
		if k.pendingFirst {
			np++
		}
	}
	s.State("sut=%d kept=%d pend=%d sched=%d outage=%v fail=%d", st, nk, np, len(sched), h.outage, len(h.failing))
}

// emitStep adds what happened during one scenario step to the trace: the
// rounds of keys the provider is obliged to advertise (sorted, with
// multiplicity), the provider's connectivity state and the schedule.
func (h *c17H) emitStep() {
	var rs []string
	for l, n := range h.stepRounds {
		rs = append(rs, fmt.Sprintf("%sx%d", l, n))
	}
	sort.Strings(rs)
	shown := strings.Join(h.lastSched, ",")
	if len(h.lastSched) == 1 && h.lastSched[0] == "" {
		shown = "<empty prefix>"
	}
	line := fmt.Sprintf("sut=%d rounds=[%s] sched=[%s]", h.lastSut, strings.Join(rs, " "), shown)
	if len(rs) > 0 || line != h.lastEmit {
		h.s.Tracef("  => %s", line)
	}
	h.lastEmit = line
	h.stepRounds = map[string]int{}
}

func (h *c17H) splitMergeProbe(old, cur []string) {
	in := func(set []string, x string) bool {
		for _, y := range set {
			if y == x {
				return true
			}
		}
		return false
	}
	for _, p := range old {
		if in(cur, p) {
			continue
		}
		for _, q := range cur {
			if len(q) > len(p) && strings.HasPrefix(q, p) && !in(old, q) {
				h.s.Count("probe_region_split")
				break
			}
		}
	}
	for _, q := range cur {
		if in(old, q) {
			continue
		}
		for _, p := range old {
			if len(p) > len(q) && strings.HasPrefix(p, q) && !in(cur, p) {
				h.s.Count("probe_region_merge")
				break
			}
		}
	}
}

func mapKeys(m map[peer.ID]bool) []peer.ID {
	out := make([]peer.ID, 0, len(m))
	for p := range m {
		out = append(out, p)
	}
	return out
}

// settleNow answers everything that is answerable at this instant and
// evaluates the rounds. It returns the next instant at which a parked call
// comes due (-1 if none).
func (h *c17H) settleNow() time.Duration {
	_, quiet, next := h.pump(-1)
	if h.stop {
		return -1
	}
	h.held = false
	h.fixpoint(quiet)
	return next
}

// settle lets time pass until no call is in flight any more (rounds take a
// few lookup latencies), but no longer than a bound: during an outage the
// connectivity probes keep coming.
func (h *c17H) settle() {
	s := h.s
	limit := s.Now() + 3*time.Minute
	for i := 0; i < 2000; i++ {
		next := h.settleNow()
		if h.quiet || next < 0 || s.Failed() || h.stop || next > limit {
			return
		}
		if d := next - s.Now(); d > 0 {
			t := time.NewTimer(d)
			select {
			case <-h.wake:
			case <-t.C:
			}
			t.Stop()
		}
		s.Quiesce()
	}
}

// advance lets d of virtual time pass. Time stops at every instant at which a
// call reaches a seam (the call is answered at that instant) and at every
// instant at which a failing call comes due.
func (h *c17H) advance(d time.Duration) {
	s := h.s
	deadline := s.Now() + d
	for {
		next := h.settleNow()
		if s.Failed() || h.stop {
			return
		}
		rem := deadline - s.Now()
		if rem <= 0 {
			return
		}
		if next >= 0 && next-s.Now() < rem {
			rem = next - s.Now()
		}
		if h.cleanSince < 0 && h.isClean() && !h.settled(s.Now()) {
			if g := h.lastFailAt + c17Grace - s.Now(); g > 0 && g < rem {
				rem = g
			}
		}
		if rem > 0 {
			t := time.NewTimer(rem)
			select {
			case <-h.wake:
			case <-t.C:
			}
			t.Stop()
		}
		s.Quiesce()
	}
}

// api runs one provider API call on a client goroutine. The calls are
// asynchronous by contract and must return without any seam call being
// answered.
func (h *c17H) api(name string, f func() error) bool {
	s := h.s
	op := h.ops.Go(s, name, func() (any, error) { return nil, f() })
	s.Quiesce()
	if !op.Done {
		// blocked behind a parked call: answer calls until it returns
		h.pump(-1)
		s.Count("probe_api_blocked")
		if h.stop {
			return false // call budget used up: the run ends unjudged
		}
	}
	if op.Panic != "" {
		s.Violate("api-panic", "%s panicked: %s", name, firstLine(op.Panic))
		return false
	}
	if !op.Done {
		s.Violate("api-hang", "%s did not return although every parked call was answered", name)
		return false
	}
	if op.Err != nil {
		s.Violate("api-error", "%s returned %v (no datastore fault was injected)", name, op.Err)
		return false
	}
	return true
}

func (h *c17H) pickKeys(label string) []*c17Key {
	s := h.s
	if len(h.keys) == 0 {
		return nil
	}
	n := s.Range(label+"-n", 1, min(h.cfg.maxBatch, len(h.keys)))
	off := s.Draw(label+"-off", len(h.keys))
	var out []*c17Key
	for i := 0; i < n; i++ {
		out = append(out, h.keys[(off+i)%len(h.keys)])
	}
	return out
}

func keyNames(ks []*c17Key) string {
	var n []string
	for _, k := range ks {
		n = append(n, k.name)
	}
	return strings.Join(n, ",")
}

func keyMhs(ks []*c17Key) []mh.Multihash {
	var out []mh.Multihash
	for _, k := range ks {
		out = append(out, k.mh)
	}
	return out
}

// accept records the obligations created by an acknowledged StartProviding /
// ProvideOnce.
func (h *c17H) accept(ks []*c17Key, kind string, force bool) {
	now := h.s.Now()
	clean := h.isClean() && h.cleanSince >= 0 && !h.dirty
	// (rule first-advert-after-fault) online by the provider's own account, and
	// the router has answered every call since the last clean window
	owedOK := clean || (h.inWindow && h.winSendOnly && !h.outage && len(h.failing) == 0 && h.stillOnline())
	for _, k := range ks {
		if kind == "start" {
			wasKept := k.kept
			k.kept = true
			k.stoppedAt = -1
			if !wasKept {
				// rounds of an earlier life (or of a ProvideOnce) do not count
				k.lastComplete, k.validBefore, k.merged, k.mergeWait = -1, false, false, false
				k.xLast, k.regroup = -1, false
			}
			if wasKept && !force {
				continue // already provided in the past: no new obligation
			}
		} else {
			k.stoppedAt = -1 // "unless re-added": a later ProvideOnce disarms the stop rule
		}
		if clean {
			// rule first-advert
			k.pendingFirst, k.firstRule, k.firstDue = true, "first-advert", now+c17FirstBound
		}
		if owedOK {
			k.owed, k.forgotten, k.lostInReprov = true, false, false
		}
	}
}

// ---------------------------------------------------------------------------

func runC17Sweep(s *sim.Sim, faults bool) {
	c17InitPools()
	c := genC17Cfg(s, faults)
	s.MaxSteps = c.stepLimit
	s.Summary["cfg"] = c.String()
	s.Tracef("cfg %s", c.String())

	h, restore := newC17H(s, c)
	defer restore()
	h.newProvider()
	c17SweepBody(s, c, h)
}

// newC17H builds the simulated world (swarm, keys, seams) for cfg and replaces
// crypto/rand.Reader for the run; restore puts the real reader back.
func newC17H(s *sim.Sim, c *c17Cfg) (*c17H, func()) {
	seed := uint64(s.Draw("universe", 1<<16))
	saved := rand.Reader
	rand.Reader = io.Reader(&c17Rand{seed: seed, ctr: map[int]uint64{}})
	restore := func() { rand.Reader = saved }

	h := &c17H{s: s, cfg: c, u: simnet.NewUniverse(seed, 0), rng: newSubRng(s, "world"),
		wake: make(chan struct{}, 1), member: map[peer.ID]bool{}, usedPeer: map[int]bool{}, failing: map[peer.ID]bool{},
		byMh: map[string]*c17Key{}, reported: map[peer.ID]int{}, due: map[string]time.Duration{}, stepRounds: map[string]int{}, sendRounds: map[string]map[uint64]bool{}, failLat: c.failLat, cleanSince: -1, faultFree: -1, prevClean: -1, lastOnlineAt: -1, lastFailAt: -1, restartAt: -1, downFrom: -1, chain: 1}
	h.boundC = (c.interval+c.maxDelay)*105/100 + time.Second
	h.snd = &simnet.Sender{S: s, U: h.u}
	h.ds = simds.New(s, "ds")
	h.setAddrs()
	for i := 0; i < c.nPeers; i++ {
		h.addPeer()
	}
	// keys: distinct pool entries, uniform or mostly sharing a prefix; sorted by
	// Kademlia id so that a batch (a window of the list) tends to share regions
	usedKey := map[int]bool{}
	for len(h.keys) < c.nKeys {
		i := h.rng.Intn(c17PoolN)
		e := c17Pools.keys[i]
		if usedKey[i] || (c.keyBits > 0 && !kadPrefixIs(e.kad, c.keyVal, c.keyBits) && h.rng.Intn(10) >= 2) {
			continue
		}
		usedKey[i] = true
		k := &c17Key{name: fmt.Sprintf("k%04d", i), mh: mh.Multihash(e.raw), kad: e.kad, lastComplete: -1, catchDue: -1, promptDue: -1, stoppedAt: -1, xLast: -1}
		h.keys = append(h.keys, k)
		h.byMh[e.raw] = k
	}
	sort.Slice(h.keys, func(i, j int) bool { return h.keys[i].kad.Less(h.keys[j].kad) })
	for i, k := range h.keys {
		k.idx = i
	}
	return h, restore
}

func c17SweepBody(s *sim.Sim, c *c17Cfg, h *c17H) {
	if h.stop {
		s.Finish()
		return
	}
	h.lastSut = -1

	// sometimes hand keys over before the node had a chance to come online
	if len(h.keys) > 0 && s.Chance("early-start", 1, 5) {
		ks := h.pickKeys("early")
		s.Tracef("step early-start %s", keyNames(ks))
		if h.api("StartProviding", func() error { return h.prov.StartProviding(false, keyMhs(ks)...) }) {
			h.accept(ks, "start", false)
		}
	}
	h.settle()
	h.emitStep()

	for s.Step() {
		if s.Failed() || h.stop || s.Now() >= c.horizon {
			break
		}
		h.step()
		h.emitStep()
		if c17ForceViol > 0 && s.Steps == c17ForceViol {
			s.Violate("debug-forced", "forced violation (VERIF_C17_FORCEVIOL)")
		}
	}

	// drain phase: stop injecting faults, let the schedule run for one more
	// bound so that every obligation created above comes due
	if !s.Failed() && !h.stop {
		s.Tracef("drain")
		if h.outage || h.sendOutage || len(h.failing) > 0 {
			h.settle()
			if h.sendOutage && !h.quiet {
				h.dropOwed() // see catSendFail
			}
			h.outage, h.sendOutage = false, false
			h.failing = map[peer.ID]bool{}
			h.dirty = true
		}
		h.advance(3 * time.Minute)
		h.advance(h.boundC + c17FirstBound + time.Minute)
		h.settle()
		h.emitStep()
	}
	if s.Steps > s.MaxSteps {
		s.Count("step_budget_exhausted")
	}
	nRe, nEver, nKept := 0, 0, 0
	for _, k := range h.keys {
		if k.nComplete >= 2 {
			nRe++
		}
		if k.ever {
			nEver++
		}
		if k.kept {
			nKept++
		}
	}
	s.Tracef("done kept=%d", nKept)
	if os.Getenv("VERIF_C17_CALLHIST") != "" {
		// development aid: distribution of the number of answered calls per run
		for _, b := range []int{1000, 2000, 5000, 10000, 20000, 50000, 100000, 1 << 40} {
			if h.nCalls <= b {
				s.Count(fmt.Sprintf("calls_le_%07d_c%d_f%v", b, c.class, c.faults))
				break
			}
		}
	}
	s.NonTrivial = nRe > 0 || (nEver > 0 && (s.Stats["fault_outage"] > 0 || s.Stats["restart"] > 0 || s.Stats["swarm_grow"]+s.Stats["swarm_shrink"] > 0))

	if h.prov != nil {
		h.closeProvider()
	}
	closeAndCensus(s, func() {}) // goroutine census (and whatever is still parked)
	if c17Debug {
		for _, v := range s.Violations() {
			if v.Rule == "close-hang" {
				sut, harness := sim.BubbleGoroutines(harnessPrefixes...)
				f, _ := os.Create("/tmp/c17-hang-dump.txt")
				defer f.Close()
				fmt.Fprintf(f, "CLOSE-HANG goroutines (sut %d, harness %d):\n%s\n---- harness ----\n%s\n", len(sut), len(harness), strings.Join(sut, "\n\n"), strings.Join(harness, "\n\n"))
			}
		}
	}
	s.Finish()
}

// step performs one tape-chosen scenario step.
func (h *c17H) step() {
	s, c := h.s, h.cfg
	// categories; value 0 (the benign choice) advances time
	const (
		catAdvance = iota
		catStart
		catOnce
		catStop
		catSwarm
		catAddrs
		catRestart
		catOutage
		catPeerFail
		catMidRound
		catSendFail
		catDueOutage
	)
	weights := []int{catAdvance, catAdvance, catAdvance, catAdvance, catAdvance, catAdvance, catStart, catStart, catStart, catOnce, catStop, catStop, catSwarm, catSwarm, catAddrs, catRestart}
	if c.faults {
		// (new categories are appended at the end: recorded schedules keep their meaning)
		weights = append(weights, catOutage, catOutage, catPeerFail, catMidRound, catSendFail, catSendFail, catDueOutage, catDueOutage)
	}
	if c.restartBias {
		weights = append(weights, catRestart, catRestart, catRestart)
	}
	cat := weights[s.Draw("step", len(weights))]
	if len(h.keys) == 0 && (cat == catStart || cat == catOnce || cat == catStop) {
		cat = catAdvance
	}
	// steps that are meaningful while calls of an earlier step are still
	// outstanding: further API calls, restart, the beginning of an outage
	switch cat {
	case catStart, catOnce, catStop, catRestart:
	case catOutage:
		if h.outage {
			h.settleIfHeld()
		}
	case catMidRound:
	case catSendFail:
		// a black-out may begin while the calls of an API step are outstanding
		// (the fault falls between exploration and sending); it ends at a quiet point
		if h.sendOutage {
			h.settle()
		}
	default:
		h.settleIfHeld()
	}
	if s.Failed() || h.stop {
		return
	}

	switch cat {
	case catAdvance:
		menu := []time.Duration{time.Minute, 4 * time.Minute, 11 * time.Minute, c.interval / 4, c.interval / 2, c.interval * 9 / 10, c.interval + c.maxDelay}
		d := menu[s.Draw("dt", len(menu))] + c17Jitter
		s.Tracef("step advance %v", d)
		s.Count("time_advance")
		h.advance(d)

	case catStart, catOnce:
		ks := h.pickKeys("batch")
		force := false
		var ok bool
		if cat == catStart {
			force = s.Chance("force", 1, 4)
			s.Tracef("step start force=%v %s", force, keyNames(ks))
			ok = h.api("StartProviding", func() error { return h.prov.StartProviding(force, keyMhs(ks)...) })
			if ok {
				h.accept(ks, "start", force)
			}
		} else {
			s.Tracef("step once %s", keyNames(ks))
			ok = h.api("ProvideOnce", func() error { return h.prov.ProvideOnce(keyMhs(ks)...) })
			if ok {
				h.accept(ks, "once", true)
			}
		}
		h.afterAPI()

	case catStop:
		ks := h.pickKeys("stop")
		s.Tracef("step stop %s", keyNames(ks))
		if h.api("StopProviding", func() error { return h.prov.StopProviding(keyMhs(ks)...) }) {
			now := s.Now()
			for _, k := range ks {
				if k.pendingFirst {
					s.Count("probe_stop_before_first_advert")
				}
				k.kept = false
				k.owed = false
				k.stoppedAt = now
				k.lastComplete = -1 // a later StartProviding starts a new history
				k.xLast, k.regroup = -1, false
				k.validBefore, k.merged, k.mergeWait = false, false, false
				// an unacknowledged first advertisement may or may not still happen
				k.pendingFirst, k.resumePending = false, false
				k.catchDue, k.promptDue = -1, -1
			}
		}
		h.afterAPI()

	case catSwarm:
		grow := s.Chance("grow", 1, 2)
		maxN := []int{2, 4, 16, 30}[c.class]
		n := s.Range("swarm-n", 1, maxN)
		if !grow && len(h.swarm)-n < 1 {
			n = len(h.swarm) - 1
		}
		limit := []int{6, 12, 40, 80}[c.class]
		if grow && len(h.swarm)+n > limit {
			n = limit - len(h.swarm)
		}
		if n <= 0 {
			s.Tracef("step swarm noop")
			return
		}
		if grow {
			for i := 0; i < n; i++ {
				h.addPeer()
			}
			s.Count("swarm_grow")
		} else {
			for i := 0; i < n; i++ {
				h.removePeer(h.rng.Intn(len(h.swarm)))
			}
			s.Count("swarm_shrink")
		}
		s.Tracef("step swarm grow=%v n=%d size=%d", grow, n, len(h.swarm))

	case catAddrs:
		if !h.quiet {
			// a round in flight (failing calls waiting for their time-out) read the
			// addresses when it started: "current" would be ambiguous
			s.Tracef("step addrs noop")
			return
		}
		h.setAddrs()
		s.Count("addr_change")
		s.Tracef("step addrs gen=%d", h.addrGen)

	case catRestart:
		pend := 0
		clean := h.isClean() && h.cleanSince >= 0 && !h.dirty
		for _, k := range h.keys {
			if k.pendingFirst {
				pend++
			}
		}
		s.Tracef("step restart pending=%d held=%v", pend, h.held)
		s.Count("restart")
		if pend > 0 && h.held {
			s.Count("probe_restart_with_queued_work")
		}
		// rule cadence-restart: a kept key whose last complete round lies in the
		// clean window that ends with this restart (or in that of an earlier
		// instance, with nothing but clean restarts in between) keeps its cadence
		// obligation over the restart. WithSkipBootstrapReprovide asks the new
		// instance not to look at what is due when it starts; the property does not
		// speak about that option, so nothing is carried over with it.
		carried, carried2 := 0, 0
		for _, k := range h.keys {
			switch {
			case !clean || !k.kept || c.skipBoot:
				k.xLast = -1
			case k.xLast >= 0:
				k.xN++
				carried++
				carried2++
			case k.lastComplete >= 0 && k.lastComplete >= h.cleanSince:
				k.xLast, k.xDown, k.xN = k.lastComplete, 0, 1
				k.slotDown = false
				carried++
			}
		}
		if carried > 0 {
			s.Count("probe_cadence_carried_over_restart")
		}
		if carried2 > 0 {
			s.Count("probe_cadence_carried_over_two_restarts")
		}
		h.restartAt = s.Now()
		if !h.closeProvider() {
			return
		}
		h.observe()
		h.emptyPrefixProbe()
		// rounds cut short by Close are not judged; nothing is in flight now
		for _, k := range h.keys {
			k.all, k.ok, k.spanning = nil, nil, false
			if k.pendingFirst && clean {
				// rule restart-resume: armed when the restarted node is online
				k.resumePending = true
			}
			k.pendingFirst = false
			k.owed = false
			k.catchDue, k.promptDue = -1, -1
			k.validBefore = false
		}
		h.cleanSince = -1
		h.cleanCut = false
		h.winSendOnly = false
		h.dirty = true
		h.held = false
		h.chain++
		h.newProvider()
		if h.stop {
			return
		}
		h.settle()

	case catOutage:
		if !h.outage {
			inFlightSend := false
			for _, p := range h.parkedCalls() {
				if p.Kind == "rpc" {
					inFlightSend = true
				}
			}
			cut := !inFlightSend && len(h.failing) == 0
			s.Tracef("step outage-begin held=%v", h.held)
			s.Count("fault_outage")
			h.outage = true
			h.outageSeenFail = false
			h.beginFault("outage", cut)
		} else {
			s.Tracef("step outage-end")
			h.outage = false
			h.dirty = true
		}

	case catDueOutage:
		// An outage that begins a short, drawn time before the next reprovide of
		// kept keys is due, with a ProvideOnce at its very beginning: the
		// ProvideOnce is the first operation to fail, the node finds itself
		// disconnected one failed connectivity probe later, and the reprovide
		// falls due in between - while the node is online by its own account and
		// the network is already down - so that it fails when the node already
		// knows. ("offline/online transitions (after which missed work is caught
		// up)": work that becomes due inside the detection window of an outage.)
		// The due instant is taken from what the harness saw - the keys' last
		// complete round plus the interval it configured - and the lead from its
		// own failure latency; rounds that carried several keys are preferred (the
		// region path). Judged by the existing outage rules (catch-up,
		// catch-up-prompt); the step adds nothing to the oracle.
		isQuietClean := func() bool { return h.isClean() && h.cleanSince >= 0 && !h.dirty && h.quiet }
		if !isQuietClean() {
			s.Tracef("step due-outage noop")
			return
		}
		now := s.Now()
		type dueGrp struct {
			at time.Duration
			n  int
			re bool // a REprovide round: it was made at the region's place in the cycle
		}
		var gs []dueGrp
		for _, k := range h.keys {
			if !k.kept || k.nComplete < 1 || k.lastComplete < h.cleanSince || k.lastComplete+c.interval-now <= 4*h.failLat {
				continue
			}
			found := false
			for i := range gs {
				if gs[i].at == k.lastComplete {
					gs[i].n++
					gs[i].re = gs[i].re || k.nComplete >= 2
					found = true
				}
			}
			if !found {
				gs = append(gs, dueGrp{k.lastComplete, 1, k.nComplete >= 2})
			}
		}
		if len(gs) == 0 {
			s.Tracef("step due-outage noop (nothing due)")
			return
		}
		sort.Slice(gs, func(i, j int) bool {
			if gs[i].re != gs[j].re {
				return gs[i].re
			}
			if gs[i].n != gs[j].n {
				return gs[i].n > gs[j].n
			}
			return gs[i].at < gs[j].at
		})
		g := gs[s.Draw("due-pick", min(2, len(gs)))]
		lead := h.failLat * time.Duration(5+s.Draw("due-lead", 3)) / 4
		d := g.at + c.interval - lead - now
		s.Tracef("step due-outage advance %v (round of %d key(s) at %v, lead %v)", d, g.n, g.at, lead)
		s.Count("time_advance")
		h.advance(d)
		if s.Failed() || h.stop {
			return
		}
		if !isQuietClean() {
			s.Tracef("  due-outage: not at a clean quiet point")
			return
		}
		s.Tracef("  due-outage outage-begin")
		s.Count("fault_outage")
		s.Count("fault_outage_before_due")
		h.outage = true
		h.outageSeenFail = false
		h.beginFault("outage", true)
		ks := h.pickKeys("due-once")
		s.Tracef("  due-outage once %s", keyNames(ks))
		if h.api("ProvideOnce", func() error { return h.prov.ProvideOnce(keyMhs(ks)...) }) {
			h.accept(ks, "once", true)
		}
		h.settle()

	case catPeerFail:
		if len(h.failing) > 0 && s.Chance("heal", 1, 2) {
			s.Tracef("step heal")
			h.failing = map[peer.ID]bool{}
			h.dirty = true
		} else {
			n := s.Range("fail-n", 1, min(3, len(h.swarm)))
			var names []string
			for i := 0; i < n; i++ {
				p := h.swarm[h.rng.Intn(len(h.swarm))]
				h.failing[p.ID] = true
				names = append(names, p.Name)
			}
			s.Tracef("step fail-peers %s", strings.Join(names, ","))
			s.Count("fault_peer_fail")
			h.beginFault("peer", false)
		}

	case catSendFail:
		// send black-out: every recipient refuses ADD_PROVIDER (stream resets,
		// dial failures) while the router keeps answering, so the node stays
		// online by its own account
		if !h.sendOutage {
			s.Tracef("step blackout-begin held=%v", h.held)
			s.Count("fault_send_blackout")
			h.sendOutage = true
			h.beginFault("send", false)
		} else {
			if !h.quiet {
				// a round is still in flight: the sends that are parked now will be
				// delivered, and a region that reaches some of its recipients is done
				// for the provider although single keys of it may have reached nobody
				h.dropOwed()
				s.Count("probe_blackout_end_in_flight")
			}
			s.Tracef("step blackout-end")
			h.sendOutage = false
			h.dirty = true
		}

	case catMidRound:
		// an outage that begins while a round is in flight: answer a drawn
		// number of calls, then cut the network. Only generated where the set of
		// parked calls is a function of the tape (ample workers: every queued
		// region is in flight, every recipient has its first message parked).
		if h.outage || !c.ample || len(h.keys) == 0 {
			s.Tracef("step midround noop")
			h.settleIfHeld()
			return
		}
		if !h.held {
			ks := h.pickKeys("mid")
			s.Tracef("step midround start force=true %s", keyNames(ks))
			if !h.api("StartProviding", func() error { return h.prov.StartProviding(true, keyMhs(ks)...) }) {
				return
			}
			h.accept(ks, "start", true)
			h.held = true
		}
		n := s.Range("mid-n", 1, 24)
		h.beginFault("midround", false)
		// answer n calls as they come due (lookups take lookupLat)
		answered := 0
		for i := 0; i < 200 && answered < n; i++ {
			a, quiet, next := h.pump(n - answered)
			answered += a
			if quiet || next < 0 || h.stop || h.dupLabels(h.parkedCalls()) {
				break
			}
			if d := next - s.Now(); d > 0 {
				s.Sleep(d)
			}
		}
		h.observe()
		outstanding := len(h.parkedCalls())
		s.Tracef("step midround outage after %d answers", answered)
		s.Count("fault_outage")
		s.Count("fault_outage_midround")
		if outstanding > 0 {
			s.Count("probe_outage_during_round")
		}
		h.outage = true
		h.outageSeenFail = false
		h.settle()
	}
}

func (h *c17H) settleIfHeld() {
	if h.held {
		h.settle()
	}
}

// afterAPI decides whether the calls caused by an API step are answered now or
// stay outstanding for the next step (restart with queued work, stop before
// the first advertisement, outage before the first advertisement).
func (h *c17H) afterAPI() {
	if h.s.Chance("hold", 1, 4) {
		h.held = true
		h.s.Quiesce()
		return
	}
	h.settle()
}

// emptyPrefixProbe looks at what Close persisted of the provide queue: an
// entry whose datastore key has no prefix component is a region with the
// empty prefix (diagnostic only; used to label violations of restart-resume).
func (h *c17H) emptyPrefixProbe() {
	h.emptyPrefixAtRestart = false
	if c17Debug {
		var ks []string
		for k, v := range h.ds.Snapshot() {
			if strings.HasPrefix(k, "/prov/") {
				ks = append(ks, fmt.Sprintf("%s(%d)", k, len(v)))
			}
		}
		sort.Strings(ks)
		h.s.Tracef("  datastore after Close: %s", strings.Join(ks, " "))
		for _, r := range h.ds.Log() {
			if r.Op == "put" && strings.HasPrefix(r.Key, "/prov/history") {
				h.s.Tracef("  history put %s step=%d at=%v afterClose=%v", r.Key, r.Step, r.At, r.AfterClose)
			}
		}
	}
	for k := range h.ds.Snapshot() {
		if strings.HasPrefix(k, "/prov/pqueue/") && strings.Count(strings.TrimPrefix(k, "/prov/pqueue/"), "/") == 0 {
			h.s.Count("probe_empty_prefix_queue_persisted")
			h.emptyPrefixAtRestart = true
			return
		}
	}
}
