//go:build all || c08

package scen

// C08, dual client: dual.New on the fake host builds a WAN and a LAN IpfsDHT
// with the repository's own filters (public / private query and routing-table
// filters, WAN IP-diversity filter). The two message senders the simulator
// hands out are told apart by the protocol list they are built for. WAN
// responders carry public addresses, LAN responders private ones; both
// networks name providers from one shared pool, so the merge has duplicates
// to suppress.
//
// Scheduling restrictions that keep the run deterministic (DESIGN §10, select
// with several ready cases is the Go runtime's choice):
//   * local provider records are stored on one side only, so that the merging
//     goroutine never finds items ready on both sub-channels in one step;
//   * once the merged count is reached the dual client cancels both
//     sub-searches from its merging goroutine while the sub-search that
//     delivered the last item is still running; what the sub-searches do in
//     the rest of that step is a race in the real system as well. From there
//     on the run is drained without draws and traces (c08World.racyStop).
//
// Lazy consumer (drawn, "lazy-consumer"; added after a seeded change was
// missed). The property quantifies over every cancellation instant and says
// "the result channel is always closed, after completion or cancellation";
// "the dual ... clients merge their sources under the same rules". One class of
// instants exists only when the caller is not receiving at every moment: the
// merging goroutine has taken a provider from a sub-search and is blocked
// handing it to the caller (who is busy with the previous provider). As for
// the other two clients, the consumer then takes an item only when the
// scheduler lets it (kind "consume"), so a cancellation, the count-th item or
// the end of both sub-searches can fall into a hand-over. No new rule: the
// existing ones apply unchanged - not-closed (clause "always closed, after
// completion or cancellation": after the caller's cancellation, or after the
// count-th peer was taken, or after both sub-searches ended, a consumer that
// goes on reading must see the close; the run waits until nothing is in flight
// and 30 s of virtual time passed), repeat-merged, count-exceeded,
// yield-unreported, missing-provider (count 0: a slow consumer loses nothing),
// asked-after-count. Class of regressions exposed: any exit, wait or
// accounting step of the merging goroutine that is only correct when the
// hand-over to the caller never blocks (a way out that skips the close,
// a sub-search result dropped or repeated around a blocked hand-over, a
// countdown that moves before the item was actually taken).
// Restrictions of the lazy variant, all three for determinism only:
//   * only one of the two networks (the one that also holds the local records)
//     names providers; the other one searches and answers with closer peers
//     only. With providers on both sides, both sub-searches would sit blocked
//     on their channels while the merging goroutine is blocked on the caller,
//     and its next select would have two ready item cases (the Go runtime's
//     choice, visible in the order of the yields);
//   * the caller's context is not subscribed to query events: the dual client
//     forwards the sub-searches' events from the same goroutine, between
//     hand-overs, so with a caller that is not reading the event buffer fills
//     up and publishers block inside go-libp2p's event channel under a plain
//     sync.Mutex (not a durable block for the simulator, HARNESS pitfall 9);
//   * when the consumer takes the count-th peer the scheduled part of the run
//     ends as above; the consumer is then let read until it saw the close
//     (c08World.drainLazyAfterCount).

import (
	"fmt"
	"strings"
	"time"

	dht "github.com/libp2p/go-libp2p-kad-dht"
	"github.com/libp2p/go-libp2p-kad-dht/dual"
	pb "github.com/libp2p/go-libp2p-kad-dht/pb"
	"github.com/libp2p/go-libp2p-kad-dht/records"
	"github.com/libp2p/go-libp2p/core/host"
	"github.com/libp2p/go-libp2p/core/peer"
	"github.com/libp2p/go-libp2p/core/protocol"
	ma "github.com/multiformats/go-multiaddr"

	"verif/sim"
	"verif/simds"
	"verif/simhost"
	"verif/simnet"
)

func init() {
	sim.Register(&sim.Scenario{Prop: "C08", Name: "find-providers-dual", Weight: 3, Run: func(s *sim.Sim) {
		s.MaxSteps = 800
		w := c08BuildDual(s, false)
		c08RunAndCheck(w)
		s.Finish()
	},
		Real:   []string{"dual.DHT.FindProvidersAsync (merge, found-set, countdown, cancellation of the sub-searches)", "dual.New option wiring (WAN/LAN filters, LAN protocol extension)", "two IpfsDHT provider searches", "PublicQueryFilter / PrivateQueryFilter / WAN IP-diversity filter"},
		Stub:   []string{"host.Host/network (simhost, one host shared by WAN and LAN)", "two pb.MessageSender (level A), told apart by protocol list", "remote peers (scripted)", "provider datastores (simds)"},
		Faults: append(append([]string{}, c08Faults...), c08LazyFaults...),
	})
}

// c08BuildDual builds the world around one dual client. racy: the variant of
// c08_dual_racy.go (consumer always lazy, providers named on both networks).
func c08BuildDual(s *sim.Sim, racy bool) *c08World {
	c := c08GenCfg(s, "dual")
	if c.N < 2 {
		c.N = 2
	}
	lazy := racy || s.Chance("lazy-consumer", 1, 3)
	if lazy {
		c.QEvents = false // see the header comment
	}
	w := c08NewWorld(s, c)
	w.merged, w.racyStop, w.lazy = true, true, lazy
	w.lanPeer = map[peer.ID]bool{}
	u := w.u

	nW := s.Range("n-wan", 0, c.N)
	wan, lan := u.Peers[:nW], u.Peers[nW:c.N]
	for i, p := range lan {
		p.Addrs = []ma.Multiaddr{ma.StringCast(fmt.Sprintf("/ip4/192.168.%d.%d/tcp/4001", i/200, 2+i%200))}
	}
	type side struct{ k, alpha, beta int }
	draw := func(l string) side {
		k := s.Range(l+"k", 1, 8)
		return side{k, s.Range(l+"alpha", 1, 5), s.Range(l+"beta", 1, k+1)}
	}
	sw, sl := draw("wan-"), draw("lan-")

	w.host = simhost.New(s, u.Self.ID, u.Self.Addrs, u.Name)
	var wanSnd, lanSnd *simnet.Sender
	builder := func(_ host.Host, protos []protocol.ID) pb.MessageSenderWithDisconnect {
		snd := &simnet.Sender{S: s, U: u, Label: "wan:"}
		isLan := false
		for _, p := range protos {
			isLan = isLan || strings.Contains(string(p), string(dual.LanExtension))
		}
		if isLan {
			snd.Label = "lan:"
			lanSnd = snd
		} else {
			wanSnd = snd
		}
		return snd
	}
	opts := func(x side, dsName string) []dht.Option {
		return []dht.Option{dht.BucketSize(x.k), dht.Concurrency(x.alpha), dht.Resiliency(x.beta), dht.Datastore(simds.New(s, dsName))}
	}
	// A ProtocolPrefix given through DHTOption is applied after dual.New's own
	// ProtocolExtension("/lan") and would wipe it out (the option appends to the
	// prefix), so the LAN side gets prefix and extension again, in this order.
	d, err := dual.New(w.host,
		dual.DHTOption(dht.Mode(dht.ModeClient), dht.DisableAutoRefresh(), dht.WithCustomMessageSender(builder)),
		dual.WanDHTOption(append(opts(sw, "wan-ds"), dht.ProtocolPrefix("/sim"))...),
		dual.LanDHTOption(append(opts(sl, "lan-ds"), dht.ProtocolPrefix("/sim"), dht.ProtocolExtension(dual.LanExtension))...),
	)
	if err != nil {
		panic(err)
	}
	s.Quiesce()
	if wanSnd == nil || lanSnd == nil {
		panic("c08: dual.New did not build one WAN and one LAN message sender")
	}
	w.snds = []*simnet.Sender{wanSnd, lanSnd}

	w.c08GenGraph(wan, sw.k, "wan-")
	w.c08GenGraph(lan, sl.k, "lan-")
	local := w.c08GenProviders(u.Peers[:c.N])

	for _, x := range []struct {
		d *dht.IpfsDHT
		l string
	}{{d.WAN, "wan-"}, {d.LAN, "lan-"}} {
		dht.VerifSetShuffle(x.d, c08Shuffle(c08DrawShuffleSeed(s, x.l+"shuffle-remote")))
		records.VerifSetShuffle(x.d.ProviderStore().(*records.ProviderManager), c08Shuffle(c08DrawShuffleSeed(s, x.l+"shuffle-local")))
	}
	w.srcBits = map[peer.ID]int{}
	for _, p := range lan {
		w.lanPeer[p.ID] = true
	}
	localSide, otherSide, bit := "wan", lan, 1
	if s.Chance("local-on-lan", 1, 2) {
		localSide, otherSide, bit = "lan", wan, 2
		w.storeLocal(d.LAN.ProviderStore(), local)
	} else {
		w.storeLocal(d.WAN.ProviderStore(), local)
	}
	for _, e := range local {
		w.srcBits[e.ID] |= bit
	}
	if racy && s.Chance("local-on-both", 1, 3) {
		// a drawn part of the local records is stored on the other side as well
		rng := newSubRng(s, "local-both")
		var also []c08Named
		for _, e := range local {
			if rng.Intn(2) == 0 {
				also = append(also, e)
			}
		}
		if localSide == "wan" {
			w.storeLocal(d.LAN.ProviderStore(), also)
		} else {
			w.storeLocal(d.WAN.ProviderStore(), also)
		}
		for _, e := range also {
			w.srcBits[e.ID] |= 3
		}
		localSide += "+"
	}
	if w.lazy && !racy {
		// providers are named on the side of the local records only
		for _, p := range otherSide {
			w.beh[p.ID].Provs = nil
		}
	}

	// routing tables. The WAN table's diversity filter reads the remote address
	// of a live connection, so WAN seeds are connected peers.
	for _, p := range c08DrawSeeds(s, "wan-", wan) {
		w.host.Peerstore().AddAddrs(p.ID, p.Addrs, time.Hour)
		w.host.Net().SetConnected(p.ID, true)
		w.host.Net().SetRemoteAddr(p.ID, p.Addrs[0])
		_, _ = d.WAN.RoutingTable().TryAddPeer(p.ID, true, false)
	}
	for _, p := range c08DrawSeeds(s, "lan-", lan) {
		w.host.Peerstore().AddAddrs(p.ID, p.Addrs, time.Hour)
		_, _ = d.LAN.RoutingTable().TryAddPeer(p.ID, true, false)
	}
	s.Quiesce()
	tw, tl := d.WAN.RoutingTable().Size(), d.LAN.RoutingTable().Size()
	w.tablePeers = tw + tl

	w.find = d.FindProvidersAsync
	w.closeSUT = func() {
		_ = d.Close()
		_ = w.host.Close()
	}
	s.Summary["cfg"] = fmt.Sprintf("client=dual N=%d wan=%d lan=%d Kw=%d aw=%d bw=%d Kl=%d al=%d bl=%d count=%d pool=%d local=%d(%s) tables=%d/%d faults=%d silent=%d qevents=%v cancelAt=%d lazy=%v racy=%v",
		c.N, len(wan), len(lan), sw.k, sw.alpha, sw.beta, sl.k, sl.alpha, sl.beta, c.Count, len(w.pool), len(w.local), localSide, tw, tl, c.FaultLevel, c.Silent, c.QEvents, c.CancelAt, w.lazy, racy)
	return w
}

// twoSidedYields reports whether the closed search yielded at least one peer
// known through the WAN side only and one known through the LAN side only.
func (w *c08World) twoSidedYields() bool {
	if w.op == nil || !w.closed {
		return false
	}
	src := map[peer.ID]int{}
	for id, b := range w.srcBits {
		src[id] = b
	}
	for _, d := range w.deliveries {
		if d.Kind != "reply" || !w.isSearchReq(d.RPC) {
			continue
		}
		bit := 1
		if w.lanPeer[d.From] {
			bit = 2
		}
		for _, n := range d.Provs {
			src[n.ID] |= bit
		}
	}
	onlyWan, onlyLan := false, false
	for _, y := range w.yields {
		switch src[y.ID] {
		case 1:
			onlyWan = true
		case 2:
			onlyLan = true
		}
	}
	return onlyWan && onlyLan
}
