//go:build all || c10

package scen

// C10, harness H1: whole routing operations of one real IpfsDHT (client mode)
// against scripted peers that answer at message level with adversarial but
// well-formed replies drawn from the response space of c10.go (2K+many closer
// peers incl. duplicates / the requester / the responder / non-existent peers,
// peer records with > 8 KiB of addresses, undecodable addresses, garbage ids,
// records filed under another key, unknown enum values, unknown fields). Every
// reply handed to the client went through marshal + unmarshal, so it is
// something a remote peer can put on the wire.
//
// Oracle rules (rule id -> clause of the property):
//
//	heard-over-2k            "at most 2K closer peers from one response enter a lookup": a Response lookup
//	                         event of a queried peer lists more than 2K heard peers (K = the bucket size
//	                         the scenario configured). The clause names no configuration, so the node's
//	                         configuration is part of the generated space: half of the lookup-overfeed runs
//	                         build the node with the public RoutingTablePeerDiversityFilter option
//	                         (NewRTPeerDiversityFilter with drawn limits per prefix length and per table);
//	                         the many-peers replies already place every invented peer at a random IPv4
//	                         address, i.e. in IP groups of their own, so an IP-diversity step has nothing
//	                         to object to and the 2K bound is the only thing between the reply and the
//	                         lookup. The rule itself is unchanged. In these runs the harness gives every
//	                         connection a remote address (the dialled peer's first address; seeds are
//	                         connected while they are put into the table), because the diversity filter
//	                         admits a peer to the table only by its connection addresses.
//	op-wedged                "cannot permanently block": the routing call (or its result channel) did not
//	                         finish although every RPC and dial was answered and 10 min of virtual time passed
//	caller-panic             "cannot crash", caller's goroutine (SUT-owned goroutines: driver rule "crash")
//	wrong-key-value-returned "records for a different key are rejected": GetValue/SearchValue yielded a value
//	                         that only ever travelled in records filed under a different key (the value itself
//	                         is acceptable to the validator for the requested key, so nothing but the key
//	                         comparison can reject it)
//	peer-record-oversize / peer-record-bad-addr   on every AddrInfo yielded by FindProvidersAsync, and on the
//	                         FindPeer result in the sub-space where at most one delivered peer record named
//	                         the target (FindPeer returns the peerstore's *union* over records; the property
//	                         bounds each record)

import (
	"context"
	"fmt"
	"sort"
	"sync"
	"time"

	"github.com/ipfs/go-cid"
	dht "github.com/libp2p/go-libp2p-kad-dht"
	pb "github.com/libp2p/go-libp2p-kad-dht/pb"
	"github.com/libp2p/go-libp2p/core/host"
	"github.com/libp2p/go-libp2p/core/peer"
	mh "github.com/multiformats/go-multihash"

	"verif/sim"
	"verif/simhost"
	"verif/simnet"
)

func init() {
	real := []string{"IpfsDHT.GetClosestPeers / FindProvidersAsync / GetValue / SearchValue / FindPeer / PutValue", "query.go (2K cap, peerstore feeding)", "pb.ProtocolMessenger, pb.PBPeersToPeerInfos", "qpeerset, lookup events, kbucket, pstoremem"}
	stub := []string{"host.Host/network (simhost)", "pb.MessageSender (level A, simnet.Sender)", "remote peers (scripted: adversarial well-formed replies)", "validator (harness rank validator)"}
	sim.Register(&sim.Scenario{Prop: "C10", Name: "lookup-overfeed", Weight: 4, Run: func(s *sim.Sim) { runC10Lookup(s, false) },
		Real: real, Stub: stub,
		Faults: []string{"fault_dial_fail", "fault_rpc_error", "time_advance",
			"fault_wrong_type", "fault_unknown_type", "fault_key_empty", "fault_key_other",
			"fault_record_absent", "fault_record_other_key", "fault_record_empty_key", "fault_record_empty", "fault_record_other_value", "fault_record_no_value",
			"fault_peers_many", "fault_peers_bad_addrs", "fault_peers_fat", "fault_peers_bad_ids", "fault_peers_mixed", "fault_unknown_conn", "fault_unknown_fields", "fault_cluster_level",
			"probe_2k_cap_applied", "probe_wrong_key_rejected", "probe_provider_yielded", "probe_value_yielded", "probe_findpeer_found", "probe_findpeer_size_checked", "probe_corrective_put", "probe_ghost_dialled",
			"cfg_diversity_filter", "probe_diversity_table_admit", "probe_diversity_node_overfed"}})
	sim.Register(&sim.Scenario{Prop: "C10", Name: "putvalue-echo-dht", Weight: 2, Run: func(s *sim.Sim) { runC10Lookup(s, true) },
		Real: real, Stub: stub, Faults: []string{"fault_put_echo_without_record", "probe_put_echo_nil_survived", "probe_corrective_put"}})
}

const (
	c10OpClosest = iota
	c10OpProviders
	c10OpGetValue
	c10OpSearchValue
	c10OpFindPeer
	c10OpPutValue
	c10Ops
)

// c10LateHost lets the diversity filter, which wants the host at construction
// time, be built before newH1 creates the host; the filter only uses it to look
// up connection addresses when a peer is offered to the routing table.
type c10LateHost struct{ host.Host }

var c10OpNames = []string{"GetClosestPeers", "FindProvidersAsync", "GetValue", "SearchValue", "FindPeer", "PutValue"}

func runC10Lookup(s *sim.Sim, echoNil bool) {
	s.MaxSteps = 900
	n := s.Range("n", 2, 14)
	K := s.Range("k", 1, 6)
	alpha := s.Range("alpha", 1, 4)
	beta := s.Range("beta", 1, K+1)
	hostile := 1 + s.Draw("hostility", 3)
	opKind := s.Draw("op", c10Ops-1) // PutValue only in the dedicated scenario
	if echoNil {
		opKind = []int{c10OpPutValue, c10OpSearchValue}[s.Draw("echo-op", 2)]
	}
	// node configuration: with / without the routing-table peer diversity filter
	divFilter := !echoNil && s.Chance("diversity-filter", 1, 2)
	divPerCpl, divPerTable := 0, 0
	if divFilter {
		divPerCpl = []int{1, 2, 3, 50}[s.Draw("diversity-per-cpl", 4)]
		divPerTable = []int{1, 2, 3, 50}[s.Draw("diversity-per-table", 4)]
		s.Count("cfg_diversity_filter")
	}
	u := simnet.NewUniverse(uint64(s.Draw("universe", 1<<16)), n)
	real := u.Peers[:n]
	opts := []dht.Option{dht.Validator(rankValidator{})}
	late := &c10LateHost{}
	if divFilter {
		opts = append(opts, dht.RoutingTablePeerDiversityFilter(dht.NewRTPeerDiversityFilter(late, divPerCpl, divPerTable)))
	}
	h, err := newH1(s, u, K, alpha, beta, opts...)
	if err != nil {
		panic(err)
	}
	late.Host = h.Host
	// connect opens the connection to a peer that exists, with the peer's
	// first address as its remote address (diversity-filter runs only).
	connect := func(x *simnet.Peer) {
		if divFilter && x != nil && len(x.Addrs) > 0 {
			h.Host.Net().SetConnected(x.ID, true)
			h.Host.Net().SetRemoteAddr(x.ID, x.Addrs[0])
		}
	}
	dht.VerifSetShuffle(h.DHT, func(n int, swap func(i, j int)) {
		for i := 0; i < n/2; i++ {
			swap(i, n-1-i)
		}
	})
	rng := newSubRng(s, "world")

	// the operation's key / target
	key := fmt.Sprintf("/c10/key-%d", s.Draw("key", 1<<12))
	var target *simnet.Peer
	var provKey mh.Multihash
	switch opKind {
	case c10OpFindPeer:
		if n >= 3 && !s.Chance("unknown-target", 1, 4) {
			target = real[rng.Intn(n)] // exists, is not in the table
			key = string(target.ID)
		} else {
			key = string(simnet.MakeID(0xfeed, 1)) // nobody knows it
		}
	case c10OpProviders:
		provKey, err = mh.Sum([]byte(key), mh.SHA2_256, -1)
		if err != nil {
			panic(err)
		}
		key = string(provKey)
	}

	// who knows whom; who holds which value rank; who fails
	knows := map[peer.ID][]*simnet.Peer{}
	rank := map[peer.ID]int{}
	dialFail := map[peer.ID]bool{}
	density := []int{2, 4, 8}[s.Draw("density", 3)]
	for _, p := range real {
		for _, q := range real {
			if q != p && rng.Intn(8) < density {
				knows[p.ID] = append(knows[p.ID], q)
			}
		}
		rank[p.ID] = rng.Intn(4) // 0: holds no record
		if rng.Intn(10) == 0 {
			dialFail[p.ID] = true
		}
	}
	var seeds []*simnet.Peer
	for _, p := range real {
		if p != target && rng.Intn(2) == 0 {
			seeds = append(seeds, p)
		}
	}
	if len(seeds) == 0 {
		for _, p := range real {
			if p != target {
				seeds = append(seeds, p)
				break
			}
		}
	}
	for _, p := range seeds {
		connect(p)
	}
	inTable := h.Seed(seeds)
	if divFilter {
		// the lookup starts without connections, as in the other half of the space
		for _, p := range seeds {
			h.Host.Net().SetConnected(p.ID, false)
		}
		if len(inTable) > 0 {
			s.Count("probe_diversity_table_admit")
		}
	}

	poison := map[string]bool{}
	w := &c10World{S: s, U: u, Self: u.Self.ID, K: K, EchoNil: echoNil}
	w.Poison = func(k string) []byte {
		v := rankValue(900+len(poison), time.Time{}, k)
		poison[string(v)] = true
		return v
	}
	var curResponder peer.ID
	w.GoodValue = func(k string, _ *subRng) []byte {
		r := rank[curResponder]
		if r == 0 {
			r = 1
		}
		return rankValue(r, time.Time{}, k)
	}
	s.Summary["cfg"] = fmt.Sprintf("op=%s N=%d K=%d alpha=%d beta=%d seeds=%d hostility=%d/4 echoNil=%v diversity=%v/%d/%d", c10OpNames[opKind], n, K, alpha, beta, len(seeds), hostile, echoNil, divFilter, divPerCpl, divPerTable)

	// ---- lookup events
	evCtx, evCancel := context.WithCancel(context.Background())
	defer evCancel()
	regCtx, evCh := dht.RegisterForLookupEvents(evCtx)
	opCtx, opCancel := context.WithCancel(regCtx)
	defer opCancel()
	replyCloser := map[peer.ID]int{} // closer peers in the last reply delivered from a peer for the lookup key
	wrongKeySent := map[peer.ID]bool{}
	responses := 0
	drainEvents := func() {
		for {
			select {
			case ev := <-evCh:
				if ev == nil || ev.Response == nil {
					continue
				}
				r := ev.Response
				for _, q := range r.Unreachable {
					if q != nil && wrongKeySent[q.Peer] {
						// the peer answered, with a record filed under another key, and
						// the lookup treats the exchange as failed
						s.Count("probe_wrong_key_rejected")
					}
				}
				if len(r.Queried) == 0 {
					continue
				}
				responses++
				var cause peer.ID
				if r.Cause != nil {
					cause = r.Cause.Peer
				}
				if len(r.Heard) > 2*K {
					s.Violate("heard-over-2k", "the Response event for the reply of %s lists %d heard peers; K=%d, so at most %d peers of one reply may enter the lookup (the reply named %d closer peers)", u.Name(cause), len(r.Heard), K, 2*K, replyCloser[cause])
				} else if replyCloser[cause] > 2*K {
					s.Count("probe_2k_cap_applied")
					if divFilter && len(r.Heard) > 0 {
						s.Count("probe_diversity_node_overfed")
					}
				}
			default:
				return
			}
		}
	}

	// ---- the operation
	count := []int{0, 1, 3, 20}[rng.Intn(4)] // FindProvidersAsync: 0 = all
	quorum := rng.Intn(4)
	var mu sync.Mutex
	var yieldedProvs []peer.AddrInfo
	var yieldedVals [][]byte
	var found peer.AddrInfo
	op := h.Ops.Go(s, c10OpNames[opKind], func() (any, error) {
		switch opKind {
		case c10OpClosest:
			return h.DHT.GetClosestPeers(opCtx, key)
		case c10OpProviders:
			for ai := range h.DHT.FindProvidersAsync(opCtx, cid.NewCidV1(cid.Raw, provKey), count) {
				mu.Lock()
				yieldedProvs = append(yieldedProvs, ai)
				mu.Unlock()
			}
			return nil, nil
		case c10OpGetValue:
			v, err := h.DHT.GetValue(opCtx, key, dht.Quorum(quorum))
			if err == nil {
				mu.Lock()
				yieldedVals = append(yieldedVals, v)
				mu.Unlock()
			}
			return nil, err
		case c10OpSearchValue:
			ch, err := h.DHT.SearchValue(opCtx, key, dht.Quorum(quorum))
			if err != nil {
				return nil, err
			}
			for v := range ch {
				mu.Lock()
				yieldedVals = append(yieldedVals, v)
				mu.Unlock()
			}
			return nil, nil
		case c10OpFindPeer:
			ai, err := h.DHT.FindPeer(opCtx, peer.ID(key))
			mu.Lock()
			found = ai
			mu.Unlock()
			return nil, err
		case c10OpPutValue:
			return nil, h.DHT.PutValue(opCtx, key, rankValue(5, time.Time{}, key))
		}
		return nil, nil
	})
	s.Quiesce()

	targetRecords := 0 // delivered peer records that name the FindPeer target
	echoNilSent := 0
	countTarget := func(m *pb.Message) {
		for _, l := range [][]*pb.Message_Peer{m.GetCloserPeers(), m.GetProviderPeers()} {
			for _, p := range l {
				if string(p.Id) == key {
					targetRecords++
				}
			}
		}
	}
	actions := func(benign bool) []sim.Action {
		var acts []sim.Action
		for _, p := range s.Parked() {
			p := p
			if p.Cancelled() {
				acts = append(acts, sim.Action{ID: "cancel>" + p.ID, Do: func() { s.ReleaseCancelled(p) }})
				continue
			}
			switch p.Kind {
			case "dial":
				who := p.Data.(peer.ID)
				acts = append(acts, sim.Action{ID: p.ID, Do: func() {
					x := u.ByID(who)
					if x == nil {
						s.Count("probe_ghost_dialled")
					}
					if x == nil || dialFail[who] {
						s.Count("fault_dial_fail")
						s.Release(p, simhost.ErrDialFailed)
						return
					}
					connect(x)
					s.Release(p, nil)
				}})
			case "rpc":
				r := p.Data.(*simnet.RPC)
				acts = append(acts, sim.Action{ID: p.ID, Do: func() {
					x := u.ByID(r.To)
					if x == nil || x == u.Self {
						s.Count("fault_rpc_error")
						s.Release(p, simnet.Reply{Err: errReqFailed})
						return
					}
					if !r.WantResp {
						s.Release(p, simnet.Reply{})
						return
					}
					req := r.Req
					reqKad := simnet.KadOfKey(string(req.GetKey()))
					var cands []*simnet.Peer
					for _, q := range knows[x.ID] {
						cands = append(cands, q)
					}
					honest := simnet.Nearest(cands, reqKad, K)
					curResponder = x.ID
					mutate := false
					if !benign && (req.GetType() != pb.Message_PUT_VALUE || !c10VetoEchoNil) && s.Chance("hostile", hostile, 4) {
						if s.Chance("rpc-error", 1, 8) {
							s.Count("fault_rpc_error")
							s.Release(p, simnet.Reply{Err: errReqFailed})
							return
						}
						mutate = true
					}
					rr := &subRng{x: 1}
					if mutate {
						rr = newSubRng(s, "reply-seed")
					}
					ww := *w
					if req.GetType() == pb.Message_PUT_VALUE {
						s.Count("probe_corrective_put")
						ww.EchoNil = echoNil && !benign && s.Chance("echo-nil", 1, 2)
						if ww.EchoNil {
							echoNilSent++
						}
					}
					m, info := ww.genMessage(rr, req, x.ID, honest, mutate)
					if req.GetType() == pb.Message_GET_VALUE && !mutate && rank[x.ID] == 0 {
						m.Record = nil // an honest peer that holds no record
					}
					for _, t := range info.Tags {
						s.Count(t)
					}
					if string(req.GetKey()) == key {
						replyCloser[x.ID] = len(m.GetCloserPeers())
						countTarget(m)
						wrongKeySent[x.ID] = req.GetType() == pb.Message_GET_VALUE && m.Record != nil && string(m.Record.GetKey()) != key
					}
					s.Release(p, simnet.Reply{Msg: c10WireCopy(m)})
				}})
			}
		}
		return acts
	}

	// ---- main loop
	const quiet = 10 * time.Minute
	var idleFor time.Duration
	for {
		drainEvents()
		if !s.Step() || op.Done {
			break
		}
		benign := s.Steps > s.MaxSteps*2/3
		acts := actions(benign)
		if len(acts) == 0 {
			if idleFor >= quiet {
				break
			}
			s.Sleep(5 * time.Second)
			idleFor += 5 * time.Second
			continue
		}
		idleFor = 0
		if !benign && s.Chance("tick", 1, 10) {
			dt := time.Duration(1+s.Draw("tick-ms", 3000)) * time.Millisecond
			s.Tracef("step time+%v", dt)
			s.Count("time_advance")
			s.Sleep(dt)
			continue
		}
		s.Choose("next", acts)
	}
	drainEvents()

	// ---- verdicts
	if !s.Failed() {
		switch {
		case !op.Done && s.Steps > s.MaxSteps:
			s.Count("step_budget_exhausted")
		case !op.Done:
			s.Violate("op-wedged", "%s did not finish although every dial and RPC was answered and %v of virtual time passed with nothing pending", c10OpNames[opKind], quiet)
		case op.Panic != "":
			s.Violate("caller-panic", "%s panicked on the caller's goroutine: %s at %s", c10OpNames[opKind], firstLine(op.Panic), c10PanicSite(op.Panic))
		}
	}
	if op.Done && op.Panic == "" && !s.Failed() {
		mu.Lock()
		for i, ai := range yieldedProvs {
			c10CheckAddrInfo(s, fmt.Sprintf("FindProvidersAsync output %d", i), ai)
			s.Count("probe_provider_yielded")
		}
		for _, v := range yieldedVals {
			if poison[string(v)] {
				s.Violate("wrong-key-value-returned", "%s for key %q yielded value %q, which was only ever sent inside records filed under a different key", c10OpNames[opKind], key, v)
			}
			s.Count("probe_value_yielded")
		}
		if opKind == c10OpFindPeer && op.Err == nil {
			s.Count("probe_findpeer_found")
			if targetRecords <= 1 {
				s.Count("probe_findpeer_size_checked")
				c10CheckAddrInfo(s, "FindPeer result", found)
			} else {
				// union over several records: only decodability is required
				one := found
				one.Addrs = nil
				for _, a := range found.Addrs {
					one.Addrs = append(one.Addrs[:0], a)
					c10CheckAddrInfo(s, "FindPeer result", one)
				}
			}
		}
		if echoNil && echoNilSent > 0 {
			s.Count("probe_put_echo_nil_survived")
		}
		// witness
		var vals []string
		for _, v := range yieldedVals {
			vals = append(vals, string(v))
		}
		var provs []string
		for _, ai := range yieldedProvs {
			provs = append(provs, fmt.Sprintf("%s/%d", u.Name(ai.ID), len(ai.Addrs)))
		}
		res := ""
		if ids, ok := op.Result.([]peer.ID); ok {
			res = names(u, ids)
		}
		mu.Unlock()
		s.Tracef("%s done err=%v result=[%s] values=%q providers=%v found=%s/%d responses=%d", c10OpNames[opKind], op.Err != nil, res, vals, provs, u.Name(found.ID), len(found.Addrs), responses)
		s.State("op=%d err=%v resp=%d vals=%d provs=%d", opKind, op.Err != nil, responses, len(yieldedVals), len(yieldedProvs))
		hostileFired := 0
		var keys []string
		for k := range s.Stats {
			keys = append(keys, k)
		}
		sort.Strings(keys)
		for _, k := range keys {
			if len(k) > 6 && k[:6] == "fault_" {
				hostileFired += s.Stats[k]
			}
		}
		s.NonTrivial = responses > 0 && hostileFired > 0
	}

	// ---- shut down: let corrective puts and table checks finish benignly
	opCancel()
	evCancel()
	for i := 0; i < 60; i++ {
		s.Quiesce()
		acts := actions(true)
		if len(acts) == 0 {
			break
		}
		sort.SliceStable(acts, func(i, j int) bool { return acts[i].ID < acts[j].ID })
		acts[0].Do()
	}
	h.closeAndCensus()
	s.Finish()
}
