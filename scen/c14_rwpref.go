//go:build all || c14

package scen

// Writer preference for the instrumented read-write locks. Installed by the
// scenario "sweeping-provider-reset" only (c14_provider_reset.go); every other
// scenario keeps the plain lock hook.
//
// The build rewrites x.Lock() / x.RLock() of the repository into
// verifhook.Lock(site, x.Lock, x.TryLock | x.TryRLock), and sim.HookLock turns
// a blocked call into a loop "try; park (kind lock); try again after some
// unlock". A blocked writer is therefore a TryLock loop: it never announces
// itself to the sync.RWMutex, and a reader that arrives while the writer waits
// gets the lock at once. The real sync.RWMutex behaves differently, and
// documents it: "a blocked Lock call excludes new readers from acquiring the
// lock". That difference matters for exactly one class of defects - a
// goroutine that read-locks a lock it already read-holds (directly or through
// a callee), or two goroutines that read-lock two locks in opposite order: no
// problem for ever, until a writer (here: Close) asks for the lock in between;
// then the second RLock queues behind the writer, the writer waits for the
// first RLock, and nothing moves again. Clause of the property: Close "is safe
// while operations are in flight: those operations finish or fail without
// panic or deadlock" (rules close-hang, op-hang of c14.go: no new rule, the
// lock model only stops hiding the state).
//
// c14RWPref wraps the lock hook for one run: a writer is counted as pending on
// its lock from the call of Lock until it has the lock; a reader that calls
// RLock on a lock with pending writers waits (on a channel: durably blocked,
// visible to synctest) until they have got the lock, and only then competes
// for it through sim.HookLock as before. Everything else - parking, hand-over
// at quiescent points, yields - stays sim.HookLock's.
//
// Soundness. The model only ever DELAYS an RLock, and only while a Lock call
// on the SAME mutex has been issued and has not acquired the lock yet; it lets
// the reader go the moment those writers have the lock (the reader then waits
// for their Unlock like any other contender). That is sync.RWMutex's
// documented behaviour, neither more nor less: a reader that the real runtime
// would admit is never held back (with no Lock call outstanding on that mutex
// nothing changes at all), so the model cannot produce a deadlock or a hang
// that the real runtime would not produce in the same interleaving. The one
// approximation is on the safe side of "same interleaving": with lock-site
// yields on (not used by the C14 scenarios) a writer counts as pending from
// its yield point, i.e. an instant before it would call Lock - the state in
// which it has just called Lock is reachable from there without any other
// goroutine moving. The simulator goroutine is never delayed.
//
// One writer. With two Lock calls outstanding on one mutex the runtime is
// subtler than "readers wait for pending writers": the second writer queues on
// the mutex's internal writer lock and announces itself only after the first
// has unlocked, and readers that queued during the first writer's tenure are
// admitted before it. The hook does not see which lock an Unlock belongs to,
// so it cannot follow that. The model is therefore exact for the FIRST Lock
// call a mutex sees in a run and switches itself off for that mutex (plain
// hook, delayed readers let go) when a second Lock call arrives. The shutdown
// guard of the sweeping provider - the only read-write lock in the code the
// installing scenario runs - is write-locked once in its life, by Close.
//
// The hook receives neither the lock's identity nor the kind of call, only the
// try function: the method value x.TryLock / x.TryRLock. Both are recovered
// from it: the kind from the name of the method-value wrapper
// ("sync.(*RWMutex).TryRLock-fm"), the identity from the receiver the method
// value has bound (second word of the closure; layout of the gc compiler). A
// self-test at installation checks both on a local lock; if it fails (another
// compiler, another layout) the model stays off, the run counts
// rwpref_unavailable and behaves as before. Locks for which the wrapper's name
// does not say sync.(*RWMutex) (an RWMutex embedded in a struct) keep the
// plain model: sound, only weaker.

import (
	"reflect"
	"runtime"
	"strings"
	"sync"
	"unsafe"

	"github.com/libp2p/go-libp2p-kad-dht/verifhook"

	"verif/sim"
)

const (
	c14LockOther = iota
	c14LockRead
	c14LockWrite
)

// c14LockIdentity recovers the lock and the kind of call from the try function
// the instrumented call site passes to the hook.
func c14LockIdentity(try func() bool) (id unsafe.Pointer, kind int) {
	if try == nil {
		return nil, c14LockOther
	}
	pc := reflect.ValueOf(try).Pointer()
	if k, ok := c14LockKinds.Load(pc); ok {
		kind = k.(int)
	} else {
		kind = c14LockOther
		if fn := runtime.FuncForPC(pc); fn != nil {
			switch name := fn.Name(); {
			case strings.HasSuffix(name, "sync.(*RWMutex).TryRLock-fm"):
				kind = c14LockRead
			case strings.HasSuffix(name, "sync.(*RWMutex).TryLock-fm"):
				kind = c14LockWrite
			}
		}
		c14LockKinds.Store(pc, kind)
	}
	if kind == c14LockOther {
		return nil, kind
	}
	// a func value points to its closure: code pointer, then the bound receiver
	fv := *(*unsafe.Pointer)(unsafe.Pointer(&try))
	id = *(*unsafe.Pointer)(unsafe.Add(fv, unsafe.Sizeof(uintptr(0))))
	return id, kind
}

// c14LockKinds caches the kind of call per method-value wrapper (code pointer).
var c14LockKinds sync.Map

type c14RWPref struct {
	s    *sim.Sim
	simG string

	mu      sync.Mutex
	writers map[unsafe.Pointer]int           // Lock calls seen on this lock during the run
	pending map[unsafe.Pointer]bool          // its first writer called Lock and does not have the lock yet
	wake    map[unsafe.Pointer]chan struct{} // closed when the pending state ends
}

func c14Goid() string {
	var buf [64]byte
	n := runtime.Stack(buf[:], false)
	if f := strings.Fields(string(buf[:n])); len(f) >= 2 {
		return f[1]
	}
	return ""
}

// c14InstallRWPref installs the model for the current run; call it on the
// simulator goroutine before the instance is built. (sim.OnRunEnd removes every
// hook when the run ends.)
func c14InstallRWPref(s *sim.Sim) {
	var probe sync.RWMutex
	rid, rk := c14LockIdentity(probe.TryRLock)
	wid, wk := c14LockIdentity(probe.TryLock)
	var plain sync.Mutex
	_, pk := c14LockIdentity(plain.TryLock)
	if rid != unsafe.Pointer(&probe) || wid != unsafe.Pointer(&probe) || rk != c14LockRead || wk != c14LockWrite || pk != c14LockOther {
		// another compiler / closure layout: the plain hook stays in place
		s.Count("rwpref_unavailable")
		return
	}
	s.Count("probe_rwpref_installed")
	m := &c14RWPref{s: s, simG: c14Goid(), writers: map[unsafe.Pointer]int{}, pending: map[unsafe.Pointer]bool{}, wake: map[unsafe.Pointer]chan struct{}{}}
	verifhook.LockHook = m.hook
}

func (m *c14RWPref) hook(site string, try func() bool) {
	id, kind := c14LockIdentity(try)
	switch kind {
	case c14LockWrite:
		m.mu.Lock()
		m.writers[id]++
		exact := m.writers[id] == 1
		if exact {
			m.pending[id] = true
		} else {
			// a second Lock call on this lock: see "One writer" in the header
			m.release(id)
		}
		m.mu.Unlock()
		m.s.HookLock(site, try)
		if exact {
			m.mu.Lock()
			m.release(id)
			m.mu.Unlock()
		}
		return
	case c14LockRead:
		for {
			m.mu.Lock()
			// (the simulator goroutine never waits here: sim.HookLock says what to
			// do about repository calls made from it)
			if !m.pending[id] || c14Goid() == m.simG {
				m.mu.Unlock()
				break
			}
			ch := m.wake[id]
			if ch == nil {
				ch = make(chan struct{})
				m.wake[id] = ch
			}
			m.mu.Unlock()
			m.s.Count("rwpref_reader_delayed")
			<-ch
		}
	}
	m.s.HookLock(site, try)
}

// release ends the pending state of lock id and lets delayed readers go on
// (m.mu held).
func (m *c14RWPref) release(id unsafe.Pointer) {
	delete(m.pending, id)
	if ch := m.wake[id]; ch != nil {
		close(ch)
		delete(m.wake, id)
	}
}
