//go:build all || c07

package scen

import (
	"context"
	"errors"
	"fmt"
	"strings"
	"time"

	lru "github.com/hashicorp/golang-lru/simplelru"
	dht "github.com/libp2p/go-libp2p-kad-dht"
	pb "github.com/libp2p/go-libp2p-kad-dht/pb"
	"github.com/libp2p/go-libp2p/core/host"
	"github.com/libp2p/go-libp2p/core/peer"
	"github.com/libp2p/go-libp2p/core/peerstore"
	"github.com/libp2p/go-libp2p/core/protocol"
	ma "github.com/multiformats/go-multiaddr"

	"github.com/libp2p/go-libp2p-kad-dht/records"

	"verif/sim"
	"verif/simds"
	"verif/simhost"
	"verif/simnet"
)

// C07, second configuration: additions arrive through the real ADD_PROVIDER
// handler of an IpfsDHT in server mode (level-B scripted streams into
// handleNewStream), queries through the real GET_PROVIDERS handler and through
// the local ProviderStore. The provider manager is the one the DHT builds for
// itself (public options ProviderDatastore / ProviderManagerOpts), over the
// parking datastore. Oracle: the same direct rules, log rules and per-key
// linearizability check as in c07.go.
//
// What "acknowledged" means for an RPC addition: ADD_PROVIDER has no reply, so
// the scripted sender puts a PING behind it on the same stream; the handler
// works a stream off sequentially, hence the PING reply proves that the
// addition was handled and accepted. A refused ADD_PROVIDER (not from the
// provider itself, or without an address) ends in a stream reset and is not an
// addition: a later query that returns its peer is a never-added violation.
//
// Address policy (generator only, no rule of its own): the node is built with
// or without the public AddressFilter option (the drawn filter rejects one
// address family of the simulated universe), every provider has a drawn
// address class (only accepted addresses, only rejected ones, both), and a
// sender's connection may have been "identified" (its addresses, unfiltered,
// are in the host's peerstore, as the identify service leaves them). Whether
// an ADD_PROVIDER is accepted is observed (PING reply), never demanded; once it
// was accepted the clause "a provider added ... through an accepted
// ADD_PROVIDER is returned by every later provider query for that key ...
// until the validity period has elapsed" applies whatever addresses the node
// knows or may pass on for that provider (lost-provider / not-linearizable on
// GET_PROVIDERS replies and on local queries alike).

func init() {
	sim.Register(&sim.Scenario{Prop: "C07", Name: "provider-handler", Weight: 1, Run: runC07Handler,
		Real: []string{"IpfsDHT in server mode: handleNewStream/handleNewMessage, handleAddProvider, handleGetProviders, handlePing", "records.ProviderManager as built by dht.New (ProviderDatastore + ProviderManagerOpts)", "msgio framing"},
		Stub: []string{"host + inbound streams (simhost.Fabric, scripted remote senders)", "datastore (simds: every operation parks)", "lock hand-over (scheduler-owned)"},
		Faults: []string{"probe_rpc_add_acked", "probe_bad_add_refused", "probe_rpc_get_served", "probe_local_get_sees_rpc_add", "probe_rpc_get_sees_local_add",
			"probe_cache_eviction", "probe_miss_load", "probe_expired_on_read", "probe_sweep_delete", "probe_readd_raced_sweep", "probe_closed_call", "probe_lin_checked",
			"probe_addr_filter_on", "probe_identified_sender", "probe_rpc_add_all_addrs_rejected_acked", "probe_rpc_get_serves_provider_known_by_rejected_addrs_only"},
	})
}

var errC07Reset = errors.New("stream reset by the node")

type c07Exchange struct {
	o      *c07Op
	a, b   *simhost.Stream // a = scripted sender end, b = the node's end
	parser frameParser
}

func runC07Handler(s *sim.Sim) {
	s.MaxSteps = 1500
	s.LockSched = true
	V := []time.Duration{10 * time.Minute, 30 * time.Minute}[s.Draw("validity", 2)]
	I := []time.Duration{V / 4, 0, V + time.Minute, time.Minute}[s.Draw("sweep", 4)]
	cacheSize := s.Range("cache", 2, 3)
	nKeys := s.Range("keys", 2, 5)
	nPeers := s.Range("peers", 1, 4)
	nPhases := s.Range("phases", 1, 4)
	nLocal := 2
	filterOn := s.Chance("addr-filter", 1, 2)
	addrClass := make([]int, c07MaxPeers) // 0 accepted address only, 1 rejected address only, 2 both
	for p := 0; p < nPeers; p++ {
		addrClass[p] = s.Draw("addr-class", 3)
	}
	s.Summary["cfg"] = fmt.Sprintf("V=%v sweep=%v cache=%d keys=%d peers=%d phases=%d addrFilter=%v addrClass=%v", V, I, cacheSize, nKeys, nPeers, nPhases, filterOn, addrClass[:nPeers])
	if filterOn {
		s.Count("probe_addr_filter_on")
	}

	or := newC07Oracle(s, V, nKeys, nPeers+nLocal)
	u, keys := or.u, or.keys
	// the universe's own addresses (8.x.y.1) are the accepted family; 10.x.y.z is
	// the family the drawn filter rejects
	rejected := func(a ma.Multiaddr) bool { return strings.HasPrefix(a.String(), "/ip4/10.") }
	addrFilter := func(in []ma.Multiaddr) []ma.Multiaddr {
		out := make([]ma.Multiaddr, 0, len(in))
		for _, a := range in {
			if !rejected(a) {
				out = append(out, a)
			}
		}
		return out
	}
	addrsOf := func(p int) []ma.Multiaddr {
		priv := ma.StringCast(fmt.Sprintf("/ip4/10.7.%d.1/tcp/4001", p))
		switch addrClass[p] {
		case 1:
			return []ma.Multiaddr{priv}
		case 2:
			return append([]ma.Multiaddr{priv}, u.Peers[p].Addrs...)
		}
		return u.Peers[p].Addrs
	}
	opts := []dht.Option{}
	if filterOn {
		opts = append(opts, dht.AddressFilter(addrFilter))
	}
	h := simhost.New(s, u.Self.ID, u.Self.Addrs, u.Name)
	fab := simhost.NewFabric(s)
	d := simds.New(s, "pds")
	e := or.newDS(d)
	cache, cerr := lru.NewLRU(cacheSize, func(k, v interface{}) { s.Count("probe_cache_eviction") })
	if cerr != nil {
		panic(cerr)
	}
	node, err := dht.New(h, append(opts,
		dht.ProtocolPrefix("/sim"), dht.Mode(dht.ModeServer), dht.DisableAutoRefresh(),
		dht.ProviderDatastore(d),
		dht.ProviderManagerOpts(records.Cache(cache), records.ProvideValidity(V), records.CleanupInterval(I), records.ProviderAddrTTL(time.Hour)),
		dht.WithCustomMessageSender(func(_ host.Host, _ []protocol.ID) pb.MessageSenderWithDisconnect {
			return &simnet.Sender{S: s, U: u}
		}))...)
	if err != nil {
		panic(err)
	}
	settle := func() {
		for i := 0; i < 50; i++ {
			s.Quiesce()
			ps := s.ParkedKind("ds")
			if len(ps) == 0 {
				return
			}
			s.Release(ps[0], nil)
		}
	}
	settle()
	pm, ok := node.ProviderStore().(*records.ProviderManager)
	if !ok {
		panic("provider store is not the built-in manager")
	}
	records.VerifSetShuffle(pm, func(int, func(i, j int)) {})
	m := &c07Mgr{pm: pm, ds: e}
	e.seen = d.LogLen() // construction-time accesses are not part of the history
	e.content = d.Snapshot()
	const kadProto = protocol.ID("/sim/kad/1.0.0")

	var clients opSet
	var active []*c07Exchange

	startLocal := func(o *c07Op) {
		o.mgr, o.started, o.t, o.call = m, true, s.Now(), or.stamp(1)
		o.afterClose = m.state == 2
		if o.kind == "close" && m.state == 0 {
			m.state, m.closeCall, e.closing = 1, o.call, true
		}
		ctx := sim.WithTag(context.Background(), o.tag)
		o.hop = clients.Go(s, o.tag, func() (any, error) {
			switch o.kind {
			case "add":
				o.err = node.ProviderStore().AddProvider(ctx, keys[o.key], peer.AddrInfo{ID: u.Peers[o.peer].ID, Addrs: addrsOf(o.peer)})
			case "get":
				o.res, o.err = node.ProviderStore().GetProviders(ctx, keys[o.key])
			case "close":
				o.err = node.Close()
			}
			o.fin = true
			return nil, nil
		})
	}

	startRemote := func(o *c07Op) {
		sender := u.Peers[o.sender]
		conn := h.Net().SetConnected(sender.ID, true)
		if o.identified {
			// what the identify service of a real host does for a connected peer
			// (it knows nothing of the DHT's address filter)
			h.Peerstore().AddAddrs(sender.ID, addrsOf(o.sender), peerstore.ConnectedAddrTTL)
			s.Count("probe_identified_sender")
		}
		a, b := fab.NewPair("in:"+o.tag, kadProto, sender.ID, u.Self.ID, nil, conn)
		a.Scripted = true
		go h.Handler(kadProto)(b)
		o.mgr, o.started, o.t, o.call = m, true, s.Now(), or.stamp(1)
		var out []byte
		if o.kind == "get" {
			out = encodeFrame(pb.NewMessage(pb.Message_GET_PROVIDERS, keys[o.key], 0))
		} else {
			msg := pb.NewMessage(pb.Message_ADD_PROVIDER, keys[o.key], 0)
			ai := peer.AddrInfo{ID: u.Peers[o.peer].ID, Addrs: addrsOf(o.peer)}
			if o.flavor == "no-addr" {
				ai.Addrs = nil
			}
			msg.ProviderPeers = pb.RawPeerInfosToPBPeers([]peer.AddrInfo{ai})
			out = append(encodeFrame(msg), encodeFrame(pb.NewMessage(pb.Message_PING, nil, 0))...)
		}
		_, _ = a.Write(out)
		active = append(active, &c07Exchange{o: o, a: a, b: b})
	}

	// pump consumes what the node wrote to the scripted ends.
	pump := func() {
		kept := active[:0]
		closed := false
		for _, x := range active {
			o := x.o
			data, _, reset := x.a.TakeDelivered()
			for _, f := range x.parser.Feed(data) {
				msg, derr := decodeMsg(f)
				if derr != nil {
					s.Violate("wire-garbage", "node wrote an undecodable frame")
					continue
				}
				if o.fin {
					continue
				}
				switch {
				case o.kind == "get" && msg.GetType() == pb.Message_GET_PROVIDERS:
					ids := make([]peer.ID, 0, len(msg.GetProviderPeers()))
					for _, pp := range msg.GetProviderPeers() {
						ids = append(ids, peer.ID(pp.GetId()))
					}
					if !or.setResult(o, ids) {
						o.err = errors.New("malformed result")
					}
					o.fin = true
					s.Count("probe_rpc_get_served")
				case o.kind != "get" && msg.GetType() == pb.Message_PING:
					o.fin = true
					if o.kind == "add" {
						s.Count("probe_rpc_add_acked")
						if filterOn && len(addrFilter(addrsOf(o.peer))) == 0 {
							s.Count("probe_rpc_add_all_addrs_rejected_acked")
						}
					}
				}
			}
			if !o.fin && (reset || x.a.IsReset()) {
				o.err, o.fin = errC07Reset, true
				if o.kind == "badadd" {
					s.Count("probe_bad_add_refused")
				} else {
					s.Count("rpc_refused_unexpectedly") // not judged here (C09's subject); stays 0 without faults
				}
			}
			if o.fin {
				x.a.SimReset() // ends the handler goroutine of this stream
				closed = true
				continue
			}
			kept = append(kept, x)
		}
		active = kept
		if closed {
			s.Quiesce()
		}
	}

	observe := func() {
		pump()
		or.processLog(e)
		for _, o := range or.ops {
			if !o.started || o.done || !(o.fin || (o.hop != nil && o.hop.Done)) {
				continue
			}
			o.done, o.ret = true, or.stamp(6)
			or.judge(o)
			s.Tracef("%s", or.describe(o))
			if o.kind == "close" && m.state == 1 {
				m.state, m.closeRet, m.logAtRet = 2, o.ret, d.LogLen()
			}
			// cross-path visibility probes
			if o.kind == "get" && o.err == nil {
				for _, p := range o.got {
					if known := h.Peerstore().Addrs(u.Peers[p].ID); o.remote && filterOn && len(known) > 0 && len(addrFilter(known)) == 0 {
						s.Count("probe_rpc_get_serves_provider_known_by_rejected_addrs_only")
					}
					for _, a := range or.addAttempts(o.key, p, o.call) {
						if a.done && a.err == nil && a.remote && !o.remote {
							s.Count("probe_local_get_sees_rpc_add")
						}
						if a.done && a.err == nil && !a.remote && o.remote {
							s.Count("probe_rpc_get_sees_local_add")
						}
					}
				}
			}
		}
		or.fence(m)
	}

	drive := func(list []*c07Op) {
		for {
			pending := false
			for _, o := range list {
				pending = pending || !o.done
			}
			if !pending || !s.Step() {
				return
			}
			var acts []sim.Action
			for _, p := range s.ParkedKind("ds") {
				p := p
				acts = append(acts, sim.Action{ID: p.ID, Do: func() { s.Release(p, nil) }})
				if p.Cancelled() {
					acts = append(acts, sim.Action{ID: "cancel>" + p.ID, Do: func() { s.ReleaseCancelled(p) }})
				}
			}
			for _, p := range s.Parked() {
				p := p
				if p.Kind == "dial" || p.Kind == "rpc" { // nothing of the kind is expected; never wedge on it
					acts = append(acts, sim.Action{ID: p.ID, Do: func() { releaseBenign(s, p) }})
				}
			}
			acts = append(acts, s.LockActions()...)
			for _, x := range active {
				x := x
				if n, _ := x.b.Pending(); n > 0 {
					acts = append(acts, sim.Action{ID: "deliver:" + x.b.Name(), Do: func() { x.b.Deliver(0) }})
				}
				if n, _ := x.a.Pending(); n > 0 {
					acts = append(acts, sim.Action{ID: "deliver:" + x.a.Name(), Do: func() { x.a.Deliver(0) }})
				}
			}
			busy := map[int]bool{}
			for _, o := range or.ops {
				if o.started && !o.done {
					busy[o.client] = true
				}
			}
			for _, o := range list {
				if o.started {
					continue
				}
				if !busy[o.client] {
					o := o
					if o.remote {
						acts = append(acts, sim.Action{ID: fmt.Sprintf("send:p%d:%s:%s", o.sender, o.tag, o.kind), Do: func() { startRemote(o) }})
					} else {
						acts = append(acts, sim.Action{ID: fmt.Sprintf("start:c%d:%s:%s", o.client, o.tag, o.kind), Do: func() { startLocal(o) }})
					}
				}
				busy[o.client] = true
			}
			if len(acts) == 0 {
				s.Violate("store-wedged", "operations did not finish although nothing is parked or in flight")
				return
			}
			s.Choose("next", acts)
			observe()
			if s.Failed() {
				return
			}
		}
	}

	for ph := 0; ph < nPhases && !s.Failed() && s.Steps <= s.MaxSteps; ph++ {
		n := s.Range("ops", 1, 10)
		var list []*c07Op
		for i := 0; i < n; i++ {
			key := s.Draw("key", nKeys)
			var o *c07Op
			switch s.Draw("kind", 8) {
			case 0, 1, 2: // ADD_PROVIDER
				sender := s.Draw("sender", nPeers)
				switch s.Draw("flavor", 8) {
				case 6:
					// names another peer (possibly one that is never added at all)
					other := (sender + 1 + s.Draw("other", c07MaxPeers-1)) % c07MaxPeers
					o = or.newOp(sender, "badadd", key, other)
					o.flavor = "wrong-peer"
				case 7:
					o = or.newOp(sender, "badadd", key, sender)
					o.flavor = "no-addr"
				default:
					o = or.newOp(sender, "add", key, sender)
					o.flavor = "valid"
				}
				o.remote, o.sender, o.mayFail = true, sender, true
				o.identified = s.Chance("identified", 1, 2)
			case 3, 4: // GET_PROVIDERS
				sender := s.Draw("sender", nPeers)
				o = or.newOp(sender, "get", key, 0)
				o.remote, o.sender, o.mayFail = true, sender, true
				o.identified = s.Chance("identified", 1, 2)
			case 5:
				o = or.newOp(nPeers+s.Draw("local", nLocal), "add", key, s.Draw("peer", nPeers))
			default:
				o = or.newOp(nPeers+s.Draw("local", nLocal), "get", key, 0)
			}
			list = append(list, o)
		}
		s.Tracef("phase %d ops=%d", ph, n)
		drive(list)
		if s.Failed() || s.Steps > s.MaxSteps {
			break
		}
		s.State("phase-end entries=%d sweepParked=%v", len(e.content), len(s.ParkedKind("ds")) > 0)
		if s.Draw("barrier", 4) >= 1 {
			menu := []time.Duration{time.Second, V - time.Second, V, V + time.Second, 2*V + time.Second, V / 4}
			if I > 0 {
				menu = append(menu, I, I+time.Second)
			}
			dt := menu[s.Draw("dt", len(menu))]
			s.Count("time_advance")
			s.Tracef("advance %v", dt)
			s.Sleep(dt)
			observe()
		}
	}

	// epilogue: closing the node closes the provider store; the fence holds
	if !s.Failed() && s.Steps <= s.MaxSteps {
		drive([]*c07Op{or.newOp(nPeers, "close", 0, 0)})
		if !s.Failed() && m.state == 2 {
			drive([]*c07Op{or.newOp(nPeers, "add", 0, 0), or.newOp(nPeers+1, "get", 0, 0)})
			s.Sleep(2*V + time.Second)
			observe()
		}
	}
	if s.Steps > s.MaxSteps {
		s.Count("step_budget_exhausted")
	}
	nGet, nAck := 0, 0
	for _, o := range or.ops {
		if o.done && o.err == nil && o.kind == "get" && len(o.got) > 0 {
			nGet++
		}
		if o.done && o.err == nil && o.kind == "add" && o.remote {
			nAck++
		}
	}
	s.Tracef("done rpc_adds=%d gets_nonempty=%d events=%d", nAck, nGet, len(or.events))
	s.NonTrivial = nAck >= 1 && nGet >= 1

	endStamp := or.stamp(7)
	failedInSim := s.Failed()
	d.ParkOp = nil
	s.LockSched = false
	for _, x := range active {
		x.a.SimReset()
	}
	closeAndCensus(s, func() {
		_ = node.Close()
		_ = h.Close()
	})
	if !failedInSim && !s.Failed() {
		or.linearize(endStamp)
	}
	s.Finish()
}
