//go:build all || c10

package scen

// C10 — no remote response can crash, wedge or over-feed a client.
//
// This file holds what the C10 scenarios share: the generator over the
// *response* space (well-formed messages with every field present / absent /
// mismatched, adversarial peer lists, byte-level junk) and the result oracle
// on returned peer.AddrInfo values.
//
//   c10_messenger.go  scenarios "messenger-bytes" and "putvalue-echo" (harness H2)
//   c10_lookup.go     scenarios "lookup-overfeed" and "putvalue-echo-dht" (harness H1)
//   c10_slow.go       scenario "messenger-slow" (harness H2): answers delivered on a schedule
//                     (byte string + pacing), liveness rule with an absolute bound
//   c10_trace.go      a tracer provider (OpenTelemetry public API) whose spans are recording for the
//                     calls messenger-bytes chose to trace: "cannot crash" names no configuration
//
// The one response class that is known to crash the client (a decodable reply
// to PUT_VALUE that carries no record, DESIGN §7 #1) is generated only by the
// two "putvalue-echo*" scenarios; the broad scenarios veto it (c10World.EchoNil
// false) so that exploration of everything else is not stopped by dying
// worker processes.

import (
	"encoding/binary"
	"fmt"
	"strings"

	pb "github.com/libp2p/go-libp2p-kad-dht/pb"
	recpb "github.com/libp2p/go-libp2p-record/pb"
	"github.com/libp2p/go-libp2p/core/network"
	"github.com/libp2p/go-libp2p/core/peer"
	ma "github.com/multiformats/go-multiaddr"
	"google.golang.org/protobuf/encoding/protowire"
	"google.golang.org/protobuf/proto"

	"verif/sim"
	"verif/simnet"
)

// c10VetoEchoNil keeps the known crash class out of the broad scenarios. Once
// the defect is repaired in the repository it can be set to false: the broad
// scenarios then generate record-less PUT_VALUE replies as well (the dedicated
// scenarios stay as they are).
const c10VetoEchoNil = false

// c10MaxPeerRecord is the property's bound on one peer record ("cut to 8 KiB
// each"); deliberately not read from the implementation.
const c10MaxPeerRecord = 8 << 10

// c10World is the generator's view of a run.
type c10World struct {
	S    *sim.Sim
	U    *simnet.Universe
	Self peer.ID
	// K > 0: message level (H1). Over-long lists are 2K+1 .. 2K+40 entries and
	// all their members can be dialled by the lookup, so they stay small.
	// K == 0: byte level (H2); over-long lists go into the thousands.
	K int
	// EchoNil: generate decodable replies without a record for PUT_VALUE
	// requests (only the dedicated scenarios set this).
	EchoNil bool
	// Poison, when non-nil, produces the value placed in records filed under a
	// *different* key (message level): a value that would be acceptable for the
	// requested key, so that only the key comparison can reject it.
	Poison func(key string) []byte
	// GoodValue produces the value of an honest record for key.
	GoodValue func(key string, rng *subRng) []byte
}

// c10Info is what the harness knows about one generated reply message.
type c10Info struct {
	Tags      []string // fault_* counters to bump when the reply is sent
	WrongKey  bool     // carries a record whose key differs from the requested key
	NoRecord  bool
	NCloser   int
	NProvider int
	FatPeer   bool // some peer record carries more than 8 KiB of addresses
	BadAddr   bool // some peer record carries undecodable address bytes
}

func (i *c10Info) tag(t string) { i.Tags = append(i.Tags, t) }

func (i *c10Info) Kind() string {
	if len(i.Tags) == 0 {
		return "honest"
	}
	var out []string
	for _, t := range i.Tags {
		out = append(out, strings.TrimPrefix(t, "fault_"))
	}
	return strings.Join(out, "+")
}

func c10RandBytes(rng *subRng, n int) []byte {
	b := make([]byte, n)
	for i := 0; i < n; i += 8 {
		var w [8]byte
		binary.LittleEndian.PutUint64(w[:], rng.next())
		copy(b[i:], w[:])
	}
	return b
}

// c10FakeID returns 34 bytes that look like a sha2-256 multihash peer id.
func c10FakeID(rng *subRng) []byte {
	return append([]byte{0x12, 0x20}, c10RandBytes(rng, 32)...)
}

func c10GoodAddr(rng *subRng, long bool) []byte {
	if long {
		name := make([]byte, 40+rng.Intn(160))
		for i := range name {
			name[i] = byte('a' + rng.Intn(26))
		}
		return ma.StringCast(fmt.Sprintf("/dns4/%s.example/tcp/%d", name, 1+rng.Intn(65000))).Bytes()
	}
	return ma.StringCast(fmt.Sprintf("/ip4/%d.%d.%d.%d/tcp/%d", 1+rng.Intn(200), rng.Intn(256), rng.Intn(256), 1+rng.Intn(254), 1+rng.Intn(65000))).Bytes()
}

func c10BadAddr(rng *subRng) []byte {
	switch rng.Intn(5) {
	case 0:
		return []byte{}
	case 1:
		return []byte{0xff, 0xff, 0xff}
	case 2:
		return []byte{0x04, 1, 2} // ip4 cut short
	case 3:
		return []byte{0x06, 0x01} // tcp port cut short
	default:
		return c10RandBytes(rng, 1+rng.Intn(40))
	}
}

// peer-list shapes
const (
	c10PeersNone = iota
	c10PeersHonest
	c10PeersMany
	c10PeersBadAddrs
	c10PeersFat
	c10PeersBadIDs
	c10PeersUnknownConn
	c10PeersMixed
)

// genPeers builds one peer list of the given shape. honest are the peers an
// honest answer would name.
func (w *c10World) genPeers(rng *subRng, shape int, honest []*simnet.Peer, responder peer.ID, info *c10Info) []*pb.Message_Peer {
	var out []*pb.Message_Peer
	add := func(id []byte, addrs ...[]byte) *pb.Message_Peer {
		p := &pb.Message_Peer{Id: id, Addrs: addrs}
		out = append(out, p)
		return p
	}
	few := func() {
		for _, p := range simnet.ToPB(honest) {
			out = append(out, p)
		}
	}
	switch shape {
	case c10PeersNone:
	case c10PeersHonest:
		few()
	case c10PeersMany:
		info.tag("fault_peers_many")
		n := 2*w.K + 1 + rng.Intn(40)
		if w.K == 0 {
			n = 20 + rng.Intn(100)
			if rng.Intn(3) == 0 {
				info.tag("fault_peers_thousands")
				n = 1000 + rng.Intn(3000)
			}
		}
		order := rng.Intn(3) // honest first / honest last / honest in the middle
		if order == 0 {
			few()
		}
		for i := 0; len(out) < n; i++ {
			switch {
			case i%11 == 3:
				add([]byte(w.Self), c10GoodAddr(rng, false)) // the requester itself
			case i%11 == 5 && responder != "":
				add([]byte(responder), c10GoodAddr(rng, false))
			case i%11 == 7 && len(out) > 0:
				d := out[rng.Intn(len(out))] // duplicate of an earlier entry
				add(d.Id, d.Addrs...)
			default:
				add(c10FakeID(rng), c10GoodAddr(rng, false)) // ghost
			}
			if order == 2 && i == n/2 {
				few()
			}
		}
		if order == 1 {
			few()
		}
	case c10PeersBadAddrs:
		info.tag("fault_peers_bad_addrs")
		info.BadAddr = true
		few()
		for i := 0; i < 1+rng.Intn(4); i++ {
			add(c10FakeID(rng))
		}
		for _, p := range out {
			var mixed [][]byte
			for _, a := range p.Addrs {
				if rng.Intn(2) == 0 {
					mixed = append(mixed, c10BadAddr(rng))
				}
				mixed = append(mixed, a)
			}
			mixed = append(mixed, c10BadAddr(rng))
			if rng.Intn(3) == 0 {
				mixed = append(mixed, c10GoodAddr(rng, false))
			}
			p.Addrs = mixed
		}
	case c10PeersFat:
		info.tag("fault_peers_fat")
		info.FatPeer = true
		few()
		if len(out) == 0 || rng.Intn(2) == 0 {
			add(c10FakeID(rng))
		}
		fat := out[rng.Intn(len(out))]
		switch rng.Intn(4) {
		case 0: // many small addresses, ~11 KiB
			for i := 0; i < 1200; i++ {
				fat.Addrs = append(fat.Addrs, c10GoodAddr(rng, false))
			}
		case 1: // fewer long ones, ~12 KiB
			for i := 0; i < 110; i++ {
				fat.Addrs = append(fat.Addrs, c10GoodAddr(rng, true))
			}
		case 2: // far beyond the bound, with undecodable ones in between
			info.BadAddr = true
			for i := 0; i < 4000; i++ {
				if i%5 == 4 {
					fat.Addrs = append(fat.Addrs, c10BadAddr(rng))
				} else {
					fat.Addrs = append(fat.Addrs, c10GoodAddr(rng, false))
				}
			}
		default: // every record of the list just above the bound
			for _, p := range out {
				for i := 0; i < 950; i++ {
					p.Addrs = append(p.Addrs, c10GoodAddr(rng, false))
				}
			}
		}
	case c10PeersBadIDs:
		info.tag("fault_peers_bad_ids")
		few()
		add(nil, c10GoodAddr(rng, false))                     // empty id
		add([]byte{0x00}, c10GoodAddr(rng, false))            // one byte
		add(c10RandBytes(rng, 40), c10GoodAddr(rng, false))   // not a multihash
		add([]byte("not-a-peer-id"), c10GoodAddr(rng, true))  // text
		add(c10RandBytes(rng, 2048), c10GoodAddr(rng, false)) // long
		if w.K == 0 && rng.Intn(2) == 0 {
			// an id that alone exceeds the 8 KiB record bound (see c10CheckAddrInfo)
			add(c10RandBytes(rng, 9000), c10GoodAddr(rng, false), c10GoodAddr(rng, true))
		}
	case c10PeersUnknownConn:
		info.tag("fault_unknown_conn")
		few()
		add(c10FakeID(rng), c10GoodAddr(rng, false))
		vals := []int32{4, 99, 1 << 30, -1, -1 << 31}
		for _, p := range out {
			p.Connection = pb.Message_ConnectionType(vals[rng.Intn(len(vals))])
		}
	case c10PeersMixed:
		var sub c10Info
		for _, sh := range []int{c10PeersBadAddrs, c10PeersBadIDs, c10PeersFat, c10PeersUnknownConn} {
			out = append(out, w.genPeers(rng, sh, honest, responder, &sub)...)
		}
		info.tag("fault_peers_mixed")
		info.BadAddr, info.FatPeer = true, true
	}
	if shape != c10PeersNone && shape != c10PeersHonest && rng.Intn(4) == 0 && len(out) > 0 {
		// unknown fields inside a peer record (a future protocol revision)
		info.tag("fault_unknown_fields")
		var unk []byte
		unk = protowire.AppendTag(unk, 15, protowire.VarintType)
		unk = protowire.AppendVarint(unk, rng.next())
		unk = protowire.AppendTag(unk, 1000, protowire.BytesType)
		unk = protowire.AppendBytes(unk, c10RandBytes(rng, rng.Intn(64)))
		out[rng.Intn(len(out))].ProtoReflect().SetUnknown(unk)
	}
	return out
}

// genMessage draws one well-formed reply to req from the response space.
// mutate == false yields the honest answer.
func (w *c10World) genMessage(rng *subRng, req *pb.Message, responder peer.ID, honest []*simnet.Peer, mutate bool) (*pb.Message, *c10Info) {
	info := &c10Info{}
	typ := req.GetType()
	key := string(req.GetKey())
	m := &pb.Message{Type: typ, Key: append([]byte(nil), req.GetKey()...)}
	pick := func(n int) int {
		if !mutate {
			return 0
		}
		return rng.Intn(n)
	}

	// --- message type
	switch pick(9) {
	case 6:
		info.tag("fault_wrong_type")
		m.Type = pb.Message_PING
		if typ == pb.Message_PING {
			m.Type = pb.Message_FIND_NODE
		}
	case 7, 8:
		info.tag("fault_unknown_type")
		m.Type = pb.Message_MessageType([]int32{6, 99, 1 << 30, -1}[rng.Intn(4)])
	}
	// --- message key
	switch pick(9) {
	case 6:
		info.tag("fault_key_empty")
		m.Key = nil
	case 7:
		info.tag("fault_key_other")
		m.Key = []byte("some-other-key")
	case 8:
		if w.K == 0 {
			info.tag("fault_key_huge")
			m.Key = c10RandBytes(rng, 64<<10)
		}
	}
	// --- record
	good := func() []byte {
		if w.GoodValue != nil {
			return w.GoodValue(key, rng)
		}
		return []byte("value-of-" + key)
	}
	expected := func() *recpb.Record {
		switch typ {
		case pb.Message_PUT_VALUE:
			if r := req.GetRecord(); r != nil {
				return proto.Clone(r).(*recpb.Record)
			}
			return &recpb.Record{Key: req.GetKey()}
		case pb.Message_GET_VALUE:
			return &recpb.Record{Key: req.GetKey(), Value: good(), TimeReceived: "2026-01-01T00:00:00Z"}
		}
		return nil
	}
	otherValue := func() []byte {
		if w.Poison != nil {
			return w.Poison(key)
		}
		return []byte("value-filed-elsewhere")
	}
	switch pick(9) {
	case 0, 1, 2:
		m.Record = expected()
	case 3:
		info.tag("fault_record_absent")
	case 4:
		info.tag("fault_record_other_key")
		m.Record = &recpb.Record{Key: []byte(key + "-other"), Value: otherValue()}
	case 5:
		info.tag("fault_record_empty_key")
		m.Record = &recpb.Record{Value: otherValue()}
	case 6:
		info.tag("fault_record_empty")
		m.Record = &recpb.Record{}
	case 7:
		info.tag("fault_record_other_value")
		m.Record = &recpb.Record{Key: req.GetKey(), Value: []byte("some other value")}
	case 8:
		info.tag("fault_record_no_value")
		m.Record = &recpb.Record{Key: req.GetKey()}
	}
	if typ == pb.Message_PUT_VALUE {
		if w.EchoNil {
			// the dedicated scenarios: a PUT_VALUE echo never carries a record
			m.Record = nil
		} else if m.Record == nil && c10VetoEchoNil {
			// broad scenarios: vetoed (known crash class), see file comment
			m.Record = &recpb.Record{}
		}
	}
	if m.Record == nil {
		info.NoRecord = true
		if typ == pb.Message_PUT_VALUE {
			info.tag("fault_put_echo_without_record")
		}
	} else if string(m.Record.GetKey()) != key {
		info.WrongKey = true
	}
	// --- peer lists
	closerShape, provShape := c10PeersNone, c10PeersNone
	switch typ {
	case pb.Message_FIND_NODE, pb.Message_GET_VALUE:
		closerShape = c10PeersHonest
	case pb.Message_GET_PROVIDERS:
		closerShape, provShape = c10PeersHonest, c10PeersHonest
	}
	if mutate {
		hostileShapes := []int{c10PeersMany, c10PeersMany, c10PeersBadAddrs, c10PeersFat, c10PeersBadIDs, c10PeersUnknownConn, c10PeersMixed, c10PeersNone}
		if rng.Intn(10) >= 3 {
			closerShape = hostileShapes[rng.Intn(len(hostileShapes))]
		}
		if (typ == pb.Message_GET_PROVIDERS || rng.Intn(4) == 0) && rng.Intn(10) >= 4 {
			provShape = hostileShapes[rng.Intn(len(hostileShapes))]
		}
	}
	m.CloserPeers = w.genPeers(rng, closerShape, honest, responder, info)
	var provHonest []*simnet.Peer
	if len(honest) > 0 {
		provHonest = honest[:1+rng.Intn(len(honest))]
	}
	m.ProviderPeers = w.genPeers(rng, provShape, provHonest, responder, info)
	info.NCloser, info.NProvider = len(m.CloserPeers), len(m.ProviderPeers)
	// --- the rest
	if pick(4) == 3 {
		info.tag("fault_cluster_level")
		m.ClusterLevelRaw = int32(rng.next())
	}
	if pick(4) == 3 {
		info.tag("fault_unknown_fields")
		var unk []byte
		unk = protowire.AppendTag(unk, 4, protowire.BytesType) // a retired field number
		unk = protowire.AppendBytes(unk, c10RandBytes(rng, rng.Intn(40)))
		unk = protowire.AppendTag(unk, 77, protowire.Fixed64Type)
		unk = protowire.AppendFixed64(unk, rng.next())
		unk = protowire.AppendTag(unk, 536870911, protowire.VarintType) // highest field number
		unk = protowire.AppendVarint(unk, rng.next())
		m.ProtoReflect().SetUnknown(unk)
	}
	return m, info
}

// wireCopy returns m as the client decodes it from the wire (message level
// scenarios hand the client nothing a remote peer could not have sent).
func c10WireCopy(m *pb.Message) *pb.Message {
	b, err := proto.Marshal(m)
	if err != nil {
		panic(err)
	}
	out := new(pb.Message)
	if err := proto.Unmarshal(b, out); err != nil {
		panic(err)
	}
	return out
}

// ---------------------------------------------------------------------------
// result oracle

// c10CheckAddrInfos checks the "sanitised result" clauses on peer records
// returned to the caller:
//
//	peer-record-oversize   a returned record, re-serialised with nothing but its
//	                       id and addresses, exceeds the property's 8 KiB
//	peer-record-bad-addr   a returned record holds an address that does not
//	                       survive a bytes round trip (is not decodable)
//
// Sub-space note: a remote can send a peer *id* that alone is larger than
// 8 KiB; cutting addresses cannot bring such a record under the bound, and
// the property speaks of cutting address lists. For those records the clause
// checked is that no address at all was retained.
func c10CheckAddrInfos(s *sim.Sim, what string, ais []*peer.AddrInfo) {
	for i, ai := range ais {
		if ai == nil {
			s.Count("probe_nil_entry_returned") // not a clause of the property
			continue
		}
		c10CheckAddrInfo(s, fmt.Sprintf("%s: entry %d", what, i), *ai)
	}
}

func c10RecordSize(ai peer.AddrInfo) (idOnly, full int) {
	rec := &pb.Message_Peer{Id: []byte(ai.ID)}
	idOnly = proto.Size(rec)
	for _, a := range ai.Addrs {
		if a != nil {
			rec.Addrs = append(rec.Addrs, a.Bytes())
		}
	}
	return idOnly, proto.Size(rec)
}

func c10CheckAddrInfo(s *sim.Sim, what string, ai peer.AddrInfo) {
	for j, a := range ai.Addrs {
		if a == nil {
			s.Violate("peer-record-bad-addr", "%s holds a nil address at %d", what, j)
			return
		}
		if _, err := ma.NewMultiaddrBytes(a.Bytes()); err != nil {
			s.Violate("peer-record-bad-addr", "%s holds an undecodable address at %d: %v", what, j, err)
			return
		}
	}
	idOnly, full := c10RecordSize(ai)
	if idOnly > c10MaxPeerRecord {
		if len(ai.Addrs) > 0 {
			s.Violate("peer-record-oversize", "%s: id of %d bytes already exceeds %d and %d addresses were retained on top", what, len(ai.ID), c10MaxPeerRecord, len(ai.Addrs))
		}
		s.Count("probe_oversize_id_seen")
		return
	}
	if full > c10MaxPeerRecord {
		s.Violate("peer-record-oversize", "%s re-serialises (id + %d addresses) to %d bytes, bound is %d", what, len(ai.Addrs), full, c10MaxPeerRecord)
	}
}

// c10SentVsReturned fires the reach probes "peer record trimmed" and
// "undecodable address dropped" by comparing the list the remote sent with the
// list the caller got (only when they pair up one to one).
func c10SentVsReturned(s *sim.Sim, sent []*pb.Message_Peer, got []*peer.AddrInfo) {
	if len(sent) != len(got) {
		return
	}
	for i, sp := range sent {
		if got[i] == nil || string(sp.Id) != string(got[i].ID) {
			return
		}
	}
	trimmed, dropped := false, false
	for i, sp := range sent {
		decodable, bad := 0, 0
		for _, a := range sp.Addrs {
			if _, err := ma.NewMultiaddrBytes(a); err == nil {
				decodable++
			} else {
				bad++
			}
		}
		if len(got[i].Addrs) < decodable {
			trimmed = true
		}
		if bad > 0 && len(got[i].Addrs) <= decodable {
			dropped = true
		}
	}
	if trimmed {
		s.Count("probe_peer_record_trimmed")
	}
	if dropped {
		s.Count("probe_bad_addr_dropped")
	}
}

// c10PanicSite extracts "function file.go:line" of the frame that panicked
// from a recovered stack (the frame following runtime's panic frames).
func c10PanicSite(stack string) string {
	lines := strings.Split(stack, "\n")
	for i := 0; i+2 < len(lines); i++ {
		if !strings.HasPrefix(lines[i], "panic(") {
			continue
		}
		for j := i + 2; j+1 < len(lines); j += 2 {
			fn := lines[j]
			if strings.HasPrefix(fn, "runtime.") || strings.HasPrefix(fn, "panic(") {
				continue
			}
			if k := strings.LastIndex(fn, "("); k > 0 {
				fn = fn[:k]
			}
			if k := strings.LastIndex(fn, "/"); k >= 0 {
				fn = fn[k+1:]
			}
			loc := strings.TrimSpace(lines[j+1])
			if k := strings.Index(loc, " +0x"); k >= 0 {
				loc = loc[:k]
			}
			if k := strings.LastIndex(loc, "/"); k >= 0 {
				loc = loc[k+1:]
			}
			return fn + " " + loc
		}
	}
	return "unknown site"
}

var _ = network.MessageSizeMax
