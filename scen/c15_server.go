//go:build all || c15

package scen

// C15, inbound side: "the WAN DHT never stores addresses learned from DHT
// messages that are not public" also covers messages the node *receives* as a
// server. dual.New in server mode on the fake host; scripted remotes open
// streams (level B) to the WAN handler (/sim/kad/1.0.0) and to the LAN handler
// (/sim/lan/kad/1.0.0) and send ADD_PROVIDER records for themselves carrying
// palette addresses of every class, each followed by a GET_PROVIDERS on the
// same stream (its answer proves that the ADD_PROVIDER was processed: a
// stream's messages are handled in order).
//
// A remote's WAN-sent and LAN-sent address sets are disjoint, so every address
// in the (shared) peerstore can be attributed to the side that carried it.
//
//   wan-store   (same rule id as in c15.go) the peerstore never holds an address
//               labelled non-public that only WAN messages carried.
//   wan-advertise / lan-advertise
//               the node may itself be a provider of a key (inner Provide
//               without broadcast); a real host keeps its own addresses in its
//               peerstore (basic host address manager), and the GET_PROVIDERS
//               answer then carries the node's *own* addresses: the WAN answer
//               must not carry one labelled non-public, the LAN answer none
//               labelled loopback.
//
// What the WAN handler hands out in GET_PROVIDERS answers (handlers.go filters
// provider addresses on the way out as well) is recorded as a probe only: the
// property speaks of the node's own addresses, not of third-party records.

import (
	"context"
	"fmt"
	"sort"
	"strings"
	"time"

	"github.com/ipfs/go-cid"
	dht "github.com/libp2p/go-libp2p-kad-dht"
	"github.com/libp2p/go-libp2p-kad-dht/dual"
	pb "github.com/libp2p/go-libp2p-kad-dht/pb"
	"github.com/libp2p/go-libp2p-kad-dht/records"
	"github.com/libp2p/go-libp2p/core/host"
	"github.com/libp2p/go-libp2p/core/peer"
	"github.com/libp2p/go-libp2p/core/peerstore"
	"github.com/libp2p/go-libp2p/core/protocol"
	ma "github.com/multiformats/go-multiaddr"
	mh "github.com/multiformats/go-multihash"

	"verif/sim"
	"verif/simhost"
	"verif/simnet"
)

func init() {
	sim.Register(&sim.Scenario{Prop: "C15", Name: "dual-server-inbound", Weight: 1, Run: c15RunServer,
		Real: []string{"dual.New option layering in server mode", "handleNewStream/handleNewMessage, handleAddProvider, handleGetProviders of both inner DHTs", "ProviderManager (default in-memory datastore)", "pstoremem peerstore (shared)"},
		Stub: []string{"host.Host/network (simhost)", "streams (level B, simhost.Fabric, scripted remote ends)", "remote peers (scripted ADD_PROVIDER / GET_PROVIDERS senders)"},
		Faults: []string{"probe_inbound_wan_nonpublic_dropped", "probe_inbound_wan_public_stored", "probe_inbound_lan_private_stored", "probe_inbound_stream_reset",
			"probe_wan_serve_filtered", "probe_inbound_same_peer_both_sides", "probe_serve_own_record"},
	})
}

type c15Remote struct {
	p       *simnet.Peer
	said    map[string][]ma.Multiaddr
	saidSet map[string]map[string]bool
	conn    ma.Multiaddr
	busy    map[string]bool // side -> an exchange is open
}

type c15Exchange struct {
	idx     int
	r       *c15Remote
	side    string
	key     []byte
	addrs   []ma.Multiaddr
	a       *simhost.Stream
	parser  frameParser
	started bool
	done    bool
	reset   bool
	resp    *pb.Message
}

func c15RunServer(s *sim.Sim) {
	s.MaxSteps = 600
	useed := uint64(s.Draw("universe", 1<<16))
	u := simnet.NewUniverse(useed, 0)
	pal := newC15Palette(simnet.MakeID(useed^0x5e1a, 999))
	rng := newSubRng(s, "world")
	classes := []string{"pub4", "priv4", "loop4", "pub6", "priv6", "loop6", "ll6", "relaypub", "relaypriv"}
	var selfAddrs []ma.Multiaddr
	mask := s.Draw("self-addrs", 1<<len(classes)) ^ 0b111
	for i, c := range classes {
		if mask&(1<<i) != 0 {
			selfAddrs = append(selfAddrs, pal.mk(c))
		}
	}
	h := simhost.New(s, u.Self.ID, selfAddrs, u.Name)
	// like the basic host's address manager does
	h.Peerstore().AddAddrs(u.Self.ID, selfAddrs, peerstore.PermanentAddrTTL)
	fab := simhost.NewFabric(s)

	builder := func(_ host.Host, protos []protocol.ID) pb.MessageSenderWithDisconnect {
		l := c15W
		if c15IsLan(protos) {
			l = c15L
		}
		return &simnet.Sender{S: s, U: u, Label: l + ":"}
	}
	d, err := dual.New(h,
		dual.DHTOption(dht.Mode(dht.ModeServer), dht.DisableAutoRefresh(), dht.WithCustomMessageSender(builder)),
		dual.WanDHTOption(dht.ProtocolPrefix("/sim")),
		dual.LanDHTOption(dht.ProtocolPrefix("/sim"), dht.ProtocolExtension(dual.LanExtension)),
	)
	if err != nil {
		panic(err)
	}
	s.Quiesce()
	protos := map[string]protocol.ID{c15W: "/sim/kad/1.0.0", c15L: protocol.ID("/sim" + string(dual.LanExtension) + "/kad/1.0.0")}
	for side, p := range protos {
		if h.Handler(p) == nil {
			panic(fmt.Sprintf("c15: no %s stream handler registered for %s (have %v)", side, p, h.HandlerProtocols()))
		}
	}
	for _, x := range []*dht.IpfsDHT{d.WAN, d.LAN} {
		if pm, ok := x.ProviderStore().(*records.ProviderManager); ok {
			records.VerifSetShuffle(pm, func(int, func(i, j int)) {})
		}
	}

	// remotes and their address sets
	wanSets := [][]string{{"pub4", "priv4"}, {"priv4", "loop4"}, {"pub4", "loop4", "ll6", "relaypub"}, {"pub6", "priv6"}, {"relaypriv", "priv4"}, {"pub4"}, {"loop6"}}
	lanSets := [][]string{{"priv4"}, {"priv4", "loop4"}, {"priv6", "pub4"}, {"loop6", "ll6"}}
	var remotes []*c15Remote
	nR := s.Range("n-remotes", 1, 4)
	for i := 0; i < nR; i++ {
		r := &c15Remote{said: map[string][]ma.Multiaddr{}, saidSet: map[string]map[string]bool{}, busy: map[string]bool{}}
		r.p = u.Add(fmt.Sprintf("r%02d", i), simnet.MakeID(useed, i), nil)
		r.said[c15W] = pal.mkAll(wanSets[rng.Intn(len(wanSets))]...)
		r.said[c15L] = pal.mkAll(lanSets[rng.Intn(len(lanSets))]...)
		for side, as := range r.said {
			m := map[string]bool{}
			for _, a := range as {
				m[string(a.Bytes())] = true
			}
			r.saidSet[side] = m
		}
		r.conn = pal.mk("pub4")
		remotes = append(remotes, r)
	}
	var keys [][]byte
	for i := 0; i < 2; i++ {
		sum, err := mh.Sum([]byte(fmt.Sprintf("c15-srv-%d-%d", useed, i)), mh.SHA2_256, -1)
		if err != nil {
			panic(err)
		}
		keys = append(keys, sum)
	}
	// the node itself provides keys[0] on one or both sides (local record only)
	selfProv := map[string]bool{}
	if sp := s.Draw("self-provides", 4); sp > 0 {
		c := cid.NewCidV1(cid.Raw, mh.Multihash(keys[0]))
		var cl opSet
		op := cl.Go(s, "provide-local", func() (any, error) {
			if sp&1 != 0 {
				if err := d.WAN.Provide(context.Background(), c, false); err != nil {
					return nil, err
				}
			}
			if sp&2 != 0 {
				return nil, d.LAN.Provide(context.Background(), c, false)
			}
			return nil, nil
		})
		s.Quiesce()
		if !op.Done || op.Err != nil || op.Panic != "" {
			panic(fmt.Sprintf("c15: local Provide did not complete: done=%v err=%v panic=%s", op.Done, op.Err, firstLine(op.Panic)))
		}
		selfProv[c15W], selfProv[c15L] = sp&1 != 0, sp&2 != 0
	}
	var exs []*c15Exchange
	nE := s.Range("n-exchanges", 1, 6)
	for i := 0; i < nE; i++ {
		e := &c15Exchange{idx: i, r: remotes[s.Draw("remote", nR)], side: []string{c15W, c15L}[s.Draw("side", 2)], key: keys[s.Draw("key", 2)]}
		switch s.Draw("addr-mode", 4) {
		case 0, 1:
			e.addrs = e.r.said[e.side]
		case 2: // a drawn subset
			for _, a := range e.r.said[e.side] {
				if rng.Intn(2) == 0 {
					e.addrs = append(e.addrs, a)
				}
			}
		case 3: // no address at all: the handler refuses the record and resets
		}
		exs = append(exs, e)
	}
	_ = selfProv
	s.Summary["cfg"] = fmt.Sprintf("server remotes=%d exchanges=%d selfprov=%v/%v", nR, nE, selfProv[c15W], selfProv[c15L])

	sentOn := map[peer.ID]map[string]bool{}
	observe := func() {
		for _, r := range remotes {
			for _, a := range c15SortAddrs(h.Peerstore().Addrs(r.p.ID)) {
				k := string(a.Bytes())
				if !r.saidSet[c15W][k] {
					continue
				}
				if l, _ := pal.label(a); l.nonPub {
					s.Violate("wan-store", "peerstore holds %s (%s) for %s; only messages to the WAN DHT carried that address", a, l.class, r.p.Name)
				}
			}
		}
	}
	finish := func(e *c15Exchange) {
		e.done = true
		e.r.busy[e.side] = false
		held := map[string]bool{}
		for _, a := range h.Peerstore().Addrs(e.r.p.ID) {
			held[string(a.Bytes())] = true
		}
		if e.reset {
			s.Count("probe_inbound_stream_reset")
		}
		np := 0
		if e.resp != nil {
			np = len(e.resp.GetProviderPeers())
		}
		s.Tracef("done e%d %s %s reset=%v providers=%d held=%d", e.idx, e.r.p.Name, e.side, e.reset, np, len(held))
		if e.resp == nil {
			return
		}
		if sentOn[e.r.p.ID] == nil {
			sentOn[e.r.p.ID] = map[string]bool{}
		}
		sentOn[e.r.p.ID][e.side] = true
		if len(sentOn[e.r.p.ID]) == 2 {
			s.Count("probe_inbound_same_peer_both_sides")
		}
		for _, a := range e.addrs {
			l, _ := pal.label(a)
			switch {
			case e.side == c15W && l.nonPub && !held[string(a.Bytes())]:
				s.Count("probe_inbound_wan_nonpublic_dropped")
			case e.side == c15W && l.pub && !l.relay && held[string(a.Bytes())]:
				s.Count("probe_inbound_wan_public_stored")
			case e.side == c15L && l.nonPub && !l.loop && held[string(a.Bytes())]:
				s.Count("probe_inbound_lan_private_stored")
			}
		}
		// the node's own addresses in the answer
		for _, m := range e.resp.GetProviderPeers() {
			if peer.ID(m.GetId()) != u.Self.ID {
				continue
			}
			s.Count("probe_serve_own_record")
			for _, a := range c15SortAddrs(c15PeerAddrs(m)) {
				l, _ := pal.label(a)
				if e.side == c15W && l.nonPub {
					s.Violate("wan-advertise", "WAN GET_PROVIDERS answer to %s carries own address %s (%s)", e.r.p.Name, a, l.class)
				}
				if e.side == c15L && l.loop {
					s.Violate("lan-advertise", "LAN GET_PROVIDERS answer to %s carries own loopback address %s", e.r.p.Name, a)
				}
			}
		}
		if e.side == c15W {
			// probe: the WAN answer leaves out non-public addresses the shared
			// peerstore holds for a provider (learned through the LAN handler)
			for _, m := range e.resp.GetProviderPeers() {
				in := map[string]bool{}
				for _, a := range c15PeerAddrs(m) {
					in[string(a.Bytes())] = true
				}
				for _, a := range h.Peerstore().Addrs(peer.ID(m.GetId())) {
					if l, _ := pal.label(a); l.nonPub && !in[string(a.Bytes())] {
						s.Count("probe_wan_serve_filtered")
						break
					}
				}
			}
		}
		s.State("srv %s reset=%v np=%d held=%d", e.side, e.reset, np, len(held))
	}
	pump := func() {
		for _, e := range exs {
			if !e.started || e.done {
				continue
			}
			data, eof, reset := e.a.TakeDelivered()
			for _, f := range e.parser.Feed(data) {
				if m, err := decodeMsg(f); err == nil && e.resp == nil {
					e.resp = m
				}
			}
			switch {
			case e.resp != nil:
				finish(e)
				e.a.SimReset() // the remote hangs up
			case reset || eof || e.a.IsReset():
				e.reset = true
				finish(e)
			}
		}
	}

	idle := 0
	for s.Step() {
		pump()
		observe()
		if s.Failed() {
			break
		}
		all := true
		for _, e := range exs {
			all = all && e.done
		}
		if all {
			break
		}
		var acts []sim.Action
		for _, e := range exs {
			e := e
			if e.started || e.r.busy[e.side] {
				continue
			}
			// exchanges of one (remote, side) go out in order
			first := true
			for _, o := range exs[:e.idx] {
				first = first && !(o.r == e.r && o.side == e.side && !o.started)
			}
			if !first {
				continue
			}
			acts = append(acts, sim.Action{ID: fmt.Sprintf("send:e%d:%s:%s", e.idx, e.r.p.Name, e.side), Do: func() {
				e.started, e.r.busy[e.side] = true, true
				conn := h.Net().SetConnected(e.r.p.ID, true)
				h.Net().SetRemoteAddr(e.r.p.ID, e.r.conn)
				var b *simhost.Stream
				e.a, b = fab.NewPair(fmt.Sprintf("in:%s:%s", e.r.p.Name, e.side), protos[e.side], e.r.p.ID, u.Self.ID, nil, conn)
				e.a.Scripted = true
				go h.Handler(protos[e.side])(b)
				add := pb.NewMessage(pb.Message_ADD_PROVIDER, e.key, 0)
				add.ProviderPeers = pb.RawPeerInfosToPBPeers([]peer.AddrInfo{{ID: e.r.p.ID, Addrs: e.addrs}})
				_, _ = e.a.Write(encodeFrame(add))
				_, _ = e.a.Write(encodeFrame(pb.NewMessage(pb.Message_GET_PROVIDERS, e.key, 0)))
			}})
		}
		acts = append(acts, fab.DeliverActions()...)
		for _, p := range s.Parked() {
			p := p
			acts = append(acts, sim.Action{ID: p.ID, Do: func() {
				if p.Cancelled() {
					s.ReleaseCancelled(p)
					return
				}
				releaseBenign(s, p)
			}})
		}
		if len(acts) == 0 {
			idle++
			if idle > 20 {
				break
			}
			s.Sleep(time.Second)
			continue
		}
		idle = 0
		s.Choose("next", acts)
	}
	if !s.Failed() && s.Steps <= s.MaxSteps {
		var open []string
		for _, e := range exs {
			if !e.done {
				open = append(open, fmt.Sprintf("e%d", e.idx))
			}
		}
		sort.Strings(open)
		if len(open) > 0 {
			s.Violate("no-return", "exchanges %s got neither an answer nor a reset", strings.Join(open, ","))
		}
	} else if s.Steps > s.MaxSteps {
		s.Count("step_budget_exhausted")
	}
	for _, e := range exs {
		if e.a != nil && !e.a.IsReset() {
			e.a.SimReset()
		}
	}
	s.NonTrivial = true
	closeAndCensus(s, func() {
		_ = d.Close()
		_ = h.Close()
	})
	s.Finish()
}
