//go:build all || c03

package scen

// C03 — routing operations always terminate, honour cancellation, never panic.
//
// Harness H1 (one real IpfsDHT, message-level sender). 1–3 client operations
// with distinct keys run concurrently against scripted peers that answer
// FIND_NODE / GET_VALUE / PUT_VALUE / GET_PROVIDERS / ADD_PROVIDER from a small
// peer model kept in this file. Peers are honest, dial-failing, request-failing,
// silent (the simulator fails the call only after a drawn virtual delay, or the
// caller's own time-out fires first), slow (honest reply after a drawn delay);
// an otherwise honest peer may be failing, silent or slow only when asked to
// store (PUT_VALUE / ADD_PROVIDER): it answers the look-up, so it is among the
// peers the operation stores to, and the store phase is where it misbehaves
// ("whatever the pattern of failing, silent or slow peers").
// Contexts are cancelled at a drawn step, a drawn number of steps after the
// lookup's Terminate event (the window between lookup and follow-up is
// recognised from the event stream and from the age of the parked calls), a
// drawn number of steps after the operation's first store request showed up
// (the store / fan-out phase of PutValue, Provide and the bulk operations;
// recognisable from the requests alone, so for every client), or by a drawn
// deadline ("every cancellation instant").
//
// Oracle rules (rule id -> clause of the property):
//
//	no-return         an operation has not returned although faults stopped, the
//	                  drain phase answered every parked call and 5 min of
//	                  virtual time passed with nothing left to answer
//	chan-not-closed   same, for the result channel of SearchValue /
//	                  FindProvidersAsync (API call returned, channel still open)
//	cancel-not-prompt "returns promptly after its context is cancelled, whatever
//	                  the pattern of failing, silent or slow peers": context done,
//	                  every parked call of the operation whose context is done
//	                  has been let observe that, 1 s of virtual time later the
//	                  operation still has not returned. Calls of the operation
//	                  that are parked under a context which outlived the caller's
//	                  do not postpone the verdict: to the system they are peers
//	                  that have not answered yet, and the return must not depend
//	                  on them (owedTo). The rule is applied at every quiescent
//	                  point after the context ended, in whichever phase that
//	                  was (search, wait for stragglers, follow-up, store /
//	                  fan-out), for all three clients; the probes
//	                  probe_prompt_judged_<phase>, probe_<client>_cancel_<phase>
//	                  and probe_<client>_ctx_done_in_store_phase show where the
//	                  judged cancellations landed.
//	optprovide-hang   the two rules above when the caller sits in
//	                  (*optimisticState).waitForRPCs and not one ADD_PROVIDER
//	                  RPC was ever issued for the key (own id so that this
//	                  specific call site can be listed as a finding without
//	                  hiding other hangs)
//	panic             a panic on the caller's goroutine (recovered by opSet.Go)
//	crash             (driver) a panic on a goroutine owned by the system
//	background-lingers  every operation has returned, every parked call was
//	                  answered, 5 more minutes of virtual time passed with
//	                  nothing left to answer, the callers' contexts are still
//	                  live - and the instance runs goroutines it did not run
//	                  right after construction: work left in the background did
//	                  not end by itself within the operation's own time-outs
//	                  (census by creating function, compared with a census
//	                  taken before the first operation)
//	quorum-handover-stuck  the two census rules (above, below) for one
//	                  pattern with an id of its own: a value search of the
//	                  standard client with a quorum has returned, its caller's
//	                  context is live, and what lingers is that search's lookup
//	                  with a per-peer worker inside the record hand-over (see
//	                  lingerRule; found on the original snapshot, repaired in
//	                  /repo, replays findings/C03-quorum-handover-stuck*.json)
//	close-hang/leak   (closeAndCensus) background work ends at Close. In the
//	                  accelerated/dual scenarios and in value-quorum-racy the
//	                  contexts of operations that were drawn "never cancelled"
//	                  stay live through Close (a caller using
//	                  context.Background()).
//
// Dual client: half of the callers have subscribed to query events
// (routing.RegisterForQueryEvents; c03op.qev, c03_clients.go) - no new rule, the
// rules above judge what the operation does on top of the caller's subscription.
//
// Scenarios: ops-faulty (any operation mix, faults, cancellation), ops-clean
// (no faults, no cancellation), optimistic-provide (EnableOptimisticProvide,
// estimator fed by real warm-up lookups, or deliberately left unfed),
// cancel-after-search (cancellation 0-2 steps after the Terminate event: the
// window before the follow-up, the follow-up itself, the put phase; late
// replies racing the cancellation); value-quorum-racy (Racy: value searches
// with quorum 1..4 and records on many peers, so that the quorum is reached
// during the search, between search and follow-up, during the follow-up; late
// replies of every kind); fullrt-ops / dual-ops and their -racy variants
// (c03_clients.go); lagging-subscriber (c03_events.go: the callers'
// lookup-event subscribers, registered on a context that outlives the
// operation's, read slowly or stop reading, the event buffer is small -
// cancel-not-prompt holds however far behind the subscriber is).
//
// Kept out of the schedule space of the ordinary scenarios because the outcome
// is a coin of the Go runtime inside the system (select with two ready cases /
// unsynchronised goroutines), which would make runs unreplayable: value
// searches of the standard client with a quorum (stop signal raised by one
// goroutine, polled by another); cancelling a SearchValue whose consumer is not
// receiving; replies carrying a record / providers delivered to a call whose
// context is already done while somebody could receive them; the Terminate
// event of a cancelled lookup; a SearchValue whose consumer is not reading and
// for which more than one per-peer worker sits on a received record (the value
// loop swallows records that are not better without blocking, so one receive of
// the consumer lets several workers finish in the same instant and the order
// of their reports to the lookup loop - which decides whether one more peer is
// asked before the lookup ends - is the Go scheduler's: c03op.pipe). All of
// these are generated by the scenarios registered with Racy: true, whose
// oracle (liveness, panic, leak) holds whichever way those coins fall.
//
// Liveness is demanded only after faults stop; an operation in flight is never
// judged. No implementation constant is mirrored: the estimator warm-up runs
// lookups until the public NetworkSize() reports an estimate.

import (
	"context"
	"fmt"
	"runtime"
	"sort"
	"strings"
	"sync/atomic"
	"time"

	"github.com/ipfs/go-cid"
	dht "github.com/libp2p/go-libp2p-kad-dht"
	pb "github.com/libp2p/go-libp2p-kad-dht/pb"
	"github.com/libp2p/go-libp2p-kad-dht/records"
	record "github.com/libp2p/go-libp2p-record"
	recpb "github.com/libp2p/go-libp2p-record/pb"
	"github.com/libp2p/go-libp2p/core/peer"
	"github.com/libp2p/go-libp2p/core/routing"
	mh "github.com/multiformats/go-multihash"

	"verif/sim"
	"verif/simhost"
	"verif/simnet"
)

func init() {
	common := func(sc *sim.Scenario) *sim.Scenario {
		sc.Real = []string{"IpfsDHT.GetClosestPeers/FindPeer/GetValue/SearchValue/FindProviders/FindProvidersAsync/PutValue/Provide (classic and optimistic)", "query.go state machine incl. follow-up phase", "lookup_optim.go (optimistic provide, waitForRPCs)", "netsize estimator (fed by real warm-up lookups)", "qpeerset", "lookup events", "kbucket routing table", "records.ValueStore / ProviderManager on the default in-memory datastore", "ProtocolMessenger"}
		sc.Stub = []string{"host.Host/network (simhost)", "pb.MessageSender (level A, simnet.Sender)", "remote peers (scripted value/provider/closer-peer model: honest, dial-fail, request-fail, silent, slow)", "validator (harness rank validator)"}
		sc.Faults = []string{
			"fault_dial_fail", "fault_dial_timeout", "fault_rpc_error", "fault_silent_timeout", "fault_slow_reply", "fault_cancel", "fault_deadline", "time_advance", "cancel_observed",
			"probe_cancel_mid_search", "probe_cancel_between_lookup_and_followup", "probe_cancel_during_followup", "probe_cancel_during_put_phase",
			"probe_returned_after_cancel", "probe_chan_closed_after_cancel", "probe_prompt_checked", "probe_deadline_expired_in_flight",
			"probe_all_peers_failing", "probe_returned_all_failing", "probe_late_reply_after_cancel", "probe_followup_ran",
			"probe_term_completed", "probe_term_starvation", "probe_term_stopped",
			"probe_lazy_consumer", "probe_local_value", "probe_local_providers", "probe_drain_finished_op", "probe_background_left_for_close",
			"probe_op_GetClosestPeers", "probe_op_FindPeer", "probe_op_GetValue", "probe_op_SearchValue", "probe_op_FindProviders", "probe_op_FindProvidersAsync", "probe_op_PutValue", "probe_op_Provide",
			// store-phase-only peer faults; context ended in the store phase; the
			// prompt-return rule judged through to the return, by phase
			"fault_store_phase_only", "probe_deadline_mid_search", "probe_deadline_during_put_phase",
			"probe_std_ctx_done_in_store_phase", "probe_ctx_done_in_store_phase_PutValue", "probe_ctx_done_in_store_phase_Provide", "probe_ctx_done_store_phase_silent_or_slow_peer",
			"probe_prompt_judged_mid_search", "probe_prompt_judged_between_lookup_and_followup", "probe_prompt_judged_during_followup", "probe_prompt_judged_during_put_phase",
		}
		return sc
	}
	sim.Register(common(&sim.Scenario{Prop: "C03", Name: "ops-faulty", Weight: 4, Run: func(s *sim.Sim) {
		runC03(s, c03cfg{Faulty: true})
	}}))
	sim.Register(common(&sim.Scenario{Prop: "C03", Name: "ops-clean", Weight: 1, Run: func(s *sim.Sim) {
		runC03(s, c03cfg{})
	}}))
	opt := common(&sim.Scenario{Prop: "C03", Name: "optimistic-provide", Weight: 3, Run: func(s *sim.Sim) {
		runC03(s, c03cfg{Faulty: true, Optimistic: true})
	}})
	opt.Faults = append(opt.Faults, "probe_estimator_fed", "probe_optimistic_path_taken", "probe_optimistic_returned_early", "probe_provide_zero_rpcs", "probe_optprov_fallback_classic")
	sim.Register(opt)
	sim.Register(common(&sim.Scenario{Prop: "C03", Name: "cancel-after-search", Weight: 2, Run: func(s *sim.Sim) {
		runC03(s, c03cfg{FollowUp: true})
	}}))
	// Value searches with a quorum: how the quorum-driven stop is noticed is a
	// coin inside the system (see the header), so the runs are not replayable
	// bit for bit; every rule of this file holds whichever way the coins fall.
	vq := common(&sim.Scenario{Prop: "C03", Name: "value-quorum-racy", Weight: 2, Racy: true, Run: func(s *sim.Sim) {
		runC03(s, c03cfg{Faulty: true, Quorum: true, Racy: true,
			Kinds: []int{c03GetValue, c03SearchValue, c03GetValue, c03SearchValue, c03GetValue, c03SearchValue, c03FindProvidersAsync, c03PutValue}})
	}})
	vq.Faults = []string{"fault_dial_fail", "fault_rpc_error", "fault_silent_timeout", "fault_slow_reply", "fault_cancel", "fault_deadline", "time_advance", "cancel_observed",
		"probe_quorum_search", "probe_quorum_reached_before_termination", "probe_quorum_followup_aborted", "probe_quorum_not_reached",
		"probe_late_reply_after_cancel", "probe_late_record_after_abort", "probe_followup_ran", "probe_never_cancelled_ctx",
		"probe_background_ended_by_itself", "probe_op_GetValue", "probe_op_SearchValue"}
	sim.Register(vq)
}

// ---------------------------------------------------------------------------
// configuration, peer model, operations

type c03cfg struct {
	Faulty     bool
	Optimistic bool
	FollowUp   bool // focus on cancellation after the search ended (follow-up / put phase, late replies)
	Quorum     bool // value searches with a quorum 1..4 and records on most peers (standard client: Racy only)
	// Racy: the scenario is registered with Racy: true; the restrictions that
	// keep coin flips of the system out of the schedule space are lifted (late
	// replies of every kind, unsafe cancellation instants, lazy consumers
	// everywhere, no limit on workers sitting on a record).
	Racy        bool
	BigFollowUp bool   // quorum scenario: large K, small alpha/beta, quorum 1..2
	LateRecords bool   // a cancelled GET_VALUE request to an honest holder of the record is always answered late, never lets the cancellation win
	Client      string // "" the standard client on H1; "fullrt", "dual": c03_clients.go
	// Lag: the callers' lookup-event subscribers fall behind (c03_events.go):
	// small event buffers, events read only when the scheduler says so, or not
	// at all after a drawn number of events
	Lag   bool
	Kinds []int // operation kinds to draw from (nil: the eight routing operations)

	N, K, Alpha, Beta int
	FaultLevel        int // 0 none, 1 light, 2 heavy, 3 every peer fails
	NOps              int
	PoolSize          int
}

const (
	c03GetClosest = iota
	c03FindPeer
	c03GetValue
	c03SearchValue
	c03FindProviders
	c03FindProvidersAsync
	c03PutValue
	c03Provide
	c03nKinds
)

// bulk operations of the accelerated client (never drawn for the others)
const (
	c03ProvideMany = c03nKinds + iota
	c03PutMany
)

var c03KindName = [...]string{"GetClosestPeers", "FindPeer", "GetValue", "SearchValue", "FindProviders", "FindProvidersAsync", "PutValue", "Provide", "ProvideMany", "PutMany"}

const (
	pmHonest = iota
	pmDialFail
	pmReqErr
	pmSilent      // the request is never answered; the sender gives up after delay
	pmSlow        // honest reply, but only after delay
	pmDialTimeout // the dial fails, but only after delay
)

var (
	// straddle the time-outs the code documents (10 s, 30 s, 1 min)
	c03Delays = []time.Duration{2 * time.Second, 11 * time.Second, 31 * time.Second, 61 * time.Second, 200 * time.Second}
	c03Ticks  = []time.Duration{50 * time.Millisecond, 500 * time.Millisecond, 2 * time.Second, 9 * time.Second, 12 * time.Second, 31 * time.Second, 65 * time.Second}
	// deadlines around the budgeting thresholds of the classic provide
	c03Deadlines = []time.Duration{3 * time.Second, 8 * time.Second, 40 * time.Second, 3 * time.Minute}

	errC03Timeout    = fmt.Errorf("sim: peer silent, request timed out")
	errC03NotStarted = fmt.Errorf("sim: operation never started")
)

const (
	c03Bound      = 5 * time.Minute // "bounded time" after faults stop
	c03PromptSlop = time.Second     // "promptly" after cancellation
)

type c03peer struct {
	p     *simnet.Peer
	mode  int
	delay time.Duration
	// storeMode / storeDelay: a peer that is honest towards every look-up
	// request (so it ends up in lookup results) but fails, stays silent or is
	// slow when asked to store (PUT_VALUE, ADD_PROVIDER): pmHonest (none),
	// pmReqErr, pmSilent or pmSlow. Only drawn for peers whose mode is pmHonest.
	storeMode  int
	storeDelay time.Duration
	values     map[string][]byte
	provs      map[string][]*simnet.Peer
}

func c03IsStore(t pb.Message_MessageType) bool {
	return t == pb.Message_PUT_VALUE || t == pb.Message_ADD_PROVIDER
}

// modeOf: the behaviour of x towards request r - its general mode, or, for an
// otherwise honest peer, its store-phase mode when r asks it to store.
func (x *c03peer) modeOf(r *simnet.RPC) (int, time.Duration) {
	if x.mode == pmHonest && x.storeMode != pmHonest && c03IsStore(r.Req.GetType()) {
		return x.storeMode, x.storeDelay
	}
	return x.mode, x.delay
}

// drawStoreFault gives an honest peer a store-phase-only fault with a
// probability that follows the fault level (none at level 0; at level 3 no peer
// is honest in the first place).
func (w *c03world) drawStoreFault(pm *c03peer, rng *subRng) {
	pct := []int{0, 20, 45, 0}[w.cfg.FaultLevel]
	if pm.mode != pmHonest || pct == 0 {
		return
	}
	if rng.Intn(100) < pct {
		pm.storeMode = []int{pmSilent, pmSlow, pmReqErr}[rng.Intn(3)]
		pm.storeDelay = c03Delays[rng.Intn(len(c03Delays))]
	}
}

type c03op struct {
	idx  int
	tag  string
	kind int
	// parameters
	key     string  // the key as the API takes it (value / closest-peers operations)
	wireKey string  // the key as it appears in the RPCs of this operation
	target  peer.ID // FindPeer
	cid     cid.Cid // provider operations
	value   []byte  // PutValue
	quorum  int     // GetValue / SearchValue
	count   int     // FindProvidersAsync
	lazy    bool    // channel consumer reads only when the scheduler says so
	lookupT pb.Message_MessageType
	// bulk operations: several keys under one call
	bulkKeys []string // wire keys
	bulkVals [][]byte // PutMany
	bulkMhs  []mh.Multihash

	// neverCancel: the caller's context stays live for good (a caller using
	// context.Background()): it is cancelled neither during the run nor before
	// Close, unless the operation is still in flight when the run is torn down.
	neverCancel bool
	localVal    bool // a record for the key is in the local store
	followAbort bool // probe: the follow-up phase of this quorum search was aborted
	// pipe: upper bound on the records handed to the system for this (lazily
	// consumed) SearchValue that the consumer has not received yet; seenRecv is
	// the consumer's count at the last look. See c03world.recordRoom.
	pipe, seenRecv int

	cancelMode  int // 0 none, 1 at step, 2 after Terminate, 3 deadline, 4 after the first store request
	cancelAfter int
	deadline    time.Duration

	base     context.Context
	ctx      context.Context
	cancel   context.CancelFunc
	evCancel context.CancelFunc
	evCh     <-chan *dht.LookupEvent

	// qev: the caller listens to query events (routing.RegisterForQueryEvents on
	// a context of its own that outlives the operation's, read eagerly by a
	// harness goroutine): see spawn. Dual client only (c03_clients.go).
	qev       bool
	qevCancel context.CancelFunc
	qevRead   atomic.Int32

	// lagging lookup-event subscriber (c03_events.go); lag == 0: the subscriber
	// keeps up (pump)
	lag        int  // c03LagSlow, c03LagStall
	evBuf      int  // capacity of the subscription's buffer (public knob LookupEventBufferSize)
	evBurst    int  // slow reader: events taken per scheduled read
	stallAfter int  // stalling reader: events taken before it stops reading
	evTaken    int  // events the subscriber took while the operation's context was live
	evBehind   bool // the subscriber has left events unread at a quiescent point
	lastFull   bool // the buffer was full at the last quiescent point at which the operation's context was live
	fullAtEnd  bool // ... and that was the last one before the context ended

	api         *Op
	gid         string
	apiReturned atomic.Bool // channel operations: the API call itself returned
	receiving   atomic.Bool // the consumer is blocked receiving on the result channel
	received    atomic.Int32

	started     bool
	startStep   int
	cancelled   bool // context done (explicit cancel or deadline)
	cancelStep  int
	cancelPhase string
	termStep    int // step at which the Terminate event of the (un-cancelled) lookup was seen
	storeStep   int // step at which the first store request (PUT_VALUE / ADD_PROVIDER) of the operation was seen parked
	termReason  string
	optimistic  bool // an ADD_PROVIDER under the DHT's own context was seen: optimistic path
	finished    bool
	abandoned   bool // reported as stuck; no further judgement
	inDrain     bool
}

func (op *c03op) name() string { return c03KindName[op.kind] }

// storeKind: operations that end with a store / fan-out phase the caller waits for.
func (op *c03op) storeKind() bool {
	return op.kind == c03PutValue || op.kind == c03Provide || op.kind == c03ProvideMany || op.kind == c03PutMany
}

// hasEvents: can the phases of op's lookup be told from lookup events? The
// standard client: yes. The accelerated client runs no lookup. The dual client
// delegates PutValue and Provide to exactly one of its two instances (one
// lookup, nobody but the caller cancels it), so the events are as usable as
// the standard client's; its other operations run two lookups at once and
// cancel one when the other has delivered, and the Terminate event of a
// cancelled lookup is a coin (see pump).
func (w *c03world) hasEvents(op *c03op) bool {
	switch w.cfg.Client {
	case "":
		return true
	case "dual":
		return op.kind == c03PutValue || op.kind == c03Provide
	}
	return false
}

// c03api is the client under test: the routing operations it offers (nil: not
// offered by this client).
type c03api struct {
	GetClosestPeers    func(ctx context.Context, key string) ([]peer.ID, error)
	FindPeer           func(ctx context.Context, id peer.ID) (peer.AddrInfo, error)
	GetValue           func(ctx context.Context, key string, opts ...routing.Option) ([]byte, error)
	SearchValue        func(ctx context.Context, key string, opts ...routing.Option) (<-chan []byte, error)
	FindProviders      func(ctx context.Context, c cid.Cid) ([]peer.AddrInfo, error)
	FindProvidersAsync func(ctx context.Context, c cid.Cid, count int) <-chan peer.AddrInfo
	PutValue           func(ctx context.Context, key string, val []byte, opts ...routing.Option) error
	Provide            func(ctx context.Context, c cid.Cid, announce bool) error
	ProvideMany        func(ctx context.Context, keys []mh.Multihash) error
	PutMany            func(ctx context.Context, keys []string, vals [][]byte) error
}

type c03world struct {
	s *sim.Sim
	// h: the standard client on H1; for the other clients only S, U, Host, K and
	// Beh are set (peer model, closer-peer replies)
	h        *H1
	api      c03api
	snds     []*simnet.Sender
	closeSUT func()
	baseline map[string]int // goroutines of the system right before the first operation, by creating function
	// bulkSingleKey: bulk operations get one key (accelerated client, ordinary
	// scenario, table larger than 2K: see c03_clients.go)
	bulkSingleKey bool
	cfg           c03cfg
	peers         map[peer.ID]*c03peer
	ops           []*c03op
	byKey         map[string]*c03op
	byTag         map[string]*c03op
	seen          map[string]time.Duration // park id -> virtual time at which the scheduler first saw it
	warm          bool                     // warm-up: every peer honest and immediate

	faultStop       int
	drainBackground bool
	fed             bool
}

func c03Cid(name string) cid.Cid {
	h, err := mh.Sum([]byte(name), mh.SHA2_256, -1)
	if err != nil {
		panic(err)
	}
	return cid.NewCidV1(cid.Raw, h)
}

func c03Goid() string {
	var buf [64]byte
	n := runtime.Stack(buf[:], false)
	f := strings.Fields(string(buf[:n]))
	if len(f) >= 2 {
		return f[1]
	}
	return ""
}

// c03StackOf returns the stack of goroutine gid ("" if it no longer exists).
func c03StackOf(gid string) string {
	buf := make([]byte, 1<<20)
	for {
		n := runtime.Stack(buf, true)
		if n < len(buf) {
			buf = buf[:n]
			break
		}
		buf = make([]byte, 2*len(buf))
	}
	for _, g := range strings.Split(string(buf), "\n\n") {
		if strings.HasPrefix(g, "goroutine "+gid+" ") {
			return g
		}
	}
	return ""
}

// c03Site names the innermost repository frame of a stack: "func (file.go:line)".
func c03Site(stack string) string {
	lines := strings.Split(stack, "\n")
	for i, l := range lines {
		if strings.HasPrefix(l, "\t") || !strings.Contains(l, "go-libp2p-kad-dht") {
			continue
		}
		fn := l
		if k := strings.LastIndex(fn, "("); k > 0 {
			fn = fn[:k]
		}
		if k := strings.LastIndex(fn, "/"); k >= 0 {
			fn = fn[k+1:]
		}
		loc := ""
		if i+1 < len(lines) {
			loc = strings.TrimSpace(lines[i+1])
			if k := strings.Index(loc, " +0x"); k > 0 {
				loc = loc[:k]
			}
			if k := strings.LastIndex(loc, "/"); k >= 0 {
				loc = loc[k+1:]
			}
		}
		if k := strings.Index(loc, ":"); k > 0 {
			loc = loc[:k] // line numbers are those of the instrumented copy: omit
		}
		return fn + " (" + loc + ")"
	}
	return "(no repository frame)"
}

// ---------------------------------------------------------------------------

func runC03(s *sim.Sim, c c03cfg) {
	s.MaxSteps = 700
	dht.LookupEventBufferSize = 256 // public knob: the SUT never blocks on the event channel between two pumps

	switch s.Draw("size-class", 3) {
	case 0:
		c.N = s.Range("n", 1, 6)
	case 1:
		c.N = s.Range("n", 4, 14)
	default:
		c.N = s.Range("n", 10, 32)
	}
	c.K = s.Range("k", 1, 8)
	c.Alpha = s.Range("alpha", 1, 5)
	c.Beta = s.Range("beta", 1, c.K+1)
	c.NOps = s.Range("ops", 1, 3)
	if c.Faulty {
		c.FaultLevel = s.Draw("fault-level", 4)
	}
	if c.FollowUp {
		// many of the K nearest still unqueried when the search ends: small beta, larger K
		c.K = s.Range("fk", 3, 8)
		c.Beta = s.Range("fbeta", 1, 2)
		c.Alpha = s.Range("falpha", 1, 3)
		if c.N < c.K+2 {
			c.N = c.K + 2
		}
		c.FaultLevel = s.Draw("ffault-level", 2)
	}
	if c.Quorum {
		// as above: a follow-up phase with several peers, and records on most
		// peers, so that the quorum is reached at different phases
		// (two classes: a long follow-up - most of a large K still unqueried when
		// the search ends, low quorum - and anything)
		if c.BigFollowUp = s.Chance("big-followup", 2, 3); c.BigFollowUp {
			c.K = s.Range("qk", 8, 20)
			c.Beta = s.Range("qbeta", 1, 2)
			c.Alpha = s.Range("qalpha", 1, 2)
		} else {
			c.K = s.Range("qk", 3, 10)
			c.Beta = s.Range("qbeta", 1, 3)
			c.Alpha = s.Range("qalpha", 1, 3)
		}
		if c.N < c.K+2 {
			c.N = c.K + 2
		}
		c.FaultLevel = s.Draw("qfault-level", 3)
		// in half of the runs every reply carrying a record that races the
		// cancellation of its request wins the race
		c.LateRecords = s.Chance("late-records", 1, 2)
	}
	if c.Optimistic {
		if c.K > 6 {
			c.K = 6
		}
		if c.N < c.K+1 {
			c.N = c.K + 1 // the estimator only accepts lookups that return exactly K peers
		}
		c.PoolSize = []int{60, 1, 2, 4}[s.Draw("pool", 4)]
	}

	u := simnet.NewUniverse(uint64(s.Draw("universe", 1<<16)), c.N)
	rng := newSubRng(s, "world")
	opts := []dht.Option{dht.Validator(record.NamespacedValidator{"v": rankValidator{}})}
	if c.Optimistic {
		opts = append(opts, dht.EnableOptimisticProvide(), dht.OptimisticProvideJobsPoolSize(c.PoolSize))
	}
	h, err := newH1(s, u, c.K, c.Alpha, c.Beta, opts...)
	if err != nil {
		panic(err)
	}
	// the two provider-order shuffles (remote replies, local store) are the
	// run's, not math/rand's
	shuf := newSubRng(s, "shuffle")
	det := func(n int, swap func(i, j int)) {
		for i := n - 1; i > 0; i-- {
			swap(i, shuf.Intn(i+1))
		}
	}
	dht.VerifSetShuffle(h.DHT, det)
	if pm, ok := h.DHT.ProviderStore().(*records.ProviderManager); ok {
		records.VerifSetShuffle(pm, det)
	}
	w := &c03world{s: s, h: h, cfg: c, peers: map[peer.ID]*c03peer{}, byKey: map[string]*c03op{}, byTag: map[string]*c03op{}, seen: map[string]time.Duration{}}
	d := h.DHT
	w.api = c03api{GetClosestPeers: d.GetClosestPeers, FindPeer: d.FindPeer, GetValue: d.GetValue, SearchValue: d.SearchValue,
		FindProviders: d.FindProviders, FindProvidersAsync: d.FindProvidersAsync, PutValue: d.PutValue, Provide: d.Provide}
	w.snds = []*simnet.Sender{h.Snd}
	w.closeSUT = func() {
		_ = h.DHT.Close()
		_ = h.Host.Close()
	}
	real := u.Peers[:c.N]

	// knowledge graph and behaviours
	density := []int{8, 3, 1}[s.Draw("density", 3)] // knows each other peer with p = density/8
	pct := []int{0, 15, 45, 100}[c.FaultLevel]
	for _, p := range real {
		b := &Behaviour{}
		for _, q := range real {
			if q != p && rng.Intn(8) < density {
				b.Knows = append(b.Knows, q)
			}
		}
		h.Beh[p.ID] = b
		pm := &c03peer{p: p, values: map[string][]byte{}, provs: map[string][]*simnet.Peer{}}
		if rng.Intn(100) < pct {
			if c.FaultLevel == 3 {
				pm.mode = []int{pmDialFail, pmReqErr, pmSilent, pmDialTimeout}[rng.Intn(4)]
			} else {
				pm.mode = 1 + rng.Intn(5)
			}
			pm.delay = c03Delays[rng.Intn(len(c03Delays))]
		}
		w.drawStoreFault(pm, rng)
		w.peers[p.ID] = pm
	}
	if c.FaultLevel == 3 {
		s.Count("probe_all_peers_failing")
	}

	// operations (parameters only; the client goroutines are created after the warm-up)
	w.faultStop = 40 * s.Draw("fault-stop", 6) // 0: faults last until the step budget ends
	w.drainBackground = !s.Chance("leave-background-for-close", 1, 2)
	usedTags := map[string]bool{}
	for i := 0; i < c.NOps; i++ {
		w.ops = append(w.ops, w.genOp(i, rng, usedTags))
	}

	// local records that make the early-return paths of the searches reachable
	// (stored through the public API while the routing table is still empty)
	for _, op := range w.ops {
		switch op.kind {
		case c03GetValue, c03SearchValue:
			if rng.Intn(3) == 0 {
				_ = h.DHT.PutValue(context.Background(), op.key, rankValue(rng.Intn(3), time.Time{}, op.key)) // fails after the local put: no peers yet
				op.localVal = true
				s.Count("probe_local_value")
			}
		case c03FindProviders, c03FindProvidersAsync:
			if rng.Intn(3) == 0 {
				n := 1 + rng.Intn(3)
				for j := 0; j < n && j < len(real); j++ {
					_ = h.DHT.ProviderStore().AddProvider(context.Background(), op.cid.Hash(), real[(i0(op)+j)%len(real)].AddrInfo())
				}
				s.Count("probe_local_providers")
			}
		}
	}
	s.Quiesce()

	// routing table: a drawn non-empty subset
	var seeds []*simnet.Peer
	frac := 1 + s.Draw("seed-frac", 4)
	for _, p := range real {
		if rng.Intn(4) < frac {
			seeds = append(seeds, p)
		}
	}
	if len(seeds) == 0 {
		seeds = []*simnet.Peer{real[rng.Intn(len(real))]}
	}
	if c.Optimistic {
		// feed the network-size estimator honestly: completed lookups over the
		// full, healthy network; then fall back to the drawn world
		h.Seed(real)
		if !s.Chance("skip-warmup", 1, 8) { // else the estimator stays without data: Provide must fall back to the classic path
			w.fed = w.warmup()
		}
		if s.Failed() {
			h.closeAndCensus()
			s.Finish()
			return
		}
		for _, p := range real {
			h.Host.Net().SetConnected(p.ID, false)
		}
		keep := map[peer.ID]bool{}
		for _, p := range seeds {
			keep[p.ID] = true
		}
		for _, p := range h.DHT.RoutingTable().ListPeers() {
			if !keep[p] {
				h.DHT.RoutingTable().RemovePeer(p)
			}
		}
		s.Quiesce()
		if w.fed {
			s.Count("probe_estimator_fed")
		}
	} else {
		h.Seed(seeds)
	}

	var kinds []string
	for _, op := range w.ops {
		kinds = append(kinds, fmt.Sprintf("%s/c%d", op.name(), op.cancelMode))
		if op.lag != 0 {
			kinds[len(kinds)-1] += fmt.Sprintf("/lag%d:buf%d:burst%d:stall%d", op.lag, op.evBuf, op.evBurst, op.stallAfter)
		}
	}
	s.Summary["cfg"] = fmt.Sprintf("N=%d K=%d alpha=%d beta=%d table=%d faults=%d optimistic=%v fed=%v pool=%d ops=%s faultStop=%d",
		c.N, c.K, c.Alpha, c.Beta, h.DHT.RoutingTable().Size(), c.FaultLevel, c.Optimistic, w.fed, c.PoolSize, strings.Join(kinds, ","), w.faultStop)
	s.Tracef("world N=%d K=%d a=%d b=%d table=%d fl=%d fed=%v ops=%s", c.N, c.K, c.Alpha, c.Beta, h.DHT.RoutingTable().Size(), c.FaultLevel, w.fed, strings.Join(kinds, ","))

	w.play()
	s.Finish()
}

// play runs the generated operations against the client that was set up:
// main phase with faults, drain, verdicts, teardown.
func (w *c03world) play() {
	s := w.s
	for _, op := range w.ops {
		w.spawn(op)
	}
	s.Quiesce()
	// the clients are parked before their calls: what runs now is the instance's
	// own (plus the lookup-event subscriptions spawn made)
	w.baseline = c03Census()

	w.mainPhase()
	if !s.Failed() {
		w.drain()
	}
	if !s.Failed() {
		w.judge()
	}
	if !s.Failed() {
		w.backgroundCensus()
	}
	w.teardown()
}

// c03Goroutines returns the stacks of the goroutines of the system under test:
// everything in the caller's own bubble that the harness did not create.
// (Goroutines that an earlier run of this process left behind - a recorded
// known finding of the "never ends" kind does that - belong to another bubble.)
func c03Goroutines() []string {
	buf := make([]byte, 1<<20)
	for {
		n := runtime.Stack(buf, true)
		if n < len(buf) {
			buf = buf[:n]
			break
		}
		buf = make([]byte, 2*len(buf))
	}
	gs := strings.Split(string(buf), "\n\n")
	hdr, _, _ := strings.Cut(gs[0], "\n")
	k := strings.LastIndex(hdr, ", synctest bubble ")
	if k < 0 {
		return nil
	}
	mine := hdr[k:] // ", synctest bubble <id>]:"
	var out []string
next:
	for _, g := range gs[1:] {
		hdr, _, _ := strings.Cut(g, "\n")
		if !strings.HasSuffix(hdr, mine) {
			continue
		}
		c := sim.CreatorOf(g)
		for _, pre := range harnessPrefixes {
			if strings.HasPrefix(c, pre) {
				continue next
			}
		}
		out = append(out, g)
	}
	return out
}

// c03Census counts the goroutines of the system under test by creating function.
func c03Census() map[string]int {
	m := map[string]int{}
	for _, g := range c03Goroutines() {
		m[sim.CreatorOf(g)]++
	}
	return m
}

// lingerRule names the rule for goroutines that are still there when they
// should not be (before Close: rule background-lingers; after Close: leak).
//
// One pattern has its own id, quorum-handover-stuck, so that it can be listed
// as a finding without hiding other leaks: a value search of the standard
// client with a quorum has returned, its caller's context is still live, and
// every goroutine in question belongs to that search's lookup (its stack runs
// through the function literal getValues starts) with at least one of them
// being a per-peer worker inside the record hand-over. Once the quorum is
// reached nobody reads the one-slot channel the workers hand records to; the
// hand-over selects on the caller's context only, which a caller using
// context.Background() never ends, and Close is not in that select.
func (w *c03world) lingerRule(stacks []string, generic string) (rule, note string) {
	eligible := false
	for _, op := range w.ops {
		if (op.kind == c03GetValue || op.kind == c03SearchValue) && op.quorum > 0 && w.cfg.Client != "fullrt" && op.started && op.api.Done && op.ctx.Err() == nil {
			eligible = true
		}
	}
	if !eligible || len(stacks) == 0 {
		return generic, ""
	}
	handover := 0
	for _, g := range stacks {
		if !strings.Contains(g, "(*IpfsDHT).getValues.func1") {
			return generic, ""
		}
		if strings.Contains(g, "(*IpfsDHT).getValues.func1.1(") && strings.Contains(firstLine(g), "[select") {
			handover++
		}
	}
	if handover == 0 {
		return generic, ""
	}
	return "quorum-handover-stuck", fmt.Sprintf(" [value search with a quorum: a per-peer worker is stuck handing over a record (%d of them): the quorum was reached, nobody reads the hand-over channel any more, and the hand-over only gives up when the caller's context ends - it never does here, and Close is not in that select (routing.go getValues)]", handover)
}

func i0(op *c03op) int { return op.idx * 7 }

// genOp draws one operation. Keys are chosen so that the two-byte key tag used
// in park labels differs between the operations of a run.
func (w *c03world) genOp(i int, rng *subRng, usedTags map[string]bool) *c03op {
	s, c := w.s, w.cfg
	op := &c03op{idx: i, tag: fmt.Sprintf("o%d", i)}
	if c.Optimistic && (i == 0 || s.Chance("more-provide", 1, 2)) {
		op.kind = c03Provide
	} else if len(c.Kinds) > 0 {
		op.kind = c.Kinds[s.Draw("op-kind", len(c.Kinds))]
	} else {
		op.kind = s.Draw("op-kind", c03nKinds)
	}
	if c.FollowUp {
		op.kind = []int{c03FindProvidersAsync, c03FindProvidersAsync, c03FindProviders, c03SearchValue, c03GetValue, c03GetClosest, c03PutValue, c03Provide}[s.Draw("fop-kind", 8)]
	}
	real := w.h.U.Peers[:c.N]
	salt := s.Draw("key", 1<<12)
	for j := 0; ; j++ {
		name := fmt.Sprintf("c03-%d-%d-%d", i, salt, j)
		switch op.kind {
		case c03GetClosest:
			op.key, op.wireKey, op.lookupT = name, name, pb.Message_FIND_NODE
		case c03FindPeer:
			// a member of the universe, or an identity nobody has
			if j == 0 && s.Chance("target-ghost", 1, 3) {
				op.target = simnet.MakeID(0xfeed, salt)
			} else if j == 0 {
				op.target = real[rng.Intn(len(real))].ID
			} else {
				op.target = simnet.MakeID(0xfeed, salt+j)
			}
			op.key, op.wireKey, op.lookupT = string(op.target), string(op.target), pb.Message_FIND_NODE
		case c03GetValue, c03SearchValue:
			op.key, op.lookupT = "/v/"+name, pb.Message_GET_VALUE
			op.wireKey = op.key
		case c03PutValue:
			op.key, op.lookupT = "/v/"+name, pb.Message_FIND_NODE
			op.wireKey = op.key
		case c03PutMany:
			op.key, op.lookupT = "/v/"+name, pb.Message_PUT_VALUE
			op.wireKey = op.key
		default: // provider operations
			op.cid = c03Cid(name)
			op.key, op.wireKey = name, string(op.cid.Hash())
			op.lookupT = pb.Message_GET_PROVIDERS
			if op.kind == c03Provide {
				op.lookupT = pb.Message_FIND_NODE
			}
		}
		t := simnetKeyTag(op.wireKey)
		if !usedTags[t] {
			usedTags[t] = true
			break
		}
	}
	switch op.kind {
	case c03GetValue, c03SearchValue:
		// quorum stays 0 ("run to completion"): with a quorum the stop signal is
		// raised by the value-processing goroutine while the lookup loop reads it
		// without synchronisation (routing.go getValues stopFn) - which update
		// sees it is the Go scheduler's choice, so those runs are not replayable.
		op.quorum = 0
		holders := 0 // of 4; 0: every other peer
		switch {
		case c.Quorum:
			if op.quorum = s.Range("quorum", 1, 4); c.BigFollowUp {
				op.quorum = 1 + op.quorum%2
			}
			holders = []int{2, 3, 4, 4}[s.Draw("holders", 4)]
		case c.Client == "fullrt":
			// the accelerated client has no stop signal: the value loop just stops
			// reading once the quorum is reached (nothing racy about that)
			op.quorum = s.Draw("quorum", 5)
			holders = []int{1, 2, 3, 4}[s.Draw("holders", 4)]
		}
		// scripted holders of the value, with differing ranks
		for _, p := range real {
			if (holders == 0 && rng.Intn(2) == 0) || (holders > 0 && rng.Intn(4) < holders) {
				w.peers[p.ID].values[op.wireKey] = rankValue(rng.Intn(3), time.Time{}, op.key)
			}
		}
	case c03FindProviders, c03FindProvidersAsync:
		op.count = s.Draw("count", 4)
		for _, p := range real {
			if rng.Intn(2) == 0 {
				n := 1 + rng.Intn(3)
				for k := 0; k < n; k++ {
					w.peers[p.ID].provs[op.wireKey] = c03AppendUnique(w.peers[p.ID].provs[op.wireKey], real[rng.Intn(len(real))])
				}
			}
		}
	case c03PutValue:
		op.value = rankValue(1+rng.Intn(3), time.Time{}, op.key)
	case c03ProvideMany, c03PutMany:
		// one to three keys under one call; the first is the operation's key
		n := s.Range("bulk-keys", 1, 3)
		if w.bulkSingleKey {
			n = 1
		}
		for j := 0; j < n; j++ {
			if op.kind == c03ProvideMany {
				m := c03Cid(fmt.Sprintf("%s-b%d", op.key, j)).Hash()
				if j == 0 {
					m = op.cid.Hash()
				}
				op.bulkMhs = append(op.bulkMhs, m)
				op.bulkKeys = append(op.bulkKeys, string(m))
			} else {
				k := op.key
				if j > 0 {
					k = fmt.Sprintf("%s-b%d", op.key, j)
				}
				op.bulkKeys = append(op.bulkKeys, k)
				op.bulkVals = append(op.bulkVals, rankValue(1+rng.Intn(3), time.Time{}, k))
			}
		}
	}
	if op.kind == c03SearchValue || op.kind == c03FindProvidersAsync {
		op.lazy = s.Chance("lazy-consumer", 1, 2)
	}
	if c.FollowUp {
		if op.kind == c03FindProvidersAsync {
			op.lazy = true
			if op.count > 0 {
				op.count += 3
			}
		}
		op.cancelMode, op.cancelAfter = 2, s.Draw("cancel-after-terminate", 3)
		if op.storeKind() && s.Chance("cancel-in-store-phase", 1, 2) {
			op.cancelMode, op.cancelAfter = 4, s.Draw("cancel-after-store", 3)
		}
	}
	if c.Faulty {
		switch s.Draw("cancel-mode", 7) {
		case 6:
			// a drawn number of steps after the operation's first store request
			// (PUT_VALUE / ADD_PROVIDER) was seen: the store / fan-out phase, which
			// every client shows in its requests (no lookup events needed)
			if op.storeKind() {
				op.cancelMode, op.cancelAfter = 4, s.Draw("cancel-after-store", 4)
			} else {
				op.cancelMode, op.cancelAfter = 1, s.Range("cancel-after", 1, 40)
			}
		case 3:
			op.cancelMode, op.cancelAfter = 1, s.Range("cancel-after", 1, 40)
		case 4:
			op.cancelMode, op.cancelAfter = 2, s.Draw("cancel-after-terminate", 4)
		case 5:
			op.cancelMode, op.deadline = 3, c03Deadlines[s.Draw("deadline", len(c03Deadlines))]+time.Duration(i)*time.Millisecond
			if op.kind == c03SearchValue && op.lazy && !c.Racy {
				op.cancelMode, op.deadline = 0, 0 // see cancelSafe: a deadline cannot wait for a safe instant
			}
		}
		if op.cancelMode == 2 && !w.hasEvents(op) {
			// no usable lookup events from this client: cancel at a drawn step instead
			op.cancelMode, op.cancelAfter = 1, 1+3*op.cancelAfter
		}
		if op.cancelMode == 0 && (c.Client != "" || c.Quorum) {
			op.neverCancel = s.Chance("never-cancel", 2, 3)
		}
	}
	if c.Client == "dual" && s.Chance("query-events", 1, 2) {
		// The caller has subscribed to query events, as a command-line "find
		// providers -v" or an HTTP handler streaming progress does. The dual client
		// then takes another path (it subscribes itself on behalf of its two
		// instances and merges what they publish). The subscription is the
		// caller's: it ends when the caller ends it (teardown), so the operation's
		// context is not one of the "never cancelled through Close" kind, but it
		// is live during the background census. The result consumer reads eagerly:
		// behind a consumer that is not reading the merge does not read the
		// events either, the publishers then queue up on a plain mutex inside
		// go-libp2p's event channel, and a goroutine blocked there is not durably
		// blocked for the bubble (HARNESS.md pitfall 9).
		op.qev, op.neverCancel, op.lazy = true, false, false
	}
	if c.Lag {
		w.genLag(op)
	}
	for _, k := range op.bulkKeys {
		w.byKey[k] = op
	}
	w.byKey[op.wireKey] = op
	w.byTag[op.tag] = op
	return op
}

func simnetKeyTag(k string) string {
	// same function of the key as the sender's park label uses (2 bytes of SHA-256)
	kk := simnet.KadOfKey(k)
	return fmt.Sprintf("%x", kk[:2])
}

func c03AppendUnique(l []*simnet.Peer, p *simnet.Peer) []*simnet.Peer {
	for _, x := range l {
		if x == p {
			return l
		}
	}
	return append(l, p)
}

// spawn creates the lookup-event subscription and the client goroutine of an
// operation; the goroutine parks at once so that starting it is a decision.
func (w *c03world) spawn(op *c03op) {
	s := w.s
	root := context.Background()
	if op.qev {
		// the caller's query-event subscription: registered on a context that
		// outlives the operation's and is cancelled at teardown; a harness
		// goroutine reads the events as they come
		qctx, qcancel := context.WithCancel(root)
		regCtx, qch := routing.RegisterForQueryEvents(qctx)
		op.qevCancel, root = qcancel, regCtx
		go func() {
			for range qch {
				op.qevRead.Add(1)
			}
		}()
	}
	if !w.hasEvents(op) || op.neverCancel {
		// no lookup-event subscription (no usable events, see hasEvents; or its
		// context would have to be cancelled to end it): the caller's context
		// hangs off context.Background()
		op.base = sim.WithTag(root, op.tag)
	} else {
		// the registration context outlives the operation's context: it is
		// cancelled at teardown ("MUST be canceled when the caller is no longer
		// interested in query events"), the operation runs under a child of it
		evCtx, evCancel := context.WithCancel(root)
		if op.lag != 0 {
			defer func(n int) { dht.LookupEventBufferSize = n }(dht.LookupEventBufferSize)
			dht.LookupEventBufferSize = op.evBuf
		}
		regCtx, evCh := dht.RegisterForLookupEvents(evCtx)
		op.evCancel, op.evCh = evCancel, evCh
		op.base = sim.WithTag(regCtx, op.tag)
	}
	op.api = w.h.Ops.Go(s, op.name(), func() (any, error) {
		op.gid = c03Goid()
		s.Park("client", op.tag, nil, op)
		if op.ctx == nil {
			return nil, errC03NotStarted
		}
		return w.call(op)
	})
}

func (w *c03world) begin(op *c03op) {
	if op.deadline > 0 {
		op.ctx, op.cancel = context.WithTimeout(op.base, op.deadline)
	} else {
		op.ctx, op.cancel = context.WithCancel(op.base)
	}
	op.started, op.startStep = true, w.s.Steps
	if op.lazy {
		w.s.Count("probe_lazy_consumer")
	}
	if op.neverCancel {
		w.s.Count("probe_never_cancelled_ctx")
	}
	if op.qev {
		w.s.Count("probe_query_event_subscriber")
	}
	if op.localVal {
		op.pipe++ // the search hands the local record to the value loop first
	}
	if op.quorum > 0 {
		w.s.Count("probe_quorum_search")
	}
}

// call runs the API call of op on the client goroutine.
func (w *c03world) call(op *c03op) (any, error) {
	d, ctx, s := w.api, op.ctx, w.s
	consume := func(recv func() bool) {
		op.apiReturned.Store(true)
		for {
			if op.lazy {
				s.Park("consume", op.tag, nil, op)
			}
			op.receiving.Store(true)
			ok := recv()
			op.receiving.Store(false)
			if !ok {
				return
			}
			op.received.Add(1)
		}
	}
	switch op.kind {
	case c03GetClosest:
		r, err := d.GetClosestPeers(ctx, op.key)
		return len(r), err
	case c03FindPeer:
		ai, err := d.FindPeer(ctx, op.target)
		return len(ai.Addrs), err
	case c03GetValue:
		v, err := d.GetValue(ctx, op.key, dht.Quorum(op.quorum))
		return string(v), err
	case c03SearchValue:
		ch, err := d.SearchValue(ctx, op.key, dht.Quorum(op.quorum))
		if err != nil {
			return nil, err
		}
		consume(func() bool { _, ok := <-ch; return ok })
		return int(op.received.Load()), nil
	case c03FindProviders:
		r, err := d.FindProviders(ctx, op.cid)
		return len(r), err
	case c03FindProvidersAsync:
		ch := d.FindProvidersAsync(ctx, op.cid, op.count)
		consume(func() bool { _, ok := <-ch; return ok })
		return int(op.received.Load()), nil
	case c03PutValue:
		return nil, d.PutValue(ctx, op.key, op.value)
	case c03ProvideMany:
		return nil, d.ProvideMany(ctx, op.bulkMhs)
	case c03PutMany:
		return nil, d.PutMany(ctx, op.bulkKeys, op.bulkVals)
	default:
		return nil, d.Provide(ctx, op.cid, true)
	}
}

// ---------------------------------------------------------------------------
// peer model

func (w *c03world) honestReply(x *c03peer, r *simnet.RPC) simnet.Reply {
	req := r.Req
	key := string(req.GetKey())
	m := &pb.Message{Type: req.GetType(), Key: req.GetKey()}
	switch req.GetType() {
	case pb.Message_PUT_VALUE:
		if rec := req.GetRecord(); rec != nil {
			x.values[key] = append([]byte(nil), rec.GetValue()...)
			m.Record = &recpb.Record{Key: rec.GetKey(), Value: append([]byte(nil), rec.GetValue()...), TimeReceived: rec.GetTimeReceived()}
		} else {
			m.Record = &recpb.Record{Key: req.GetKey()}
		}
	case pb.Message_ADD_PROVIDER:
		x.provs[key] = c03AppendUnique(x.provs[key], w.h.U.Self)
		if !r.WantResp {
			return simnet.Reply{}
		}
	case pb.Message_GET_VALUE:
		m.CloserPeers = w.h.closerFor(x.p, simnet.KadOfKey(key))
		if v, ok := x.values[key]; ok {
			m.Record = &recpb.Record{Key: []byte(key), Value: append([]byte(nil), v...)}
		}
	case pb.Message_GET_PROVIDERS:
		m.CloserPeers = w.h.closerFor(x.p, simnet.KadOfKey(key))
		m.ProviderPeers = simnet.ToPB(x.provs[key])
	case pb.Message_FIND_NODE:
		m.CloserPeers = w.h.closerFor(x.p, simnet.KadOfKey(key))
	}
	return simnet.Reply{Msg: m}
}

// lateOK: may a call whose context is already done still be handed the honest
// outcome (the reply raced the cancellation)? Only where the system's reaction
// does not run through a select between the done context and a ready channel
// operation (GET_VALUE with a record, GET_PROVIDERS with providers while a
// consumer is receiving) — those outcomes are the Go runtime's coin.
//
// The accelerated client differs in two places: a FIND_NODE reply of its
// FindPeer that names the target goes through such a select (against the
// per-operation context); providers, on the other hand, are handed over under
// the caller's context, so a late GET_PROVIDERS reply is unproblematic as long
// as that one is live.
//
// Racy scenarios: anything goes.
func (w *c03world) lateOK(p *sim.Parked) bool {
	if w.warm {
		return false
	}
	if w.cfg.Racy {
		return true
	}
	switch d := p.Data.(type) {
	case peer.ID:
		x := w.peers[d]
		return x != nil && x.mode != pmDialFail && x.mode != pmDialTimeout
	case *simnet.RPC:
		x := w.peers[d.To]
		if x == nil {
			return false
		}
		if m, _ := x.modeOf(d); m != pmHonest && m != pmSlow {
			return false
		}
		key := string(d.Req.GetKey())
		switch d.Req.GetType() {
		case pb.Message_FIND_NODE:
			if w.cfg.Client == "fullrt" {
				op := w.opOf(p)
				return op == nil || op.kind != c03FindPeer
			}
			return true
		case pb.Message_PUT_VALUE, pb.Message_ADD_PROVIDER:
			return true
		case pb.Message_GET_VALUE:
			_, has := x.values[key]
			return !has
		case pb.Message_GET_PROVIDERS:
			if len(x.provs[key]) == 0 {
				return true
			}
			op := w.byKey[key]
			if w.cfg.Client == "fullrt" && op != nil && op.started && op.ctx.Err() == nil {
				return true
			}
			return op != nil && op.kind == c03FindProvidersAsync && op.lazy && !op.receiving.Load()
		}
	}
	return false
}

// opOf attributes a parked call to the client operation it belongs to.
func (w *c03world) opOf(p *sim.Parked) *c03op {
	switch d := p.Data.(type) {
	case *c03op:
		return d
	case *simnet.RPC:
		if t := sim.TagOf(p.Ctx); t != "" {
			return w.byTag[t[1:]]
		}
		return w.byKey[string(d.Req.GetKey())]
	default:
		if t := sim.TagOf(p.Ctx); t != "" {
			return w.byTag[t[1:]]
		}
	}
	return nil
}

func (w *c03world) parkedOf(op *c03op) []*sim.Parked {
	var out []*sim.Parked
	for _, p := range w.s.Parked() {
		if w.opOf(p) == op {
			out = append(out, p)
		}
	}
	return out
}

// deliver releases p with the outcome the addressed peer's behaviour dictates
// (delays are the caller's business).
func (w *c03world) deliver(p *sim.Parked) {
	s := w.s
	switch d := p.Data.(type) {
	case *c03op:
		if p.Kind == "client" {
			w.begin(d)
		}
		s.Release(p, nil)
	case peer.ID:
		x := w.peers[d]
		switch {
		case x == nil || (!w.warm && x.mode == pmDialFail):
			s.Count("fault_dial_fail")
			s.Release(p, simhost.ErrDialFailed)
		case !w.warm && x.mode == pmDialTimeout:
			s.Count("fault_dial_timeout")
			s.Release(p, simhost.ErrDialFailed)
		default:
			s.Release(p, nil)
		}
	case *simnet.RPC:
		x := w.peers[d.To]
		if op := w.opOf(p); op != nil && d.Req.GetType() == pb.Message_ADD_PROVIDER && sim.TagOf(p.Ctx) == "" {
			op.optimistic = true
		}
		mode := pmHonest
		if x != nil && !w.warm {
			if mode, _ = x.modeOf(d); mode != x.mode {
				s.Count("fault_store_phase_only") // honest during the look-up, faulty when asked to store
			}
		}
		switch {
		case x == nil || mode == pmReqErr:
			s.Count("fault_rpc_error")
			s.Release(p, simnet.Reply{Err: errReqFailed})
		case mode == pmSilent:
			s.Count("fault_silent_timeout")
			s.Release(p, simnet.Reply{Err: errC03Timeout})
		default:
			if mode == pmSlow {
				s.Count("fault_slow_reply")
			}
			if w.carriesRecord(x, d) {
				if op := w.opOf(p); op != nil {
					op.pipe++
					if p.Cancelled() && !op.cancelled {
						s.Count("probe_late_record_after_abort")
					}
				}
			}
			s.Release(p, w.honestReply(x, d))
		}
	default:
		s.Release(p, nil)
	}
}

// readyAt: virtual time from which the scheduler may complete p (silent / slow
// peers); 0 = at once.
func (w *c03world) readyAt(p *sim.Parked) time.Duration {
	first, ok := w.seen[p.ID]
	if !ok {
		first = w.s.Now()
		w.seen[p.ID] = first
	}
	var x *c03peer
	switch d := p.Data.(type) {
	case peer.ID:
		if x = w.peers[d]; x != nil && x.mode == pmDialTimeout {
			return first + x.delay
		}
	case *simnet.RPC:
		if x = w.peers[d.To]; x != nil {
			if m, delay := x.modeOf(d); m == pmSilent || m == pmSlow {
				return d.SentAt + delay
			}
		}
	}
	return 0
}

// actions: the enabled events at this quiescent point, and the time until the
// earliest parked call that is only waiting for virtual time (0 = none).
func (w *c03world) actions() (acts []sim.Action, wake time.Duration) {
	s := w.s
	now := s.Now()
	w.syncPipes()
	for _, p := range s.Parked() {
		p := p
		if p.Kind != "client" && p.Kind != "consume" && p.Kind != "dial" && p.Kind != "rpc" {
			continue
		}
		if r, ok := p.Data.(*simnet.RPC); ok && r.Req.GetType() == pb.Message_ADD_PROVIDER && sim.TagOf(p.Ctx) == "" {
			if op := w.opOf(p); op != nil {
				op.optimistic = true
			}
		}
		if p.Cancelled() {
			if r, ok := p.Data.(*simnet.RPC); ok && w.cfg.Quorum && r.Req.GetType() == pb.Message_GET_VALUE {
				// the standard client runs its GET_VALUE requests under the lookup's
				// context: one that is done while the caller's is live was aborted
				// by the follow-up phase (quorum reached there)
				if op := w.opOf(p); op != nil && op.quorum > 0 && op.started && op.ctx.Err() == nil && !op.followAbort {
					op.followAbort = true
					s.Count("probe_quorum_followup_aborted")
				}
			}
			if r, ok := p.Data.(*simnet.RPC); !ok || !w.cfg.LateRecords || !w.lateOK(p) || !w.carriesRecord(w.honest(r.To), r) {
				acts = append(acts, sim.Action{ID: "cancel>" + p.ID, Do: func() { s.ReleaseCancelled(p) }})
			}
			if w.lateOK(p) {
				acts = append(acts, sim.Action{ID: "late>" + p.ID, Do: func() {
					s.Count("probe_late_reply_after_cancel")
					w.deliver(p)
				}})
			}
			continue
		}
		if w.cfg.Lag && w.withheld(p) {
			continue // enabled again once the subscriber has read (its "evread" action is enabled), or the context ends
		}
		if at := w.readyAt(p); at > now {
			if wake == 0 || at-now < wake {
				wake = at - now
			}
			continue
		}
		if !w.recordRoom(p) {
			continue // enabled again once the consumer has read (its "consume" action is enabled)
		}
		acts = append(acts, sim.Action{ID: p.ID, Do: func() { w.deliver(p) }})
	}
	if w.cfg.Lag {
		acts, wake = w.lagActions(acts, wake)
	}
	return acts, wake
}

// honest returns the model of p if it answers honestly (at once or slowly), else nil.
func (w *c03world) honest(p peer.ID) *c03peer {
	if x := w.peers[p]; x != nil && (x.mode == pmHonest || x.mode == pmSlow) {
		return x
	}
	return nil
}

// carriesRecord: will the honest reply of x to r hand the system a record?
func (w *c03world) carriesRecord(x *c03peer, r *simnet.RPC) bool {
	if x == nil || r.Req.GetType() != pb.Message_GET_VALUE {
		return false
	}
	_, has := x.values[string(r.Req.GetKey())]
	return has
}

// recordRoom keeps one state out of the ordinary scenarios: a SearchValue whose
// consumer is not reading and for which two or more per-peer workers sit on a
// record they cannot hand over. The records travel worker -> one-slot channel
// -> value loop -> result channel; the value loop swallows a record that is
// not better than the best so far without blocking. One receive of the
// consumer can therefore let several blocked workers finish in the same
// instant, and the order in which their reports reach the lookup loop (which
// decides whether one more peer is queried before the lookup ends) is the Go
// scheduler's. op.pipe is an upper bound of the records handed to the system
// and not yet received by the consumer (refreshed by syncPipes at every
// quiescent point): with at most three of them at most one worker is blocked.
// The bound ignores what the value loop swallowed, so it is conservative.
func (w *c03world) recordRoom(p *sim.Parked) bool {
	if w.cfg.Racy || w.warm {
		return true
	}
	r, ok := p.Data.(*simnet.RPC)
	if !ok {
		return true
	}
	x := w.peers[r.To]
	if x == nil || (x.mode != pmHonest && x.mode != pmSlow) || !w.carriesRecord(x, r) {
		return true
	}
	op := w.opOf(p)
	if op == nil || op.kind != c03SearchValue || !op.lazy {
		return true
	}
	return op.pipe < 3
}

// syncPipes refreshes op.pipe at a quiescent point: a consumer that is blocked
// receiving has an empty pipeline behind it; every value it received since the
// last look left the pipeline.
func (w *c03world) syncPipes() {
	for _, op := range w.ops {
		if op.kind != c03SearchValue || !op.lazy {
			continue
		}
		if n := int(op.received.Load()); n > op.seenRecv {
			op.pipe -= n - op.seenRecv
			op.seenRecv = n
		}
		if op.receiving.Load() || op.pipe < 0 || op.api.Done {
			op.pipe = 0
		}
	}
}

// rpcLog is the request log of all senders of the client.
func (w *c03world) rpcLog() []*simnet.RPC {
	if len(w.snds) == 1 {
		return w.snds[0].Snapshot()
	}
	var out []*simnet.RPC
	for _, snd := range w.snds {
		out = append(out, snd.Snapshot()...)
	}
	return out
}

// pump drains the lookup-event channels. Only the Terminate event of a lookup
// whose context is still live (and has no deadline) is used: the one of a
// cancelled lookup is published through a select racing the done context.
func (w *c03world) pump() {
	for _, op := range w.ops {
		if op.evCh == nil {
			continue
		}
		if op.lag != 0 {
			w.pumpLag(op)
			continue
		}
	loop:
		for {
			select {
			case ev, ok := <-op.evCh:
				if !ok {
					op.evCh = nil
					break loop
				}
				if ev == nil || ev.Terminate == nil || op.termStep != 0 || op.deadline > 0 || !op.started || op.ctx.Err() != nil {
					continue
				}
				op.termStep = w.s.Steps
				op.termReason = strings.ToLower(ev.Terminate.Reason.String())
			default:
				break loop
			}
		}
	}
}

// ---------------------------------------------------------------------------
// warm-up, main phase, drain, verdict

// warmup runs healthy closest-peers lookups until the public NetworkSize()
// reports an estimate (or a cap is reached). No decisions are drawn.
func (w *c03world) warmup() bool {
	s, h := w.s, w.h
	w.warm = true
	defer func() { w.warm = false }()
	for i := 0; i < 12; i++ {
		if _, err := h.DHT.NetworkSize(); err == nil {
			return true
		}
		key := fmt.Sprintf("c03-warm-%d", i)
		op := h.Ops.Go(s, "warmup", func() (any, error) { return h.DHT.GetClosestPeers(context.Background(), key) })
		s.Quiesce()
		for n := 0; !op.Done && n < 4000; n++ {
			ps := s.Parked()
			if len(ps) == 0 {
				break
			}
			w.deliver(ps[0])
			s.Quiesce()
		}
		if !op.Done {
			s.Violate("no-return", "warm-up GetClosestPeers on a healthy network did not return although every call was answered")
			return false
		}
		if op.Panic != "" {
			s.Violate("panic", "warm-up GetClosestPeers panicked: %s", firstLine(op.Panic))
			return false
		}
	}
	_, err := h.DHT.NetworkSize()
	return err == nil
}

func (w *c03world) allFinished() bool {
	for _, op := range w.ops {
		if !op.api.Done && !op.abandoned {
			return false
		}
	}
	return true
}

func (w *c03world) errClass(err error) string {
	if err == nil {
		return "ok"
	}
	return err.Error()
}

// observe updates the per-operation state at a quiescent point and applies
// the prompt-cancellation rule.
func (w *c03world) observe() {
	s := w.s
	w.pump()
	if w.cfg.Lag {
		w.lagObserve()
	}
	for _, op := range w.ops {
		if !op.started || op.abandoned || op.finished {
			continue
		}
		if op.api.Done {
			w.onFinished(op)
			continue
		}
		if op.storeStep == 0 && w.storesOut(op) > 0 {
			op.storeStep = s.Steps
		}
		if !op.cancelled && op.ctx.Err() != nil { // the deadline passed
			op.cancelled, op.cancelStep = true, s.Steps
			op.cancelPhase = w.phaseOf(op)
			s.Count("fault_deadline")
			s.Count("probe_deadline_expired_in_flight")
			s.Count("probe_deadline_" + op.cancelPhase)
			w.countStorePhase(op)
			w.lagAtCtxEnd(op)
			s.Tracef("deadline %s", op.tag)
		}
		if op.cancelled {
			w.checkPrompt(op)
		}
	}
}

func (w *c03world) onFinished(op *c03op) {
	s := w.s
	op.finished = true
	if op.api.Panic != "" {
		s.Violate("panic", "%s (%s) panicked on the caller's goroutine: %s | %s", op.name(), op.tag, firstLine(op.api.Panic), c03Site(op.api.Panic))
		return
	}
	s.Tracef("done %s %s res=%v err=%s", op.tag, op.name(), op.api.Result, w.errClass(op.api.Err))
	s.Count("probe_op_" + op.name())
	if op.cancelled {
		// cancelled in flight and back: the prompt-cancellation rule was evaluated
		// at every quiescent point in between and held
		s.Count("probe_prompt_checked")
		s.Count("probe_returned_after_cancel")
		if op.cancelPhase != "" {
			s.Count("probe_prompt_judged_" + op.cancelPhase)
		}
		if op.apiReturned.Load() {
			s.Count("probe_chan_closed_after_cancel")
		}
		if op.fullAtEnd {
			s.Count("probe_lag_prompt_judged_buffer_full")
		}
	}
	if op.inDrain {
		s.Count("probe_drain_finished_op")
	}
	if op.qev && op.qevRead.Load() > 0 {
		s.Count("probe_query_events_read")
		s.Count("probe_query_events_read_" + op.name())
	}
	if w.cfg.FaultLevel == 3 {
		s.Count("probe_returned_all_failing")
	}
	if op.termReason != "" {
		s.Count("probe_term_" + op.termReason)
	}
	if op.quorum > 0 && w.cfg.Quorum && !op.cancelled {
		switch {
		case op.termReason == "stopped":
			s.Count("probe_quorum_reached_before_termination")
		case op.followAbort:
		case op.termReason != "":
			s.Count("probe_quorum_not_reached")
		}
	}
	if op.kind == c03Provide && w.cfg.Optimistic {
		switch {
		case op.optimistic:
			s.Count("probe_optimistic_path_taken")
			if len(w.parkedOf(op)) > 0 {
				s.Count("probe_optimistic_returned_early") // ADD_PROVIDER RPCs left in the background
			}
		case w.countRPC(op.wireKey, pb.Message_ADD_PROVIDER) > 0:
			s.Count("probe_optprov_fallback_classic")
		default:
			s.Count("probe_provide_zero_rpcs") // every peer of the lookup result unreachable: nothing to send
		}
	}
	if op.termStep > 0 {
		for _, r := range w.rpcLog() {
			if string(r.Req.GetKey()) == op.wireKey && r.Req.GetType() == op.lookupT && r.SentStep >= op.termStep {
				s.Count("probe_followup_ran")
				break
			}
		}
	}
	if op.lag != 0 {
		s.State("%s c=%v/%s term=%s err=%s fl=%d lag=%d full=%v", op.name(), op.cancelled, op.cancelPhase, op.termReason, w.errClass(op.api.Err), w.cfg.FaultLevel, op.lag, op.fullAtEnd)
		return
	}
	s.State("%s c=%v/%s term=%s err=%s fl=%d", op.name(), op.cancelled, op.cancelPhase, op.termReason, w.errClass(op.api.Err), w.cfg.FaultLevel)
}

func (w *c03world) countRPC(key string, t pb.Message_MessageType) int {
	n := 0
	for _, r := range w.rpcLog() {
		if string(r.Req.GetKey()) == key && r.Req.GetType() == t {
			n++
		}
	}
	return n
}

// checkPrompt: the context of op is done. Once the scheduler has let every
// parked call of the operation observe that (nothing attributable to the
// operation is parked any more), it has c03PromptSlop of virtual time to
// return.
func (w *c03world) checkPrompt(op *c03op) {
	s := w.s
	if len(w.owedTo(op)) > 0 {
		return
	}
	pending := w.pendingLive(op)
	s.Sleep(c03PromptSlop)
	w.pump()
	if op.api.Done || len(w.owedTo(op)) > 0 {
		return
	}
	what := fmt.Sprintf("context done since step %d, every parked call of the operation whose context is done has observed it, yet %v of virtual time later it has not returned", op.cancelStep, c03PromptSlop)
	if op.lag != 0 {
		what += w.lagNote(op)
	}
	if len(pending) > 0 {
		what += fmt.Sprintf(" - it is still waiting for %d request(s) that it runs under a context the caller's cancellation does not reach (%s): the peers addressed are merely slow or silent, which the caller's cancellation must not depend on", len(pending), strings.Join(pending, ", "))
	}
	w.reportStuck(op, "cancel-not-prompt", what)
}

// owedTo: what the scheduler still owes a cancelled operation before it may be
// judged - the parked calls attributable to it whose context is done (they
// have not been let observe that yet) and its own client-side parks (the lazy
// consumer waiting for its turn to receive).
//
// A call of the operation that is parked under a context which is still live
// after the caller's context ended is NOT owed anything: to the system that is
// a peer that has not answered yet, a slow or silent peer, and the clause
// "returns promptly after its context is cancelled, whatever the pattern of
// failing, silent or slow peers" says the return must not depend on it. Work
// the operation deliberately leaves to the background under the instance's
// own context (optimistic provide's remaining ADD_PROVIDERs, the corrective
// stores of a value search) is of that kind: it may stay parked as long as the
// scheduler likes, the caller must be back.
func (w *c03world) owedTo(op *c03op) []*sim.Parked {
	var out []*sim.Parked
	for _, p := range w.parkedOf(op) {
		if p.Kind == "client" || p.Kind == "consume" || p.Cancelled() {
			out = append(out, p)
		}
	}
	return out
}

// pendingLive lists the calls attributable to op that are parked under a live
// context (see owedTo), for the violation message.
func (w *c03world) pendingLive(op *c03op) []string {
	var out []string
	for _, p := range w.parkedOf(op) {
		if p.Kind == "client" || p.Kind == "consume" || p.Cancelled() {
			continue
		}
		out = append(out, p.ID)
	}
	return out
}

// reportStuck files the violation for an operation that will not return.
func (w *c03world) reportStuck(op *c03op, rule, what string) {
	s := w.s
	op.abandoned = true
	st := c03StackOf(op.gid)
	site := c03Site(st)
	if op.kind == c03Provide && strings.Contains(st, "optimisticState).waitForRPCs") && w.countRPC(op.wireKey, pb.Message_ADD_PROVIDER) == 0 {
		s.Count("probe_provide_zero_rpcs")
		s.Violate("optprovide-hang", "optimistic Provide never returns: caller blocked in (*optimisticState).waitForRPCs (lookup_optim.go) with zero ADD_PROVIDER RPCs scheduled - every peer of the lookup result was unreachable, so nobody ever writes or closes doneChan; cancelled=%v; %s [%s]", op.cancelled, what, site)
		return
	}
	if rule == "no-return" && op.apiReturned.Load() {
		s.Violate("chan-not-closed", "%s (%s): the call returned its result channel but the channel was never closed: %s (values received: %d, context done: %v)", op.name(), op.tag, what, op.received.Load(), op.cancelled)
		return
	}
	s.Violate(rule, "%s (%s): %s; caller blocked at %s", op.name(), op.tag, what, site)
}

// applyCancels performs the drawn cancellations that are due. Returns true if
// one was applied.
func (w *c03world) applyCancels() bool {
	s := w.s
	for _, op := range w.ops {
		if !op.started || op.cancelled || op.finished || op.abandoned || op.api.Done {
			continue
		}
		due := false
		switch op.cancelMode {
		case 1:
			due = s.Steps >= op.startStep+op.cancelAfter
		case 2:
			due = op.termStep > 0 && s.Steps >= op.termStep+op.cancelAfter
		case 4:
			due = op.storeStep > 0 && s.Steps >= op.storeStep+op.cancelAfter
		}
		if !due || !w.cancelSafe(op) {
			continue
		}
		op.cancelled, op.cancelStep = true, s.Steps
		op.cancelPhase = w.phaseOf(op)
		s.Count("fault_cancel")
		s.Count("probe_cancel_" + op.cancelPhase)
		if w.cfg.Client != "" {
			s.Count("probe_" + w.cfg.Client + "_cancel_" + op.cancelPhase)
		}
		w.countStorePhase(op)
		w.lagAtCtxEnd(op)
		s.Tracef("cancel %s %s", op.tag, op.cancelPhase)
		op.cancel()
		s.Quiesce()
		w.pump()
		return true
	}
	return false
}

// cancelSafe: SearchValue hands values from the lookup to the caller through a
// buffered channel and an unbuffered one; while the caller is not receiving
// (lazy consumer parked) the internal loop re-selects between "next value /
// channel closed" and the done context with both ready, and which one wins is
// the Go runtime's coin (routing.go processValues). A due cancellation of such
// an operation is therefore postponed until its consumer is receiving, where
// the cancelled context is the only ready case. (Eager consumers are always in
// that state at a quiescent point.)
func (w *c03world) cancelSafe(op *c03op) bool {
	if op.kind == c03SearchValue && op.lazy {
		return op.receiving.Load()
	}
	if op.lag != 0 {
		return w.lagCancelSafe(op)
	}
	return true
}

// phaseOf classifies where an in-flight operation stands, from the outside:
// the Terminate event and the age and type of its parked calls.
func (w *c03world) phaseOf(op *c03op) string {
	if op.termStep == 0 {
		// no Terminate event (the search is still running, or the client / a
		// deadline leaves no usable events): store requests the caller waits for
		// are outstanding - the store / fan-out phase; else the search
		for _, p := range w.parkedOf(op) {
			if r, ok := p.Data.(*simnet.RPC); ok && r.Req.GetType() == pb.Message_ADD_PROVIDER && sim.TagOf(p.Ctx) == "" {
				op.optimistic = true // optimistic provide stores while it searches
			}
		}
		if op.storeKind() && !op.optimistic && w.storesOut(op) > 0 {
			return "during_put_phase"
		}
		return "mid_search"
	}
	stragglers, follow, puts := 0, 0, 0
	for _, p := range w.parkedOf(op) {
		switch d := p.Data.(type) {
		case peer.ID:
			stragglers++ // dials belong to the search phase only
		case *simnet.RPC:
			switch {
			case d.Req.GetType() == pb.Message_PUT_VALUE || d.Req.GetType() == pb.Message_ADD_PROVIDER:
				puts++
			case d.SentStep < op.termStep:
				stragglers++
			default:
				follow++
			}
		}
	}
	switch {
	case stragglers > 0:
		return "between_lookup_and_followup" // the search ended, run() still waits for its outstanding queries
	case follow > 0:
		return "during_followup"
	case puts > 0:
		return "during_put_phase"
	}
	return "after_search"
}

// storesOut: the store requests (PUT_VALUE / ADD_PROVIDER) attributable to op
// that are parked.
func (w *c03world) storesOut(op *c03op) int {
	n, _ := w.storesOutSlow(op)
	return n
}

// storesOutSlow: as storesOut, and how many of them address a peer that is
// silent or slow when asked to store.
func (w *c03world) storesOutSlow(op *c03op) (n, slow int) {
	for _, p := range w.parkedOf(op) {
		if r, ok := p.Data.(*simnet.RPC); ok && c03IsStore(r.Req.GetType()) {
			n++
			if x := w.peers[r.To]; x != nil {
				if m, _ := x.modeOf(r); m == pmSilent || m == pmSlow {
					slow++
				}
			}
		}
	}
	return n, slow
}

// countStorePhase: probes for a context that ended (cancellation or deadline)
// in the store / fan-out phase of an operation whose caller waits for it.
func (w *c03world) countStorePhase(op *c03op) {
	if op.cancelPhase != "during_put_phase" || !op.storeKind() {
		return
	}
	s := w.s
	client := w.cfg.Client
	if client == "" {
		client = "std"
	}
	s.Count("probe_" + client + "_ctx_done_in_store_phase")
	s.Count("probe_ctx_done_in_store_phase_" + op.name())
	if _, slow := w.storesOutSlow(op); slow > 0 {
		s.Count("probe_ctx_done_store_phase_silent_or_slow_peer")
	}
}

func (w *c03world) mainPhase() {
	s := w.s
	idle := 0
	for s.Step() {
		w.observe()
		if s.Failed() || w.allFinished() {
			break
		}
		if w.faultStop > 0 && s.Steps >= w.faultStop {
			break
		}
		if w.applyCancels() {
			continue
		}
		if s.Chance("tick", 1, 8) {
			s.Sleep(c03Ticks[s.Draw("tick-size", len(c03Ticks))])
			s.Count("time_advance")
			w.pump()
			continue
		}
		acts, wake := w.actions()
		if len(acts) == 0 {
			if wake > 0 {
				s.Sleep(wake)
				s.Count("time_advance")
				idle = 0
				continue
			}
			if w.cfg.Lag && w.stepCancelPending() {
				// every enabled event waits for a subscriber that does not read; a
				// cancellation drawn for a later step is still to come
				s.Sleep(time.Second)
				continue
			}
			idle++
			if idle > 20 {
				break
			}
			s.Sleep(time.Second)
			continue
		}
		idle = 0
		if wake > 0 {
			acts = append(acts, sim.Action{ID: "~wake", Do: func() {
				s.Sleep(wake)
				s.Count("time_advance")
			}})
		}
		s.Choose("next", acts)
	}
}

// drain: faults have stopped. Every parked call is answered at once (honestly
// by healthy peers, with the failure by failing ones, cancellations are
// observed), in canonical order and without drawing; virtual time only moves
// when nothing is parked, by at most c03Bound in total.
func (w *c03world) drain() {
	s := w.s
	s.Tracef("drain")
	for _, op := range w.ops {
		op.inDrain = true
	}
	var waited time.Duration
	jump := time.Second
	for n := 0; n < 6000; n++ {
		w.observe()
		if s.Failed() {
			return
		}
		ps := s.Parked()
		if w.allFinished() && (!w.drainBackground || len(ps) == 0) {
			break
		}
		if len(ps) > 0 {
			w.answerNext(ps, "drain")
			continue
		}
		if waited >= c03Bound {
			break
		}
		s.Sleep(jump)
		waited += jump
		if jump < 30*time.Second {
			jump *= 2
		}
	}
	w.observe()
	if len(s.Parked()) > 0 && !w.allFinished() {
		// the drain cap was hit with work still arriving: not a verdict
		s.Count("step_budget_exhausted")
		s.Summary["budget"] = "drain cap reached"
		for _, op := range w.ops {
			op.abandoned = op.abandoned || !op.api.Done
		}
	}
	if len(s.Parked()) > 0 {
		s.Count("probe_background_left_for_close")
	}
}

// answerNext answers the first parked call in canonical order (benignly by
// healthy peers, with the failure by failing ones; a call whose context is done
// observes that) - the first one for which there is room, see recordRoom; a
// consumer's "consume" call always qualifies.
func (w *c03world) answerNext(ps []*sim.Parked, phase string) {
	s := w.s
	w.syncPipes()
	p := ps[0]
	for _, q := range ps {
		if q.Cancelled() || w.recordRoom(q) {
			p = q
			break
		}
	}
	if p.Cancelled() {
		s.Tracef("%s cancel>%s", phase, p.ID)
		s.ReleaseCancelled(p)
	} else {
		s.Tracef("%s %s", phase, p.ID)
		w.deliver(p)
	}
	s.Quiesce()
}

// backgroundCensus: "work left in the background ends by itself within the
// operation's own time-outs". Sound only in the state the sentence speaks
// about: every operation has returned, the scheduler answered every call that
// was still parked (drain with drainBackground) and keeps answering whatever
// shows up, c03Bound of virtual time - more than any time-out the operations
// document - passes with nothing parked at its end. The contexts of the
// operations drawn "never cancelled" and of those not yet torn down are still
// live, and Close has not been called. What the instance runs then must be
// what it ran before the first operation (its long-lived loops): goroutines
// are compared by creating function with the census play() took. Fewer is
// fine (a start-up task that ended).
func (w *c03world) backgroundCensus() {
	s := w.s
	if !w.drainBackground {
		return
	}
	for _, op := range w.ops {
		if !op.started || op.abandoned || !op.api.Done {
			return
		}
	}
	var waited time.Duration
	jump := time.Second
	for n := 0; n < 3000 && waited < c03Bound; n++ {
		if ps := s.Parked(); len(ps) > 0 {
			w.answerNext(ps, "background")
			continue
		}
		s.Sleep(jump)
		waited += jump
		if jump < 30*time.Second {
			jump *= 2
		}
	}
	if len(s.Parked()) > 0 {
		s.Count("step_budget_exhausted")
		return
	}
	for _, op := range w.ops {
		if op.qev && op.ctx.Err() == nil {
			s.Count("probe_qev_ctx_live_at_background_census")
		}
	}
	now := c03Census()
	var extra []string
	for c, n := range now {
		if n > w.baseline[c] {
			extra = append(extra, fmt.Sprintf("%dx %s", n-w.baseline[c], c))
		}
	}
	if len(extra) == 0 {
		s.Count("probe_background_ended_by_itself")
		return
	}
	sort.Strings(extra)
	var kinds []string
	for _, op := range w.ops {
		kinds = append(kinds, fmt.Sprintf("%s(quorum=%d,neverCancelled=%v,ctxErr=%v)", op.name(), op.quorum, op.neverCancel, op.ctx.Err()))
	}
	var sites, stacks []string
	for _, g := range c03Goroutines() {
		if c := sim.CreatorOf(g); now[c] > w.baseline[c] {
			sites = append(sites, c03Site(g))
			stacks = append(stacks, g)
		}
	}
	sort.Strings(sites)
	site := sites[0]
	rule, note := w.lingerRule(stacks, "background-lingers")
	s.Violate(rule, "every operation has returned (%s), every parked call was answered and %v of virtual time passed with nothing left to answer, Close not yet called: the instance still runs goroutines it did not run before the first operation: %s; one of them sits in %s",
		strings.Join(kinds, ", "), c03Bound, strings.Join(extra, ", "), site+note)
}

// judge: bounded completion. Every started operation must have returned and
// every result channel must be closed.
func (w *c03world) judge() {
	s := w.s
	nDone := 0
	for _, op := range w.ops {
		if !op.started || op.abandoned {
			continue
		}
		if !op.api.Done {
			w.reportStuck(op, "no-return", fmt.Sprintf("faults stopped, every parked call was answered and %v of virtual time passed with nothing left to answer, yet the operation has not returned", c03Bound))
			if s.Failed() {
				return
			}
			continue
		}
		nDone++
	}
	s.NonTrivial = nDone > 0 && (s.Stats["fault_cancel"]+s.Stats["fault_deadline"]+s.Stats["fault_dial_fail"]+s.Stats["fault_rpc_error"]+s.Stats["fault_silent_timeout"]+s.Stats["fault_slow_reply"]+s.Stats["fault_dial_timeout"] > 0 || len(w.ops) > 1)
}

// teardown: cancel what is left, end the event subscriptions, Close, census.
func (w *c03world) teardown() {
	s := w.s
	for _, op := range w.ops {
		if op.neverCancel && op.api.Done && !s.Failed() {
			continue // a caller that never cancels: the context stays live through Close
		}
		if op.cancel != nil {
			op.cancel()
		}
	}
	s.Quiesce()
	w.pump()
	for _, op := range w.ops {
		if op.evCancel != nil {
			op.evCancel()
		}
		if op.qevCancel != nil {
			op.qevCancel()
		}
	}
	s.Quiesce()
	w.closeAndCensus()
}

// closeAndCensus is the shared closeAndCensus (h1.go) with two differences:
// only goroutines of this run's bubble are counted, and the survivors are
// classified by lingerRule.
func (w *c03world) closeAndCensus() {
	s := w.s
	var ops opSet
	op := ops.Go(s, "close", func() (any, error) { w.closeSUT(); return nil, nil })
	for i := 0; i < 200; i++ {
		s.Quiesce()
		ps := s.Parked()
		if op.Done && len(ps) == 0 {
			break
		}
		if len(ps) == 0 {
			s.Sleep(time.Second)
			continue
		}
		if p := ps[0]; p.Cancelled() {
			s.ReleaseCancelled(p)
		} else {
			releaseBenign(s, p)
		}
	}
	s.Quiesce()
	if op.Panic != "" {
		s.Violate("close-panic", "Close panicked: %s", firstLine(op.Panic))
		return
	}
	if !op.Done {
		s.Violate("close-hang", "Close did not return after everything parked was released and 200 s of virtual time")
		return
	}
	for i := 0; i < 5; i++ {
		if len(c03Goroutines()) == 0 {
			return
		}
		s.Sleep(time.Minute)
	}
	sut := c03Goroutines()
	if len(sut) == 0 {
		return
	}
	var cs []string
	for _, g := range sut {
		cs = append(cs, sim.CreatorOf(g))
	}
	sort.Strings(cs)
	rule, note := w.lingerRule(sut, "leak")
	s.Violate(rule, "%d goroutine(s) survive Close: %s%s", len(sut), strings.Join(cs, ", "), note)
}
