//go:build all || c02

package scen

// C02, scenario "converge-deep-path": convergence on networks in which the
// lookup has a LONG way to go.
//
// Property clause encoded (rule ids are those of checkC02, nothing new is
// demanded): "If every peer answers, knows every peer of each of its non-full
// k-buckets (and K peers of each full one) and replies with the K nearest
// peers it knows, an uncancelled closest-peers lookup returns the globally
// nearest peer first" — quantified over EVERY network satisfying the
// assumption, every key, every non-empty seed routing table and every
// (K, alpha, beta >= 1)  -> rule `converge-nearest`. The termination, contact
// and side-effect clauses (`terminate-early`, `returned-unasked`,
// `stamp-missing`, `stamp-on-incomplete`) are judged on the same runs.
//
// What the generator adds over "converge-kbucket-complete" (<= 48 peers, a
// handful of hops): the part of the quantifier domain in which the number of
// peers a lookup must hear of, and the number of hops it must make, before it
// can learn the nearest peer is large in absolute terms and relative to K:
//
//   * shape "uniform": some hundreds to thousands of peers with random
//     identifiers (tens of thousands when VERIF_TIER=thorough): the path has
//     about log2(N/K) hops;
//   * shape "thin": a network that is sparse far from the key and populated
//     all the way down near it: out of a pool of 2^d candidate identities only
//     a few (drawn, around K) are kept for each common-prefix length with the
//     key, so a few dozen peers give a path as deep as that of a uniform
//     network of 2^d peers, for any K;
//   * which K members of a crowded bucket a peer knows (the assumption leaves
//     it open) is a drawn policy: a random K-subset, the K members farthest
//     from the key (every hop then gains the least the assumption permits:
//     one bit), the K nearest, or a per-bucket mix of those;
//   * the seed routing table: a small random subset, one random peer, or only
//     the peer farthest from the key;
//   * patchy address knowledge (c02_bare.go): in half of the runs some peers
//     are named without addresses and some seeds have no stored address,
//     while the host still reaches every peer by identity.
//
// Regressions this exposes: anything that makes the lookup give up, forget or
// stop listening as a function of how much it has already done rather than of
// the end condition — a bound on the number of peers tracked, on hops, on
// responses processed, on the depth of the common prefix, an event or update
// queue that overflows on long lookups.
//
// Soundness: peers reply with the K nearest peers they know (never
// themselves; the requester is a client and is in nobody's table), every dial
// and every request succeeds, nothing is cancelled. That the nearest learned
// peer of a terminated lookup is then the globally nearest is the theorem of
// DESIGN §5 C02(b); it does not depend on the size or shape of the network nor
// on which K-subset of a full bucket is known.
//
// Knowledge is computed lazily (only peers that are actually asked get their
// buckets computed, O(N) each), so that big universes stay affordable.
//
// Probes: probe_deep_judged (a deep run reached the oracle), probe_deep_long_path
// / probe_deep_very_long_path (at least 8 / 12 peers had answered before the
// globally nearest peer was first heard of), probe_deep_wide_state (the lookup
// learned of at least 32 peers), probe_deep_wide_per_k (it learned of at least
// 12*K peers). The thresholds only classify what was generated; they are not
// taken from the implementation.

import (
	"bytes"
	"context"
	"crypto/sha256"
	"encoding/binary"
	"fmt"
	"os"
	"sort"
	"time"

	dht "github.com/libp2p/go-libp2p-kad-dht"
	pb "github.com/libp2p/go-libp2p-kad-dht/pb"
	"github.com/libp2p/go-libp2p/core/peer"
	ma "github.com/multiformats/go-multiaddr"

	"verif/sim"
	"verif/simhost"
	"verif/simnet"
)

func init() {
	sim.Register(&sim.Scenario{Prop: "C02", Name: "converge-deep-path", Weight: 2, Run: runC02Deep,
		Real: []string{"IpfsDHT.GetClosestPeers", "query.go state machine incl. follow-up phase", "qpeerset", "lookup events", "kbucket routing table (refresh stamps)", "ProtocolMessenger"},
		Stub: []string{"host.Host/network (simhost)", "pb.MessageSender (level A)", "remote peers (scripted: k-bucket complete, lazily computed; uniform or thin network of up to thousands of peers)"},
		Faults: append([]string{"time_advance", "probe_term_completed", "probe_followup_ran", "probe_stamp_checked",
			"probe_deep_judged", "probe_deep_long_path", "probe_deep_very_long_path", "probe_deep_wide_state", "probe_deep_wide_per_k"}, append(append(append([]string{}, c02BareFaults...), c02WideFaults...), c02StaleFaults...)...),
	})
}

const (
	deepPolicyRandom = iota
	deepPolicyFarthest
	deepPolicyNearest
	deepPolicyMix
)

type deepWorld struct {
	u      *simnet.Universe
	key    simnet.Kad
	K      int
	policy int
	seed   uint64
	dist   []simnet.Kad // by Peer.Idx: XOR distance to the key
	knows  map[peer.ID][]*simnet.Peer
	cplBuf []uint16
}

// deepID: a syntactically valid peer ID (sha2-256 multihash) derived from
// (seed, i); cheaper than simnet.MakeID, which matters for candidate pools of
// tens of thousands of identities.
func deepID(seed uint64, i int) peer.ID {
	var b [16]byte
	binary.BigEndian.PutUint64(b[:8], seed^0xdee9)
	binary.BigEndian.PutUint64(b[8:], uint64(i))
	h := sha256.Sum256(b[:])
	var m [34]byte
	m[0], m[1] = 0x12, 0x20
	copy(m[2:], h[:])
	return peer.ID(m[:])
}

func deepAddr(i int) []ma.Multiaddr {
	return []ma.Multiaddr{ma.StringCast(fmt.Sprintf("/ip4/8.%d.%d.%d/tcp/4001", 1+(i>>14)&63, 1+(i>>7)&127, 1+i&127))}
}

// addrs fills in the peer's address on first use (most peers of a big universe
// are never named to the node under test).
func (w *deepWorld) addrs(ps []*simnet.Peer) []*simnet.Peer {
	for _, p := range ps {
		if p.Addrs == nil {
			p.Addrs = deepAddr(p.Idx)
		}
	}
	return ps
}

// deepTop keeps the k peers nearest to (far=false) or farthest from (far=true)
// the key among those offered, best first (distances to the key are distinct).
type deepTop struct {
	w   *deepWorld
	k   int
	far bool
	out []*simnet.Peer
}

func (t *deepTop) before(x, y *simnet.Peer) bool {
	c := bytes.Compare(t.w.dist[x.Idx][:], t.w.dist[y.Idx][:])
	if t.far {
		return c > 0
	}
	return c < 0
}

func (t *deepTop) offer(p *simnet.Peer) {
	i := len(t.out)
	if i == t.k {
		if !t.before(p, t.out[i-1]) {
			return
		}
		i--
		t.out[i] = p
	} else {
		t.out = append(t.out, p)
	}
	for ; i > 0 && t.before(t.out[i], t.out[i-1]); i-- {
		t.out[i], t.out[i-1] = t.out[i-1], t.out[i]
	}
}

// extreme returns the k members of b nearest to / farthest from the key, in
// O(len(b)*k).
func (w *deepWorld) extreme(b []*simnet.Peer, k int, far bool) []*simnet.Peer {
	t := deepTop{w: w, k: k, far: far}
	for _, p := range b {
		t.offer(p)
	}
	return t.out
}

// knowledge of peer x: every member of each of its buckets holding <= K
// peers, and K members (chosen by the policy) of each larger one. Two passes
// over the universe, no bucket is materialised.
func (w *deepWorld) knowledge(x *simnet.Peer) []*simnet.Peer {
	if kn, ok := w.knows[x.ID]; ok {
		return kn
	}
	peers := w.u.Peers
	if len(w.cplBuf) < len(peers) {
		w.cplBuf = make([]uint16, len(peers))
	}
	const none = 0xffff
	var cnt [257]int
	for i, y := range peers {
		if y == x {
			w.cplBuf[i] = none
			continue
		}
		c := x.Kad.CPL(y.Kad)
		w.cplBuf[i] = uint16(c)
		cnt[c]++
	}
	// the per-peer generator depends on the peer only, not on the order in
	// which peers happen to be asked
	rng := &subRng{x: w.seed*0x9e3779b97f4a7c15 + uint64(x.Idx+1)*0xbf58476d1ce4e5b9 + 1}
	type sel struct {
		pol  int
		top  deepTop
		seen int
	}
	var sels [257]*sel
	for c := range cnt {
		if cnt[c] > w.K { // a full bucket: K of its members
			pol := w.policy
			if pol == deepPolicyMix {
				pol = rng.Intn(3)
			}
			sels[c] = &sel{pol: pol, top: deepTop{w: w, k: w.K, far: pol == deepPolicyFarthest}}
		}
	}
	var kn []*simnet.Peer
	for i, y := range peers {
		c := w.cplBuf[i]
		if c == none {
			continue
		}
		sl := sels[c]
		switch {
		case sl == nil:
			kn = append(kn, y)
		case sl.pol == deepPolicyRandom: // uniform K-subset (reservoir)
			sl.seen++
			if len(sl.top.out) < w.K {
				sl.top.out = append(sl.top.out, y)
			} else if j := rng.Intn(sl.seen); j < w.K {
				sl.top.out[j] = y
			}
		default:
			sl.top.offer(y)
		}
	}
	for _, sl := range sels {
		if sl != nil {
			kn = append(kn, sl.top.out...)
		}
	}
	w.knows[x.ID] = kn
	return kn
}

// reply of x: the K nearest peers to the key among those it knows.
func (w *deepWorld) reply(x *simnet.Peer) []*simnet.Peer {
	return w.addrs(w.extreme(w.knowledge(x), w.K, false))
}

func runC02Deep(s *sim.Sim) {
	thorough := os.Getenv("VERIF_TIER") == "thorough"
	var c lookupCfg
	c.Universe = "kbucket"
	// K: small values make a path long relative to K; keep the larger ones too
	if s.Chance("k-big", 1, 3) {
		c.K = s.Range("k", 4, 8)
	} else {
		c.K = s.Range("k", 1, 3)
	}
	c.Alpha = s.Range("alpha", 1, 4)
	c.Beta = s.Range("beta", 1, c.K+1)
	// wide configurations (c02_wide.go): K beyond the small range, one run in six
	if s.Chance("wide-k", 1, 6) {
		c.K = s.Range("k-wide", c02SmallK+1, 32)
		c.Beta = s.Range("beta-wide", 1, c.K+1)
	}
	c.Key = fmt.Sprintf("key-%d", s.Draw("key", 1<<16))
	keyKad := simnet.KadOfKey(c.Key)

	nClasses := 3
	if thorough {
		nClasses = 5
	}
	class := s.Draw("deep-class", nClasses)
	thin := false
	var pool int
	switch class {
	case 0:
		pool = s.Range("n", 128, 1024)
	case 1:
		thin = true
		pool = 1 << uint(s.Range("pool-bits", 9, 15))
	case 2:
		pool = s.Range("n", 1024, 6144)
	case 3:
		thin = true
		pool = 1 << uint(s.Range("pool-bits", 16, 18))
	default:
		pool = s.Range("n", 6144, 40000)
	}
	policy := s.Draw("crowded-policy", 4)
	seedMode := s.Draw("seed-mode", 3)
	useed := uint64(s.Draw("universe", 1<<16))
	rng := newSubRng(s, "world")
	// patchy address knowledge (c02_bare.go): peers named without addresses,
	// seeds without a stored address; the host reaches peers by identity
	bare := drawBareWorld(s)
	bare.install(&c)
	// the order of the records in a reply (c02_wide.go); leftovers of earlier
	// encounters in the peerstore (c02_stale.go), noted lazily: for the seeds
	// before the lookup starts, for every other peer right before the first
	// reply that names it is delivered (nothing reads the notes earlier)
	order := drawReplyOrder(s)
	stale := drawStaleWorld(s)

	u := simnet.NewUniverse(useed, 0)
	w := &deepWorld{u: u, key: keyKad, K: c.K, policy: policy, seed: rng.next(), knows: map[peer.ID][]*simnet.Peer{}}
	// per common-prefix length with the key: how many peers a thin network keeps
	var quota [64]int
	for i := range quota {
		quota[i] = 1 + rng.Intn(c.K+2)
	}
	for i := 0; i < pool; i++ {
		id := deepID(useed, i)
		if thin {
			l := simnet.KadOfPeer(id).CPL(keyKad)
			if l >= len(quota) || quota[l] == 0 {
				continue
			}
			quota[l]--
		}
		p := u.Add(fmt.Sprintf("p%02d", len(u.Peers)), id, nil)
		w.dist = append(w.dist, p.Kad.Xor(keyKad))
	}
	c.N = len(u.Peers)
	real := u.Peers

	h, err := newH1(s, u, c.K, c.Alpha, c.Beta)
	if err != nil {
		panic(err)
	}
	o := &lookupObs{cfg: c, h: h, keyKad: keyKad}

	// seed routing table (non-empty)
	var seeds []*simnet.Peer
	switch seedMode {
	case 0: // a small random subset
		n := 1 + rng.Intn(min(len(real), 24))
		seen := map[int]bool{}
		for len(seeds) < n {
			i := rng.Intn(len(real))
			if !seen[i] {
				seen[i] = true
				seeds = append(seeds, real[i])
			}
		}
		sort.Slice(seeds, func(i, j int) bool { return seeds[i].Idx < seeds[j].Idx })
	case 1: // only the peer farthest from the key
		seeds = w.extreme(real, 1, true)
	default: // one random peer
		seeds = []*simnet.Peer{real[rng.Intn(len(real))]}
	}
	isSeed := map[peer.ID]bool{}
	o.seeded = map[peer.ID]bool{} // seeds whose address the peerstore holds
	var seedRecs []*simnet.Peer
	for _, p := range w.addrs(seeds) {
		isSeed[p.ID] = true
		cp := *p
		if c.SeedAddrs != nil {
			cp.Addrs = c.SeedAddrs(p)
		}
		if len(cp.Addrs) > 0 {
			o.seeded[p.ID] = true
		}
		seedRecs = append(seedRecs, &cp)
	}
	o.table = h.Seed(seedRecs)
	for _, p := range seeds {
		stale.note(h, p)
	}
	o.stampsPre = h.DHT.RoutingTable().GetTrackedCplsForRefresh()
	s.MaxSteps = 3000
	if c.K > c02SmallK {
		s.MaxSteps = 5000
	}

	evCtx, evCancel := context.WithCancel(context.Background())
	oldBuf := dht.LookupEventBufferSize
	dht.LookupEventBufferSize = 1 << 15
	regCtx, evCh := dht.RegisterForLookupEvents(evCtx)
	dht.LookupEventBufferSize = oldBuf
	drain := func() {
		for {
			select {
			case ev := <-evCh:
				if ev != nil {
					o.events = append(o.events, stampedEvent{s.Steps, ev})
				}
			default:
				return
			}
		}
	}

	// hops: number of peers that had answered when the globally nearest peer
	// was first named to the node under test (or was in its seed table: 0)
	nearest := w.extreme(real, 1, false)[0]
	answered, hopsToNearest := 0, -1
	if isSeed[nearest.ID] {
		hopsToNearest = 0
	}

	o.op = h.Ops.Go(s, "GetClosestPeers", func() (any, error) {
		r, err := h.DHT.GetClosestPeers(regCtx, c.Key)
		o.returnedAt = time.Now()
		return r, err
	})
	s.Quiesce()
	idle := 0
	for {
		drain()
		if !s.Step() || o.op.Done {
			break
		}
		if s.Chance("tick", 1, 8) {
			s.Sleep(time.Duration(1+s.Draw("tick-ms", 2000)) * time.Millisecond)
			s.Count("time_advance")
		}
		var acts []sim.Action
		for _, p := range s.Parked() {
			p := p
			switch p.Kind {
			case "dial":
				who := p.Data.(peer.ID)
				acts = append(acts, sim.Action{ID: p.ID, Do: func() {
					if u.ByID(who) == nil {
						s.Release(p, simhost.ErrDialFailed) // not a member of the network (never named by the harness)
						return
					}
					s.Release(p, nil)
					o.deliveries = append(o.deliveries, delivery{Step: s.Steps, Peer: who, Kind: "dial-ok"})
				}})
			case "rpc":
				r := p.Data.(*simnet.RPC)
				acts = append(acts, sim.Action{ID: p.ID, Do: func() {
					x := u.ByID(r.To)
					if x == nil || string(r.Req.GetKey()) != c.Key {
						s.Release(p, simnet.Reply{Err: errReqFailed})
						return
					}
					near := w.reply(x)
					answered++
					ids := simnet.IDs(near)
					for _, q := range near {
						if q == nearest && hopsToNearest < 0 {
							hopsToNearest = answered
						}
					}
					for _, q := range near {
						stale.note(h, q)
					}
					recs := order.arrange(x, simnet.ToPB(near))
					ids = ids[:0]
					for _, rec := range recs {
						ids = append(ids, peer.ID(rec.Id))
					}
					good := map[peer.ID]bool{} // named with an address
					for _, rec := range recs {
						if c.Present != nil {
							c.Present(x, rec)
						}
						if len(rec.Addrs) > 0 {
							good[peer.ID(rec.Id)] = true
						}
					}
					resp := &pb.Message{Type: r.Req.GetType(), Key: r.Req.GetKey(), CloserPeers: recs}
					s.Release(p, simnet.Reply{Msg: resp})
					o.deliveries = append(o.deliveries, delivery{Step: s.Steps, Peer: r.To, Kind: "reply", Peers: ids, Good: good, RPC: r})
				}})
			}
		}
		if len(acts) == 0 {
			idle++
			if idle > 30 {
				break
			}
			s.Sleep(time.Second)
			continue
		}
		idle = 0
		s.Choose("next", acts)
	}
	drain()
	o.stampsPost = h.DHT.RoutingTable().GetTrackedCplsForRefresh()

	shape := "uniform"
	if thin {
		shape = "thin"
	}
	s.Summary["cfg"] = fmt.Sprintf("deep shape=%s pool=%d N=%d K=%d alpha=%d beta=%d policy=%d seedMode=%d table=%d answered=%d hopsToNearest=%d bare=%s order=%s stale=%s",
		shape, pool, c.N, c.K, c.Alpha, c.Beta, policy, seedMode, len(o.table), answered, hopsToNearest, bare, order, stale)

	switch {
	case s.Failed():
	case !o.op.Done && s.Steps > s.MaxSteps:
		s.Summary["budget"] = "step budget exhausted"
		s.Count("step_budget_exhausted")
	case !o.op.Done:
		s.Violate("no-return", "GetClosestPeers did not return although nothing is parked and %d s of virtual time passed", idle)
	default:
		if o.op.Panic != "" {
			s.Violate("panic", "GetClosestPeers panicked: %s", firstLine(o.op.Panic))
		}
		res, _ := o.op.Result.([]peer.ID)
		s.Tracef("result %s err=%v answered=%d hops=%d", names(u, res), o.op.Err, answered, hopsToNearest)
		if !s.Failed() {
			checkC02(s, o, &c02Extras{stale: stale})
			s.Count("probe_deep_judged")
			if hopsToNearest >= 8 {
				s.Count("probe_deep_long_path")
			}
			if hopsToNearest >= 12 {
				s.Count("probe_deep_very_long_path")
			}
			if v, bad := o.view(); bad == "" {
				if len(v.learned) >= 32 {
					s.Count("probe_deep_wide_state")
				}
				if len(v.learned) >= 12*c.K {
					s.Count("probe_deep_wide_per_k")
				}
			}
			hb := hopsToNearest
			if hb > 4 {
				hb = 4 + hb/4
			}
			s.State("deep shape=%s policy=%d seed=%d hops~%d", shape, policy, seedMode, hb)
			s.NonTrivial = answered >= 2
		}
	}
	evCancel() // the event subscription ends with the operation
	h.closeAndCensus()
	s.Finish()
}
