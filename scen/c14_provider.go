//go:build all || c14

package scen

// C14 scenarios for the sweeping provider and its wrappers:
// "sweeping-provider" (router stub + parking sender + parking datastores),
// "sweeping-provider-tight" (the same with more recipients per batch than the
// provider serves at a time, see c14_provider_tight.go),
// "buffered-provider" (buffered.New around a sweeping provider) and
// "dual-provider" (provider/dual.New on a real dual.DHT).
//
// Environment seams besides router, sender and datastores:
//
//   - the caller's keystore may be slow (drawn, "slow-keystore"): its Put and
//     Delete - the calls StartProviding / StopProviding make on the caller's
//     goroutine, or the buffering worker on its behalf - park (kind "ks").
//     Without it no public operation of a provider ever waits for anything, so
//     none is ever in flight at Close and the buffering worker is never busy
//     while further operations queue up behind it. Clause: "Close ... is safe
//     while operations are in flight: those operations finish or fail" (rules
//     op-hang, op-panic, close-hang of c14.go) and, for the buffered wrapper,
//     "returns only after all goroutines the instance started have exited"
//     (close-early, close-live-call: the worker is one of them).
//   - buffered-provider: the datastore of the operation queue may be broken
//     from the moment Close is called (drawn, "qds-at-close"): every operation
//     on it then either fails, or hangs - it is not answered until its context
//     is done or a drawn time has passed. Close of the wrapper still has to
//     stop everything it owns: the queue, the wrapped provider and its own
//     worker ("Close on every component (... sweeping provider and its
//     wrappers ...) returns only after all goroutines the instance started
//     have exited", whatever its own return value: rules close-early,
//     close-live-call, leak, close-hang of c14.go). Faults of a shutdown path
//     are the class this exposes: a Close that gives up half-way when one of
//     its steps reports an error.
//   - a node without addresses ("no-self-addrs") is asked for them by every
//     batch; the answer "none" makes the batch ask for a connectivity check,
//     which the provider's checker only starts if none is running (a TryLock).
//     The checker runs the node's come-back work while it still holds that
//     lock, and the batches this work starts would reach the TryLock in the
//     very instant the checker lets go of it: the Go scheduler then decides
//     whether a check is started (HARNESS pitfall 3; this was the source of the
//     rare second trace of sweeping-provider run 16201 and buffered-provider
//     run 4404 of seed 1). The address callback is therefore a seam of its own
//     (kind "addrs"): the batch waits there until the scheduler lets it go on,
//     so the request for a check is made in a step of its own, never in the
//     step in which the checker finishes.
//
// Timers. The provider arms timers of several kinds (retry ticker, reprovide
// schedule, connectivity back-off, offline delay, retry sleeps of the
// prefix-length probes); two of them that expire in the same virtual instant
// wake their goroutines in Go-scheduler order, and two of them in one select
// are picked at random (HARNESS pitfalls 3 and 4). Every duration this file
// chooses - intervals, delays and the strides in which virtual time advances
// - is therefore an odd number of milliseconds without a common factor with
// the others, so that timers of different kinds do not meet (the reprovide
// schedule puts the region with the empty prefix at whole multiples of the
// interval after the start: with a round interval that instant was also a
// tick of the retry ticker).

import (
	"context"
	"fmt"
	"runtime"
	"strings"
	"time"

	dht "github.com/libp2p/go-libp2p-kad-dht"
	"github.com/libp2p/go-libp2p-kad-dht/dual"
	pb "github.com/libp2p/go-libp2p-kad-dht/pb"
	"github.com/libp2p/go-libp2p-kad-dht/provider"
	"github.com/libp2p/go-libp2p-kad-dht/provider/buffered"
	dualprov "github.com/libp2p/go-libp2p-kad-dht/provider/dual"
	"github.com/libp2p/go-libp2p-kad-dht/provider/keystore"
	"github.com/libp2p/go-libp2p/core/peer"
	"github.com/libp2p/go-libp2p/core/protocol"
	ma "github.com/multiformats/go-multiaddr"
	mh "github.com/multiformats/go-multihash"

	"verif/sim"
	"verif/simds"
	"verif/simhost"
	"verif/simnet"
)

func init() {
	stub := []string{"router (stub: every GetClosestPeers parks)", "pb.MessageSender (level A: every ADD_PROVIDER parks)", "datastores (simds: operations park)", "host (simhost)", "crypto/rand (constant per run)"}
	faults := append([]string{"fault_rpc_error", "fault_gcp_error", "probe_close_provide_inflight", "probe_close_gcp_parked", "probe_close_offline", "probe_close_online", "probe_cfg_own_keystore", "probe_cfg_no_schedule", "probe_cfg_no_host",
		"probe_cfg_slow_keystore", "probe_close_op_in_keystore", "probe_cfg_no_self_addrs", "probe_batch_asked_for_addrs", "probe_caller_keystore_closed"}, c14CommonFaults...)
	sim.Register(&sim.Scenario{Prop: "C14", Name: "sweeping-provider", Weight: 3, Run: func(s *sim.Sim) { runC14Provider(s, false, false, false) },
		Real:   []string{"provider.New / SweepingProvider.Close (done channel, wait-group guard lock, worker pool closed before waiting, cleanup functions)", "connectivity checker", "provide/reprovide loops, batch and individual provides in flight", "keystore (default or caller-supplied)"},
		Stub:   stub,
		Faults: faults,
	})
	sim.Register(&sim.Scenario{Prop: "C14", Name: "buffered-provider", Weight: 3, Run: func(s *sim.Sim) { runC14Provider(s, true, false, false) },
		Real:   []string{"buffered.New / worker / Close (queue closed, wrapped provider closed, worker joined)", "go-dsqueue", "provider.SweepingProvider underneath"},
		Stub:   stub,
		Faults: append([]string{"probe_close_batch_in_worker", "probe_close_worker_busy_ops_queued", "fault_qds_error_at_close", "fault_qds_stall_at_close", "probe_qds_stall_outlasted", "probe_close_returned_error"}, faults...),
	})
	sim.Register(&sim.Scenario{Prop: "C14", Name: "dual-provider", Weight: 2, Run: runC14DualProvider,
		Real:   []string{"provider/dual.New / SweepingProvider.Close (both providers in parallel, then owned keystore and datastore)", "two provider.SweepingProvider on a real dual.DHT (router = IpfsDHT.GetClosestPeers, local record = IpfsDHT.Provide)"},
		Stub:   []string{"host (simhost)", "pb.MessageSenders (level A, WAN/LAN)", "remote peers (honest scripted answers)", "datastores (simds)", "crypto/rand (constant per run)"},
		Faults: append([]string{"fault_rpc_error", "probe_close_provide_inflight", "probe_close_online", "probe_close_offline", "probe_cfg_own_keystore", "probe_caller_keystore_closed"}, c14CommonFaults...),
	})
}

// c14Router is the closest-peers router stub.
type c14Router struct {
	s     *sim.Sim
	u     *simnet.Universe
	known map[string]string
}

func (r *c14Router) GetClosestPeers(ctx context.Context, key string) ([]peer.ID, error) {
	tag, ok := r.known[key]
	if !ok {
		tag = "rnd"
		// Look-ups of a region exploration are labelled by the kind of batch and
		// by the first 16 bits of their target: several batches begin to explore
		// their regions in the same step (all regions that are due when the node
		// comes online), and under one label their look-ups would be told apart
		// by the order in which the goroutines happened to arrive (HARNESS
		// pitfall 2) although they belong to different regions. The target of an
		// exploration look-up is a function of the prefix explored (a preimage
		// table), not a random value. The four prefix-length probes keep the
		// common label: they are interchangeable (see c14Reader).
		var pcs [16]uintptr
		frames := runtime.CallersFrames(pcs[:runtime.Callers(2, pcs[:])])
		explore, who := false, "p"
		for {
			fr, more := frames.Next()
			switch {
			case strings.Contains(fr.Function, "closestPeersToPrefix"):
				explore = true
			case strings.Contains(fr.Function, "batchReprovide"):
				who = "r"
			}
			if !more {
				break
			}
		}
		if explore {
			kk := simnet.KadOfKey(key)
			tag = fmt.Sprintf("x%s%02x%02x", who, kk[0], kk[1])
		}
	}
	out, cerr := r.s.Park("gcp", tag+sim.TagOf(ctx), ctx, key)
	if cerr != nil {
		return nil, cerr
	}
	switch o := out.(type) {
	case error:
		return nil, o
	case []peer.ID:
		return o, nil
	}
	return nil, nil
}

// Durations of the provider scenarios: odd numbers of milliseconds, pairwise
// without a common factor and without a common factor with the provider's own
// periods (see "Timers" in the header comment).
const (
	c14ReprovShort  = 3607013 * time.Millisecond  // about an hour
	c14ReprovLong   = 79201037 * time.Millisecond // about 22 hours
	c14OfflineLong  = 7207019 * time.Millisecond  // about two hours
	c14OfflineShort = 61007 * time.Millisecond    // about a minute
	c14CheckEvery   = 59003 * time.Millisecond    // connectivity checks at most this often
)

// c14ProvDts: the strides of virtual time of the provider scenarios, each a
// little longer than one class of the provider's periods (retry sleeps of a
// second, checks and delays of a minute, the retry ticker, the short
// reprovide interval).
var c14ProvDts = []time.Duration{1009 * time.Millisecond, 61051 * time.Millisecond, 307093 * time.Millisecond, 3611117 * time.Millisecond}

// c14ProvDrainDts: the strides of the drain phases of the provider scenarios.
var c14ProvDrainDts = [2]time.Duration{1013 * time.Millisecond, 30011 * time.Millisecond}

// c14SlowKeystore is a caller's keystore whose writes take time: Put and
// Delete park (kind "ks") before they reach the real keystore; a call whose
// context ends while it waits fails with the context's error, as a keystore
// on a slow disk would.
type c14SlowKeystore struct {
	keystore.Keystore
	s *sim.Sim
}

func (k *c14SlowKeystore) Put(ctx context.Context, keys ...mh.Multihash) ([]mh.Multihash, error) {
	if _, cerr := k.s.Park("ks", "put"+sim.TagOf(ctx), ctx, nil); cerr != nil {
		return nil, cerr
	}
	return k.Keystore.Put(ctx, keys...)
}

func (k *c14SlowKeystore) Delete(ctx context.Context, keys ...mh.Multihash) error {
	if _, cerr := k.s.Park("ks", "delete"+sim.TagOf(ctx), ctx, nil); cerr != nil {
		return cerr
	}
	return k.Keystore.Delete(ctx, keys...)
}

// c14NoAddrs is the address callback of a node without addresses: the batch
// that asks waits (kind "addrs", labelled by the kind of batch) until the
// scheduler lets it have the answer "none". See the header comment.
func c14NoAddrs(s *sim.Sim) func() []ma.Multiaddr {
	return func() []ma.Multiaddr {
		who := "provide"
		var pcs [24]uintptr
		frames := runtime.CallersFrames(pcs[:runtime.Callers(2, pcs[:])])
		for {
			fr, more := frames.Next()
			switch {
			case strings.Contains(fr.Function, "handleReprovide"):
				who = "scheduled"
			case strings.Contains(fr.Function, "reprovideLateRegions"):
				who = "late"
			}
			if !more {
				break
			}
		}
		s.Count("probe_batch_asked_for_addrs")
		s.Park("addrs", who, nil, nil)
		return nil
	}
}

// c14ProvCfg is a drawn provider configuration.
type c14ProvCfg struct {
	repl                int
	reprovide           time.Duration
	workers, per, burst int
	offlineDelay        time.Duration
	ownKeystore, ownDS  bool
	resume, skipBoot    bool
	withHost, selfAddrs bool
	gcpFault, rpcFault  int
	parkDS              bool
	// slowKeystore: the caller's keystore parks its writes (c14SlowKeystore)
	slowKeystore bool
}

func c14DrawProvCfg(s *sim.Sim) c14ProvCfg {
	var c c14ProvCfg
	c.repl = s.Range("repl", 1, 3)
	c.reprovide = []time.Duration{c14ReprovShort, 0, c14ReprovLong}[s.Draw("reprovide", 3)]
	switch s.Draw("workers", 3) {
	case 0:
		c.workers, c.per, c.burst = 16, 2, 1
	case 1:
		c.workers, c.per, c.burst = 1, 0, 0
	default:
		c.workers, c.per, c.burst = 2, 1, 1
	}
	c.offlineDelay = []time.Duration{c14OfflineLong, 0, c14OfflineShort}[s.Draw("offline-delay", 3)]
	c.ownKeystore = s.Chance("own-keystore", 1, 2)
	c.ownDS = s.Chance("own-ds", 1, 2)
	c.resume = s.Chance("resume", 1, 2)
	c.skipBoot = s.Chance("skip-bootstrap-reprovide", 1, 3)
	c.withHost = !s.Chance("no-host", 1, 4)
	c.selfAddrs = !s.Chance("no-self-addrs", 1, 6)
	c.gcpFault = []int{0, 6}[s.Draw("gcp-faults", 2)]
	c.rpcFault = []int{0, 6}[s.Draw("rpc-faults", 2)]
	c.parkDS = s.Chance("park-ds", 1, 2)
	c.slowKeystore = s.Chance("slow-keystore", 2, 3) && c.ownKeystore
	return c
}

// runC14Provider: tight selects the "sweeping-provider-tight" variant (see
// c14_provider_tight.go): more recipients per batch than the provider may
// serve at a time.
//
// reset selects the "sweeping-provider-reset" variant (see
// c14_provider_reset.go): the caller's keystore is a ResettableKeystore that
// the caller resets and whose schedule it then refreshes, on a slow disk.
func runC14Provider(s *sim.Sim, buffer, tight, reset bool) {
	s.MaxSteps = 900
	defer c14ConstRand(s)()
	if reset {
		// only this variant: the other scenarios keep the plain lock hook
		c14InstallRWPref(s)
	}
	name := "sweeping-provider"
	if buffer {
		name = "buffered-provider"
	}
	if tight {
		name = "sweeping-provider-tight"
	}
	if reset {
		name = "sweeping-provider-reset"
	}
	cfg := c14DrawProvCfg(s)
	if reset {
		c14ResetVariantCfg(&cfg)
	}
	n := s.Range("peers", 1, 5)
	conns := 8 // >= peers: the per-peer jobs start together
	if tight {
		// every peer is a recipient of every key, and only conns of them are
		// served at a time; no failing sends (see c14AnonSender)
		n = s.Range("tight-peers", 3, 7)
		cfg.repl = n
		cfg.rpcFault = 0
		cfg.slowKeystore = false
		conns = s.Range("tight-conns", 1, 2)
	}
	u := simnet.NewUniverse(uint64(s.Draw("universe", 1<<16)), n)
	h := simhost.New(s, u.Self.ID, u.Self.Addrs, u.Name)
	w := &c14World{s: s, u: u, hosts: []*simhost.Host{h}, rpcFault: cfg.rpcFault}
	known := map[string]string{string(u.Self.ID): "self"}
	for i := 0; i < 8; i++ {
		known[string(c14MH(i))] = fmt.Sprintf("k%d", i)
	}
	rt := &c14Router{s: s, u: u, known: known}
	var snd pb.MessageSender = &simnet.Sender{S: s, U: u}
	var anon *c14AnonSender
	if tight {
		anon = &c14AnonSender{s: s}
		snd = anon
	}
	var dss []*simds.DS
	mk := func(n string) *simds.DS {
		d := simds.New(s, n)
		dss = append(dss, d)
		return d
	}

	f := newC14Flow(s, name)
	f.dts = c14ProvDts
	f.drainDts = c14ProvDrainDts
	f.tickQuietOnly = true
	f.tickChunk = c14ProvDts[1]
	if cfg.reprovide == c14ReprovShort {
		// the reprovide cycle is reached in 5-minute strides: a single jump over
		// the whole interval queues several regions behind one parked look-up,
		// and which of the goroutines waiting for the worker pool wins it when it
		// is released is the Go scheduler's
		f.dts = c14ProvDts[:3]
	}
	if buffer {
		// the reprovide cycle is the plain provider scenario's business; behind
		// the buffering worker its start order proved not to be replayable
		f.dts = c14ProvDts[:3]
		if cfg.reprovide == c14ReprovShort {
			cfg.reprovide = c14ReprovLong
		}
	}
	f.answer = func(p *sim.Parked, drain bool) {
		if p.Kind == "gcp" {
			if !drain && cfg.gcpFault > 0 && s.Chance("gcp-fail", 1, cfg.gcpFault) {
				s.Count("fault_gcp_error")
				s.Release(p, errReqFailed)
				return
			}
			key, _ := p.Data.(string)
			s.Release(p, simnet.IDs(simnet.Nearest(u.Peers, simnet.KadOfKey(key), cfg.repl)))
			return
		}
		w.answer(p, drain)
	}
	// a caller-supplied keystore belongs to the caller: it exists before the
	// baseline and is closed after the census
	var ownKS keystore.Keystore
	var rv *c14ResetVariant
	if reset {
		s.Count("probe_cfg_own_keystore")
		rv = newC14ResetVariant(s, f, mk("ksds"))
		ownKS = rv.rks
	} else if cfg.ownKeystore {
		s.Count("probe_cfg_own_keystore")
		var err error
		ownKS, err = keystore.NewKeystore(mk("ksds"), keystore.WithBatchSize(2))
		if err != nil {
			panic(err)
		}
	}
	if ownKS != nil {
		// the datastore under the caller's keystore is only ever used by that
		// keystore's own worker
		f.callers = func(p *sim.Parked) bool {
			op, _ := p.Data.(*simds.Op)
			return p.Kind == "ds" && op != nil && op.DS != nil && op.DS.Name == "ksds"
		}
	}
	f.baseline()
	// what the provider is given: the caller's keystore itself or a slow one
	givenKS := ownKS
	if cfg.slowKeystore {
		s.Count("probe_cfg_slow_keystore")
		givenKS = &c14SlowKeystore{Keystore: ownKS, s: s}
	}

	opts := []provider.Option{
		provider.WithRouter(rt),
		provider.WithMessageSender(snd),
		provider.WithReplicationFactor(cfg.repl),
		provider.WithReprovideInterval(cfg.reprovide),
		provider.WithMaxWorkers(cfg.workers),
		provider.WithDedicatedPeriodicWorkers(cfg.per),
		provider.WithDedicatedBurstWorkers(cfg.burst),
		provider.WithMaxProvideConnsPerWorker(conns),
		provider.WithOfflineDelay(cfg.offlineDelay),
		provider.WithConnectivityCheckOnlineInterval(c14CheckEvery),
		provider.WithResumeCycle(cfg.resume),
		provider.WithSkipBootstrapReprovide(cfg.skipBoot),
	}
	if cfg.selfAddrs {
		opts = append(opts, provider.WithSelfAddrs(func() []ma.Multiaddr { return u.Self.Addrs }))
	} else {
		s.Count("probe_cfg_no_self_addrs")
		opts = append(opts, provider.WithSelfAddrs(c14NoAddrs(s)))
	}
	if cfg.withHost {
		opts = append(opts, provider.WithHost(h))
	} else {
		s.Count("probe_cfg_no_host")
		opts = append(opts, provider.WithPeerID(u.Self.ID))
	}
	if ownKS != nil {
		opts = append(opts, provider.WithKeystore(givenKS))
	}
	if cfg.ownDS {
		opts = append(opts, provider.WithDatastore(mk("pds")))
	}
	if cfg.reprovide == 0 {
		s.Count("probe_cfg_no_schedule")
	}
	sp, err := provider.New(opts...)
	if err != nil {
		panic(err)
	}
	var bp *buffered.SweepingProvider
	// the datastore of the buffered wrapper's operation queue. Healthy while the
	// workload runs (its operations do not even park: the queue's worker selects
	// over several channels, and a worker that sits in a parked operation finds
	// more than one of them ready when it comes back). From the moment Close is
	// called it is healthy (0), fails every operation (1) or hangs (2): an
	// operation is answered only when its context is done or qdsStallFor has
	// passed since the harness first saw it.
	var qds *simds.DS
	qdsMode, qdsStallFor := 0, time.Duration(0)
	qdsSeen := map[string]time.Duration{}
	if buffer {
		qds = simds.New(s, "qds")
		bp = buffered.New(sp, qds,
			buffered.WithBatchSize([]int{1, 2, 1 << 10}[s.Draw("b-batch", 3)]),
			buffered.WithIdleWriteTime([]time.Duration{60013 * time.Millisecond, 0, 1013 * time.Millisecond}[s.Draw("b-idle", 3)]))
		qdsMode = []int{0, 1, 2, 2}[s.Draw("qds-at-close", 4)]
		if qdsMode == 2 {
			qdsStallFor = []time.Duration{3011 * time.Millisecond, 47017 * time.Millisecond, 181003 * time.Millisecond}[s.Draw("qds-stall", 3)]
		}
		isQds := func(p *sim.Parked) bool {
			op, _ := p.Data.(*simds.Op)
			return p.Kind == "ds" && op != nil && op.DS == qds
		}
		inner := f.answer
		f.answer = func(p *sim.Parked, drain bool) {
			if isQds(p) && qdsMode == 1 {
				s.Count("fault_qds_error_at_close")
				s.Release(p, simds.ErrInjected)
				return
			}
			inner(p, drain)
		}
		if qdsMode == 2 {
			f.stall = func(p *sim.Parked) bool {
				if !isQds(p) {
					return false
				}
				t0, ok := qdsSeen[p.ID]
				if !ok {
					t0 = s.Now()
					qdsSeen[p.ID] = t0
					s.Count("fault_qds_stall_at_close")
				}
				return s.Now()-t0 < qdsStallFor
			}
		}
	}
	s.Quiesce()
	f.strict = true
	f.constructed(rv != nil && rv.settle)
	if cfg.parkDS {
		for _, d := range dss {
			// (the caller's keystore serialises concurrent requests of the
			// provider's goroutines behind its worker, in arrival order: parking
			// its datastore would expose that order)
			if d.Name != "ksds" {
				d.ParkOp = func(op, key string) bool { return true }
			}
		}
	}
	s.Summary["cfg"] = fmt.Sprintf("%+v peers=%d buffered=%v tight=%v conns=%d qds=%d/%v", cfg, n, buffer, tight, conns, qdsMode, qdsStallFor)
	if c14Debug {
		s.Tracef("DEBUG cfg %s", s.Summary["cfg"])
	}

	type api interface {
		StartProviding(force bool, keys ...mh.Multihash) error
		ProvideOnce(keys ...mh.Multihash) error
		StopProviding(keys ...mh.Multihash) error
		Clear() int
		RefreshSchedule() error
	}
	var p api = sp
	if buffer {
		p = bp
	}
	// Keys of one call that fall into different keyspace regions are queued in
	// map-iteration order; with a worker pool that cannot start all of them at
	// once that order decides which lookups begin first. Small pools therefore
	// get one key per call (calls are separate steps; the queue still fills up
	// and workers still block on the pool), the large pool gets several.
	pick := func() []mh.Multihash {
		var out []mh.Multihash
		n := 1
		if cfg.workers >= 16 && !buffer {
			// (the buffered wrapper enqueues the keys of a call one by one while
			// its worker already dequeues: how a multi-key call is split into
			// batches is the Go scheduler's)
			n = s.Range("nkeys", 1, 5)
		}
		for i := 0; i < n; i++ {
			out = append(out, c14MH(s.Draw("mh", 8)))
		}
		return out
	}
	for i, ni := 0, s.Range("ops", 1, 5); i < ni; i++ {
		switch s.Draw("op", 6) {
		case 0, 1:
			keys, force := pick(), s.Chance("force", 1, 3)
			f.client("startproviding", func(ctx context.Context) (any, error) { return nil, p.StartProviding(force, keys...) })
		case 2:
			keys := pick()
			f.client("provideonce", func(ctx context.Context) (any, error) { return nil, p.ProvideOnce(keys...) })
		case 3:
			keys := pick()
			f.client("stopproviding", func(ctx context.Context) (any, error) { return nil, p.StopProviding(keys...) })
		case 4:
			f.client("refreshschedule", func(ctx context.Context) (any, error) { return nil, p.RefreshSchedule() })
		default:
			f.client("clear", func(ctx context.Context) (any, error) { return p.Clear(), nil })
		}
	}
	if rv != nil {
		rv.clients(p.RefreshSchedule)
	}
	// queuedBehind: the caller's keystore holds a write of the instance right
	// now, and since that write began further queueing operations (start / stop
	// providing, provide once) have returned to their callers. Behind the
	// buffered wrapper these are operations its worker has not taken yet.
	ksSeen, doneAtKs := "", 0
	nQueued := func() int {
		n := 0
		for _, c := range f.clients {
			if c.started && c.op.Done && (c.name == "startproviding" || c.name == "provideonce" || c.name == "stopproviding") {
				n++
			}
		}
		return n
	}
	observeKS := func() {
		ks := s.ParkedKind("ks")
		if len(ks) == 0 {
			ksSeen = ""
		} else if ks[0].ID != ksSeen {
			ksSeen, doneAtKs = ks[0].ID, nQueued()
		}
	}
	f.extra = func() []sim.Action { observeKS(); return nil }
	// The worker pool wakes all goroutines that wait for a worker when one is
	// released and lets them race for it (a condition variable): with two
	// waiters the Go scheduler decides which batch runs next (HARNESS pitfall
	// 8). At most three goroutines can wait at all - the provide loop, the loop
	// that catches up late regions, a scheduled reprovide - and each is started
	// by an event the scheduler owns: a provide-type operation reaching the
	// provider (the caller's call, or the slow keystore letting it go on), a
	// successful connectivity probe (the come-back work), a timer (time only
	// moves while nothing is parked, and a jump ends when something parks).
	// While one goroutine waits for a worker, the first two kinds of events are
	// held back, so that a second waiter does not appear; one waiter, and Close
	// arriving while it waits, are generated as before.
	waiters := func() int { return provider.VerifPoolQueued(sp) }
	f.mayStart = func(c *c14Client) bool {
		switch c.name {
		case "startproviding", "provideonce":
			if waiters() > 0 {
				return false
			}
		}
		if rv != nil && !rv.mayStart(c, waiters()) {
			return false
		}
		if c.name == "provideonce" && buffer && cfg.slowKeystore {
			// Behind the buffering worker a provide-once does not pass through the
			// keystore: queued behind a start-providing that sits in the slow
			// keystore, it would reach the provider in the very step in which the
			// provide loop started by that operation looks at the queue - whether
			// the loop still sees its key is the Go scheduler's (the old limitation
			// of multi-key calls, see pick above). It is only started while the
			// worker is idle.
			return len(s.ParkedKind("ks")) == 0
		}
		return true
	}
	// the come-back work runs on the checker's goroutine from the successful
	// probe through the prefix-length probes and the two reads of the reprovide
	// history; its last act is to start the catch-up loop
	comeBack := func(p *sim.Parked) bool {
		switch p.Kind {
		case "gcp":
			return strings.HasPrefix(p.ID, "gcp:self") || strings.HasPrefix(p.ID, "gcp:rnd")
		case "ds":
			op, _ := p.Data.(*simds.Op)
			return op != nil && op.Op == "query" && strings.Contains(op.Key, "history")
		}
		return false
	}
	f.enabled = func(p *sim.Parked) bool {
		if p.Kind == "ks" || comeBack(p) || (rv != nil && rv.startsCatchUp(p)) {
			return waiters() == 0
		}
		return true
	}
	// In two thirds of the runs that can get there, Close is aimed at the instant
	// at which the buffering worker is busy and operations wait behind it.
	if buffer && cfg.slowKeystore && s.Chance("aim-close-worker-busy", 2, 3) {
		f.closeNow = func() bool { observeKS(); return ksSeen != "" && nQueued() > doneAtKs }
	}
	f.atClose = func() {
		if rv != nil {
			rv.atClose(sp)
		}
		observeKS()
		if ksSeen != "" {
			s.Count("probe_close_op_in_keystore")
			if buffer && nQueued() > doneAtKs {
				s.Count("probe_close_worker_busy_ops_queued")
			}
		}
		if qdsMode != 0 {
			qds.ParkOp = func(op, key string) bool { return true }
		}
		addProv := false
		for _, q := range s.ParkedKind("rpc") {
			if r := q.Data.(*simnet.RPC); r.Req.GetType() == pb.Message_ADD_PROVIDER {
				addProv = true
			}
		}
		if addProv {
			s.Count("probe_close_provide_inflight")
		}
		if len(s.ParkedKind("gcp")) > 0 {
			s.Count("probe_close_gcp_parked")
		}
		gcpKeyed := false
		for _, q := range s.ParkedKind("gcp") {
			if !containsStr(q.ID, "self") {
				gcpKeyed = true
			}
		}
		if addProv || gcpKeyed {
			s.Count("probe_close_online")
		} else {
			s.Count("probe_close_offline")
		}
		if buffer && len(s.ParkedKind("ds")) > 0 {
			s.Count("probe_close_batch_in_worker")
		}
		if tight && addProv {
			s.Count("probe_close_tight_batch_inflight")
			if anon.pendingRecipients(n) > conns {
				s.Count("probe_close_recipients_exceed_conns")
			}
		}
	}
	if buffer {
		f.closeFn = bp.Close
	} else {
		f.closeFn = sp.Close
	}
	f.closeAt = s.Range("close-at", 0, 60)
	f.interleave = s.Draw("interleave", 12)
	if rv != nil {
		rv.aimClose()
	}
	f.run()
	if c14Debug && f.closeOp != nil {
		s.Tracef("DEBUG close done=%v err=%v", f.closeOp.Done, f.closeOp.Err)
	}
	if qdsMode != 0 && f.closeOp != nil && f.closeOp.Done && f.closeOp.Err != nil && strings.Contains(f.closeOp.Err.Error(), "not written") {
		// the broken queue datastore cost queued operations, and the caller of
		// Close was told (probe only; the wording is the queue's)
		s.Count("probe_close_returned_error")
		for _, t0 := range qdsSeen {
			if qdsStallFor > 0 && f.closeOp.DoneAt-t0 < qdsStallFor {
				// the wrapper stopped waiting before the datastore came back
				s.Count("probe_qds_stall_outlasted")
				break
			}
		}
	}
	c14Teardown(s, f, func() {
		if ownKS != nil {
			// the caller owns a keystore it supplied
			var ops opSet
			op := ops.Go(s, "close-own-keystore", func() (any, error) { return nil, ownKS.Close() })
			c14JudgeCallerKeystoreClose(s, f, op)
		}
		_ = h.Close()
	})
	s.Finish()
}

// c14JudgeCallerKeystoreClose: the caller closes the keystore it supplied,
// after the provider that used it was closed. The provider's goroutines were
// callers of that keystore, and the context they called it with ended with the
// provider's Close - possibly while the keystore was executing the call on a
// slow disk (sweeping-provider-reset). Clause: "Close on every component (...
// keystores) returns ..., and is safe while operations are in flight: those
// operations finish or fail without panic or deadlock" - rules close-hang and
// close-panic of c14.go, applied to the keystore's Close: everything parked is
// released, nothing is parked and B later it has not returned.
func c14JudgeCallerKeystoreClose(s *sim.Sim, f *c14Flow, op *Op) {
	s.Count("probe_caller_keystore_closed")
	if s.Failed() || f.closeOp == nil || !f.closeOp.Done {
		// a violation was reported already (e.g. the provider's own Close hangs)
		f.drain(func() bool { return op.Done })
		return
	}
	if !f.drain(func() bool { return op.Done }) {
		s.Violate("close-hang", "%s: the caller's keystore - used by the provider until its Close - did not return from its own Close although every parked call was released and %v of virtual time passed with nothing parked", f.name, c14B)
		return
	}
	if op.Panic != "" {
		s.Violate("close-panic", "%s: Close of the caller's keystore panicked: %s", f.name, firstLine(op.Panic))
	}
}

func runC14DualProvider(s *sim.Sim) {
	s.MaxSteps = 1200
	defer c14ConstRand(s)()
	// At most one peer per side: the providers run their look-ups through the
	// real DHTs, four of them at a time; with one peer every look-up is exactly
	// one request, so the concurrent look-ups stay independent of each other.
	n := s.Range("peers", 1, 2)
	u, wan, lan := c14DualUniverse(s, n)
	if len(wan) > 1 {
		wan = wan[:1]
	}
	if len(lan) > 1 {
		lan = lan[:1]
	}
	h := simhost.New(s, u.Self.ID, u.Self.Addrs, u.Name)
	k := s.Range("k", 1, 3)
	// No failing requests here: a failed query evicts the peer, and once a
	// routing table is empty every lookup fails at once; the provider then
	// re-queues and retries the region in a loop that never blocks until its
	// connectivity check is due again (one minute later) - in real time a busy
	// loop, under the virtual clock a run that never becomes quiescent.
	w := &c14World{s: s, u: u, hosts: []*simhost.Host{h}, k: k}
	ownKeystore := s.Chance("own-keystore", 1, 2)
	parkDS := s.Chance("park-ds", 1, 2)
	ownDS := s.Draw("own-ds", 3) // 0 none, 1 shared (namespaced), 2 separate LAN/WAN

	f := newC14Flow(s, "dual-provider")
	f.dts = []time.Duration{101 * time.Millisecond, 1009 * time.Millisecond, 61051 * time.Millisecond}
	f.drainDts = c14ProvDrainDts
	f.tickQuietOnly = true
	f.answer = w.answer
	var dss []*simds.DS
	mk := func(n string) *simds.DS {
		d := simds.New(s, n)
		dss = append(dss, d)
		return d
	}
	var ownKS keystore.Keystore
	if ownKeystore {
		s.Count("probe_cfg_own_keystore")
		var err error
		ownKS, err = keystore.NewKeystore(mk("ksds"), keystore.WithBatchSize(2))
		if err != nil {
			panic(err)
		}
	}
	f.baseline()

	sender := func(protos []protocol.ID) pb.MessageSenderWithDisconnect {
		label := "wan:"
		if c14IsLan(protos) {
			label = "lan:"
		}
		return &simnet.Sender{S: s, U: u, Label: label}
	}
	dcfg := c14DHTCfg{mode: dht.ModeClient, k: k, alpha: 2, beta: 1}
	var dssDHT []*simds.DS
	d, err := dual.New(h, dual.WanDHTOption(dcfg.options(s, u, "wan-", &dssDHT, sender)...), dual.LanDHTOption(dcfg.options(s, u, "lan-", &dssDHT, sender)...))
	if err != nil {
		panic(err)
	}
	s.Quiesce()
	// every peer is connected already: the providers' concurrent look-ups
	// (untagged contexts) would otherwise dial the same peer under one label
	for _, p := range u.Peers {
		h.Net().SetConnected(p.ID, true)
		h.Net().SetRemoteAddr(p.ID, p.Addrs[0])
	}
	c14SeedDual(s, h, d, wan, lan)
	// responders only name the (seeded) peer of their own side: the tables do
	// not change while look-ups start (see runC14DHT)
	w.closer = func(p *sim.Parked) []*simnet.Peer {
		if containsStr(p.ID, "lan:") {
			return lan
		}
		return wan
	}

	popts := []dualprov.Option{
		dualprov.WithReprovideInterval([]time.Duration{c14ReprovLong, 0}[s.Draw("reprovide", 2)]),
		dualprov.WithMaxProvideConnsPerWorker(8),
		dualprov.WithOfflineDelay([]time.Duration{c14OfflineLong, 0}[s.Draw("offline-delay", 2)]),
		dualprov.WithResumeCycle(s.Chance("resume", 1, 2)),
	}
	if ownKS != nil {
		popts = append(popts, dualprov.WithKeystore(ownKS))
	}
	switch ownDS {
	case 1:
		popts = append(popts, dualprov.WithDatastore(mk("pds")))
	case 2:
		popts = append(popts, dualprov.WithDatastoreLAN(mk("pds-lan")), dualprov.WithDatastoreWAN(mk("pds-wan")))
	}
	// the long-lived goroutines of the providers only: re-base on the running DHT
	s.Quiesce()
	f.baseEntries = map[string]int{}
	for _, g := range c14Goroutines() {
		f.baseEntries[g.entry]++
	}
	dp, err := dualprov.New(d, popts...)
	if err != nil {
		panic(err)
	}
	s.Quiesce()
	f.constructed(false)
	if parkDS {
		// only the providers' own datastores park: the DHTs' provider stores take
		// their lock around the datastore write, and which of two concurrent
		// local-record writes gets the lock first is the Go scheduler's
		_ = dssDHT
		for _, x := range dss {
			if x.Name != "ksds" {
				x.ParkOp = func(op, key string) bool { return true }
			}
		}
	}
	s.Summary["cfg"] = fmt.Sprintf("peers=%d wan=%d lan=%d K=%d ownKS=%v ownDS=%d parkDS=%v", n, len(wan), len(lan), k, ownKeystore, ownDS, parkDS)

	pick := func() []mh.Multihash {
		var out []mh.Multihash
		for i, ni := 0, s.Range("nkeys", 1, 4); i < ni; i++ {
			out = append(out, c14MH(s.Draw("mh", 8)))
		}
		return out
	}
	for i, ni := 0, s.Range("ops", 1, 4); i < ni; i++ {
		switch s.Draw("op", 5) {
		case 0, 1:
			keys, force := pick(), s.Chance("force", 1, 3)
			f.client("startproviding", func(ctx context.Context) (any, error) { return nil, dp.StartProviding(force, keys...) })
		case 2:
			keys := pick()
			f.client("provideonce", func(ctx context.Context) (any, error) { return nil, dp.ProvideOnce(keys...) })
		case 3:
			keys := pick()
			f.client("stopproviding", func(ctx context.Context) (any, error) { return nil, dp.StopProviding(keys...) })
		default:
			f.client("refreshschedule", func(ctx context.Context) (any, error) { return nil, dp.RefreshSchedule() })
		}
	}
	f.atClose = func() {
		addProv := false
		for _, q := range s.ParkedKind("rpc") {
			if r := q.Data.(*simnet.RPC); r.Req.GetType() == pb.Message_ADD_PROVIDER {
				addProv = true
			}
		}
		if addProv {
			s.Count("probe_close_provide_inflight")
			s.Count("probe_close_online")
		} else {
			s.Count("probe_close_offline")
		}
	}
	f.closeFn = dp.Close
	// the DHT (router of both providers) is closed before the census: the
	// baseline predates it, so the census covers provider and DHT together
	f.beforeCensus = func() {
		var ops opSet
		op := ops.Go(s, "close-dht", func() (any, error) { return nil, d.Close() })
		f.drain(func() bool { return op.Done })
	}
	f.closeAt = s.Range("close-at", 0, 90)
	f.interleave = s.Draw("interleave", 12)
	f.run()
	c14Teardown(s, f, func() {
		if ownKS != nil {
			var ops opSet
			op := ops.Go(s, "close-own-keystore", func() (any, error) { return nil, ownKS.Close() })
			c14JudgeCallerKeystoreClose(s, f, op)
		}
		_ = h.Close()
	})
	s.Finish()
}
