//go:build all || c14

package scen

// C14 scenarios for the sweeping provider and its wrappers:
// "sweeping-provider" (router stub + parking sender + parking datastores),
// "sweeping-provider-tight" (the same with more recipients per batch than the
// provider serves at a time, see c14_provider_tight.go),
// "buffered-provider" (buffered.New around a sweeping provider) and
// "dual-provider" (provider/dual.New on a real dual.DHT).

import (
	"context"
	"fmt"
	"time"

	dht "github.com/libp2p/go-libp2p-kad-dht"
	"github.com/libp2p/go-libp2p-kad-dht/dual"
	pb "github.com/libp2p/go-libp2p-kad-dht/pb"
	"github.com/libp2p/go-libp2p-kad-dht/provider"
	"github.com/libp2p/go-libp2p-kad-dht/provider/buffered"
	dualprov "github.com/libp2p/go-libp2p-kad-dht/provider/dual"
	"github.com/libp2p/go-libp2p-kad-dht/provider/keystore"
	"github.com/libp2p/go-libp2p/core/peer"
	"github.com/libp2p/go-libp2p/core/protocol"
	ma "github.com/multiformats/go-multiaddr"
	mh "github.com/multiformats/go-multihash"

	"verif/sim"
	"verif/simds"
	"verif/simhost"
	"verif/simnet"
)

func init() {
	stub := []string{"router (stub: every GetClosestPeers parks)", "pb.MessageSender (level A: every ADD_PROVIDER parks)", "datastores (simds: operations park)", "host (simhost)", "crypto/rand (constant per run)"}
	faults := append([]string{"fault_rpc_error", "fault_gcp_error", "probe_close_provide_inflight", "probe_close_gcp_parked", "probe_close_offline", "probe_close_online", "probe_cfg_own_keystore", "probe_cfg_no_schedule", "probe_cfg_no_host"}, c14CommonFaults...)
	sim.Register(&sim.Scenario{Prop: "C14", Name: "sweeping-provider", Weight: 3, Run: func(s *sim.Sim) { runC14Provider(s, false, false) },
		Real:   []string{"provider.New / SweepingProvider.Close (done channel, wait-group guard lock, worker pool closed before waiting, cleanup functions)", "connectivity checker", "provide/reprovide loops, batch and individual provides in flight", "keystore (default or caller-supplied)"},
		Stub:   stub,
		Faults: faults,
	})
	sim.Register(&sim.Scenario{Prop: "C14", Name: "buffered-provider", Weight: 2, Run: func(s *sim.Sim) { runC14Provider(s, true, false) },
		Real:   []string{"buffered.New / worker / Close (queue closed, wrapped provider closed, worker joined)", "go-dsqueue", "provider.SweepingProvider underneath"},
		Stub:   stub,
		Faults: append([]string{"probe_close_batch_in_worker"}, faults...),
	})
	sim.Register(&sim.Scenario{Prop: "C14", Name: "dual-provider", Weight: 2, Run: runC14DualProvider,
		Real:   []string{"provider/dual.New / SweepingProvider.Close (both providers in parallel, then owned keystore and datastore)", "two provider.SweepingProvider on a real dual.DHT (router = IpfsDHT.GetClosestPeers, local record = IpfsDHT.Provide)"},
		Stub:   []string{"host (simhost)", "pb.MessageSenders (level A, WAN/LAN)", "remote peers (honest scripted answers)", "datastores (simds)", "crypto/rand (constant per run)"},
		Faults: append([]string{"fault_rpc_error", "probe_close_provide_inflight", "probe_close_online", "probe_close_offline", "probe_cfg_own_keystore"}, c14CommonFaults...),
	})
}

// c14Router is the closest-peers router stub.
type c14Router struct {
	s     *sim.Sim
	u     *simnet.Universe
	known map[string]string
}

func (r *c14Router) GetClosestPeers(ctx context.Context, key string) ([]peer.ID, error) {
	tag, ok := r.known[key]
	if !ok {
		tag = "rnd"
	}
	out, cerr := r.s.Park("gcp", tag+sim.TagOf(ctx), ctx, key)
	if cerr != nil {
		return nil, cerr
	}
	switch o := out.(type) {
	case error:
		return nil, o
	case []peer.ID:
		return o, nil
	}
	return nil, nil
}

// c14ProvCfg is a drawn provider configuration.
type c14ProvCfg struct {
	repl                int
	reprovide           time.Duration
	workers, per, burst int
	offlineDelay        time.Duration
	ownKeystore, ownDS  bool
	resume, skipBoot    bool
	withHost, selfAddrs bool
	gcpFault, rpcFault  int
	parkDS              bool
}

func c14DrawProvCfg(s *sim.Sim) c14ProvCfg {
	var c c14ProvCfg
	c.repl = s.Range("repl", 1, 3)
	c.reprovide = []time.Duration{time.Hour, 0, 22 * time.Hour}[s.Draw("reprovide", 3)]
	switch s.Draw("workers", 3) {
	case 0:
		c.workers, c.per, c.burst = 16, 2, 1
	case 1:
		c.workers, c.per, c.burst = 1, 0, 0
	default:
		c.workers, c.per, c.burst = 2, 1, 1
	}
	c.offlineDelay = []time.Duration{2 * time.Hour, 0, time.Minute}[s.Draw("offline-delay", 3)]
	c.ownKeystore = s.Chance("own-keystore", 1, 2)
	c.ownDS = s.Chance("own-ds", 1, 2)
	c.resume = s.Chance("resume", 1, 2)
	c.skipBoot = s.Chance("skip-bootstrap-reprovide", 1, 3)
	c.withHost = !s.Chance("no-host", 1, 4)
	c.selfAddrs = !s.Chance("no-self-addrs", 1, 6)
	c.gcpFault = []int{0, 6}[s.Draw("gcp-faults", 2)]
	c.rpcFault = []int{0, 6}[s.Draw("rpc-faults", 2)]
	c.parkDS = s.Chance("park-ds", 1, 2)
	return c
}

// runC14Provider: tight selects the "sweeping-provider-tight" variant (see
// c14_provider_tight.go): more recipients per batch than the provider may
// serve at a time.
func runC14Provider(s *sim.Sim, buffer, tight bool) {
	s.MaxSteps = 900
	defer c14ConstRand(s)()
	name := "sweeping-provider"
	if buffer {
		name = "buffered-provider"
	}
	if tight {
		name = "sweeping-provider-tight"
	}
	cfg := c14DrawProvCfg(s)
	n := s.Range("peers", 1, 5)
	conns := 8 // >= peers: the per-peer jobs start together
	if tight {
		// every peer is a recipient of every key, and only conns of them are
		// served at a time; no failing sends (see c14AnonSender)
		n = s.Range("tight-peers", 3, 7)
		cfg.repl = n
		cfg.rpcFault = 0
		conns = s.Range("tight-conns", 1, 2)
	}
	u := simnet.NewUniverse(uint64(s.Draw("universe", 1<<16)), n)
	h := simhost.New(s, u.Self.ID, u.Self.Addrs, u.Name)
	w := &c14World{s: s, u: u, hosts: []*simhost.Host{h}, rpcFault: cfg.rpcFault}
	known := map[string]string{string(u.Self.ID): "self"}
	for i := 0; i < 8; i++ {
		known[string(c14MH(i))] = fmt.Sprintf("k%d", i)
	}
	rt := &c14Router{s: s, u: u, known: known}
	var snd pb.MessageSender = &simnet.Sender{S: s, U: u}
	var anon *c14AnonSender
	if tight {
		anon = &c14AnonSender{s: s}
		snd = anon
	}
	var dss []*simds.DS
	mk := func(n string) *simds.DS {
		d := simds.New(s, n)
		dss = append(dss, d)
		return d
	}

	f := newC14Flow(s, name)
	f.dts = []time.Duration{time.Second, time.Minute, 5 * time.Minute, time.Hour}
	f.tickQuietOnly = true
	if cfg.reprovide == time.Hour {
		// the reprovide cycle is reached in 5-minute strides: a single jump over
		// the whole interval queues several regions behind one parked look-up,
		// and which of the goroutines waiting for the worker pool wins it when it
		// is released is the Go scheduler's
		f.dts = []time.Duration{time.Second, time.Minute, 5 * time.Minute}
	}
	if buffer {
		// the reprovide cycle is the plain provider scenario's business; behind
		// the buffering worker its start order proved not to be replayable
		f.dts = []time.Duration{time.Second, time.Minute, 5 * time.Minute}
		if cfg.reprovide == time.Hour {
			cfg.reprovide = 22 * time.Hour
		}
	}
	f.answer = func(p *sim.Parked, drain bool) {
		if p.Kind == "gcp" {
			if !drain && cfg.gcpFault > 0 && s.Chance("gcp-fail", 1, cfg.gcpFault) {
				s.Count("fault_gcp_error")
				s.Release(p, errReqFailed)
				return
			}
			key, _ := p.Data.(string)
			s.Release(p, simnet.IDs(simnet.Nearest(u.Peers, simnet.KadOfKey(key), cfg.repl)))
			return
		}
		w.answer(p, drain)
	}
	// a caller-supplied keystore belongs to the caller: it exists before the
	// baseline and is closed after the census
	var ownKS keystore.Keystore
	if cfg.ownKeystore {
		s.Count("probe_cfg_own_keystore")
		var err error
		ownKS, err = keystore.NewKeystore(mk("ksds"), keystore.WithBatchSize(2))
		if err != nil {
			panic(err)
		}
	}
	f.baseline()

	opts := []provider.Option{
		provider.WithRouter(rt),
		provider.WithMessageSender(snd),
		provider.WithReplicationFactor(cfg.repl),
		provider.WithReprovideInterval(cfg.reprovide),
		provider.WithMaxWorkers(cfg.workers),
		provider.WithDedicatedPeriodicWorkers(cfg.per),
		provider.WithDedicatedBurstWorkers(cfg.burst),
		provider.WithMaxProvideConnsPerWorker(conns),
		provider.WithOfflineDelay(cfg.offlineDelay),
		provider.WithConnectivityCheckOnlineInterval(time.Minute),
		provider.WithResumeCycle(cfg.resume),
		provider.WithSkipBootstrapReprovide(cfg.skipBoot),
	}
	if cfg.selfAddrs {
		opts = append(opts, provider.WithSelfAddrs(func() []ma.Multiaddr { return u.Self.Addrs }))
	} else {
		opts = append(opts, provider.WithSelfAddrs(func() []ma.Multiaddr { return nil }))
	}
	if cfg.withHost {
		opts = append(opts, provider.WithHost(h))
	} else {
		s.Count("probe_cfg_no_host")
		opts = append(opts, provider.WithPeerID(u.Self.ID))
	}
	if ownKS != nil {
		opts = append(opts, provider.WithKeystore(ownKS))
	}
	if cfg.ownDS {
		opts = append(opts, provider.WithDatastore(mk("pds")))
	}
	if cfg.reprovide == 0 {
		s.Count("probe_cfg_no_schedule")
	}
	sp, err := provider.New(opts...)
	if err != nil {
		panic(err)
	}
	var bp *buffered.SweepingProvider
	if buffer {
		bp = buffered.New(sp, simds.New(s, "qds"),
			buffered.WithBatchSize([]int{1, 2, 1 << 10}[s.Draw("b-batch", 3)]),
			buffered.WithIdleWriteTime([]time.Duration{time.Minute, 0, time.Second}[s.Draw("b-idle", 3)]))
	}
	s.Quiesce()
	f.strict = true
	f.constructed(false)
	if cfg.parkDS {
		for _, d := range dss {
			// (the caller's keystore serialises concurrent requests of the
			// provider's goroutines behind its worker, in arrival order: parking
			// its datastore would expose that order)
			if d.Name != "ksds" {
				d.ParkOp = func(op, key string) bool { return true }
			}
		}
	}
	s.Summary["cfg"] = fmt.Sprintf("%+v peers=%d buffered=%v tight=%v conns=%d", cfg, n, buffer, tight, conns)

	type api interface {
		StartProviding(force bool, keys ...mh.Multihash) error
		ProvideOnce(keys ...mh.Multihash) error
		StopProviding(keys ...mh.Multihash) error
		Clear() int
		RefreshSchedule() error
	}
	var p api = sp
	if buffer {
		p = bp
	}
	// Keys of one call that fall into different keyspace regions are queued in
	// map-iteration order; with a worker pool that cannot start all of them at
	// once that order decides which lookups begin first. Small pools therefore
	// get one key per call (calls are separate steps; the queue still fills up
	// and workers still block on the pool), the large pool gets several.
	pick := func() []mh.Multihash {
		var out []mh.Multihash
		n := 1
		if cfg.workers >= 16 && !buffer {
			// (the buffered wrapper enqueues the keys of a call one by one while
			// its worker already dequeues: how a multi-key call is split into
			// batches is the Go scheduler's)
			n = s.Range("nkeys", 1, 5)
		}
		for i := 0; i < n; i++ {
			out = append(out, c14MH(s.Draw("mh", 8)))
		}
		return out
	}
	for i, ni := 0, s.Range("ops", 1, 5); i < ni; i++ {
		switch s.Draw("op", 6) {
		case 0, 1:
			keys, force := pick(), s.Chance("force", 1, 3)
			f.client("startproviding", func(ctx context.Context) (any, error) { return nil, p.StartProviding(force, keys...) })
		case 2:
			keys := pick()
			f.client("provideonce", func(ctx context.Context) (any, error) { return nil, p.ProvideOnce(keys...) })
		case 3:
			keys := pick()
			f.client("stopproviding", func(ctx context.Context) (any, error) { return nil, p.StopProviding(keys...) })
		case 4:
			f.client("refreshschedule", func(ctx context.Context) (any, error) { return nil, p.RefreshSchedule() })
		default:
			f.client("clear", func(ctx context.Context) (any, error) { return p.Clear(), nil })
		}
	}
	f.atClose = func() {
		addProv := false
		for _, q := range s.ParkedKind("rpc") {
			if r := q.Data.(*simnet.RPC); r.Req.GetType() == pb.Message_ADD_PROVIDER {
				addProv = true
			}
		}
		if addProv {
			s.Count("probe_close_provide_inflight")
		}
		if len(s.ParkedKind("gcp")) > 0 {
			s.Count("probe_close_gcp_parked")
		}
		gcpKeyed := false
		for _, q := range s.ParkedKind("gcp") {
			if !containsStr(q.ID, "self") {
				gcpKeyed = true
			}
		}
		if addProv || gcpKeyed {
			s.Count("probe_close_online")
		} else {
			s.Count("probe_close_offline")
		}
		if buffer && len(s.ParkedKind("ds")) > 0 {
			s.Count("probe_close_batch_in_worker")
		}
		if tight && addProv {
			s.Count("probe_close_tight_batch_inflight")
			if anon.pendingRecipients(n) > conns {
				s.Count("probe_close_recipients_exceed_conns")
			}
		}
	}
	if buffer {
		f.closeFn = bp.Close
	} else {
		f.closeFn = sp.Close
	}
	f.closeAt = s.Range("close-at", 0, 60)
	f.interleave = s.Draw("interleave", 12)
	f.run()
	c14Teardown(s, f, func() {
		if ownKS != nil {
			// the caller owns a keystore it supplied
			var ops opSet
			op := ops.Go(s, "close-own-keystore", func() (any, error) { return nil, ownKS.Close() })
			f.drain(func() bool { return op.Done })
		}
		_ = h.Close()
	})
	s.Finish()
}

func runC14DualProvider(s *sim.Sim) {
	s.MaxSteps = 1200
	defer c14ConstRand(s)()
	// At most one peer per side: the providers run their look-ups through the
	// real DHTs, four of them at a time; with one peer every look-up is exactly
	// one request, so the concurrent look-ups stay independent of each other.
	n := s.Range("peers", 1, 2)
	u, wan, lan := c14DualUniverse(s, n)
	if len(wan) > 1 {
		wan = wan[:1]
	}
	if len(lan) > 1 {
		lan = lan[:1]
	}
	h := simhost.New(s, u.Self.ID, u.Self.Addrs, u.Name)
	k := s.Range("k", 1, 3)
	// No failing requests here: a failed query evicts the peer, and once a
	// routing table is empty every lookup fails at once; the provider then
	// re-queues and retries the region in a loop that never blocks until its
	// connectivity check is due again (one minute later) - in real time a busy
	// loop, under the virtual clock a run that never becomes quiescent.
	w := &c14World{s: s, u: u, hosts: []*simhost.Host{h}, k: k}
	ownKeystore := s.Chance("own-keystore", 1, 2)
	parkDS := s.Chance("park-ds", 1, 2)
	ownDS := s.Draw("own-ds", 3) // 0 none, 1 shared (namespaced), 2 separate LAN/WAN

	f := newC14Flow(s, "dual-provider")
	f.dts = []time.Duration{100 * time.Millisecond, time.Second, time.Minute}
	f.tickQuietOnly = true
	f.answer = w.answer
	var dss []*simds.DS
	mk := func(n string) *simds.DS {
		d := simds.New(s, n)
		dss = append(dss, d)
		return d
	}
	var ownKS keystore.Keystore
	if ownKeystore {
		s.Count("probe_cfg_own_keystore")
		var err error
		ownKS, err = keystore.NewKeystore(mk("ksds"), keystore.WithBatchSize(2))
		if err != nil {
			panic(err)
		}
	}
	f.baseline()

	sender := func(protos []protocol.ID) pb.MessageSenderWithDisconnect {
		label := "wan:"
		if c14IsLan(protos) {
			label = "lan:"
		}
		return &simnet.Sender{S: s, U: u, Label: label}
	}
	dcfg := c14DHTCfg{mode: dht.ModeClient, k: k, alpha: 2, beta: 1}
	var dssDHT []*simds.DS
	d, err := dual.New(h, dual.WanDHTOption(dcfg.options(s, u, "wan-", &dssDHT, sender)...), dual.LanDHTOption(dcfg.options(s, u, "lan-", &dssDHT, sender)...))
	if err != nil {
		panic(err)
	}
	s.Quiesce()
	// every peer is connected already: the providers' concurrent look-ups
	// (untagged contexts) would otherwise dial the same peer under one label
	for _, p := range u.Peers {
		h.Net().SetConnected(p.ID, true)
		h.Net().SetRemoteAddr(p.ID, p.Addrs[0])
	}
	c14SeedDual(s, h, d, wan, lan)
	// responders only name the (seeded) peer of their own side: the tables do
	// not change while look-ups start (see runC14DHT)
	w.closer = func(p *sim.Parked) []*simnet.Peer {
		if containsStr(p.ID, "lan:") {
			return lan
		}
		return wan
	}

	popts := []dualprov.Option{
		dualprov.WithReprovideInterval([]time.Duration{22 * time.Hour, 0}[s.Draw("reprovide", 2)]),
		dualprov.WithMaxProvideConnsPerWorker(8),
		dualprov.WithOfflineDelay([]time.Duration{2 * time.Hour, 0}[s.Draw("offline-delay", 2)]),
		dualprov.WithResumeCycle(s.Chance("resume", 1, 2)),
	}
	if ownKS != nil {
		popts = append(popts, dualprov.WithKeystore(ownKS))
	}
	switch ownDS {
	case 1:
		popts = append(popts, dualprov.WithDatastore(mk("pds")))
	case 2:
		popts = append(popts, dualprov.WithDatastoreLAN(mk("pds-lan")), dualprov.WithDatastoreWAN(mk("pds-wan")))
	}
	// the long-lived goroutines of the providers only: re-base on the running DHT
	s.Quiesce()
	f.baseEntries = map[string]int{}
	for _, g := range c14Goroutines() {
		f.baseEntries[g.entry]++
	}
	dp, err := dualprov.New(d, popts...)
	if err != nil {
		panic(err)
	}
	s.Quiesce()
	f.constructed(false)
	if parkDS {
		// only the providers' own datastores park: the DHTs' provider stores take
		// their lock around the datastore write, and which of two concurrent
		// local-record writes gets the lock first is the Go scheduler's
		_ = dssDHT
		for _, x := range dss {
			if x.Name != "ksds" {
				x.ParkOp = func(op, key string) bool { return true }
			}
		}
	}
	s.Summary["cfg"] = fmt.Sprintf("peers=%d wan=%d lan=%d K=%d ownKS=%v ownDS=%d parkDS=%v", n, len(wan), len(lan), k, ownKeystore, ownDS, parkDS)

	pick := func() []mh.Multihash {
		var out []mh.Multihash
		for i, ni := 0, s.Range("nkeys", 1, 4); i < ni; i++ {
			out = append(out, c14MH(s.Draw("mh", 8)))
		}
		return out
	}
	for i, ni := 0, s.Range("ops", 1, 4); i < ni; i++ {
		switch s.Draw("op", 5) {
		case 0, 1:
			keys, force := pick(), s.Chance("force", 1, 3)
			f.client("startproviding", func(ctx context.Context) (any, error) { return nil, dp.StartProviding(force, keys...) })
		case 2:
			keys := pick()
			f.client("provideonce", func(ctx context.Context) (any, error) { return nil, dp.ProvideOnce(keys...) })
		case 3:
			keys := pick()
			f.client("stopproviding", func(ctx context.Context) (any, error) { return nil, dp.StopProviding(keys...) })
		default:
			f.client("refreshschedule", func(ctx context.Context) (any, error) { return nil, dp.RefreshSchedule() })
		}
	}
	f.atClose = func() {
		addProv := false
		for _, q := range s.ParkedKind("rpc") {
			if r := q.Data.(*simnet.RPC); r.Req.GetType() == pb.Message_ADD_PROVIDER {
				addProv = true
			}
		}
		if addProv {
			s.Count("probe_close_provide_inflight")
			s.Count("probe_close_online")
		} else {
			s.Count("probe_close_offline")
		}
	}
	f.closeFn = dp.Close
	// the DHT (router of both providers) is closed before the census: the
	// baseline predates it, so the census covers provider and DHT together
	f.beforeCensus = func() {
		var ops opSet
		op := ops.Go(s, "close-dht", func() (any, error) { return nil, d.Close() })
		f.drain(func() bool { return op.Done })
	}
	f.closeAt = s.Range("close-at", 0, 90)
	f.interleave = s.Draw("interleave", 12)
	f.run()
	c14Teardown(s, f, func() {
		if ownKS != nil {
			var ops opSet
			op := ops.Go(s, "close-own-keystore", func() (any, error) { return nil, ownKS.Close() })
			f.drain(func() bool { return op.Done })
		}
		_ = h.Close()
	})
	s.Finish()
}
