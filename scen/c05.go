//go:build all || c05

package scen

import (
	"context"
	"errors"
	"fmt"
	"strings"
	"time"

	record "github.com/libp2p/go-libp2p-record"
	recpb "github.com/libp2p/go-libp2p-record/pb"
	"github.com/multiformats/go-base32"
	"google.golang.org/protobuf/proto"

	"github.com/libp2p/go-libp2p-kad-dht/records"

	"verif/sim"
	"verif/simds"
)

func init() {
	sim.Register(&sim.Scenario{Prop: "C05", Name: "value-store", Weight: 3, Run: func(s *sim.Sim) { runC05Store(s, false) },
		Real:   []string{"records.ValueStore (Put/Get/StartGC sweep/Close)", "go-libp2p-record NamespacedValidator dispatch"},
		Stub:   []string{"datastore (simds: every operation parks in the scheduler)", "validator (harness rank validator)", "lock hand-over (instrumented sync.Mutex calls, scheduler-owned)"},
		Faults: []string{"lock_contended", "lock_yield", "time_advance", "probe_gc_delete", "probe_put_refused", "probe_concurrent_puts_same_key", "probe_get_expired", "probe_age_boundary_crossed"},
	})
	sim.Register(&sim.Scenario{Prop: "C05", Name: "value-store-ds-errors", Weight: 1, Run: func(s *sim.Sim) { runC05Store(s, true) },
		Real:   []string{"records.ValueStore (Put/Get/StartGC sweep/Close)"},
		Stub:   []string{"datastore (simds with error injection)", "validator (harness rank validator)"},
		Faults: []string{"fault_ds_error_get", "fault_ds_error_put", "fault_ds_error_delete", "fault_ds_error_query"},
	})
}

// c05Oracle holds what the invariants on the datastore write log need.
type c05Oracle struct {
	s      *sim.Sim
	val    rankValidator
	maxAge time.Duration
	// nsPrefixes: datastore key prefixes the value store may touch
	owned func(dskey string) bool
}

// decodeDsKey recovers the record key from a value datastore key
// "/<ns>/<base32(key)>".
func decodeDsKey(dskey string) (string, bool) {
	i := strings.LastIndex(dskey, "/")
	if i < 0 {
		return "", false
	}
	raw, err := base32.RawStdEncoding.DecodeString(dskey[i+1:])
	if err != nil {
		return "", false
	}
	return string(raw), true
}

// parseStored returns the record stored in bytes if it is well-formed, filed
// under dskey and accepted by the validator.
func (o *c05Oracle) parseStored(dskey string, data []byte) (rec *recpb.Record, rank int, ok bool) {
	rec = new(recpb.Record)
	if proto.Unmarshal(data, rec) != nil {
		return nil, 0, false
	}
	key, kok := decodeDsKey(dskey)
	if !kok || string(rec.GetKey()) != key {
		return nil, 0, false
	}
	if o.val.Validate(key, rec.GetValue()) != nil {
		return nil, 0, false
	}
	rank, _, _, _ = parseRankValue(rec.GetValue())
	return rec, rank, true
}

func (o *c05Oracle) age(rec *recpb.Record) (time.Duration, bool) {
	t, err := time.Parse(time.RFC3339Nano, rec.GetTimeReceived())
	if err != nil {
		return 0, false
	}
	return time.Since(t), true
}

// onApply is called for every applied datastore operation.
func (o *c05Oracle) onApply(r *simds.Rec) {
	s := o.s
	switch r.Op {
	case "put":
		if !o.owned(r.Key) {
			s.Violate("foreign-write", "value store wrote datastore key %s outside its namespaces", r.Key)
			return
		}
		_, rank, ok := o.parseStored(r.Key, r.Val)
		if !ok {
			s.Violate("stored-invalid", "value store stored bytes under %s that are not a valid record for that key", r.Key)
			return
		}
		if r.Found {
			if _, old, oldOK := o.parseStored(r.Key, r.Prev); oldOK && rank < old {
				s.Violate("downgrade", "record of rank %d under %s replaced by rank %d", old, r.Key, rank)
			}
		}
	case "delete":
		if !o.owned(r.Key) {
			s.Violate("foreign-delete", "value store deleted datastore key %s outside its namespaces", r.Key)
			return
		}
		if !r.Found {
			return
		}
		rec, _, ok := o.parseStored(r.Key, r.Prev)
		if !ok {
			return // corrupt or mis-filed: may go
		}
		if o.maxAge <= 0 {
			s.Violate("delete-fresh", "valid record under %s deleted although age expiry is disabled", r.Key)
			return
		}
		age, aok := o.age(rec)
		if aok && age < o.maxAge {
			s.Violate("delete-fresh", "valid record under %s deleted at age %v, max age %v", r.Key, age, o.maxAge)
		}
		s.Count("probe_gc_delete")
	}
}

type c05Op struct {
	client  int
	n       int
	kind    string // put get
	key     string
	rank    int
	flavor  string // valid invalid miskeyed-value
	tag     string
	started bool
	done    bool
	err     error
	got     *recpb.Record
	at      time.Time
}

func runC05Store(s *sim.Sim, dsErrors bool) {
	s.MaxSteps = 700
	s.LockSched = true
	if s.Chance("yield-all", 1, 2) {
		s.YieldSites["*"] = true
	}
	namespaced := s.Chance("plain-validator", 1, 3) == false
	maxAge := []time.Duration{0, 10 * time.Minute, time.Hour}[s.Draw("max-age", 3)]
	gcEvery := []time.Duration{0, time.Minute, 7 * time.Minute}[s.Draw("gc-interval", 3)]
	nClients := s.Range("clients", 2, 5)
	nOps := s.Range("ops", 2, 30)
	// keys: some share a lock stripe (same last byte), some do not
	allKeys := []string{"/v/a1", "/v/b1", "/v/c2", "/v/d1"}
	keys := allKeys[:s.Range("keys", 1, 4)]

	rv := rankValidator{}
	var validator record.Validator = rv
	if namespaced {
		validator = record.NamespacedValidator{"v": rv}
	}
	d := simds.New(s, "ds")
	d.ParkOp = func(op, key string) bool { return true }
	or := &c05Oracle{s: s, val: rv, maxAge: maxAge, owned: func(k string) bool { return strings.HasPrefix(k, "/v/") }}
	d.OnApply = or.onApply
	// foreign data the store must leave alone
	d.Poke("/providers/xyz", []byte("prov"))
	d.Poke("/other/thing", []byte("foreign"))
	d.Poke("/v/"+base32.RawStdEncoding.EncodeToString([]byte("/v/zz9")), []byte("garbage that is not a record"))

	vs := records.NewValueStore(d, validator, maxAge)
	gcCtx, gcCancel := context.WithCancel(context.Background())
	defer gcCancel()
	vs.StartGC(gcCtx, gcEvery)

	s.Summary["cfg"] = fmt.Sprintf("namespaced=%v maxAge=%v gc=%v clients=%d ops=%d keys=%d yieldAll=%v dsErrors=%v", namespaced, maxAge, gcEvery, nClients, nOps, len(keys), s.YieldSites["*"], dsErrors)

	ops := make([]*c05Op, nOps)
	for i := range ops {
		o := &c05Op{client: i % nClients, n: i, key: keys[s.Draw("key", len(keys))], tag: fmt.Sprintf("o%03d", i)}
		if s.Chance("is-get", 1, 3) {
			o.kind = "get"
		} else {
			o.kind = "put"
			o.rank = s.Draw("rank", 6)
			switch s.Draw("flavor", 8) {
			case 0:
				o.flavor = "invalid"
			case 1:
				o.flavor = "miskeyed-value"
			default:
				o.flavor = "valid"
			}
		}
		ops[i] = o
	}
	var clients opSet
	for c := 0; c < nClients; c++ {
		c := c
		clients.Go(s, fmt.Sprintf("client%d", c), func() (any, error) {
			for _, o := range ops {
				if o.client != c {
					continue
				}
				s.Park("client", fmt.Sprintf("c%d:%s", c, o.tag), nil, o)
				ctx := sim.WithTag(context.Background(), o.tag)
				o.started = true
				switch o.kind {
				case "get":
					o.got, o.err = vs.Get(ctx, o.key)
				case "put":
					var val []byte
					switch o.flavor {
					case "invalid":
						val = []byte("not a rank value")
					case "miskeyed-value":
						val = rankValue(o.rank, time.Time{}, o.key+"x")
					default:
						val = rankValue(o.rank, time.Time{}, o.key)
					}
					o.err = vs.Put(ctx, o.key, &recpb.Record{Key: []byte(o.key), Value: val})
				}
				o.at = time.Now()
				o.done = true
			}
			return nil, nil
		})
	}
	s.Quiesce()

	checked := map[int]bool{}
	checkDone := func() {
		log := d.Log()
		for _, o := range ops {
			if !o.done || checked[o.n] {
				continue
			}
			checked[o.n] = true
			var mine []*simds.Rec
			for _, r := range log {
				if r.Tag == "@"+o.tag {
					mine = append(mine, r)
				}
			}
			switch o.kind {
			case "put":
				wrote := false
				for _, r := range mine {
					if r.Op == "put" && r.Err == nil {
						wrote = true
					}
				}
				if o.err == nil && !wrote {
					s.Violate("ack-without-write", "Put %s rank %d acknowledged but its datastore write did not happen", o.key, o.rank)
				}
				if o.err == nil && o.flavor != "valid" {
					s.Violate("accepted-invalid", "Put of a %s record for %s was accepted", o.flavor, o.key)
				}
				if errors.Is(o.err, records.ErrOldRecord) {
					s.Count("probe_put_refused")
					// refused: at its own read a record ranked at least as good was stored
					okRefusal := false
					for _, r := range mine {
						if r.Op == "get" && r.Found {
							if _, old, ok := or.parseStored(r.Key, r.Val); ok && old >= o.rank {
								okRefusal = true
							}
						}
					}
					if !okRefusal {
						s.Violate("refused-without-better", "Put %s rank %d refused as old although no record of rank >= %d was stored when it looked", o.key, o.rank, o.rank)
					}
				}
				if o.err != nil && wrote && !dsErrors {
					s.Violate("error-but-wrote", "Put %s returned %v but wrote to the datastore", o.key, o.err)
				}
			case "get":
				if o.err != nil {
					if !dsErrors {
						s.Violate("get-error", "Get %s failed without an injected fault: %v", o.key, o.err)
					}
					continue
				}
				// the first datastore read of this Get decides what it may return
				var first *simds.Rec
				for _, r := range mine {
					if r.Op == "get" {
						first = r
						break
					}
				}
				if first == nil || first.Err != nil && !first.Found {
					if o.got != nil {
						s.Violate("get-phantom", "Get %s returned a record although the datastore had none", o.key)
					}
					continue
				}
				rec, _, ok := or.parseStored(first.Key, first.Val)
				if !ok {
					if o.got != nil {
						// the stored bytes are not a valid record for this key
						if string(o.got.GetKey()) != o.key {
							s.Violate("get-miskeyed", "Get %s returned a record for key %q", o.key, o.got.GetKey())
						}
					}
					continue
				}
				age, aok := or.age(rec)
				// age as of the read instant
				ageAtRead := age - time.Since(s.Start.Add(first.At))
				switch {
				case maxAge > 0 && aok && ageAtRead > maxAge:
					s.Count("probe_get_expired")
					if o.got != nil {
						s.Violate("served-expired", "Get %s served a record of age %v, max age %v", o.key, ageAtRead, maxAge)
					}
				case maxAge <= 0 || (aok && ageAtRead < maxAge):
					if o.got == nil {
						s.Violate("get-missing", "Get %s returned nothing although a valid record of age %v (max %v) was stored when it read", o.key, ageAtRead, maxAge)
					} else if !proto.Equal(o.got, rec) {
						s.Violate("get-wrong", "Get %s returned a record different from the stored one", o.key)
					}
				}
			}
		}
	}

	allDone := func() bool {
		for _, o := range ops {
			if !o.done {
				return false
			}
		}
		return true
	}
	idle := 0
	var sawBoundary bool
	for s.Step() {
		checkDone()
		if s.Failed() || allDone() {
			break
		}
		var acts []sim.Action
		inPut := map[string]int{}
		for _, p := range s.Parked() {
			p := p
			switch p.Kind {
			case "client":
				acts = append(acts, sim.Action{ID: p.ID, Do: func() { s.Release(p, nil) }})
			case "ds":
				op := p.Data.(*simds.Op)
				if op.Op == "put" {
					inPut[op.Key]++
				}
				acts = append(acts, sim.Action{ID: p.ID, Do: func() {
					if dsErrors && s.Chance("ds-error", 1, 6) {
						s.Release(p, simds.ErrInjected)
					} else {
						s.Release(p, nil)
					}
				}})
			}
		}
		_ = inPut
		started := map[string]int{}
		for _, p := range s.ParkedKind("client") {
			_ = p
		}
		for _, o := range ops {
			if o.kind == "put" && o.started && !o.done {
				started[o.key]++
			}
		}
		for _, n := range started {
			if n > 1 {
				s.Count("probe_concurrent_puts_same_key")
				break
			}
		}
		acts = append(acts, s.LockActions()...)
		if len(acts) == 0 || s.Chance("advance", 1, 10) {
			// advance time: around the GC interval and the maximum age
			menu := []time.Duration{time.Second, time.Minute, 7 * time.Minute, 10*time.Minute - time.Second, 10*time.Minute + time.Second, time.Hour + time.Second}
			dt := menu[s.Draw("dt", len(menu))]
			s.Count("time_advance")
			if maxAge > 0 && dt >= maxAge && !sawBoundary {
				sawBoundary = true
				s.Count("probe_age_boundary_crossed")
			}
			s.Sleep(dt)
			if len(acts) == 0 {
				idle++
				if idle > 20 {
					break
				}
			}
			continue
		}
		idle = 0
		s.Choose("next", acts)
	}
	checkDone()
	if !s.Failed() && !allDone() && s.Steps <= s.MaxSteps {
		s.Violate("store-wedged", "value store operations did not finish although nothing is parked")
	}
	if s.Steps > s.MaxSteps {
		s.Count("step_budget_exhausted")
	}
	nPutOK := 0
	for _, o := range ops {
		if o.kind == "put" && o.done && o.err == nil {
			nPutOK++
		}
	}
	s.Tracef("done puts_ok=%d log=%d", nPutOK, d.LogLen())
	s.State("putsok=%d keys=%d", nPutOK, len(keys))
	s.NonTrivial = nPutOK >= 1 && (s.Stats["lock_contended"] > 0 || s.Stats["probe_gc_delete"] > 0 || s.Stats["probe_put_refused"] > 0)

	// shut down: stop the sweeper, release everything
	d.ParkOp = nil
	gcCancel()
	for _, p := range s.ParkedKind("client") {
		_ = p
	}
	s.LockSched = false
	closeAndCensus(s, func() { _ = vs.Close() })
	s.Finish()
}
