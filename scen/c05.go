//go:build all || c05

package scen

import (
	"context"
	"errors"
	"fmt"
	"slices"
	"strings"
	"time"

	record "github.com/libp2p/go-libp2p-record"
	recpb "github.com/libp2p/go-libp2p-record/pb"
	"github.com/multiformats/go-base32"
	"google.golang.org/protobuf/proto"

	"github.com/libp2p/go-libp2p-kad-dht/records"

	"verif/sim"
	"verif/simds"
)

// C05 scenarios on records.ValueStore alone (value-store, value-store-ds-errors;
// c05_dht.go runs the same oracle around a whole node).
//
// Rules and the clause of the property each one encodes:
//
//	stored-invalid, accepted-invalid   "never stores a value record that its validator rejects or whose
//	                                   embedded key differs from the key it is stored under". The validator
//	                                   is the harness rank validator; its verdict depends on the KEY (the
//	                                   value embeds the key it belongs to) and, in the time-aware
//	                                   configuration, on the CLOCK (the value may carry an expiry). The
//	                                   generator therefore draws, besides garbage and values for a key nobody
//	                                   uses, values that are valid under ANOTHER key of the same run
//	                                   ("other-key-value": "on the same or different keys", "every sequence
//	                                   of ... invalid/mis-keyed records") and values whose validity ends at
//	                                   an instant the clock advances across. A put is judged invalid only
//	                                   when the verdict is the same at every instant of the operation.
//	downgrade, refused-without-better  "never replaces a stored record by one its validator ranks worse".
//	delete-fresh, get-missing,         "an acknowledged put is immediately readable until it ages out".
//	unreadable-before-age-out
//	served-expired,                    "records older than the configured maximum age are never served".
//	served-expired-by-receipt
//	local-put-not-refused              "a local PutValue is refused when a better value is already stored"
//	                                   (dht-node scenario; judged on the node's own read AND on the datastore
//	                                   itself, c05Oracle.storedThroughout, in every node mode: c05_dht.go).
//
// The age of a record is the time since THIS node received it. The rules
// served-expired / get-missing / delete-fresh read the age off the stored
// record; served-expired-by-receipt / unreadable-before-age-out / the second
// half of delete-fresh do not trust anything stored: the harness notes, on its
// own clock, for every applied datastore write the window [start of the writing
// operation, instant of the write] in which the node received that record, and
// judges a read (or a delete) only when every receipt instant of that window
// puts the record on the same side of the maximum age. To make the two clocks
// differ, put records carry a drawn sender-supplied time_received field
// (absent, well-formed now, unparsable, ante-dated, post-dated): "every
// sequence of ... records", "every clock advance relative to the maximum age".
func init() {
	sim.Register(&sim.Scenario{Prop: "C05", Name: "value-store", Weight: 3, Run: func(s *sim.Sim) { runC05Store(s, false) },
		Real: []string{"records.ValueStore (Put/Get/StartGC sweep/Close)", "go-libp2p-record NamespacedValidator dispatch"},
		Stub: []string{"datastore (simds: every operation parks in the scheduler)", "validator (harness rank validator)", "lock hand-over (instrumented sync.Mutex calls, scheduler-owned)"},
		Faults: []string{"lock_contended", "lock_yield", "time_advance", "probe_gc_delete", "probe_put_refused", "probe_concurrent_puts_same_key", "probe_get_expired", "probe_age_boundary_crossed",
			"probe_put_sender_stamp_acked", "probe_put_other_key_value", "probe_put_value_expired", "probe_receipt_fresh_read", "probe_receipt_stale_read"},
	})
	sim.Register(&sim.Scenario{Prop: "C05", Name: "value-store-ds-errors", Weight: 1, Run: func(s *sim.Sim) { runC05Store(s, true) },
		Real:   []string{"records.ValueStore (Put/Get/StartGC sweep/Close)"},
		Stub:   []string{"datastore (simds with error injection)", "validator (harness rank validator)"},
		Faults: []string{"fault_ds_error_get", "fault_ds_error_put", "fault_ds_error_delete", "fault_ds_error_query"},
	})
}

// c05Oracle holds what the invariants on the datastore write log need.
type c05Oracle struct {
	s      *sim.Sim
	val    rankValidator
	maxAge time.Duration
	// nsPrefixes: datastore key prefixes the value store may touch
	owned func(dskey string) bool
	// timeAware: the validator honours the expiry embedded in a value
	timeAware bool

	// Receipt bookkeeping on the harness clock (nothing here is read from the
	// stored bytes). recvLo is supplied by the scenario: the earliest instant at
	// which the operation performing write r can have handed its record to the
	// node (ok=false: writer unknown, the scenario start is assumed).
	recvLo  func(r *simds.Rec) (time.Duration, bool)
	receipt map[int]c05Receipt // log number of an applied write -> receipt window of the record it stored
	content map[string]int     // datastore key -> log number of the write that produced its current content
	readSaw map[int]int        // log number of an applied read -> log number of the write whose content it saw
	// hist: per datastore key, every applied write and delete in order (the
	// harness's own record of what is stored when; see storedThroughout)
	hist map[string][]c05Change
}

// c05Change is one applied change of a datastore key: a write (w = the log
// entry of the put, whose Val is the content from then on) or a delete (w nil).
type c05Change struct {
	step int
	tag  string
	w    *simds.Rec
}

// storedThroughout looks at the datastore itself (the harness owns it), not at
// what the node read: it reports whether record key held, without interruption
// from before step `from` to step `to`, a record that the validator accepts for
// that key and that the node had received less than the maximum age before the
// instant `at` (harness clock, whichever instant of its receipt window the
// record arrived at). Changes applied by the judged operation itself (datastore
// tag self, "" = none) are left out. minRank is the lowest rank among the
// contents the key had in that window. Steps are compared inclusively on both
// sides, so a change that shares a step with the window's ends counts as inside
// AND the content before it must qualify too.
func (o *c05Oracle) storedThroughout(key string, from, to int, at time.Duration, self string) (minRank int, ok bool) {
	for dskey, changes := range o.hist {
		if k, kok := decodeDsKey(dskey); !kok || k != key {
			continue
		}
		var window []c05Change
		var before *c05Change
		for i := range changes {
			c := changes[i]
			switch {
			case c.step < from:
				before = &changes[i]
			case c.step <= to && (self == "" || c.tag != self):
				window = append(window, c)
			}
		}
		if before == nil {
			return 0, false
		}
		window = append(window, *before)
		minRank = -1
		for _, c := range window {
			if c.w == nil {
				return 0, false
			}
			_, rank, pok := o.parseStored(c.w.Key, c.w.Val)
			if !pok {
				return 0, false
			}
			if o.maxAge > 0 {
				if _, hi, rok := o.receiptAge(c.w.N, at); !rok || hi >= o.maxAge {
					return 0, false
				}
			}
			if minRank < 0 || rank < minRank {
				minRank = rank
			}
		}
		return minRank, true // at most one datastore key decodes to a given record key
	}
	return 0, false
}

// c05Receipt: the node received the record some time in [lo, hi].
type c05Receipt struct{ lo, hi time.Duration }

// c05Stamp renders the sender-supplied time_received field of a put record.
// span is the scenario's own maximum age (an hour when expiry is disabled).
func c05Stamp(kind int, span time.Duration) string {
	if span <= 0 {
		span = time.Hour
	}
	now := time.Now()
	f := func(t time.Time) string { return t.UTC().Format(time.RFC3339Nano) }
	switch kind {
	case 1:
		return f(now)
	case 2:
		return "not a time"
	case 3:
		return f(now.Add(-span - time.Minute))
	case 4:
		return f(now.Add(-1000 * time.Hour))
	case 5:
		return f(now.Add(span + time.Minute))
	case 6:
		return f(now.Add(1000 * time.Hour))
	}
	return ""
}

const c05StampKinds = 7

// validAt is the harness validator's verdict on (key, value) at instant at.
func (o *c05Oracle) validAt(key string, value []byte, at time.Time) bool {
	_, expiry, k, err := parseRankValue(value)
	if err != nil || k != key {
		return false
	}
	if o.timeAware && !expiry.IsZero() && !at.Before(expiry) {
		return false
	}
	return true
}

// receiptAge bounds, on the harness clock, the age at the instant of read (or
// delete) r of the content it saw, written by log entry w.
func (o *c05Oracle) receiptAge(w int, at time.Duration) (lo, hi time.Duration, ok bool) {
	rc, ok := o.receipt[w]
	if !ok {
		return 0, 0, false
	}
	return at - rc.hi, at - rc.lo, true
}

// byReceipt classifies what applied read r saw, using the harness clock only:
// "fresh" (valid record, younger than the maximum age whenever in its receipt
// window it arrived), "stale" (older than the maximum age whenever it arrived)
// or "" (no valid record, written behind the store's back, expiry disabled, or
// the window straddles the maximum age).
func (o *c05Oracle) byReceipt(r *simds.Rec) string {
	if o.maxAge <= 0 || !r.Found {
		return ""
	}
	w, ok := o.readSaw[r.N]
	if !ok {
		return ""
	}
	if _, _, ok := o.parseStored(r.Key, r.Val); !ok {
		return ""
	}
	lo, hi, ok := o.receiptAge(w, r.At)
	switch {
	case !ok:
		return ""
	case hi < o.maxAge:
		return "fresh"
	case lo > o.maxAge:
		return "stale"
	}
	return ""
}

// decodeDsKey recovers the record key from a value datastore key
// "/<ns>/<base32(key)>".
func decodeDsKey(dskey string) (string, bool) {
	i := strings.LastIndex(dskey, "/")
	if i < 0 {
		return "", false
	}
	raw, err := base32.RawStdEncoding.DecodeString(dskey[i+1:])
	if err != nil {
		return "", false
	}
	return string(raw), true
}

// parseStored returns the record stored in bytes if it is well-formed, filed
// under dskey and accepted by the validator.
func (o *c05Oracle) parseStored(dskey string, data []byte) (rec *recpb.Record, rank int, ok bool) {
	return o.parseStoredAt(dskey, data, time.Now())
}

// parseStoredAt is parseStored with the validator's clock set to at.
func (o *c05Oracle) parseStoredAt(dskey string, data []byte, at time.Time) (rec *recpb.Record, rank int, ok bool) {
	rec = new(recpb.Record)
	if proto.Unmarshal(data, rec) != nil {
		return nil, 0, false
	}
	key, kok := decodeDsKey(dskey)
	if !kok || string(rec.GetKey()) != key {
		return nil, 0, false
	}
	if !o.validAt(key, rec.GetValue(), at) {
		return nil, 0, false
	}
	rank, _, _, _ = parseRankValue(rec.GetValue())
	return rec, rank, true
}

func (o *c05Oracle) age(rec *recpb.Record) (time.Duration, bool) {
	t, err := time.Parse(time.RFC3339Nano, rec.GetTimeReceived())
	if err != nil {
		return 0, false
	}
	return time.Since(t), true
}

// onApply is called for every applied datastore operation.
func (o *c05Oracle) onApply(r *simds.Rec) {
	s := o.s
	if o.receipt == nil {
		o.receipt, o.content, o.readSaw = map[int]c05Receipt{}, map[string]int{}, map[int]int{}
		o.hist = map[string][]c05Change{}
	}
	switch r.Op {
	case "get":
		if w, ok := o.content[r.Key]; ok && r.Found {
			o.readSaw[r.N] = w
		}
	case "put":
		if !o.owned(r.Key) {
			s.Violate("foreign-write", "value store wrote datastore key %s outside its namespaces", r.Key)
			return
		}
		// receipt window of the record this write stores
		rc := c05Receipt{lo: 0, hi: r.At}
		if o.recvLo != nil {
			if lo, ok := o.recvLo(r); ok {
				rc.lo = lo
			}
		}
		o.receipt[r.N], o.content[r.Key] = rc, r.N
		o.hist[r.Key] = append(o.hist[r.Key], c05Change{step: r.Step, tag: r.Tag, w: r})
		// The validator ran at some instant of the writing operation: demand
		// validity at the earliest one (a verdict can only turn from valid to
		// invalid as the clock advances).
		_, rank, ok := o.parseStoredAt(r.Key, r.Val, s.Start.Add(rc.lo))
		if !ok {
			s.Violate("stored-invalid", "value store stored bytes under %s that are not a valid record for that key", r.Key)
			return
		}
		if r.Found {
			if _, old, oldOK := o.parseStored(r.Key, r.Prev); oldOK && rank < old {
				s.Violate("downgrade", "record of rank %d under %s replaced by rank %d", old, r.Key, rank)
			}
		}
	case "delete":
		if !o.owned(r.Key) {
			s.Violate("foreign-delete", "value store deleted datastore key %s outside its namespaces", r.Key)
			return
		}
		w, wok := o.content[r.Key]
		delete(o.content, r.Key)
		o.hist[r.Key] = append(o.hist[r.Key], c05Change{step: r.Step, tag: r.Tag})
		if !r.Found {
			return
		}
		rec, _, ok := o.parseStored(r.Key, r.Prev)
		if !ok {
			return // corrupt or mis-filed: may go
		}
		if o.maxAge <= 0 {
			s.Violate("delete-fresh", "valid record under %s deleted although age expiry is disabled", r.Key)
			return
		}
		age, aok := o.age(rec)
		if aok && age < o.maxAge {
			s.Violate("delete-fresh", "valid record under %s deleted at age %v, max age %v", r.Key, age, o.maxAge)
		}
		// the same on the harness clock: even if the node received the record at
		// the very start of the operation that wrote it, it is not max-age old yet
		if wok {
			if _, hi, ok := o.receiptAge(w, r.At); ok && hi < o.maxAge {
				s.Violate("delete-fresh", "valid record under %s deleted at most %v after the node received it (harness clock), max age %v; its stored time_received is %q", r.Key, hi, o.maxAge, rec.GetTimeReceived())
			}
		}
		s.Count("probe_gc_delete")
	}
}

type c05Op struct {
	client  int
	n       int
	kind    string // put get
	key     string
	rank    int
	flavor  string // valid invalid miskeyed-value other-key-value
	other   string // other-key-value: the key the value belongs to
	stamp   int    // sender-supplied time_received (c05Stamp kind, 0 = none)
	expiry  time.Time
	tag     string
	started bool
	startAt time.Duration // harness clock when the operation was handed to the store
	done    bool
	err     error
	got     *recpb.Record
	at      time.Time
}

func runC05Store(s *sim.Sim, dsErrors bool) {
	s.MaxSteps = 700
	s.LockSched = true
	if s.Chance("yield-all", 1, 2) {
		s.YieldSites["*"] = true
	}
	namespaced := s.Chance("plain-validator", 1, 3) == false
	maxAge := []time.Duration{0, 10 * time.Minute, time.Hour}[s.Draw("max-age", 3)]
	gcEvery := []time.Duration{0, time.Minute, 7 * time.Minute}[s.Draw("gc-interval", 3)]
	nClients := s.Range("clients", 2, 5)
	nOps := s.Range("ops", 2, 30)
	// keys: some share a lock stripe (same last byte), some do not
	allKeys := []string{"/v/a1", "/v/b1", "/v/c2", "/v/d1"}
	keys := allKeys[:s.Range("keys", 1, 4)]

	// a third of the runs: validity also depends on the clock (values may carry
	// an expiry instant drawn around the time advances of the schedule)
	timeAware := s.Chance("time-aware", 1, 3)
	expiries := []time.Time{{}, s.Start.Add(2 * time.Minute), s.Start.Add(9 * time.Minute), s.Start.Add(45 * time.Minute)}
	rv := rankValidator{TimeAware: timeAware}
	var validator record.Validator = rv
	if namespaced {
		validator = record.NamespacedValidator{"v": rv}
	}
	d := simds.New(s, "ds")
	d.ParkOp = func(op, key string) bool { return true }
	or := &c05Oracle{s: s, val: rv, maxAge: maxAge, timeAware: timeAware, owned: func(k string) bool { return strings.HasPrefix(k, "/v/") }}
	d.OnApply = or.onApply
	// foreign data the store must leave alone
	d.Poke("/providers/xyz", []byte("prov"))
	d.Poke("/other/thing", []byte("foreign"))
	d.Poke("/v/"+base32.RawStdEncoding.EncodeToString([]byte("/v/zz9")), []byte("garbage that is not a record"))

	vs := records.NewValueStore(d, validator, maxAge)
	gcCtx, gcCancel := context.WithCancel(context.Background())
	defer gcCancel()
	vs.StartGC(gcCtx, gcEvery)

	s.Summary["cfg"] = fmt.Sprintf("namespaced=%v maxAge=%v gc=%v clients=%d ops=%d keys=%d yieldAll=%v dsErrors=%v timeAware=%v", namespaced, maxAge, gcEvery, nClients, nOps, len(keys), s.YieldSites["*"], dsErrors, timeAware)

	ops := make([]*c05Op, nOps)
	for i := range ops {
		o := &c05Op{client: i % nClients, n: i, key: keys[s.Draw("key", len(keys))], tag: fmt.Sprintf("o%03d", i)}
		if s.Chance("is-get", 1, 3) {
			o.kind = "get"
		} else {
			o.kind = "put"
			o.rank = s.Draw("rank", 6)
			switch s.Draw("flavor", 8) {
			case 0:
				o.flavor = "invalid"
			case 1:
				o.flavor = "miskeyed-value"
			case 2:
				// a value that is valid, but under another key of this run
				o.flavor = "valid"
				if len(keys) > 1 {
					o.flavor = "other-key-value"
					o.other = keys[(slices.Index(keys, o.key)+1+s.Draw("other-key", len(keys)-1))%len(keys)]
				}
			default:
				o.flavor = "valid"
			}
			o.stamp = s.Draw("stamp", c05StampKinds)
			if timeAware {
				o.expiry = expiries[s.Draw("expiry", len(expiries))]
			}
		}
		ops[i] = o
	}
	byTag := map[string]*c05Op{}
	for _, o := range ops {
		byTag["@"+o.tag] = o
	}
	or.recvLo = func(r *simds.Rec) (time.Duration, bool) {
		if o := byTag[r.Tag]; o != nil && o.started {
			return o.startAt, true
		}
		return 0, false
	}
	var clients opSet
	for c := 0; c < nClients; c++ {
		c := c
		clients.Go(s, fmt.Sprintf("client%d", c), func() (any, error) {
			for _, o := range ops {
				if o.client != c {
					continue
				}
				s.Park("client", fmt.Sprintf("c%d:%s", c, o.tag), nil, o)
				ctx := sim.WithTag(context.Background(), o.tag)
				o.startAt = s.Now()
				o.started = true
				switch o.kind {
				case "get":
					o.got, o.err = vs.Get(ctx, o.key)
				case "put":
					var val []byte
					switch o.flavor {
					case "invalid":
						val = []byte("not a rank value")
					case "miskeyed-value":
						val = rankValue(o.rank, o.expiry, o.key+"x")
					case "other-key-value":
						val = rankValue(o.rank, o.expiry, o.other)
					default:
						val = rankValue(o.rank, o.expiry, o.key)
					}
					o.err = vs.Put(ctx, o.key, &recpb.Record{Key: []byte(o.key), Value: val, TimeReceived: c05Stamp(o.stamp, maxAge)})
				}
				o.at = time.Now()
				o.done = true
			}
			return nil, nil
		})
	}
	s.Quiesce()

	checked := map[int]bool{}
	checkDone := func() {
		log := d.Log()
		for _, o := range ops {
			if !o.done || checked[o.n] {
				continue
			}
			checked[o.n] = true
			var mine []*simds.Rec
			for _, r := range log {
				if r.Tag == "@"+o.tag {
					mine = append(mine, r)
				}
			}
			switch o.kind {
			case "put":
				wrote := false
				for _, r := range mine {
					if r.Op == "put" && r.Err == nil {
						wrote = true
					}
				}
				if o.err == nil && !wrote {
					s.Violate("ack-without-write", "Put %s rank %d acknowledged but its datastore write did not happen", o.key, o.rank)
				}
				if o.err == nil && o.flavor != "valid" {
					s.Violate("accepted-invalid", "Put of a %s record for %s was accepted", o.flavor, o.key)
				}
				if o.flavor == "other-key-value" {
					s.Count("probe_put_other_key_value")
				}
				// a value whose validity had ended before the operation began is
				// rejected by the validator at every instant of the operation
				if o.flavor == "valid" && !o.expiry.IsZero() && !s.Start.Add(o.startAt).Before(o.expiry) {
					s.Count("probe_put_value_expired")
					if o.err == nil {
						s.Violate("accepted-invalid", "Put of a record for %s whose value expired %v before the operation began was accepted", o.key, s.Start.Add(o.startAt).Sub(o.expiry))
					}
				}
				if o.err == nil && o.stamp != 0 {
					s.Count("probe_put_sender_stamp_acked")
				}
				if errors.Is(o.err, records.ErrOldRecord) {
					s.Count("probe_put_refused")
					// refused: at its own read a record ranked at least as good was stored
					// (valid at least at the beginning of the operation)
					okRefusal := false
					for _, r := range mine {
						if r.Op == "get" && r.Found {
							if _, old, ok := or.parseStoredAt(r.Key, r.Val, s.Start.Add(o.startAt)); ok && old >= o.rank {
								okRefusal = true
							}
						}
					}
					if !okRefusal {
						s.Violate("refused-without-better", "Put %s rank %d refused as old although no record of rank >= %d was stored when it looked", o.key, o.rank, o.rank)
					}
				}
				if o.err != nil && wrote && !dsErrors {
					s.Violate("error-but-wrote", "Put %s returned %v but wrote to the datastore", o.key, o.err)
				}
			case "get":
				if o.err != nil {
					if !dsErrors {
						s.Violate("get-error", "Get %s failed without an injected fault: %v", o.key, o.err)
					}
					continue
				}
				// the first datastore read of this Get decides what it may return
				var first *simds.Rec
				for _, r := range mine {
					if r.Op == "get" {
						first = r
						break
					}
				}
				if first == nil || first.Err != nil && !first.Found {
					if o.got != nil {
						s.Violate("get-phantom", "Get %s returned a record although the datastore had none", o.key)
					}
					continue
				}
				rec, _, ok := or.parseStored(first.Key, first.Val)
				if !ok {
					if o.got != nil {
						// the stored bytes are not a valid record for this key
						if string(o.got.GetKey()) != o.key {
							s.Violate("get-miskeyed", "Get %s returned a record for key %q", o.key, o.got.GetKey())
						}
					}
					continue
				}
				// harness clock: the record's receipt window decides, whatever is stored
				switch or.byReceipt(first) {
				case "fresh":
					s.Count("probe_receipt_fresh_read")
					if o.got == nil {
						s.Violate("unreadable-before-age-out", "Get %s returned nothing although the stored record reached the store less than the max age %v before the read (harness clock); its stored time_received is %q", o.key, maxAge, rec.GetTimeReceived())
					}
				case "stale":
					s.Count("probe_receipt_stale_read")
					if o.got != nil {
						s.Violate("served-expired-by-receipt", "Get %s served a record that reached the store more than the max age %v before the read (harness clock); its stored time_received is %q", o.key, maxAge, rec.GetTimeReceived())
					}
				}
				age, aok := or.age(rec)
				// age as of the read instant
				ageAtRead := age - time.Since(s.Start.Add(first.At))
				switch {
				case maxAge > 0 && aok && ageAtRead > maxAge:
					s.Count("probe_get_expired")
					if o.got != nil {
						s.Violate("served-expired", "Get %s served a record of age %v, max age %v", o.key, ageAtRead, maxAge)
					}
				case maxAge <= 0 || (aok && ageAtRead < maxAge):
					if o.got == nil {
						s.Violate("get-missing", "Get %s returned nothing although a valid record of age %v (max %v) was stored when it read", o.key, ageAtRead, maxAge)
					} else if !proto.Equal(o.got, rec) {
						s.Violate("get-wrong", "Get %s returned a record different from the stored one", o.key)
					}
				}
			}
		}
	}

	allDone := func() bool {
		for _, o := range ops {
			if !o.done {
				return false
			}
		}
		return true
	}
	idle := 0
	var sawBoundary bool
	for s.Step() {
		checkDone()
		if s.Failed() || allDone() {
			break
		}
		var acts []sim.Action
		inPut := map[string]int{}
		for _, p := range s.Parked() {
			p := p
			switch p.Kind {
			case "client":
				acts = append(acts, sim.Action{ID: p.ID, Do: func() { s.Release(p, nil) }})
			case "ds":
				op := p.Data.(*simds.Op)
				if op.Op == "put" {
					inPut[op.Key]++
				}
				acts = append(acts, sim.Action{ID: p.ID, Do: func() {
					if dsErrors && s.Chance("ds-error", 1, 6) {
						s.Release(p, simds.ErrInjected)
					} else {
						s.Release(p, nil)
					}
				}})
			}
		}
		_ = inPut
		started := map[string]int{}
		for _, p := range s.ParkedKind("client") {
			_ = p
		}
		for _, o := range ops {
			if o.kind == "put" && o.started && !o.done {
				started[o.key]++
			}
		}
		for _, n := range started {
			if n > 1 {
				s.Count("probe_concurrent_puts_same_key")
				break
			}
		}
		acts = append(acts, s.LockActions()...)
		if len(acts) == 0 || s.Chance("advance", 1, 10) {
			// advance time: around the GC interval and the maximum age
			menu := []time.Duration{time.Second, time.Minute, 7 * time.Minute, 10*time.Minute - time.Second, 10*time.Minute + time.Second, time.Hour + time.Second}
			dt := menu[s.Draw("dt", len(menu))]
			s.Count("time_advance")
			if maxAge > 0 && dt >= maxAge && !sawBoundary {
				sawBoundary = true
				s.Count("probe_age_boundary_crossed")
			}
			s.Sleep(dt)
			if len(acts) == 0 {
				idle++
				if idle > 20 {
					break
				}
			}
			continue
		}
		idle = 0
		s.Choose("next", acts)
	}
	checkDone()
	if !s.Failed() && !allDone() && s.Steps <= s.MaxSteps {
		s.Violate("store-wedged", "value store operations did not finish although nothing is parked")
	}
	if s.Steps > s.MaxSteps {
		s.Count("step_budget_exhausted")
	}
	nPutOK := 0
	for _, o := range ops {
		if o.kind == "put" && o.done && o.err == nil {
			nPutOK++
		}
	}
	s.Tracef("done puts_ok=%d log=%d", nPutOK, d.LogLen())
	s.State("putsok=%d keys=%d", nPutOK, len(keys))
	s.NonTrivial = nPutOK >= 1 && (s.Stats["lock_contended"] > 0 || s.Stats["probe_gc_delete"] > 0 || s.Stats["probe_put_refused"] > 0)

	// shut down: stop the sweeper, release everything
	d.ParkOp = nil
	gcCancel()
	for _, p := range s.ParkedKind("client") {
		_ = p
	}
	s.LockSched = false
	closeAndCensus(s, func() { _ = vs.Close() })
	s.Finish()
}
